"""Registry of the checks: which monitor program, in which sanitizer flavor, how many cases
per tier, evidence floors, rule text and assumptions. Read by bin/vcheck."""

PROPS = {}
HOOK_COMMITS = ["584cdfe"]

PROPS["C13"] = dict(
    level="exploration", exhaustive=True,
    technique="exhaustive execution of every (class, requested type) pair under ASan/UBSan with dynamic_cast as oracle",
    level_text="Every (K,T) pair of the finite configuration space is executed against the real find_pdu/rfind_pdu/tins_cast/matches_flag code "
               "(object alone and inside a chain) and compared with dynamic_cast; the class list is re-derived from the current headers on every run, "
               "so a new or edited class is swept automatically. Exhaustive for default-constructed objects; type flags do not depend on field values.",
    level_note="Trusted: the header scanner finds every PDU class (classes it cannot construct make the run fail, not pass); RTTI; gcc UBSan vptr check as a second oracle.",
    phases=[dict(name="pairs", harness="c13.cpp", flavor="asan", cases=dict(quick=160, thorough=160), watchdog=120)],
    rule="every (K,T): K = each concrete PDU class found in the current headers (default-constructed; RawPDU/PPI from minimal "
         "arguments) and PDUCacher<K>, T = each class with a pdu_flag and PDUCacher<X> of each; on the object alone and inside EthernetII/K; a pair is one "
         "distinct case; all pairs are enumerated (finite space, exhaustive)",
    floors=dict(any=dict(pairs=10000, objects=100, own_class_checks=100, distinct=10000)),
    assumptions=["class list is produced by scanning the preprocessed headers of the current tree (build/gen_describe.py)",
                 "dynamic_cast is the ground truth for 'really is a T'",
                 "the real find_pdu/tins_cast are executed only when the flag predicate says the cast is valid (otherwise it would be UB); "
                 "the predicate evaluated is the same expression they use (matches_flag / pdu_type)"],
)
