"""Registry of the checks: which monitor program, in which sanitizer flavor, how many cases
per tier, evidence floors, rule text and assumptions. Read by bin/vcheck."""

import glob, os
PROPS = {}
HOOK_COMMITS = ["584cdfe"]

PROPS["C13"] = dict(
    level="exploration", exhaustive=True,
    technique="exhaustive execution of every (class, requested type) pair under ASan/UBSan with dynamic_cast as oracle",
    level_text="Every (K,T) pair of the finite configuration space is executed against the real find_pdu/rfind_pdu/tins_cast/matches_flag code "
               "(object alone and inside a chain) and compared with dynamic_cast; the class list is re-derived from the current headers on every run, "
               "so a new or edited class is swept automatically. Exhaustive for default-constructed objects. A second phase applies the same rule to every layer of objects in other "
               "states (each class parsed from its own serialization with every value of the first four octets, Dot11 type/subtype setters, API-built packets, parsed seeds/mutations), "
               "because nothing but convention keeps pdu_type()/matches_flag() independent of field values.",
    level_note="Trusted: the header scanner finds every PDU class (classes it cannot construct make the run fail, not pass); RTTI; gcc UBSan vptr check as a second oracle.",
    phases=[dict(name="pairs", harness="c13.cpp", flavor="asan", cases=dict(quick=160, thorough=160), watchdog=600),
            dict(name="objects", harness="c13.cpp", flavor="asan", mode="objects", cases=dict(quick=6000, thorough=300000), watchdog=600)],
    rule="every (K,T): K = each concrete PDU class found in the current headers (default-constructed; RawPDU/PPI from minimal "
         "arguments) and PDUCacher<K>, T = each class with a pdu_flag and PDUCacher<X> of each; on the object alone and inside EthernetII/K; a pair is one "
         "distinct case; all pairs are enumerated (finite space, exhaustive)",
    floors=dict(any=dict(pairs=10000, objects=100, own_class_checks=100, distinct=10000, first_octet_objects=80000, stacked_cacher_objects=40, sliced_copies=8, dot11_type_subtype_objects=1000, built_objects=1000, parsed_objects=5000, layers_checked=50000)),
    assumptions=["class list is produced by scanning the preprocessed headers of the current tree (build/gen_describe.py)",
                 "dynamic_cast is the ground truth for 'really is a T'",
                 "the real find_pdu/tins_cast are executed only when the flag predicate says the cast is valid (otherwise it would be UB); "
                 "the predicate evaluated is the same expression they use (matches_flag / pdu_type)"],
)

PROPS["C06"] = dict(
    level="exploration",
    technique="history + executable byte-map reference model checked after every packet, under ASan/UBSan; exhaustive small scope + random large histories",
    level_text="The real DataTracker / Flow::process_packet / legacy TCPStreamFollower are driven with generated segment histories (random partitions, retransmissions with "
               "other boundaries, overlaps, duplicates, stale and zero-length segments, wrap-around ISNs) and compared with a byte-map model after every packet; all arrival orders "
               "of every set of <=4 segments of a 6-byte stream are enumerated at 6 ISNs.",
    level_note="Trusted: the 40-line byte-map model; segments lie within 2^31 of the delivery point (streams <= 64 KiB) as the property assumes. An empty data notification is not a violation.",
    phases=[dict(name="exhaustive", harness="c06.cpp", flavor="asan", mode="exhaustive", cases=dict(quick=7546, thorough=7546)),
            dict(name="random", harness="c06.cpp", flavor="asan", mode="random", cases=dict(quick=100000, thorough=300000))],
    rule="case = (stream bytes, ISN, multiset of segments (off,len), arrival order); distinct = distinct (ISN, ordered segment list); non-trivial = every history has >=1 segment "
         "and is checked after each packet; exhaustive part: |s|=6, all sets of <=4 distinct segments x all orders x 6 ISNs",
    floors=dict(any={"distinct": 10000, "exhaustive_sets": 7546, "br:history-wraps-2^32": 500, "br:slice-on-entry": 100, "br:slice-buffered": 100,
                     "br:replace-longer": 100, "br:keep-longer-or-equal": 100, "br:erase-seen": 100, "histories:Flow": 1000, "histories:TCPStreamFollower": 1000, "skip:histories:DataTracker": 3000, "skip:histories:Flow": 1000, "skip:stream-wraps-2^32": 2000, "skip:chunk-in-hole-dropped": 1000, "skip:chunks-beyond-target-kept": 3000}),
    assumptions=["all segments carry bytes of one underlying stream and lie within half the sequence space of the current position",
                 "legacy follower exposes delivered data only through its data callback; its state is checked whenever the callback fires and whenever the model says the prefix grew"],
)

# per-property fragments (one file per property keeps concurrent edits apart)
for _f in sorted(glob.glob(os.path.join(os.path.dirname(os.path.abspath(__file__)), "checks_d", "c*.py"))):
    exec(compile(open(_f).read(), _f, "exec"))
