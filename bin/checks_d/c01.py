PROPS["C01"] = dict(
    level="exploration",
    technique="ASan/UBSan/LSan + exception typing + allocation balance + step budget + valgrind memcheck (uninitialised values) on a sample over all from-buffer entry points and all generated accessors",
    level_text="Every from-buffer entry point found in the current headers (plus the capture-level dispatch of BaseSniffer, Dot11::from_bytes, EAPOL::from_bytes, BootP, "
               "RawPDU::to<T>) is fed the unit tests' packets, API-generated packets, every truncation of them, structure-aware mutations, random strings and 64 KiB "
               "nesting/density bombs from exact-size heap blocks that are freed before the accessor sweep; every accepted packet has every public const getter of every layer "
               "(generated from the headers), clone(), size() and destruction executed under ASan+UBSan with exception typing and an allocation-balance leak check; a sample "
               "is re-run under a basic-block step budget for termination. A 'decoders' phase calls the decoders no constructor or getter reaches (static from_extension_header/from_bytes/from_option "
               "decoders, PDUOption::to<T>() for every T and byte order, ICMP extension objects, DNS SOA rdata, the RadioTap field cursor, every class's extract_metadata) on every body length 0..63 x boundary contents.",
    level_note="Red-zone sanitizers miss intra-object and far out-of-bounds accesses; UBSan 'enum' check excluded (C++11: unspecified, not UB); termination = step budget 2e6+4000n blocks.",
    phases=[dict(name="asan", harness="c01.cpp", flavor="asan", mode="main", cases=dict(quick=26000, thorough=120000), watchdog=600),
            dict(name="optfuzz", harness="c01.cpp", flavor="asan", mode="optfuzz", cases=dict(quick=10 * 256, thorough=10 * 256 * 4), watchdog=600),
            dict(name="decoders", harness="c01_decoders.cpp", flavor="asan", mode="decoders", cases=dict(quick=64 * 256, thorough=64 * 256 * 4), watchdog=600),
            dict(name="memcheck", harness="c01.cpp", flavor="vg", mode="main", cases=dict(quick=400, thorough=1600), watchdog=1200, crash_limit=10,
                 wrapper=["valgrind", "-q", "--error-exitcode=95", "--exit-on-first-error=yes", "--undef-value-errors=yes", "--track-origins=no", "--num-callers=20", "--max-stackframe=600000000"]),
            dict(name="steps", harness="c01.cpp", flavor="cov", mode="main", cases=dict(quick=2600, thorough=12000), watchdog=600, budget=0)],
    rule="case = (entry point, derivation of inputs: seed+all truncations | 48 mutations of an accepted seed | generated packet + mutations + truncations | 48 random strings | 64 KiB); "
         "distinct = distinct (entry point, accepted layer chain, hash of all getter values) for accepted inputs and (entry point, length) for rejected ones",
    floors=dict(any={"distinct": 20000, "ok:*": 20, "rej:*": 20, "inputs": 500000, "entry_points": 60, "optfuzz:*": 20000, "clone_outlives_original": 50000, "classes_with_extract_metadata": 13, "dec_ok:extract_metadata:*": 100, "dec_rej:extract_metadata:*": 100, "dec_ok:IPv6::*": 500, "dec_ok:RadioTapParser": 1000, "dec_ok:DHCPv6::duid_*": 1000}),
    floor_exempt=[],
    assumptions=["x86-64 little-endian", "inputs <= 65535 bytes", "accessor list = public no-argument const member functions found by build/gen_describe.py in the current headers"],
)
