PROPS["C02"] = dict(
    level="exploration",
    technique="invariant at a hook inside PDU::serialize (inner-region snapshot compare, underflow event) + size arithmetic + exception typing under ASan/UBSan",
    level_text="Every accepted parse of every PDU entry point, API-built packets with edit histories between serializations, and an enumeration of option codes x lengths "
               "for each option-bearing class are serialized with a monitor hooked between the inner layers' serialization and each layer's own write_serialization: the bytes "
               "already produced by upper layers must be unchanged afterwards, the buffer is never smaller than header+trailer, serialize() returns exactly size() bytes and throws nothing. "
               "Phase 'elements' does the same for variable-length header elements that are not options (MLDv2 records with ragged auxiliary data, MLD queries switching between v1 and v2 with a source list, "
               "RFC 4884 extension objects, RTP CSRC/extension/padding, AH ICV, IPv6 extension headers); phase 'limits' fills each container to its limit and attempts further additions "
               "(accepted or refused), after which sizes and regions must still agree; a libtins exception from serialize() is accepted only for a packet the wire format cannot express (own arithmetic).",
    level_note="Trusted: the 40-line hook receiver; header_size()/trailer_size() as the definition of a layer's own regions (as in the property). IP as root with source 0.0.0.0 is skipped "
               "(serialize consults the OS routing table). PPI/PKTAP roots must refuse with pdu_not_serializable.",
    phases=[dict(name="parsed", harness="c02.cpp", flavor="asan", mode="parsed", cases=dict(quick=14000, thorough=150000)),
            dict(name="built", harness="c02.cpp", flavor="asan", mode="built", cases=dict(quick=60000, thorough=600000)),
            dict(name="options", harness="c02.cpp", flavor="asan", mode="options", cases=dict(quick=256 * 15 * 7 * 2, thorough=256 * 15 * 7 * 2)),
            dict(name="limits", harness="c02.cpp", flavor="asan", mode="limits", cases=dict(quick=900, thorough=9000)),
            dict(name="elements", harness="c02.cpp", flavor="asan", mode="elements", cases=dict(quick=12000, thorough=120000))],
    rule="case = parsed input (entry point x seed/truncation/mutation/generated) | API program (+ up to 3 edit rounds, re-serialized after each) | (class, option code 0..255, data length, payload y/n); "
         "distinct = distinct (layer chain, size, first 64 serialized bytes)",
    floors=dict(any={"distinct": 20000, "hook_layer_serializations": 500000, "packets_checked": 100000, "serializations_after_edit": 10000,
                     "limit_shapes:*": 50, "element_shapes:ICMPv6.mld2": 1000, "element_shapes:ICMPv6.mld_query": 1000, "element_shapes:PDUCacher": 1000, "element_shapes:ICMP.extensions": 1000, "element_shapes:RTP": 1000, "element_shapes:IPv6.ext_headers": 1000, "option_shapes:TCP": 2000, "option_shapes:IP": 2000, "option_shapes:DHCP": 2000, "option_shapes:ICMPv6": 2000, "option_shapes:Dot11Beacon": 2000}),
    assumptions=["x86-64 little-endian", "packets whose layer sizes add up to more than 65535+64 bytes are skipped"],
    evidence_extra=lambda run: {"pdu_types_seen_by_hook": sorted(k[12:] for k in run.stats if k.startswith("hooked_type:"))},
)
