PROPS["C03"] = dict(
    level="exploration",
    technique="round-trip oracle parse->serialize->parse over all generated getters (view equality modulo derived fields) + byte-for-byte idempotence, under ASan/UBSan",
    level_text="Every accepted input of every PDU entry point (unit-test packets, truncations, structure-aware mutations, API-generated packets) is serialized, re-parsed through the "
               "same entry point and compared layer by layer through every public getter generated from the current headers; only the fields listed as derived (lengths, checksums, "
               "padding, next-protocol tags under the statement's conditions) may differ; a second serialization must reproduce the first one byte for byte when a payload is present.",
    level_note="Trusted: the derived-field table in harness/c03.cpp (about 45 names) and the three normalisations taken from the statement (empty payload = none, tag needs to survive only "
               "in front of an unrecognised payload, minimum-frame zero padding). Packets that do not serialize are C02's business and are skipped (counted).",
    phases=[dict(name="roundtrip", harness="c03.cpp", flavor="asan", mode="main", cases=dict(quick=26000, thorough=150000))],
    rule="case = (entry point, seed | truncation | mutation | generated packet); distinct = distinct (entry point, layer chain, first 96 serialized bytes) of completed round trips",
    floors=dict(any={"distinct": 20000, "roundtrips": 100000, "idempotent_serializations": 30000, "views_equal": 100000, "layer:*": 1}),
    assumptions=["x86-64 little-endian", "IP as root with source 0.0.0.0 skipped (routing table)", "PPI/PKTAP roots skipped (documented as not serializable)"],
)
