PROPS["C04"] = dict(
    level="exploration",
    technique="history + shadow model over the generated setter/getter table with generated arguments of the real option types; encoder/decoder inverse checked through the wire after every step, under ASan/UBSan",
    level_text="For every layer class, random programs of 1-12 setter calls (scalar fields and typed option setters; arguments generated for the setters' real parameter types, including every option struct "
               "of the current headers) are run against a shadow map field->value; after every call every shadowed getter must return the value set, the layer's serialization must re-parse with the "
               "class's own from-buffer constructor, every shadowed getter of the re-parsed object must return the same value, and a second serialization must equal the first. DNS records and RadioTap "
               "fields have dedicated checks (C10, C11); IPv6 extension-header length and RFC 4884 fields are also covered by C05.",
    level_note="Trusted: argument generators keep values inside what the argument type can hold; pairs whose argument space is wider than the wire field are listed as in-range preconditions in harness/c04.cpp. "
               "A typed option is set at most once per program (a second add would sit behind the first match).",
    phases=[dict(name="programs", harness="c04.cpp", flavor="asan", mode="main", cases=dict(quick=400000, thorough=6000000))],
    rule="case = (class, random program of setter calls); distinct = distinct program text; non-trivial: every program step is followed by getter, wire and re-serialization checks",
    floors=dict(any={"distinct": 200000, "wire_checks": 1000000, "getter_checks": 1000000, "steps:option-setter": 300000, "steps:scalar-setter": 300000, "field:*": 20}),
    assumptions=["x86-64 little-endian", "layers are serialized standalone (no parent): pseudo-header checksums are C05's business"],
)
