PROPS["C04"] = dict(
    level="exploration",
    technique="history + shadow model over the generated setter/getter table with generated arguments of the real option types; encoder/decoder inverse checked through the wire after every step, under ASan/UBSan",
    level_text="For every layer class, random programs of 1-12 setter calls (scalar fields and typed option setters; arguments generated for the setters' real parameter types, including every option struct "
               "of the current headers) are run against a shadow map field->value; after every call every shadowed getter must return the value set, the layer's serialization must re-parse with the "
               "class's own from-buffer constructor, every shadowed getter of the re-parsed object must return the same value, and a second serialization must equal the first. DNS records and RadioTap "
               "fields have dedicated checks (C10, C11); IPv6 extension-header length and RFC 4884 fields are also covered by C05. "
               "Phase 'lists' (harness/c04_lists.cpp) drives histories of RAW additions, removals and look-ups on every list-bearing class (TCP, IP, DHCP, DHCPv6, ICMPv6 options, Dot11 "
               "management-frame elements, PPPoE tags, IPv6 extension headers, RTP CSRC/extension words, ICMP/ICMPv6 RFC 4884 extension objects) against an ordered shadow list with only 1-3 "
               "distinct codes per history, so duplicates of one code are the normal case: after every step the list getter must equal the shadow (order, codes, bytes, length fields), remove() must "
               "report and remove exactly the first match, search() must return the first match (identity where the getter returns a reference), size() must equal the size the wire format implies "
               "(own encoder), the option region of the serialization must equal the own encoding, the class's own parser must return the same list, and the re-serialization must be identical; "
               "one step in eight continues the history on the parsed object.",
    level_note="Trusted: argument generators keep values inside what the argument type can hold; pairs whose argument space is wider than the wire field are listed as in-range preconditions in harness/c04.cpp. "
               "A typed option is set at most once per program (a second add would sit behind the first match); repeated codes are the business of phase 'lists'. "
               "Phase 'lists' only adds what the protocol can represent (restrictions listed at the top of harness/c04_lists.cpp and counted as lists-skip:*): no TCP EOL / IPv4 END elements, NOP/NOOP/PAD/END/"
               "End-Of-List without data and nothing after END/End-Of-List, 40-octet TCP/IPv4 option space, one-octet length limits, ND option data of 8k-2 octets, only chained IPv6 extension header ids "
               "(data of 8k-2 octets, else compared with the zero padding IPv6 itself appends), <=15 CSRC ids, RFC 4884 objects only behind a >=128-octet datagram.",
    phases=[dict(name="programs", harness="c04.cpp", flavor="asan", mode="main", cases=dict(quick=400000, thorough=6000000)),
            dict(name="lists", harness="c04_lists.cpp", flavor="asan", mode="lists", cases=dict(quick=40000, thorough=2000000))],
    rule="case = (class, random program of setter calls); distinct = distinct program text; non-trivial: every program step is followed by getter, wire and re-serialization checks; "
         "lists phase: case = (class, configuration, 1-3 codes, program of 1..14 add/remove/search steps with random data of 0..N octets), distinct = distinct program text",
    floors=dict(any={"distinct": 200000, "wire_checks": 1000000, "getter_checks": 1000000, "steps:option-setter": 200000, "steps:scalar-setter": 300000, "field:*": 20,
                     # phase "lists" (quick tier observes roughly 2-3x these)
                     "lists:programs": 30000, "lists:distinct-histories": 25000, "lists:programs-with-duplicate-codes": 12000, "lists:getter_checks": 150000, "lists:size_checks": 150000,
                     "lists:wire_checks": 150000, "lists:dup-code-present": 12000, "lists:search-identity-checks": 10000, "lists:add-remove-neutral-checks": 15000, "lists:continued-on-parsed-object": 10000,
                     "lists:TCP:add": 5000, "lists:IP:add": 5000, "lists:DHCP:add": 5000, "lists:DHCPv6:add": 5000, "lists:ICMPv6:add": 5000, "lists:RTP:add": 5000, "lists:IPv6:add": 4000, "lists:PPPoE:add": 3000,
                     "lists:Dot11Beacon:add": 3000, "lists:Dot11ProbeResponse:add": 3000, "lists:Dot11AssocRequest:add": 3000, "lists:ICMP.extensions:add": 3000, "lists:ICMPv6.extensions:add": 3000,
                     "lists:TCP:remove-hit": 1200, "lists:IP:remove-hit": 1200, "lists:DHCP:remove-hit": 1200, "lists:DHCPv6:remove-hit": 1200, "lists:ICMPv6:remove-hit": 1200, "lists:RTP:remove-hit": 700,
                     "lists:Dot11Beacon:remove-hit": 600, "lists:Dot11ProbeResponse:remove-hit": 600, "lists:Dot11AssocRequest:remove-hit": 600,
                     "lists:TCP:remove-with-duplicates": 600, "lists:IP:remove-with-duplicates": 600, "lists:DHCP:remove-with-duplicates": 600, "lists:DHCPv6:remove-with-duplicates": 600,
                     "lists:ICMPv6:remove-with-duplicates": 600, "lists:RTP:remove-with-duplicates": 200, "lists:Dot11Beacon:remove-with-duplicates": 300, "lists:Dot11ProbeResponse:remove-with-duplicates": 300,
                     "lists:Dot11AssocRequest:remove-with-duplicates": 300,
                     "lists:TCP:remove-miss": 1000, "lists:IP:remove-miss": 1000, "lists:DHCP:remove-miss": 1000, "lists:DHCPv6:remove-miss": 1000, "lists:ICMPv6:remove-miss": 1000, "lists:RTP:remove-miss": 1000,
                     "lists:TCP:search-hit": 1200, "lists:IP:search-hit": 1200, "lists:DHCP:search-hit": 1200, "lists:DHCPv6:search-hit": 1200, "lists:ICMPv6:search-hit": 1200, "lists:RTP:search-hit": 700,
                     "lists:PPPoE:search-hit": 1000, "lists:IPv6:search-hit": 1000, "lists:Dot11Beacon:search-hit": 600, "lists:Dot11ProbeResponse:search-hit": 600, "lists:Dot11AssocRequest:search-hit": 600,
                     "lists:TCP:search-miss": 1000, "lists:IP:search-miss": 1000, "lists:DHCP:search-miss": 1000, "lists:DHCPv6:search-miss": 1000, "lists:ICMPv6:search-miss": 1000, "lists:PPPoE:search-miss": 700,
                     "lists:IPv6:search-miss": 700, "lists:TCP:dup-code-present": 1200, "lists:IP:dup-code-present": 1200, "lists:DHCP:dup-code-present": 1200, "lists:DHCPv6:dup-code-present": 1200,
                     "lists:ICMPv6:dup-code-present": 1200, "lists:PPPoE:dup-code-present": 500, "lists:IPv6:dup-code-present": 700, "lists:RTP:dup-code-present": 400}),
    assumptions=["x86-64 little-endian", "layers are serialized standalone (no parent): pseudo-header checksums are C05's business"],
)
