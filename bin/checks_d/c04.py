PROPS["C04"] = dict(
    level="exploration",
    technique="history + shadow models (field map over the generated setter/getter table; ordered option lists; per-message RFC offset images; whole-stack view equality) checked through the getters and through the wire after every step, under ASan/UBSan",
    level_text="For every layer class, random programs of 1-12 setter calls (scalar fields and typed option setters; arguments generated for the setters' real parameter types, including every option struct "
               "of the current headers) are run against a shadow map field->value; after every call every shadowed getter must return the value set, the layer's serialization must re-parse with the "
               "class's own from-buffer constructor, every shadowed getter of the re-parsed object must return the same value, and a second serialization must equal the first. DNS records and RadioTap "
               "fields have dedicated checks (C10, C11); IPv6 extension-header length and RFC 4884 fields are also covered by C05. "
               "Phase 'lists' (harness/c04_lists.cpp) drives histories of RAW additions, removals and look-ups on every list-bearing class (TCP, IP, DHCP, DHCPv6, ICMPv6 options, Dot11 "
               "management-frame elements, PPPoE tags, IPv6 extension headers, RTP CSRC/extension words, ICMP/ICMPv6 RFC 4884 extension objects) against an ordered shadow list with only 1-3 "
               "distinct codes per history, so duplicates of one code are the normal case: after every step the list getter must equal the shadow (order, codes, bytes, length fields), remove() must "
               "report and remove exactly the first match, search() must return the first match (identity where the getter returns a reference), size() must equal the size the wire format implies "
               "(own encoder), the option region of the serialization must equal the own encoding, the class's own parser must return the same list, and the re-serialization must be identical; "
               "one step in eight continues the history on the parsed object. "
               "Phase 'messages' (harness/c04_messages.cpp) covers what the generated single-argument table cannot: fields that only exist for one message type / flag combination and setters with "
               "several arguments. Per message kind (ICMPv6 echo, router advertisement + typed options, neighbour solicitation/advertisement, redirect, MLDv1/v2 query, MLDv2 report; ICMP echo, information, "
               "timestamp, address mask, redirect, fragmentation-needed, parameter problem and every set_*() helper; TCP set_flag/get_flag/flags/has_flags; DHCPv6 relay and client/server headers with "
               "reconfigure_accept/rapid_commit; BootP vend; PPPoE discovery tags + end_of_list; DNS::soa_record (buffer, resource and whole-message paths); ICMPExtension and ICMPExtensionsStructure; RTP "
               "padding/extension header; LLC I/S/U formats with XID information; Dot11Beacon/ProbeResponse two-argument element setters, EDCA parameter set, Address 4 of management and data frames) "
               "the message is put into the state in which the fields exist, fields are set to boundary-heavy in-range values in random order (last value wins), after every set every getter of the "
               "kind must equal the shadow (snapshot: untouched fields keep their values), and the serialization (standalone or inside IPv6 / IP / Dot11::from_bytes / a DNS message) must (a) equal, region "
               "by region, an image computed in the monitor from the shadow with RFC / IEEE offset arithmetic, (b) carry a correct checksum where defined (own RFC 1071 sum), (c) re-parse to an object "
               "whose getters equal the shadow, (d) re-serialize byte-identically. "
               "Phase 'stacks' (harness/c03.cpp, mode built) applies the statement's second sentence to whole packets: an API-built stack from the structured generator (any layer of it as the root) is "
               "serialized and parsed back through the root class's entry point; layer classes, every getter of every layer and the payload must be equal (derived lengths/checksums and next-protocol tags "
               "as in C03); where the parser cannot know what the API meant (UDP payloads, label stacks, 802.11 bodies) the undissected tail is compared as bytes.",
    level_note="Trusted: argument generators keep values inside what the argument type can hold; pairs whose argument space is wider than the wire field are listed as in-range preconditions in harness/c04.cpp. "
               "A typed option is set at most once per program (a second add would sit behind the first match); repeated codes are the business of phase 'lists'. "
               "Phase 'lists' only adds what the protocol can represent (restrictions listed at the top of harness/c04_lists.cpp and counted as lists-skip:*): no TCP EOL / IPv4 END elements, NOP/NOOP/PAD/END/"
               "End-Of-List without data and nothing after END/End-Of-List, 40-octet TCP/IPv4 option space, one-octet length limits, ND option data of 8k-2 octets, only chained IPv6 extension header ids "
               "(data of 8k-2 octets, else compared with the zero padding IPv6 itself appends), <=15 CSRC ids, RFC 4884 objects only behind a >=128-octet datagram. "
               "Phase 'messages' only sets the fields of the message's own type (the other accessors overlay the same header word), typed options once per program, payloads below 128 octets for the "
               "RFC 4884 types, no payload behind ND messages / MLDv1 queries, no SSAP 0x42, Dot11Data payload only with the protected bit (restrictions listed at the top of harness/c04_messages.cpp, "
               "counted as msgs:restrict:*). Phase 'stacks' skips packets whose parse is a guess (opaque payload directly under MPLS or an 802.11 data frame; tags on a session-stage PPPoE packet), treats encoder "
               "switches (append_padding, use_length_field, use_mldv2), header_size, DHCP's vend area, an RTP profile without the X bit and a trailing IPv4 End-of-list entry as not on the wire, and the "
               "generator only puts RFC 4884 extensions where they exist (ICMP 3/11/12, ICMPv6 1/3; length field when the quoted datagram exceeds 128 octets). Its wire images are written from RFC 792/950/1191/4443/4861/4191/2710/3810/8415/951/2516/1035/4884/3550/9293, IEEE 802.2 and 802.11 field layouts.",
    phases=[dict(name="programs", harness="c04.cpp", flavor="asan", mode="main", cases=dict(quick=400000, thorough=2000000)),
            dict(name="lists", harness="c04_lists.cpp", flavor="asan", mode="lists", cases=dict(quick=40000, thorough=400000)),
            dict(name="messages", harness="c04_messages.cpp", flavor="asan", mode="messages", cases=dict(quick=30000, thorough=300000)),
            dict(name="stacks", harness="c03.cpp", flavor="asan", mode="built", cases=dict(quick=60000, thorough=400000))],
    rule="case = (class, random program of setter calls); distinct = distinct program text; non-trivial: every program step is followed by getter, wire and re-serialization checks; "
         "lists phase: case = (class, configuration, 1-3 codes, program of 1..14 add/remove/search steps with random data of 0..N octets), distinct = distinct program text; "
         "messages phase: case = (message kind, context, program of 1..10 field sets), distinct = distinct program text",
    floors=dict(any={"distinct": 200000, "wire_checks": 1000000, "getter_checks": 1000000, "steps:option-setter": 200000, "built:roundtrips": 30000, "views_equal": 30000, "steps:scalar-setter": 300000, "field:*": 20,
                     # phase "lists" (quick tier observes roughly 2-3x these)
                     "lists:programs": 30000, "lists:distinct-histories": 25000, "lists:programs-with-duplicate-codes": 12000, "lists:getter_checks": 150000, "lists:size_checks": 150000,
                     "lists:wire_checks": 150000, "lists:dup-code-present": 12000, "lists:search-identity-checks": 10000, "lists:add-remove-neutral-checks": 15000, "lists:continued-on-parsed-object": 10000,
                     "lists:TCP:add": 5000, "lists:IP:add": 5000, "lists:DHCP:add": 5000, "lists:DHCPv6:add": 5000, "lists:ICMPv6:add": 5000, "lists:RTP:add": 5000, "lists:IPv6:add": 4000, "lists:PPPoE:add": 3000,
                     "lists:Dot11Beacon:add": 3000, "lists:Dot11ProbeResponse:add": 3000, "lists:Dot11AssocRequest:add": 3000, "lists:ICMP.extensions:add": 3000, "lists:ICMPv6.extensions:add": 3000,
                     "lists:TCP:remove-hit": 1200, "lists:IP:remove-hit": 1200, "lists:DHCP:remove-hit": 1200, "lists:DHCPv6:remove-hit": 1200, "lists:ICMPv6:remove-hit": 1200, "lists:RTP:remove-hit": 700,
                     "lists:Dot11Beacon:remove-hit": 600, "lists:Dot11ProbeResponse:remove-hit": 600, "lists:Dot11AssocRequest:remove-hit": 600,
                     "lists:TCP:remove-with-duplicates": 600, "lists:IP:remove-with-duplicates": 600, "lists:DHCP:remove-with-duplicates": 600, "lists:DHCPv6:remove-with-duplicates": 600,
                     "lists:ICMPv6:remove-with-duplicates": 600, "lists:RTP:remove-with-duplicates": 200, "lists:Dot11Beacon:remove-with-duplicates": 300, "lists:Dot11ProbeResponse:remove-with-duplicates": 300,
                     "lists:Dot11AssocRequest:remove-with-duplicates": 300,
                     "lists:TCP:remove-miss": 1000, "lists:IP:remove-miss": 1000, "lists:DHCP:remove-miss": 1000, "lists:DHCPv6:remove-miss": 1000, "lists:ICMPv6:remove-miss": 1000, "lists:RTP:remove-miss": 1000,
                     "lists:TCP:search-hit": 1200, "lists:IP:search-hit": 1200, "lists:DHCP:search-hit": 1200, "lists:DHCPv6:search-hit": 1200, "lists:ICMPv6:search-hit": 1200, "lists:RTP:search-hit": 700,
                     "lists:PPPoE:search-hit": 1000, "lists:IPv6:search-hit": 1000, "lists:Dot11Beacon:search-hit": 600, "lists:Dot11ProbeResponse:search-hit": 600, "lists:Dot11AssocRequest:search-hit": 600,
                     "lists:TCP:search-miss": 1000, "lists:IP:search-miss": 1000, "lists:DHCP:search-miss": 1000, "lists:DHCPv6:search-miss": 1000, "lists:ICMPv6:search-miss": 1000, "lists:PPPoE:search-miss": 700,
                     "lists:IPv6:search-miss": 700, "lists:TCP:dup-code-present": 1200, "lists:IP:dup-code-present": 1200, "lists:DHCP:dup-code-present": 1200, "lists:DHCPv6:dup-code-present": 1200,
                     "lists:ICMPv6:dup-code-present": 1200, "lists:PPPoE:dup-code-present": 500, "lists:IPv6:dup-code-present": 700, "lists:RTP:dup-code-present": 400,
                     # phase "messages" (quick tier observes roughly 2-3x these)
                     "msgs:programs": 25000, "msgs:getter_checks": 60000, "msgs:untouched-field-checks": 500000, "msgs:wire_checks": 40000, "msgs:offset_checks": 250000, "msgs:checksum_checks": 12000,
                     "msgs:msg:*": 80, "msgs:field:*": 80,
                     "msgs:msg:ICMPv6.ECHO": 800, "msgs:msg:ICMPv6.ROUTER_ADVERT": 1500, "msgs:msg:ICMPv6.NEIGHBOUR_SOLICIT": 700, "msgs:msg:ICMPv6.NEIGHBOUR_ADVERT": 800, "msgs:msg:ICMPv6.REDIRECT": 1500,
                     "msgs:msg:ICMPv6.MGM_QUERY.v1": 800, "msgs:msg:ICMPv6.MGM_QUERY.v2": 1600, "msgs:msg:ICMPv6.MLD2_REPORT": 800,
                     "msgs:msg:ICMP.ECHO": 800, "msgs:msg:ICMP.INFO": 800, "msgs:msg:ICMP.TIMESTAMP": 1600, "msgs:msg:ICMP.ADDRESS_MASK": 800, "msgs:msg:ICMP.REDIRECT": 800, "msgs:msg:ICMP.DEST_UNREACHABLE": 800,
                     "msgs:msg:ICMP.PARAM_PROBLEM": 800, "msgs:msg:ICMP.helpers": 800,
                     "msgs:msg:ICMP.helpers.set_echo_request": 80, "msgs:msg:ICMP.helpers.set_echo_reply": 80, "msgs:msg:ICMP.helpers.set_info_request": 80, "msgs:msg:ICMP.helpers.set_info_reply": 80,
                     "msgs:msg:ICMP.helpers.set_dest_unreachable": 80, "msgs:msg:ICMP.helpers.set_time_exceeded": 80, "msgs:msg:ICMP.helpers.set_param_problem": 80, "msgs:msg:ICMP.helpers.set_source_quench": 80,
                     "msgs:msg:ICMP.helpers.set_redirect": 80,
                     "msgs:msg:TCP.flags": 1600, "msgs:field:TCP.set_flag": 2000, "msgs:field:TCP.flags": 700,
                     "msgs:msg:DHCPv6.RELAY": 1500, "msgs:msg:DHCPv6.CLIENT_SERVER": 700, "msgs:field:DHCPv6.reconfigure_accept": 400, "msgs:field:DHCPv6.hop_count": 350, "msgs:field:DHCPv6.link_address": 350,
                     "msgs:field:DHCPv6.peer_address": 350, "msgs:msg:BootP.vend": 600, "msgs:field:BootP.vend": 120, "msgs:msg:PPPoE.discovery": 1400, "msgs:field:PPPoE.end_of_list": 160,
                     "msgs:msg:DNS.soa_record.rdata": 1600, "msgs:in-context:DNS.soa_record": 1000, "msgs:msg:ICMPExtension.object": 800, "msgs:msg:ICMPExtensionsStructure.structure": 700,
                     "msgs:msg:RTP.plain": 800, "msgs:msg:RTP.extension": 1600, "msgs:field:RTP.padding_size": 400, "msgs:field:RTP.extension_profile": 240, "msgs:field:RTP.extension_data": 250,
                     "msgs:msg:LLC.INFORMATION": 800, "msgs:msg:LLC.SUPERVISORY": 800, "msgs:msg:LLC.UNNUMBERED": 1600, "msgs:field:LLC.add_xid_information": 300, "msgs:field:LLC.clear_information_fields": 300,
                     "msgs:field:LLC.group": 600, "msgs:field:LLC.response": 600, "msgs:field:LLC.modifier_function": 300,
                     "msgs:msg:Dot11Beacon.elements": 1500, "msgs:msg:Dot11ProbeResponse.elements": 1500, "msgs:msg:Dot11Data.addr4.four-address": 500, "msgs:msg:Dot11Data.addr4.three-address": 900,
                     "msgs:field:Dot11Beacon.power_capability": 150, "msgs:field:Dot11Beacon.fh_parameters": 150, "msgs:field:Dot11Beacon.tpc_report": 150, "msgs:field:Dot11Beacon.edca_parameter_set": 150,
                     "msgs:field:Dot11Beacon.addr4": 170, "msgs:field:Dot11ProbeResponse.power_capability": 150, "msgs:field:Dot11ProbeResponse.fh_parameters": 150, "msgs:field:Dot11ProbeResponse.tpc_report": 150,
                     "msgs:field:Dot11ProbeResponse.edca_parameter_set": 150, "msgs:field:Dot11ProbeResponse.addr4": 170, "msgs:field:Dot11Data.addr4": 250,
                     "msgs:field:ICMPv6.dest_addr": 450, "msgs:field:ICMPv6.target_addr": 1000, "msgs:field:ICMPv6.multicast_addr": 450, "msgs:field:ICMPv6.sources": 450, "msgs:field:ICMPv6.use_mldv2": 450,
                     "msgs:field:ICMPv6.supress": 450, "msgs:field:ICMPv6.qrv": 450, "msgs:field:ICMPv6.qqic": 450, "msgs:field:ICMPv6.multicast_address_records": 400, "msgs:field:ICMPv6.reachable_time": 180,
                     "msgs:field:ICMPv6.retransmit_timer": 180, "msgs:field:ICMPv6.router_pref": 180, "msgs:field:ICMP.original_timestamp": 380, "msgs:field:ICMP.receive_timestamp": 380,
                     "msgs:field:ICMP.transmit_timestamp": 380, "msgs:field:ICMP.address_mask": 280, "msgs:field:ICMP.gateway": 340, "msgs:field:ICMP.mtu": 320, "msgs:field:ICMP.pointer": 340,
                     "msgs:in-context:ICMPv6": 4000, "msgs:in-context:ICMP": 3000}),
    assumptions=["x86-64 little-endian", "layers are serialized standalone (no parent): pseudo-header checksums are C05's business"],
)
