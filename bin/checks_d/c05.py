PROPS["C05"] = dict(
    level="exploration",
    technique="shadow spec + independent RFC size/offset model, RFC 1071 / CRC-32 oracles and libpcap (pcap_compile/pcap_offline_filter) as a second dissector, checked after every step of build/mutate/clone/re-parse histories, under ASan/UBSan",
    level_text="Packets are built through the public API from a plain-data layer spec (Ethernet, 802.1Q/QinQ, 802.3+LLC/SNAP, SLL, loopback, PPPoE, MPLS, "
               "IPv4+options, IPv6+extension chains, tunnels, AH/ESP, TCP+options, UDP, ICMP/ICMPv6 incl. RFC 4884 extensions and ND options, ARP, EAPOL, RadioTap/802.11). "
               "An independent model (own arithmetic from the RFC layouts) places every layer; every derived field of serialize() is compared with the value the RFCs prescribe "
               "(lengths = bytes governed, header lengths, next-protocol tags, checksums recomputed with an own RFC 1071 sum / bitwise CRC-32, zero padding to 60 bytes); libpcap filters built from "
               "the values set must match and must not match for a perturbed value. Payload lengths 0..1600 are swept exhaustively for IPv4/IPv6 x TCP/UDP/ICMP(v6), Ethernet payloads 0..60 for 8 shapes, "
               "one's-complement sums are steered to 0xffff, and each packet is re-checked after mutations, clone() and a parse of its own bytes with the derived fields scrambled.",
    level_note="Trusted: the model/checker in harness/c05.cpp (header layouts from RFC 791/793/768/792/4443/4861/4884/8200/2516/3032/4302, IEEE 802.3/802.1Q/802.2, radiotap.org), libpcap 1.10's code generator, "
               "Linux AF_* values for DLT_NULL. Only protocol-legal option/extension sizes are generated (<= 40 option bytes, AH ICV multiple of 4, quoted datagram <= 548 bytes for ICMPv4 errors). "
               "Tags are demanded only where libtins has a tag for the payload class; checksums only where the statement lists them; 802.3 frames are not required to be padded.",
    phases=[dict(name="sweep", harness="c05.cpp", flavor="asan", mode="sweep", cases=dict(quick=1952 + 9606 * 2, thorough=1952 + 9606 * 8)),
            dict(name="random", harness="c05.cpp", flavor="asan", mode="random", cases=dict(quick=100000, thorough=1200000))],
    rule="sweep: case = (stack in {IPv4,IPv6}x{TCP,UDP,ICMP echo}, payload length 0..1600, variant: 0 plain over Ethernet, >0 random options/extension headers/VLAN/raw-IP link) plus Ethernet-padding shapes x payload 0..60; "
         "random: case = layer spec drawn from the stack grammar + 2..5 history steps (payload/address/option changes, L4 replacement, VLAN insertion, clone, zero-sum steering, re-parse); "
         "distinct = distinct (link type, layer kinds, option kinds and sizes, payload size); non-trivial = every case serializes at least once and every derived field of every layer is compared",
    floors=dict(any={"rfc4884-ext-without-datagram": 100, "distinct": 30000, "serializations_checked": 200000, "steps:mutated": 80000, "pcap_predicates": 800000, "bpf_programs_compiled": 100000,
                     "pcap_true_expected": 300000, "pcap_false_expected": 300000,
                     "chk:cksum/ip": 80000, "chk:cksum/tcp": 40000, "chk:cksum/udp": 40000, "chk:cksum/icmp": 15000, "chk:cksum/icmp6": 12000, "chk:cksum/radiotap": 5000,
                     "chk:length/ip": 80000, "chk:length/ip6": 50000, "chk:length/udp": 40000, "chk:length/dot3": 8000, "chk:length/pppoe": 10000, "chk:length/eapol": 5000,
                     "chk:length/icmp": 5000, "chk:length/icmp6": 4000,
                     "chk:hdrlen/ip": 80000, "chk:hdrlen/tcp": 80000, "chk:hdrlen/ip6": 30000, "chk:hdrlen/ah": 3000, "chk:hdrlen/radiotap": 8000, "chk:hdrlen/llc": 5000,
                     "chk:tag/eth": 80000, "chk:tag/vlan": 40000, "chk:tag/ip": 60000, "chk:tag/ip6": 60000, "chk:tag/snap": 10000, "chk:tag/sll": 5000, "chk:tag/loop": 8000,
                     "chk:tag/mpls": 8000, "chk:tag/llc": 3000, "chk:tag/ah": 2000,
                     "chk:pad/eth": 200000, "eth-padded-frames": 10000, "chk:pad/icmp": 1000, "chk:pad/icmp6": 400,
                     "sum-ffff/udp": 2000, "udp-zero-to-ffff": 2000, "sum-ffff/tcp": 2000, "sum-ffff/icmp": 1000, "sum-ffff/icmp6": 1000, "sum-near-wrap": 10000,
                     "reparse_identical": 15000, "reparse_fields_recomputed": 30000, "big_packets": 50,
                     "sweep:pad": 1952, "sweep:ip/tcp": 3202, "sweep:ip/udp": 3202, "sweep:ip/icmp": 3202, "sweep:ip6/tcp": 3202, "sweep:ip6/udp": 3202, "sweep:ip6/icmp6": 3202,
                     "pcap:vlan-id": 20000, "pcap:mpls-label": 3000, "pcap:ip-src": 20000, "pcap:ip6-dst": 20000, "pcap:tcp-dport": 8000, "pcap:udp-len": 8000, "pcap:icmp-type": 4000,
                     "pcap:ip6-protochain": 4000, "pcap:wlan-addr1": 6000, "pcap:pppoes": 1000, "pcap:stp": 2000}),
    assumptions=["field values a user sets explicitly (addresses, ports, ids, ICMP timestamps...) are only used to confirm that a layer lies where the model puts it; their round-trip fidelity is C03/C15",
                 "IP layers at the root always have a non-zero source address (no routing-table lookup)",
                 "when the re-parse builds other layer classes than the builder used, the step is counted (reparse_structure_changed) and not judged"],
)
