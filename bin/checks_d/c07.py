PROPS["C07"] = dict(
    level="exploration",
    technique="packet-driven reference connection table (family + unordered 4-tuple, per-direction interval model over a byte function, FIN/RST lifetime, "
              "buffer/SACK limits, lazy keep-alive) predicts the callback trace of the real StreamFollower; compared after every packet under ASan/UBSan",
    level_text="The real Tins::TCPIP::StreamFollower is fed generated histories of 1-40 interleaved IPv4/IPv6 connections (3-way handshake or mid-stream start, data both ways "
               "through the C06 segment generator with reordering/duplication/overlap/stale segments, FIN-FIN / RST / FIN-then-RST / half-close / left-open endings, strays after "
               "the close, tuple reuse after RST, wrap-around ISNs, adversarial neighbouring 4-tuples, generated timestamps with idle gaps around the keep-alive) as Packet objects "
               "(built as PDU objects or parsed from bytes of an own encoder). After EVERY packet the new-stream / client-data / server-data / stream-closed / termination callbacks, "
               "find_stream() for the touched and two other tuples, and the touched stream's public state (sequence numbers, buffered chunk/byte accounting, last_seen) are compared "
               "with the reference table. Limit scripts stop exactly at 512 chunks / 3 MiB / 1024 SACKed intervals (no termination allowed) and then cross by one (termination with the "
               "right reason required, once). A last packet two keep-alive periods later must flush everything; every announced connection must end exactly once.",
    level_note="Trusted: the ~150-line reference model (Side/Inc in c07.cpp) and its reading of the statement: a connection starts on SYN-without-ACK (or first payload-carrying segment "
               "when attaching), client = sender of that packet; it is forgotten when both sides have sent FIN or either sent RST, or when a limit is exceeded (strictly more than), "
               "or by a lazy keep-alive sweep. Timeout oracle is the lazy one of the statement: never for idle < keep-alive (idle == keep-alive tolerated either way), exactly once, "
               "and nothing stays tracked for >= 2 keep-alive periods after a packet was processed. Chunk/byte counts are predicted exactly only while all buffered segments of a "
               "connection are pairwise disjoint or identical (limit scripts); otherwise scripts stay below 512 segments so that no count can exceed a limit. SACK intervals are "
               "predicted only for blocks strictly above the cumulative ACK that do not wrap 2^32.",
    phases=[dict(name="main", harness="c07.cpp", flavor="asan", mode="random", cases=dict(quick=4000, thorough=150000))],
    rule="case = (follower configuration: attach on/off, ack tracking on/off, keep-alive; set of connection scripts with distinct 4-tuples derived adversarially from each other; "
         "per-script packet list; timestamps = interleaving); distinct = distinct ordered packet sequence (endpoints, flags, seq, len) + configuration; non-trivial = at least one packet, "
         "every packet is followed by the full trace/state comparison",
    floors=dict(any={
        "distinct": 3000, "packets": 500000, "chk:find_stream": 1500000, "chk:delivered-bytes": 20000000, "chk:announcement": 10000, "chk:buffer-accounting": 500000,
        "pkt:parsed-from-own-bytes": 100000, "pkt:built-as-objects": 300000,
        "model:announce-on-syn": 8000, "model:announce-on-data(partial)": 3000, "model:packet-of-untracked-connection": 100000, "chk:packets-of-partial-streams": 50000,
        "close:fin-fin": 2500, "close:rst-by-client": 800, "close:rst-by-server": 800, "close:fin-then-rst-same-side": 800, "close:fin-then-rst-other-side": 800,
        "close:first-fin-keeps-connection": 5000, "timeout:of-half-closed": 500,
        "limit:chunks-crossed": 40, "limit:bytes-crossed": 20, "limit:sack-crossed": 50,
        "limit:at-exactly-512-chunks-kept": 100, "limit:at-exactly-3MiB-kept": 40, "limit:at-exactly-1024-sacked-kept": 100,
        "timeout:reported-idle>keepalive": 5000, "timeout:idle>keepalive-not-yet-swept": 100000, "final-sweep:connections-flushed": 300,
        "final-sweep:by-new-connection": 500, "final-sweep:by-untracked-packet": 500,
        "histories:>=10-connections": 400, "histories:>=10-concurrently-tracked": 150, "histories:v4-and-v6-mixed": 600, "histories:attach-enabled": 400,
        "tuple:client-port+1": 800, "tuple:server-port+-1": 800, "tuple:ports-swapped-between-hosts": 800, "tuple:roles-swapped-same-ports": 800,
        "tuple:same-address-both-sides": 800, "tuple:neighbour-address": 800, "tuple:reversed-one-port-bit": 800,
        "tuple:v4-mapped": 50, "tuple:v4-compatible": 50, "tuple:v4-embedded-leading": 50, "gen:tuple-reused-after-rst": 1000, "gen:stray-after-close": 3000,
        "br:out-of-order": 100000, "br:slice-on-entry": 5000, "br:ignored-old": 100000}),
    assumptions=["scripts are well formed: no SYN|FIN, no FIN|RST, no data on SYN/RST; handshake packets are neither reordered nor duplicated (data, FINs and strays are)",
                 "a 4-tuple is reused only after a script whose last packet in time is a RST",
                 "all segments of a connection lie within 2^31 of its delivery point (streams <= 16 KiB; 3 MiB in the byte-limit scripts)",
                 "payload bytes are a function of (direction 4-tuple, absolute sequence number), so every retransmission carries consistent content and a byte delivered to another "
                 "connection or direction is recognised by content",
                 "timestamps are non-decreasing; keep-alive in {1 ms, 250 ms, 1 s, 30 s, 5 min (set or default), 1 h}",
                 "cases containing an IPv4 tuple and an IPv6 tuple with identical leading 4 address bytes followed by zeros get the key discriminator /v4v6-alias (fixes/C07-1.md)"],
)
