PROPS["C07"] = dict(
    level="exploration",
    technique="packet-driven reference connection table predicting the callback trace, compared after every packet under ASan/UBSan",
    level_text="tbd",
    level_note="tbd",
    phases=[dict(name="main", harness="c07.cpp", flavor="asan", mode="random", cases=dict(quick=4000, thorough=150000))],
    rule="tbd",
    floors=dict(any={"distinct": 100}),
    assumptions=[],
)
