PROPS["C07"] = dict(
    level="exploration",
    technique="packet-driven reference connection table (family + unordered 4-tuple, per-direction interval model over a byte function, FIN/RST lifetime, "
              "buffer/SACK limits, lazy keep-alive, plus the generated per-stream application behaviour: ignore_*_data, auto_cleanup_*, out-of-order callbacks, "
              "ack tracking, recovery mode / advance_sequence) predicts the callback trace of the real StreamFollower; compared after every packet under ASan/UBSan",
    level_text="The real Tins::TCPIP::StreamFollower is fed generated histories of 1-40 interleaved IPv4/IPv6 connections (3-way handshake or mid-stream start, data both ways "
               "through the C06 segment generator with reordering/duplication/overlap/stale segments, FIN-FIN / RST / FIN-then-RST / half-close / left-open endings, strays after "
               "the close, tuple reuse after RST, wrap-around ISNs, adversarial neighbouring 4-tuples, generated timestamps with idle gaps around the keep-alive) as Packet objects "
               "(built as PDU objects or parsed from bytes of an own encoder). After EVERY packet the new-stream / client-data / server-data / stream-closed / termination callbacks, "
               "find_stream() for the touched and two other tuples, and the touched stream's public state (sequence numbers, buffered chunk/byte accounting, last_seen) are compared "
               "with the reference table. Limit scripts stop exactly at 512 chunks / 3 MiB / 1024 SACKed intervals (no termination allowed) and then cross by one (termination with the "
               "right reason required, once). A last packet two keep-alive periods later must flush everything; every announced connection must end exactly once. "
               "Every announced connection gets a generated application that lives in its callbacks (a pure function of case salt, 4-tuple, incarnation): it ignores client/server/both "
               "directions from the new-stream callback or later from a data callback after k bytes (examples/http_requests.cpp), switches automatic cleanup off for one or both "
               "directions (and sometimes clears payload() itself), registers out-of-order callbacks (that may unregister themselves or call Flow::advance_sequence), enables ack "
               "tracking, enables recovery mode with a window on streams it attached to mid-way, and lets data callbacks replace themselves while running. The reference table is "
               "told the same behaviour: announcement / forgetting / closed / termination are demanded unchanged whatever the application does; an ignored direction must deliver "
               "nothing, report nothing out of order and buffer nothing more (its FIN/RST, MSS/SACK-permitted and ack number are still followed); client_payload()/server_payload() "
               "must be empty after every packet with cleanup on and equal the whole delivered (not yet application-cleared) prefix with cleanup off; every non-empty segment "
               "beyond the delivery point must reach the out-of-order callback exactly once with its sequence number and bytes and no segment reaching the delivery point may; "
               "ack_tracker().ack_number() must equal the highest acknowledgement the direction's sender sent; mss()/sack_permitted() must be those of the direction's SYN; "
               "recovery mode must continue delivery at an out of order packet inside (X, X+Y] and stop doing so after one outside; StreamIdentifier::make_identifier(Stream) "
               "must equal the identifier of the 4-tuple in either role order and differ from a neighbour's.",
    level_note="Trusted: the ~150-line reference model (Side/Inc in c07.cpp) and its reading of the statement: a connection starts on SYN-without-ACK (or first payload-carrying segment "
               "when attaching), client = sender of that packet; it is forgotten when both sides have sent FIN or either sent RST, or when a limit is exceeded (strictly more than), "
               "or by a lazy keep-alive sweep. Timeout oracle is the lazy one of the statement: never for idle < keep-alive (idle == keep-alive tolerated either way), exactly once, "
               "and nothing stays tracked for >= 2 keep-alive periods after a packet was processed. Chunk/byte counts are predicted exactly only while all buffered segments of a "
               "connection are pairwise disjoint or identical (limit scripts); otherwise scripts stay below 512 segments so that no count can exceed a limit. SACK intervals are "
               "predicted only for blocks strictly above the cumulative ACK that do not wrap 2^32. Application controls: only what stream.h/flow.h document is asserted. Observed and counted, "
               "not asserted (documentation silent): whether segments ending before the delivery point and empty segments reach the out-of-order callback (the engine reports both), "
               "sequence_number() of an ignored flow, when is_recovery_mode_enabled() turns false (only 'not before an out of order packet outside the window was seen in both "
               "directions' is asserted), what advance_sequence does to a buffered segment straddling the target (cannot occur with the generated applications). Recovery windows are "
               "read modulo 2^32 like every other TCP sequence comparison; connections where the engine's plain unsigned reading differs get the key discriminator "
               "/recovery-seq-wrap on their data-dependent checks (fixes/C07-2.md), are reported once and then only lifetime-checked.",
    phases=[dict(name="main", harness="c07.cpp", flavor="asan", mode="random", cases=dict(quick=4000, thorough=40000))],
    rule="case = (follower configuration: attach on/off, ack tracking on/off, keep-alive; set of connection scripts with distinct 4-tuples derived adversarially from each other; "
         "per-script packet list; timestamps = interleaving); distinct = distinct ordered packet sequence (endpoints, flags, seq, len) + configuration; non-trivial = at least one packet, "
         "every packet is followed by the full trace/state comparison",
    floors=dict(any={
        "distinct": 3000, "packets": 500000, "chk:find_stream": 1500000, "chk:delivered-bytes": 20000000, "chk:announcement": 10000, "chk:buffer-accounting": 500000,
        "pkt:parsed-from-own-bytes": 100000, "pkt:built-as-objects": 300000,
        "model:announce-on-syn": 8000, "model:announce-on-data(partial)": 3000, "model:packet-of-untracked-connection": 100000, "chk:packets-of-partial-streams": 50000,
        "close:fin-fin": 2500, "close:rst-by-client": 800, "close:rst-by-server": 800, "close:fin-then-rst-same-side": 800, "close:fin-then-rst-other-side": 800,
        "close:first-fin-keeps-connection": 5000, "timeout:of-half-closed": 500,
        "limit:chunks-crossed": 40, "limit:bytes-crossed": 10, "pkt:ecn-setup-syn": 500, "limit:sack-crossed": 50,
        "limit:at-exactly-512-chunks-kept": 100, "limit:at-exactly-3MiB-kept": 40, "limit:at-exactly-1024-sacked-kept": 100,
        "timeout:reported-idle>keepalive": 5000, "timeout:idle>keepalive-not-yet-swept": 100000, "final-sweep:connections-flushed": 300,
        "final-sweep:by-new-connection": 500, "final-sweep:by-untracked-packet": 500,
        "histories:>=10-connections": 400, "histories:>=10-concurrently-tracked": 150, "histories:v4-and-v6-mixed": 600, "histories:attach-enabled": 400,
        "tuple:client-port+1": 800, "tuple:server-port+-1": 800, "tuple:ports-swapped-between-hosts": 800, "tuple:roles-swapped-same-ports": 800,
        "tuple:same-address-both-sides": 800, "tuple:neighbour-address": 800, "tuple:reversed-one-port-bit": 800,
        "tuple:v4-mapped": 50, "tuple:v4-compatible": 50, "tuple:v4-embedded-leading": 50, "gen:tuple-reused-after-rst": 1000, "gen:stray-after-close": 3000,
        "br:out-of-order": 100000, "br:slice-on-entry": 5000, "br:ignored-old": 100000,
        # application behaviours (per-stream user controls) and what was checked under them
        "app:only-listens": 5000, "app:ignore-client": 1000, "app:ignore-server": 1000, "app:ignore-both": 500, "app:ignore-switched-on-from-data-callback": 800,
        "app:no-auto-cleanup": 4000, "app:no-auto-cleanup-one-direction": 2000, "app:payload-cleared-by-application": 600,
        "app:ooo-callback": 5000, "app:ooo-callback-advances-sequence": 700, "app:ooo-callback-unregistered-itself": 300, "app:data-callback-replaced-itself": 1500,
        "app:ack-tracking": 8000, "app:recovery-mode": 1200, "app:recovery-mode-window-0": 100,
        "closed-after-ignore": 1500, "closed-after-ignore:both-directions": 400, "closed-after-ignore:switched-on-later": 400,
        "ignore:fin-of-ignored-direction": 1200, "ignore:rst-of-ignored-direction": 400, "ignore:client-segment-dropped": 40000, "ignore:server-segment-dropped": 40000,
        "ignore:began-with-buffered-chunks": 200, "announce:tuple-reused-after-ignoring-application": 400,
        "chk:ignored-direction-not-buffered": 150000, "chk:ooo-segment-reported": 40000, "chk:in-order-segment-not-reported-as-ooo": 15000,
        "chk:kept-payload-is-delivered-prefix": 250000, "chk:kept-payload-bytes": 20000000, "chk:payload-erased-after-callback": 500000,
        "chk:ack-number": 800000, "chk:ack-number-of-ignored-direction": 100000, "chk:mss-of-syn": 500000, "chk:sack-permitted-of-syn": 500000, "chk:stream-identifier": 700000,
        "rec:skipped-to-segment-in-window": 1000, "rec:segment-beyond-window-buffered": 500, "rec:window-left": 800, "rec:window-test-straddles-seq-wrap(connections)": 150,
        "skip:application-advanced-sequence": 600, "gen:mid-stream-with-lost-beginning": 500}),
    assumptions=["scripts are well formed: no SYN|FIN, no FIN|RST, no data on SYN/RST; handshake packets are neither reordered nor duplicated (data, FINs and strays are)",
                 "a 4-tuple is reused only after a script whose last packet in time is a RST",
                 "all segments of a connection lie within 2^31 of its delivery point (streams <= 16 KiB; 3 MiB in the byte-limit scripts)",
                 "payload bytes are a function of (direction 4-tuple, absolute sequence number), so every retransmission carries consistent content and a byte delivered to another "
                 "connection or direction is recognised by content",
                 "timestamps are non-decreasing; keep-alive in {1 ms, 250 ms, 1 s, 30 s, 5 min (set or default), 1 h}",
                 "the application of a connection is fixed when it is announced; ignoring, once on, stays on (the API has no way back); recovery mode is enabled only in the "
                 "new-stream callback of a stream attached to mid-way (window <= 2^29), after the out-of-order callbacks were registered; an out-of-order callback that calls "
                 "advance_sequence does so for every non-empty segment beyond the delivery point from the first one on (so the direction's buffer is empty at every skip)",
                 "connections in recovery mode whose window test straddles the 2^32 wrap get the key discriminator /recovery-seq-wrap on data-dependent checks (fixes/C07-2.md)",
                 "cases containing an IPv4 tuple and an IPv6 tuple with identical leading 4 address bytes followed by zeros get the key discriminator /v4v6-alias (fixes/C07-1.md)"],
)
