_c08_floors = {"distinct": 50000, "exhaustive_cases": 1044, "exhaustive_cases_completed": 1044, "exhaustive_sequences": 500000, "checks:status": 1000000, "checks:reassembled-content": 100000, "checks:untouched": 10000,
                     "ev:duplicate": 10000, "ev:duplicate-after-completion": 10000, "ev:new-fragment-after-completion/completes": 10000, "ev:new-fragment-after-completion": 10000,
                     "ev:last-fragment-arrives-first": 10000, "ev:completed-by-first-fragment": 5000, "ev:completed-by-middle-fragment": 5000, "ev:completed-by-last-fragment": 5000,
                     "ev:completion-while-others-pending": 5000, "ev:fragment-while-others-pending": 50000, "ev:unfragmented-with-key-of-pending-datagram": 500, "ev:non-ip": 1000,
                     "rel:same-id-pairs-share-one-address-same-role": 500, "rel:same-id-pairs-share-one-address-opposite-role": 500, "rel:same-id-disjoint-pairs": 100, "rel:same-pair-different-id": 500, "rel:same-id-reversed-pair": 500,
                     "shape:all-8-byte-fragments": 500, "shape:huge-plus-tiny": 500, "shape:9-64-fragments": 1000, "shape:more-than-64-fragments": 10, "shape:options-first-fragment-differs": 500,
                     "shape:ttl-differs-between-fragments": 5000, "shape:total-length-near-65535": 50, "shape:key-reused-after-completion": 1000, "shape:unfragmented-with-DF": 1000, "shape:unfragmented-with-reserved-flag-bit": 5000,
                     "proto:UDP": 1000, "proto:TCP": 1000, "proto:ICMP": 1000, "proto:other": 1000, "link:raw": 1000, "link:eth": 1000, "link:vlan": 1000, "link:sll": 1000, "link:qinq": 1000, "link:loopback": 1000, "link:api": 1000,
                     "shape:fragment-frame-padded-to-60": 100000, "shape:last-fragment-frame-padded-to-60": 100000, "shape:fragment-frame-with-trailing-bytes": 100000,
                     "exhaustive_op_cases_completed": 28, "exhaustive_op_sequences": 323400, "histories:with-management-operations": 50000, "histories:through-proxy": 5000,
                     "op:remove_stream": 100000, "op:remove_stream:self": 30000, "op:remove_stream:self/others-pending": 15000, "op:remove_stream:mirrored": 15000, "op:remove_stream:other": 50000, "op:remove_stream:nothing-pending": 20000,
                     "op:clear_streams": 40000, "op:clear_streams/something-pending": 15000, "op:clear_streams/several-pending": 5000, "ctor:technique": 50000, "ctor:default": 30000,
                     "checks:status-after-management-operation": 1000000, "completed-after-self-remove": 20000, "completed-after-clear_streams": 15000, "completed-after-mirrored-remove": 10000,
                     "completed-after-unrelated-remove": 40000, "ev:completion-prevented-by-operation": 40000, "ev:fragment-restarts-datagram-after-remove_stream": 25000,
                     "ev:fragment-restarts-datagram-after-clear_streams": 20000, "ev:fragment-of-datagram-that-survived-a-remove": 200000, "shape:retransmission-after-operation": 10000,
                     "proxy:forwarded": 20000, "proxy:held-back": 100000}
PROPS["C08"] = dict(
    level="exploration",
    technique="history + executable reference reassembler (coverage bitmap per (id,src,dst), forgets on completion, on remove_stream of that triple and on clear_streams) checked after every packet, under ASan/UBSan; "
              "exhaustive small scopes + random large histories; packets built by an independent IPv4/UDP/TCP/ICMP encoder",
    level_text="The real IPv4Reassembler::process is fed frames that libtins itself parsed (raw IP, EthernetII padded to 60, 802.1Q, 802.1ad+802.1Q, SLL, Loopback roots, optionally with trailing bytes "
               "after the IP datagram) or fragments built as IP objects through the API, from datagrams produced by the monitor's own encoder "
               "(own checksum arithmetic): 2..64 fragments (occasionally up to 1500 / 8189 8-byte fragments), payload up to 65515, IP options (first fragment carries more than the others), "
               "per-fragment TTL, k<=8 concurrent datagrams sharing ids and addresses selectively, duplicates before and after completion, complete retransmissions, key re-use after completion, "
               "unfragmented (also DF) and non-IP packets in between. The status of EVERY step is compared with a reference reassembler; every REASSEMBLED packet is compared field by field and "
               "byte by byte (payload, whole serialization, sizes) with the original datagram; every NOT_FRAGMENTED packet must serialize to the same bytes as before (and as on the wire). "
               "Exhaustive: payloads of 2..5 (thorough: 2..6) eight-byte units (16..48 bytes, also with a short tail) x every partition x every arrival order x (no | one | two duplicates) x 4 protocols x 4 link layers, "
               "and every interleaving (with one duplicate) of two 2..3-fragment datagrams in 7 id/address relations. "
               "Every public entry point is driven: both constructors (default / OverlappingTechnique, must behave identically), process(), remove_stream(id, src, dst), clear_streams(), and "
               "IPv4ReassemblerProxy::operator() via make_ipv4_reassembler_proxy (held back <=> FRAGMENTED, return value as documented). 2/5 of the random histories contain management operations between "
               "the packets: remove_stream of a pending datagram (its later fragments start from nothing: it completes only from a whole new set, which is often retransmitted), of the mirrored "
               "(id, dst, src) triple, of another id / another address / an unrelated triple, and clear_streams(); the reference forgets exactly the documented triple / everything and keeps predicting "
               "the status of every later packet, so an operation that forgets too much (a survivor's completing fragment comes back FRAGMENTED) or too little (a datagram is produced from an "
               "incomplete new set) is a status mismatch. Exhaustive operations slice: two 2..3-fragment datagrams in the 7 relations x every interleaving x 7 operations x every position, followed by a "
               "complete retransmission when something was forgotten or left pending; every second sequence re-uses one reassembler after clear_streams().",
    level_note="Trusted: the ~25-line reference reassembler and the encoder in harness/c08.cpp. Upper layers are well-formed (libtins re-serializes them identically); fragments never carry DF; "
               "no overlapping fragments; two datagrams never use the same (id, src, dst) at the same time. Key = (id, ordered (src,dst)) as in RFC 791 (without the protocol, as the statement says). "
               "remove_stream / clear_streams have no directly observable result: their effect is asserted only through the statuses and contents of later packets (ip_reassembler.h: addr1 = source, addr2 = destination of the "
               "IP headers whose data is removed). The technique_ member is never read by libtins, so a constructor that leaves it uninitialised cannot be observed. API-built fragments carry no IP options.",
    phases=[dict(name="exhaustive", harness="c08.cpp", flavor="asan", mode="exhaustive", cases=dict(quick=1044, thorough=2068), args=dict(reversed=1)),
            dict(name="random", harness="c08.cpp", flavor="asan", mode="random", cases=dict(quick=300000, thorough=4000000), args=dict(reversed=1))],
    rule="case = (set of datagrams (id, src, dst, protocol, link layer, options, payload, partition at multiples of 8), arrival order with duplicates, interleaving, unfragmented/non-IP packets); "
         "distinct = distinct (datagram shapes, ordered event list); non-trivial = every history contains >=1 fragmented datagram and is checked after each packet; "
         "exhaustive part: 16..40-byte payloads, all partitions x all orders x <=2 duplicates, all interleavings of two small datagrams, and those interleavings x one management operation at every position; "
         "random histories additionally vary constructor, entry point (process / proxy) and the management operations and their positions",
    floors=dict(quick=_c08_floors, thorough=dict(_c08_floors, exhaustive_cases=2068, exhaustive_cases_completed=2068, exhaustive_sequences=4000000, distinct=1000000)),
    assumptions=["fragments of one datagram do not overlap and never carry DF; duplicates are exact copies",
                 "the reference forgets a datagram when it completes: later duplicates start a new accumulation, and a second complete set is reassembled again",
                 "a (id, src, dst) triple is used by one datagram at a time (it may be re-used after completion once nothing stale is pending; histories with operations call remove_stream of the triple before re-using it)",
                 "remove_stream(id, a, b) concerns only the datagram with identification id going a->b; clear_streams() concerns every pending datagram; neither affects what is reported for unfragmented packets",
                 "datagrams A->B and B->A with the same identification are different datagrams (ordered address pair, RFC 791); histories containing that shape are tagged reversed-pair"],
)
