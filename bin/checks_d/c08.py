_c08_floors = {"distinct": 50000, "exhaustive_cases": 1044, "exhaustive_cases_completed": 1044, "exhaustive_sequences": 500000, "checks:status": 1000000, "checks:reassembled-content": 100000, "checks:untouched": 10000,
                     "ev:duplicate": 10000, "ev:duplicate-after-completion": 10000, "ev:new-fragment-after-completion/completes": 10000, "ev:new-fragment-after-completion": 10000,
                     "ev:last-fragment-arrives-first": 10000, "ev:completed-by-first-fragment": 5000, "ev:completed-by-middle-fragment": 5000, "ev:completed-by-last-fragment": 5000,
                     "ev:completion-while-others-pending": 5000, "ev:fragment-while-others-pending": 50000, "ev:unfragmented-with-key-of-pending-datagram": 500, "ev:non-ip": 1000,
                     "rel:same-id-pairs-share-one-address-same-role": 500, "rel:same-id-pairs-share-one-address-opposite-role": 500, "rel:same-id-disjoint-pairs": 100, "rel:same-pair-different-id": 500, "rel:same-id-reversed-pair": 500,
                     "shape:all-8-byte-fragments": 500, "shape:huge-plus-tiny": 500, "shape:9-64-fragments": 1000, "shape:more-than-64-fragments": 10, "shape:options-first-fragment-differs": 500,
                     "shape:ttl-differs-between-fragments": 5000, "shape:total-length-near-65535": 50, "shape:key-reused-after-completion": 1000, "shape:unfragmented-with-DF": 1000,
                     "proto:UDP": 1000, "proto:TCP": 1000, "proto:ICMP": 1000, "proto:other": 1000, "link:raw": 1000, "link:eth": 1000, "link:vlan": 1000, "link:sll": 1000}
PROPS["C08"] = dict(
    level="exploration",
    technique="history + executable reference reassembler (coverage bitmap per (id,src,dst), forgets on completion) checked after every packet, under ASan/UBSan; "
              "exhaustive small scopes + random large histories; packets built by an independent IPv4/UDP/TCP/ICMP encoder",
    level_text="The real IPv4Reassembler::process is fed frames that libtins itself parsed (raw IP, EthernetII, Dot1Q, SLL) from datagrams produced by the monitor's own encoder "
               "(own checksum arithmetic): 2..64 fragments (occasionally up to 1500 / 8189 8-byte fragments), payload up to 65515, IP options (first fragment carries more than the others), "
               "per-fragment TTL, k<=8 concurrent datagrams sharing ids and addresses selectively, duplicates before and after completion, complete retransmissions, key re-use after completion, "
               "unfragmented (also DF) and non-IP packets in between. The status of EVERY step is compared with a reference reassembler; every REASSEMBLED packet is compared field by field and "
               "byte by byte (payload, whole serialization, sizes) with the original datagram; every NOT_FRAGMENTED packet must serialize to the same bytes as before (and as on the wire). "
               "Exhaustive: payloads of 2..5 (thorough: 2..6) eight-byte units (16..48 bytes, also with a short tail) x every partition x every arrival order x (no | one | two duplicates) x 4 protocols x 4 link layers, "
               "and every interleaving (with one duplicate) of two 2..3-fragment datagrams in 7 id/address relations.",
    level_note="Trusted: the ~25-line reference reassembler and the encoder in harness/c08.cpp. Upper layers are well-formed (libtins re-serializes them identically); fragments never carry DF; "
               "no overlapping fragments; two datagrams never use the same (id, src, dst) at the same time. Key = (id, ordered (src,dst)) as in RFC 791 (without the protocol, as the statement says).",
    phases=[dict(name="exhaustive", harness="c08.cpp", flavor="asan", mode="exhaustive", cases=dict(quick=1044, thorough=2068), args=dict(reversed=1)),
            dict(name="random", harness="c08.cpp", flavor="asan", mode="random", cases=dict(quick=300000, thorough=4000000), args=dict(reversed=1))],
    rule="case = (set of datagrams (id, src, dst, protocol, link layer, options, payload, partition at multiples of 8), arrival order with duplicates, interleaving, unfragmented/non-IP packets); "
         "distinct = distinct (datagram shapes, ordered event list); non-trivial = every history contains >=1 fragmented datagram and is checked after each packet; "
         "exhaustive part: 16..40-byte payloads, all partitions x all orders x <=2 duplicates, and all interleavings of two small datagrams",
    floors=dict(quick=_c08_floors, thorough=dict(_c08_floors, exhaustive_cases=2068, exhaustive_cases_completed=2068, exhaustive_sequences=4000000, distinct=1000000)),
    assumptions=["fragments of one datagram do not overlap and never carry DF; duplicates are exact copies",
                 "the reference forgets a datagram when it completes: later duplicates start a new accumulation, and a second complete set is reassembled again",
                 "a (id, src, dst) triple is used by one datagram at a time (it may be re-used after completion once nothing stale is pending)",
                 "datagrams A->B and B->A with the same identification are different datagrams (ordered address pair, RFC 791); histories containing that shape are tagged reversed-pair"],
)
