PROPS["C09"] = dict(
    level="exploration",
    technique="wip",
    level_text="wip", level_note="wip",
    phases=[dict(name="frames", harness="c09.cpp", flavor="asan", mode="frames", cases=dict(quick=3200, thorough=60000)),
            dict(name="handshake", harness="c09.cpp", flavor="asan", mode="handshake", cases=dict(quick=2000, thorough=40000)),
            dict(name="hostile", harness="c09.cpp", flavor="asan", mode="hostile", cases=dict(quick=2600, thorough=60000))],
    rule="wip",
    floors=dict(any={"distinct": 1000}),
    assumptions=[],
)
