PROPS["C09"] = dict(
    level="exploration",
    technique="independent sender + reference receiver (own RC4/CRC-32/TKIP mixing/Michael, EVP-CCM, PBKDF2/PRF/EAPOL MICs, own 802.11 encoder/parser) "
              "deciding must-decrypt / must-not / either for every frame handed to the real WEPDecrypter / WPA2Decrypter, under ASan/UBSan",
    level_text="Every frame (positive, corrupted, wrong/absent key, hostile) is first judged by a reference receiver that shares no code with libtins; the real engine's "
               "verdict, the cleared protected flag, the untouched 802.11 header and the decrypted LLC/SNAP payload (byte-exact, or field-exact for IPv4/UDP) are compared "
               "after each decrypt() call. Handshake histories (beacons, messages 1-4 with adjacent retransmissions, message-1 restarts, M3/M4 repeated after completion, rekeying, "
               "interleaved stations, foreign networks, wrong passphrase) are checked after every frame against get_keys() (PTK byte-exact) and both callbacks. "
               "Hostile part: every body length 0..64 on the WEP, TKIP and CCMP paths of stations with known keys and mutated real frames up to 2400 bytes; no exception may escape decrypt(). "
               "Payload lengths 0..2300 are swept systematically per cipher (each length at least once per cipher in the quick tier).",
    level_note="Trusted: the reference primitives (self-validated during development against the IEEE 802.11i TKIP/Michael/PBKDF2 test vectors and by decrypting and "
               "byte-identically re-encrypting the captures in tests/src/wpa2_decrypt_test.cpp and wep_decrypt_test.cpp), OpenSSL's EVP CCM / HMAC / PBKDF2. "
               "TKIP's Michael MIC is not demanded (ICV valid + Michael invalid => either verdict). A frame whose integrity verifies under a key known for another "
               "address pair, frames with data subtypes 4..7/12..15, protocol version != 0 or QoS+Order get verdict 'either' (safety only). Payloads are LLC/SNAP with an opaque "
               "ethertype or a well-formed IPv4/UDP packet; a verified plaintext that is not such a payload only has to be handled without an escaping exception.",
    phases=[dict(name="frames", harness="c09.cpp", flavor="asan", mode="frames", cases=dict(quick=4000, thorough=100000)),
            dict(name="handshake", harness="c09.cpp", flavor="asan", mode="handshake", cases=dict(quick=2000, thorough=40000)),
            dict(name="hostile", harness="c09.cpp", flavor="asan", mode="hostile", cases=dict(quick=3900, thorough=200000))],
    rule="frames: case = world (2 BSSIDs with WEP-40/104 keys, 4 stations with random 80-byte PTKs, TKIP and CCMP) + 10 frames (cipher rotates, payload length swept 0..2300 "
         "plus boundary lengths, to-DS/from-DS/4-address/(WEP) no-DS, QoS or not, random flags/fragment/sequence/TID, IV/PN incl. 0 and all-ones), each followed by 3 negatives "
         "(bit flip in IV/body/ICV-MIC/header, truncation, extension, no key, key bit flip, other station's key, key removed, other engine). handshake: case = 1-3 networks "
         "(passphrase, SSID, 1-2 BSSIDs; registered by beacon or by address, unregistered, wrong passphrase) x 1-4 stations, merged event list checked after every event. "
         "hostile: even cases sweep body length (case/2 mod 65) with 30 bodies over the three cipher paths, odd cases run 24 stacked mutations of 4 valid frames. "
         "distinct = distinct (cipher, frame bytes prefix, length) / distinct event history; every frame is non-trivial (it reaches the key look-up of an engine holding keys)",
    floors=dict(any={"late-key-scenarios": 500, "hs:session-keys-direct:authenticator-first": 300, "hs:session-keys-direct:supplicant-first": 300, 
        "distinct": 50000,
        "positive:wep/plain": 5000, "positive:tkip/plain": 5000, "positive:ccmp/plain": 5000, "frames:wep40": 2000, "frames:wep104": 2000,
        "chk:payload-bytes-equal": 20000, "chk:payload-ipv4-udp-equal": 3000, "chk:payload-empty": 100,
        "len:plaintext-multiple-of-16": 800, "len:empty-payload": 80,
        "hdr:variant-0": 2000, "hdr:variant-0-qos": 2000, "hdr:variant-1": 2000, "hdr:variant-1-qos": 2000, "hdr:variant-2": 2000, "hdr:variant-2-qos": 2000, "hdr:variant-3": 400,
        "neg:bitflip-iv": 2000, "neg:bitflip-body": 2000, "neg:bitflip-trailer": 2000, "neg:bitflip-header": 2000, "neg:truncate": 2000, "neg:append": 2000,
        "neg:no-key": 4000, "neg:key-bitflip": 4000, "neg:other-stations-key": 4000, "neg:key-of-this-station-removed": 4000, "neg:other-engine": 2000,
        "verdict:must-not-decrypt/got-false": 100000, "verdict:must-decrypt/got-true": 25000,
        "parse:built-through-api": 5000, "parse:wrapped-in-radiotap": 5000,
        "hs:histories": 1500, "hs:completed/ccmp": 1500, "hs:completed/tkip": 1000, "hs:completed-rekey": 500, "hs:dup-M1": 500, "hs:dup-M2": 500, "hs:dup-M3": 500, "hs:dup-M4": 500,
        "hs:restart-after-M1": 300, "hs:restart-after-M2": 300, "hs:restart-after-M3": 300, "hs:M3-M4-again-after-completion": 400, "hs:M3-retransmitted-with-new-replay-counter": 400,
        "hs:data-under-learnt-key/plain": 5000, "hs:data-without-known-key": 1500, "chk:session-key-equal": 30000,
        "hs:completed-on-unregistered-network": 100, "hs:completed-with-wrong-passphrase-registered": 50,
        "hostile:short-body-lengths-swept": 1500, "hostile:wep-short-body": 8000, "hostile:tkip-short-body": 8000, "hostile:ccmp-short-body": 6000,
        "hostile:wep-mutated": 8000, "hostile:tkip-mutated": 8000, "hostile:ccmp-mutated": 8000, "hostile:ccmp-body-below-16-attempted": 15}),
    assumptions=["the pairwise key of a protected data frame is the one of its (receiver addr1, transmitter addr2) pair; WEP keys are registered per BSSID (addr1 to-DS, addr2 from-DS, addr3 otherwise; "
                 "four-address WEP frames only demand decryption when all four addresses carry the key)",
                 "handshake orderings are those a conforming AP/station emits: adjacent retransmissions, restarts with message 1, M3/M4 repeated after completion; beacons of a network precede its handshakes",
                 "frames between message 1 and message 4 under the not-yet-installed key, and frames under a replaced key after a rekey, are not generated (either verdict would be defensible)",
                 "CCMP bodies shorter than 16 bytes reach the engine only in 15 designated cases (tagged kf=ccmp-short-body) because they kill the worker on a tree without the length check"],
)
