PROPS["C10"] = dict(
    level="exploration",
    technique="history + executable reference model (record lists with expanded names), independent RFC 1035 encoder/decoder as second and third opinion, ASan/UBSan on the record walker",
    level_text="Messages from an independent encoder (no/always/random compression, names up to 127 labels / 255 octets, A/AAAA/NS/CNAME/PTR/MX/SOA/TXT/opaque) or empty ones are "
               "edited by random add_query/add_answer/add_authority/add_additional sequences; after every insertion the four getters, counts, libtins' own re-parse of the "
               "serialization and an independent decoder of the wire bytes are compared with the model. A second phase mutates wire messages and edits them: only libtins "
               "exceptions may surface and ASan must stay silent.",
    level_note="Trusted: own encoder/decoder (cross-checked against each other through libtins). Labels are LDH-like (no dots or NUL inside labels). SOA data is compared in libtins' "
               "documented representation (two uncompressed encoded names + 20 bytes) and through DNS::soa_record.",
    phases=[dict(name="model", harness="c10.cpp", flavor="asan", mode="model", cases=dict(quick=40000, thorough=400000)),
            dict(name="hostile", harness="c10.cpp", flavor="asan", mode="hostile", cases=dict(quick=60000, thorough=400000))],
    rule="case = initial message (empty | wire from the reference encoder) + 1..12 insertions into random sections, checked after each; distinct = distinct history text; "
         "hostile case = mutated wire message + getters + 1..3 insertions + serialize",
    floors=dict(any={"refused_insertions": 5000, "refused_insertions_before_populated_section": 2000, "distinct": 20000, "insertions": 100000, "insertions_shifting_parsed_records": 10000, "independent_decodes": 100000, "initial:wire-compressed": 5000,
                     "hostile_accepted": 5000, "hostile_rejected_at_parse": 1000, "hostile_error_reported:add": 100, "hostile_overlong_name": 5000, "hostile_pointer_to_end": 5000}),
    assumptions=["names are legal: labels 1..63 octets, total <= 255 octets", "messages stay below 16 KiB so every name start is addressable by a 14-bit pointer"],
)
