_C11_FLOORS = {"start:parsed-with-spare-octets-behind-the-fields": 1000, "set-through-add_option": 20000, 
    "distinct": 50000, "steps": 500000, "checks:layout": 500000, "checks:serialize": 500000, "checks:reparse": 400000, "checks:reparse-inner": 300000,
    "checks:getter-value": 3000000, "checks:getter-not-present": 2000000,
    "br:insert-new": 200000, "br:overwrite-in-place": 150000, "br:insert-before-others": 150000, "br:insert-at-end": 50000,
    "br:insert-needs-own-padding": 25000, "br:following-padding-grows": 40000, "br:following-padding-shrinks": 50000,
    "br:several-paddings-change": 8000, "br:repad-shape(>=2 aligned fields follow)": 50000, "br:continued-on-clone": 10000,
    "start:default-ctor": 20000, "start:parsed": 30000, "start:parsed-empty": 10000, "start:parsed-with-non-settable-fields": 2000,
    "reparse:with-fcs-trailer": 150000, "reparse:without-fcs": 150000, "histories:full-permutation": 4000, "set:*": 20000,
}
PROPS["C11"] = dict(
    level="exploration",
    technique="setter histories checked after every step against a last-write map + own canonical radiotap.org encoder, under ASan/UBSan; "
              "exhaustive ordered selections of setters x 3 start states + random histories with repetitions",
    level_text="The real RadioTap setters/getters (RadioTapWriter / RadioTapParser underneath) are driven with setter histories from the default-constructed header and from "
               "parsed headers; after EVERY setter options_payload(), present(), header_size(), all 14 getters (value or field_not_present), serialize() and a re-parse of "
               "the harness' own encoding (getters, payload bytes, inner Dot11Data/RawPDU frame) are compared with a last-write map and a canonical layout computed from the "
               "radiotap.org field table. Every ordered selection of <=4 (quick) / <=5 (thorough) distinct setters out of 14 is enumerated from three start states "
               "(default header, parsed header without fields, parsed header holding all other settable fields); random histories of 1..20 setters with repetitions, "
               "full 14-setter permutations, clones in mid-history and parsed starts that also hold non-settable fields (FHSS, TX attenuation, A-MPDU, VHT ...) add depth.",
    level_note="Trusted: the 22-row field table (size, alignment, bit) transcribed from radiotap.org, the 15-line canonical encoder, an own CRC-32 and Dot11 data-frame "
               "encoder (self-checked against Dot11Data::serialize every case). Not enumerated: orders of more than 5 distinct fields (sampled by 14-setter permutations), "
               "vendor/extended present words, fields with bit >= 22. FLAGS values with FCS+FAILED_FCS are refused by the parser by design and are not re-parsed; a bare header "
               "with neither frame nor FCS behind it is not re-parsed (RadioTap(buffer) demands 4 bytes after the header).",
    phases=[dict(name="exhaustive", harness="c11.cpp", flavor="asan", mode="exhaustive", cases=dict(quick=26404, thorough=266644), args=dict(maxk=6), crash_limit=20),
            dict(name="random", harness="c11.cpp", flavor="asan", mode="random", cases=dict(quick=50000, thorough=400000), crash_limit=20)],
    rule="case = (start state: default ctor | parsed canonical encoding of a field subset, inner frame, sequence of (setter, value) with optional clone-before-step); "
         "distinct = distinct (start kind, start present mask, ordered setter list); every case has >= 1 setter and is checked at the start state and after each setter; "
         "exhaustive part: all ordered selections of <= 4 (quick) / <= 5 (thorough) of the 14 setters x 3 start states",
    floors=dict(quick=dict(_C11_FLOORS, exhaustive_selections=26404), thorough=dict(_C11_FLOORS, exhaustive_selections=266644)),
    assumptions=["field sizes/alignments/bit numbers are those of radiotap.org (and the Linux kernel's radiotap table); alignment is relative to the start of the RadioTap header",
                 "the default-constructed header holds CHANNEL(2412,0xa0) FLAGS(FCS) TSFT(0) DBM_SIGNAL(-50) RX_FLAGS(0) ANTENNA(0) as documented by its constructor",
                 "signal_quality(uint8_t) sets the 16-bit LOCK_QUALITY field to the zero-extended value",
                 "sanitizer aborts inside a setter are attributed to the known re-padding defect only if the history contains its trigger shape (kf=repad, decided on the model)"],
)
