PROPS["C12"] = dict(
    level="exploration",
    technique="invariant at a hook (live-object registry fed from PDU constructors/destructor) checked after every step of random ownership programs + deep-equality oracle (all getters + serialization), under ASan/LSan",
    level_text="Random programs (5-65 steps) over a pool of up to 12 user-owned roots of every concrete class: construct, operator/ and /=, copy-construct, copy-assign (longer over shorter, "
               "shorter over longer, self), move-construct/assign, reuse of moved-from objects, clone, inner_pdu(ptr/ref), release_inner_pdu, delete, Packet/PtrPacket wrap/copy/move/release. "
               "After every step the set of live PDU objects reported by the lifetime hook must equal the set reachable from the roots, each layer exactly once, parent links must name the owner; "
               "copies must equal their source in every getter and in serialization at copy time and must not change when the other side is edited.",
    level_note="Trusted: the registry (60 lines) and the typed operation table generated from the class list of the current headers. Self-move is excluded; a PtrPacket is converted to an owning Packet at most once.",
    phases=[dict(name="programs", harness="c12.cpp", flavor="asan", mode="programs", cases=dict(quick=20000, thorough=120000)),
            dict(name="options", harness="c12.cpp", flavor="asan", mode="options", cases=dict(quick=20000, thorough=200000))],
    rule="case = random ownership program; distinct = distinct program text; every program is checked after each step",
    floors=dict(any={"distinct": 15000, "forest_checks": 250000, "deep_equality_checks": 50000, "op:copy-assign-shorter-over-longer": 1000, "op:copy-assign-longer-over-shorter": 1000,
                     "op:self-assign": 2500, "op:move-assign": 2500, "op:move-construct": 2500, "op:release": 2500, "op:inner_pdu-ptr": 2500, "op:packet-wrap": 2500,
                     "option:self-assign": 1000, "option:spoofed-length-field": 5000, "op:clone-inner-layer": 2000, "op:inner_pdu-ref-own-tree": 1500, "op:packet-assign-from-empty": 500, "typed_classes": 45}),
    assumptions=["x86-64", "programs never self-move and never hand one heap PDU to two owners (that would be a user error, not a libtins defect)"],
)
