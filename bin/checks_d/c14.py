PROPS["C14"] = dict(
    level="exploration",
    technique="generated request objects vs. an own byte encoder of the mirrored reply and of every single-field perturbation (verdict checked per call); "
              "exact-size heap buffers under ASan/UBSan for every class x every length 0..128",
    level_text="Requests over {EthernetII, EthernetII/Dot1Q(xN), Dot1Q, bare network layer} x {IP, IPv6} x {TCP, UDP+payload, DNS over UDP, ICMP echo/timestamp/address-mask, "
               "ICMPv6 echo} with boundary-heavy field values are built through the public API; the mirrored reply (IPv4 options as long as the request's, 0-3 IPv6 extension headers, "
               "TCP options, minimal replies ending exactly at the header end) and ~14 perturbations of one matched field each are encoded by the monitor's own encoder with correct "
               "checksums and handed to the real matches_response; each verdict is compared at once with the expectation derived from the shadow. The safety phase calls the matcher "
               "of every concrete PDU class of the current headers (alone and over 10 kinds of inner chain) and of generated request stacks on exact-size heap blocks of every length "
               "0..128 filled with zeros, random bytes, the prefix of a true mirror, byte-mutated and structure-mutated mirrors (IHL 0..15, data offset, extension-header lengths ending "
               "at/after the buffer end, ICMP-error quoting cut short) and with misaligned starts.",
    level_note="Trusted: the ~120-line byte encoder of this monitor (RFC 791/792/768/793/8200/4443/1035 layouts). Only the reply's Ethernet DESTINATION counts as matched L2 address; "
               "documented exceptions (request to 255.255.255.255 [+ source 0.0.0.0], request to ff02::/16) make the reply's source [destination] an unmatched field and are only observed. "
               "Replies whose IPv4 header length differs from the request's, ICMP errors quoting the request and UDP requests without payload are outside the statement (observed, never judged).",
    phases=[dict(name="pairs", harness="c14.cpp", flavor="asan", mode="pairs", cases=dict(quick=400000, thorough=5000000)),
            dict(name="safety", harness="c14.cpp", flavor="asan", mode="safety", cases=dict(quick=40000, thorough=800000))],
    rule="pairs: case = one request (stack shape, all matched field values, own IP options / extension headers, serialized first or not, optionally inside a PDUCacher) with 4 mirrored "
         "replies (3 draws of the responder-chosen fields + the minimal reply) and 2 rounds of every applicable single-field perturbation (Ethernet destination, each VLAN id, IP/IPv6 "
         "source, destination, either port, ICMP/ICMPv6 id, sequence, reply type, DNS id: one-bit flips, +-1, byte swap, neighbour field's value, random), the request echoed back and an "
         "unrelated ICMP error; distinct = distinct (shape, matched field values); every case is non-trivial (>= 4 positive and >= 10 negative verdicts). safety: case = one subject "
         "(class K x inner-chain kind, or a generated request stack) x 129 lengths x 5-6 buffer contents; cases 0..10 hold the trigger shapes of listed findings (kf=) one per case",
    floors=dict(any={"distinct": 300000, "pos_checks": 1000000, "neg_checks": 3000000,
                     "pos:tcp": 100000, "pos:udp-raw": 100000, "pos:udp-dns": 100000, "pos:icmp-echo": 60000, "pos:icmp-ts": 30000, "pos:icmp-mask": 30000, "pos:icmpv6-echo": 80000,
                     "neg:eth-dst": 200000, "neg:vlan-id": 150000, "neg:ip-src": 150000, "neg:ip-dst": 150000, "neg:ipv6-src": 100000, "neg:ipv6-dst": 100000,
                     "neg:src-port": 150000, "neg:dst-port": 150000, "neg:icmp-id": 60000, "neg:icmp-seq": 60000, "neg:icmp-type": 60000,
                     "neg:icmpv6-id": 40000, "neg:icmpv6-seq": 40000, "neg:icmpv6-type": 40000, "neg:dns-id": 50000, "neg:request-echoed-back": 100000, "neg:unrelated-icmp-error": 50000,
                     "br:ipv6-ext-1": 20000, "br:ipv6-ext-2+": 15000, "br:ip-options-in-request": 15000, "br:tcp-options-in-reply": 15000, "br:reply-ends-at-header-end": 20000,
                     "br:broadcast-exception": 5000, "br:ff02-exception": 3000, "br:request-serialized-first": 100000, "br:root-network-layer": 30000, "br:root-dot1q": 10000,
                     "br:double-tag": 10000, "br:request-in-PDUCacher": 5000,
                     "safety_calls": 15000000, "safety_true": 3000000, "safety_misaligned_calls": 2500000, "safety_class_subjects": 1000,
                     "safety_class_subjects_matching_something": 1000, "safety_request_subjects": 13000, "safety_request_subjects_with_ipv6_ext": 3000, "safety_classes_total": 40}),
    assumptions=["the request object is built with the public constructors/setters only; in half of the cases it is serialized once before matching, as send_recv() does",
                 "a mirrored reply keeps the request's VLAN ids and (IPv4) carries an options area as long as the request's; every other unmatched field is drawn freely",
                 "an over-read is visible because the buffer is the tail of an exact-size malloc block (ASan red zone directly behind it); unaligned partially-out-of-bounds word loads "
                 "that stay inside one 8-byte shadow granule are found through the neighbouring lengths of the sweep",
                 "sanitizer aborts on the trigger shapes of listed findings are isolated in safety cases 0..10 (kf= tag); the regular sweep skips exactly those (class, length, alignment) "
                 "combinations and counts them in safety_deferred_to_kf_cases"],
)
