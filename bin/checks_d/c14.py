PROPS["C14"] = dict(
    level="exploration",
    technique="generated request objects vs. an own byte encoder of the mirrored reply and of every single-field perturbation; exact-size heap buffers under ASan/UBSan for every class x length 0..128",
    level_text="x",
    level_note="x",
    phases=[dict(name="pairs", harness="c14.cpp", flavor="asan", mode="pairs", cases=dict(quick=400000, thorough=5000000)),
            dict(name="safety", harness="c14.cpp", flavor="asan", mode="safety", cases=dict(quick=40000, thorough=800000))],
    rule="x",
    floors=dict(any={}),
    assumptions=[],
)
