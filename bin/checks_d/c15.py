PROPS["C15"] = dict(
    level="exploration",
    technique="generated setter/getter sweep with getter algebra, serialization-footprint monitor (bit diff confined, disjoint, MSB-first) and a hand spec table, under ASan/UBSan",
    level_text="Every void f(T)/T f() const pair of every PDU class found in the current headers (about 350) is exercised with all values (<= 8 bits; <= 16 bits in thorough) or boundary+random "
               "values, from the default object, from an object whose other fields hold their maxima and from random prior states: the getter must return the value, every other getter must keep "
               "its value (alias groups listed by hand), small_uint<N> arguments above 2^N-1 must be rejected, the serialization may only change inside a footprint of at most width(f) bits that "
               "is disjoint from the other fields' footprints and holds the value MSB-first for big-endian protocols; 100 hand-packed fields are pinned to their RFC positions.",
    level_note="Pairs whose setter changes size() are option setters (C04's domain) and are skipped (counted). Trusted: the alias-group list, the derived-byte list and the spec table in harness/c15.cpp. "
               "Little-endian classes (802.11, RadioTap, PPI, Loopback) are checked for footprint width/disjointness and getter algebra only.",
    phases=[dict(name="fields", harness="c15.cpp", flavor="asan", mode="main", cases=dict(quick=45 * 3 * 4, thorough=45 * 3 * 8), watchdog=1500)],
    rule="case = (class, prior-state round): every scalar field of the class with its value set; distinct = distinct (field, prior-state kind)",
    floors=dict(any={"distinct": 300, "sets": 100000, "field_pairs_in_table": 300, "spec_table_checks": 10000, "generic_order_checks": 10000, "overwide_rejected": 50, "fields_with_footprint": 500}),
    assumptions=["x86-64 little-endian host", "standalone serialization of the layer (no parent): TCP/UDP checksums over a pseudo-header are C05's business"],
)
