PROPS["C16"] = dict(
    level="exploration",
    technique="128-bit integer model + own strict three-valued text parsers, compared after every parse / comparison / contains() probe / walk step, under ASan/UBSan",
    level_text="The real IPv4Address, IPv6Address, HWAddress<6>, AddressRange (operator/, from_mask, explicit ends) code is driven with boundary-heavy addresses "
               "(runs of 00/ff, carries of every byte depth, the four addresses next to all-ones and to zero, IPv4 class boundaries), every prefix length 0..32/0..128/0..48 "
               "of each base address, contiguous and non-contiguous masks, and grammar-based near-valid texts. An unsigned __int128 model gives first = a&m, last = a|~m, "
               "contains(x) <=> first<=x<=last (x at/around both ends), is_iterable() <=> at least two hosts, and the exact list of every walk of <= 2^16 addresses "
               "(each step compared; own cap of 70000 steps turns a walk that does not end into a verdict). Text: to_string/parse round trip, every valid spelling accepted with the "
               "right value, MUST-REJECT texts rejected, DON'T-CARE texts only deterministic and memory-safe. ==,!=,<,<=,>,>= against numeric order on neighbours, "
               "byte-swapped and one-byte-different values; std::hash equal for equal addresses living on the stack, in an exact-size heap block, in records with different trailing bytes.",
    level_note="Trusted: the ~150-line reference (integer arithmetic, RFC 4291 text grammar). Sampled, not exhaustive, over addresses; exhaustive over prefix lengths per sampled base. "
               "Leniencies of the parsers (short / single-digit hardware groups, IPv4 leading zeros or fewer than four groups, over-long zero-padded IPv6 groups) are DON'T-CARE.",
    phases=[dict(name="main", harness="c16.cpp", flavor="asan", mode="random", cases=dict(quick=24000, thorough=400000)),
            dict(name="postfix", harness="c16.cpp", flavor="asan", mode="postfix", cases=dict(quick=3, thorough=3))],
    rule="case = (address type, kind in {addresses+ordering+hash+spellings, all prefix lengths of one base, 8 from_mask ranges, 6 explicit ranges, 40 near-valid texts}); "
         "distinct = distinct value tuple / distinct range (first,last,hosts) walked / distinct text; non-trivial = every case performs model comparisons (counters chk:*)",
    floors=dict(any={"walks:with-post-increment": 1000, "classification:ipv4": 10000, "classification:ipv6": 10000, "classification:ipv4:private": 1000, "classification:ipv6:local-unicast": 1000, "classification:hw": 500,
        "distinct": 20000,
        "chk:round-trip": 20000, "chk:order-pairs": 200000, "chk:hash": 20000, "chk:contains": 500000, "chk:walk-steps": 5000000,
        "chk:text-must-accept": 50000, "chk:text-must-reject": 50000, "chk:prefix-mask": 50000, "chk:begin": 50000, "chk:post-increment-walks-started": 3,
        "prefix-sweeps:ipv4": 300, "prefix-sweeps:ipv6": 300, "prefix-sweeps:hw": 300,
        "ranges:mask-noncontiguous": 5000, "ranges:explicit": 5000,
        "is_iterable:ipv4:false": 300, "is_iterable:ipv6:false": 300, "is_iterable:hw:false": 300,
        "br:walk-ends-at-all-ones:ipv4": 100, "br:walk-ends-at-all-ones:ipv6": 100, "br:walk-ends-at-all-ones:hw": 100,
        "br:end-borrows": 100,
        "br:carry:ipv4:3": 20, "br:carry:hw:5": 20, "br:carry:ipv6:15": 20, "br:carry:ipv6:8": 5, "br:carry:hw:3": 5,
        "text:ipv4:reject:group-range": 300, "text:ipv4:reject:too-many-groups": 300, "text:ipv4:reject:alphabet": 300, "text:ipv4:reject:empty": 50, "text:ipv4:reject:embedded-nul": 50,
        "text:ipv6:reject:group-range": 100, "text:ipv6:reject:too-many-groups": 300, "text:ipv6:reject:multiple-compression": 100, "text:ipv6:reject:alphabet": 300,
        "text:ipv6:accept:compressed": 5000, "text:ipv6:accept:full": 1000,
        "text:hw:reject:long-group": 300, "text:hw:reject:alphabet": 300, "text:hw:reject:tail-after-sixth-group": 100, "text:hw:reject:empty": 50,
        "text:hw:dontcare:lenient-shape": 300, "text:ipv4:dontcare:leading-zero": 300,
    }),
    assumptions=["is_iterable() is required to be false exactly when a hosts-only range has fewer than two host addresses (last-first < 3); ranges are walked only when is_iterable() is true "
                 "(walking a range that is_iterable() declines is documented as undefined)",
                 "exact walk lists are demanded for ranges of <= 2^16 addresses; for larger ranges only contains(), is_iterable() and the first step (begin() != end(), *begin()) are checked",
                 "text acceptance is three-valued; only canonical / RFC 4291 forms must be accepted and only unambiguous non-addresses must be rejected",
                 "the exact spelling produced by to_string() is not prescribed: it must be a valid text denoting the same address"],
)
