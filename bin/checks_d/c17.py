PROPS["C17"] = dict(
    level="exploration",
    technique="generated capture files read back through the real FileSniffer with a per-packet frame-index oracle (direct parser + libpcap called directly), under ASan/UBSan",
    level_text="placeholder",
    level_note="placeholder",
    phases=[dict(name="files", harness="c17.cpp", flavor="asan", mode="random", cases=dict(quick=6000, thorough=100000), args=dict(probes=1))],
    rule="placeholder",
    floors=dict(any={"distinct": 100}),
    assumptions=[],
)
