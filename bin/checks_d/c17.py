PROPS["C17"] = dict(
    level="exploration",
    technique="generated capture files (real PacketWriter / own pcap encoder) read back through the real FileSniffer under ASan/UBSan; "
              "frame-index oracle after every delivered packet: parses(f) = top-level parser called directly on an exact-size copy, filter(f) = libpcap called directly",
    level_text="Per link type {EN10MB, IEEE802_11, IEEE802_11_RADIO, NULL, LINUX_SLL, RAW, PPI} files of 0..1000 frames are (a) written by the real PacketWriter (every write overload, "
               "both constructors, moved writers) from API-built packets and packets parsed from snap-truncated frames, then decoded by the monitor's own pcap decoder and compared record by "
               "record (bytes, incl_len/orig_len, exact or wall-clock timestamp, global header), or (b) produced by the monitor's own pcap encoder from valid, mutated, random, zero-length, "
               "65535-byte, too-short and link-type-specific frames (PPI with unknown DLT / bad length / FCS flag, RAW with bad version nibble, Dot3 boundary, RadioTap bad length), records with "
               "caplen<len, and clean / partial-header / partial-data / bogus-length file tails. Every file is read back through FileSniffer (4 constructors, pcap_loop or pcap_dispatch, moved "
               "sniffers) by a random program of driver segments: next_packet (Packet and PDU*), sniff_loop with all 6 callback signatures x {max_packets, stop by false, to the end} x callbacks "
               "throwing malformed_packet/pdu_not_found, range-for, ++it and it++ iteration; raw extraction is toggled and filters are replaced between segments. After EVERY delivered packet the "
               "monitor checks by frame index: no deliverable frame skipped, no undeliverable frame delivered, timestamp (sec, usec) of that frame, structure equal to the direct parse, bytes "
               "equal (serialize of clean frames, payload in raw mode), chunk sizes of sniff_loop; at the end: no deliverable frame left, the sniffer stays at the end, no exception escaped. "
               "(c) filters from a 26-atom grammar with and/or/not, via SnifferConfiguration, the filter-string constructors, set_filter (also mid-file) and via OfflinePacketFilter "
               "(buffer and PDU overloads, copy-constructed and copy-assigned objects, several snap lengths) must select exactly what pcap_offline_filter selects and must be rejected "
               "(invalid_pcap_filter / false) exactly when pcap_compile rejects them.",
    level_note="Trusted: libpcap 1.10 (file reading, pcap_compile, pcap_offline_filter) as reference for filter(f) - the sniffer's filters are compiled by the monitor on libpcap's own handle of the "
               "same file, the offline ones on pcap_open_dead; frames on which libpcap's optimized and unoptimized programs disagree are not judged; expressions the optimizer proves empty may be "
               "accepted or rejected. parses(f) is the library's own top-level parser run directly (as the property defines it) on an exact-size heap copy, so over-reads invisible inside libpcap's "
               "buffer are visible to ASan there. Zero-length DLT_RAW frames may be skipped or delivered (the version nibble read is inside libpcap's buffer), frames after them must arrive. "
               "Timestamps: sec < 2^31, usec < 10^6. Three genuine defects are isolated under their own keys (fixes/C17-1..3.md); args probes=0 switches those probes off.",
    phases=[dict(name="files", harness="c17.cpp", flavor="asan", mode="random", cases=dict(quick=6000, thorough=100000), args=dict(probes=1))],
    rule="case = (link type = index mod 7, producer in {PacketWriter, own encoder}, 0..1000 frames with unique timestamps, optional filter expression, file tail, random program of reader driver "
         "segments); distinct = distinct (link type, producer, filter, sequence of (frame class, size, parses)); non-trivial = every file is read to its end with a check after each delivered packet",
    floors=dict(any={"writer:zero-length-packet": 1000, "offline:pdu-checks-on-never-serialized-packets": 2000, 
        "distinct": 4000, "frames": 150000, "checks:order": 100000, "checks:timestamp": 60000, "checks:structure": 40000, "checks:bytes-serialize": 25000, "checks:bytes-raw": 40000,
        "files:EN10MB": 700, "files:IEEE802_11": 700, "files:IEEE802_11_RADIO": 700, "files:NULL": 700, "files:LINUX_SLL": 700, "files:RAW": 700, "files:PPI": 700,
        "writer:files": 1000, "writer:records-verified": 40000, "writer:timestamps-exact": 20000, "writer:packets-parsed-from-truncated-frame": 1000,
        "frames:parser-throws-malformed_packet": 20000, "frames:no-parser-applies": 3000, "frames:0-bytes": 4000, "frames:65535-bytes": 100, "frames:caplen<len": 5000,
        "special:ppi-unknown-dlt": 300, "special:raw-bad-version": 1000, "special:dot3-boundary": 1000,
        "ts:usec=0": 4000, "ts:usec=999999": 4000, "open-error:missing-file": 40, "open-error:bad-magic-FILE*": 40, "open-error:writer-unwritable-path": 40,
        "eof:reached": 5000, "eof:stays-at-end": 4000, "eof:partial-record-header": 200, "eof:partial-record-data": 200, "eof:bogus-record-length": 200,
        "delivered:next_packet": 10000, "delivered:range-for": 10000, "delivered:iterator(it++)": 10000, "delivered:sniff_loop(Packet&)": 10000, "delivered:sniff_loop(PDU&)": 10000,
        "delivered:sniff_loop(HandlerProxy)": 10000, "sniff_loop:max_packets": 1000, "sniff_loop:stopped-by-false": 1000, "cb:threw-swallowed-type": 5000,
        "filter:files": 1500, "filter:compile-error-reported": 150, "set_filter:midfile-applied": 500, "offline:buffer-checks": 60000, "offline:pdu-checks": 10000,
        "offline:match": 20000, "offline:no-match": 20000, "offline:compile-error-thrown": 300, "offline:assigned": 1000, "raw-mode:toggled": 600, "sniffer:moved": 200,
    }),
    assumptions=["libpcap (the system's 1.10.x) reads the files, compiles and evaluates the reference filters; it is called directly by the monitor, not through libtins",
                 "parses(f) is defined as the library's top-level parser of the link type called directly (EthernetII/Dot3 by the monitor's own 'byte 12 < 8' rule, IP/IPv6 by the version nibble)",
                 "clean API-built frames are additionally compared byte for byte through serialize(); arbitrary frames are compared by structure (type, header and trailer size per layer, payload hash) "
                 "so that serialization defects of other properties are not reported here",
                 "workers write their files into the run directory (cwd) under worker- and case-unique names and remove them at the end of the case"],
)
