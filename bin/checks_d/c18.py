PROPS["C18"] = dict(
    level="exploration",
    technique="ThreadSanitizer (happens-before race detector) over multi-threaded mixtures of the other checks' workloads on thread-private objects + per-thread digest equality with a sequential re-run; every case in a fresh process for cold-start races",
    level_text="2/4/8/16 threads start together behind one barrier and each run a seeded mixture of parsing, building/serializing/cloning, DNS editing, RadioTap setters, TCP/IP reassembly engines, "
               "the stream follower, WEP/WPA2 decryption and PBKDF2, address parsing/ranges/hashing and the checksum utilities on objects no other thread can see, under gcc -fsanitize=thread. "
               "All threads begin with the same kind of operation and every case is a new process, so lazy first-use initialisation is hit concurrently and cold. Any race report with a libtins frame "
               "is a violation, and so is a thread whose digest differs from the same call sequence run alone.",
    level_note="Only executions actually scheduled are judged: evidence lists which pairs of operation kinds overlapped in time. libpcap/OpenSSL are uninstrumented (reports without a libtins frame are counted, not judged). "
               "After the barrier the monitor adds no synchronisation between workers (relaxed ticket counter, logs merged after join).",
    phases=[dict(name="threads", harness="c18.cpp", flavor="tsan", mode="main", per_case_process=True, concurrency=4, cases=dict(quick=72, thorough=360), watchdog=900)],
    rule="case = (thread count in {2,4,8,16}, common first operation kind, per-thread seeds); distinct = distinct (pair of operation kinds that overlapped in time, thread count) plus the case itself",
    floors=dict(any={"distinct": 100, "thread_digests_equal": 400, "overlapping_operation_pairs": 20000, "cold-start:*": 4, "crypto:pbkdf2": 300, "build:reparsed": 2000, "follower:legacy-stream-ids": 2000, "build:own-copy-of-common-original": 3000, "build:reparsed-with-ip-tunnel": 200, "crypto:handshake-capture:keys-derived": 300, "crypto:session-keys-derived": 10000, "crypto:wpa2-explicit-keys": 1000, "op_done:*": 1000}),
    assumptions=["objects are never shared between threads; user-level registration (Allocators::register_allocator) does not happen while threads run",
                 "gcc 12 ThreadSanitizer semantics (pure happens-before, no lockset)"],
)
