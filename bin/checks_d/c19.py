PROPS["C19"] = dict(
    level="exploration",
    technique="receiver simulator + byte-map model of acknowledged bytes checked after every packet, under ASan/UBSan; exhaustive small scope + random histories",
    level_text="tbd",
    level_note="tbd",
    phases=[dict(name="exhaustive", harness="c19.cpp", flavor="asan", mode="exhaustive", cases=dict(quick=720, thorough=40320)),
            dict(name="random", harness="c19.cpp", flavor="asan", mode="random", cases=dict(quick=20000, thorough=600000))],
    rule="tbd",
    floors=dict(any={"distinct": 1000}),
    assumptions=[],
)
