PROPS["C19"] = dict(
    level="exploration",
    technique="receiver simulator + byte-map model of acknowledged bytes compared with the real AckTracker after every packet, under ASan/UBSan; "
              "exhaustive small scope (all arrival orders) + random/directed large histories",
    level_text="A receiver simulator written for the check turns arrival orders of a segmented stream (1 B .. 64 KiB) into the ACK + <=4 SACK blocks a conforming receiver "
               "emits (most recent first, strictly above the ACK, coalesced or adjacent, plain duplicate ACKs, ACK packets lost with p in {0,.1,.33,.67,.9}); the delivered packets are real "
               "TCP PDUs (TCP::sack(), raw option encoded by the check, complete TCP and IP/TCP wire images encoded by the check and parsed by libtins, optionally re-serialised; bare or "
               "inside IP/Ethernet/IPv6) fed to AckTracker::process_packet directly or through Flow. After EVERY processed packet (and in the initial state) ack_number(), the exact byte set "
               "of acked_intervals() and a sweep of is_segment_acked(seq,len) queries (every (seq,len) for streams <=16 bytes; otherwise all pairs of ack/run/block/segment/wrap edges +-1, "
               "every SACKed run exactly and +1 byte, segment boundaries +-1, random ones, len 0, before the ISN, across 2^32) are compared with a byte map indexed by offset from the ISN. "
               "Exhaustive part: all 8! (quick: 6!) arrival orders of 8 (6) segments incl. one-byte ones x 4 ISNs (no wrap, 2^31 inside, 2^32 inside a SACK block, 2^32 right after a "
               "one-byte hole) x several loss/block-limit/receiver variants (quick: all 2^6 loss masks).",
    level_note="Trusted: the ~30-line byte-map model and the ~30-line receiver simulator in harness/c19.cpp; boost::icl's iteration over its own interval_set (bounds are decoded by the check). "
               "Histories are those of a conforming receiver as the statement assumes (no D-SACK, no block at/below the ACK, ACKs in order, stream < 2^31). With use_sack disabled the model ignores blocks.",
    phases=[dict(name="exhaustive", harness="c19.cpp", flavor="asan", mode="exhaustive", cases=dict(quick=720, thorough=40320)),
            dict(name="random", harness="c19.cpp", flavor="asan", mode="random", cases=dict(quick=20000, thorough=150000))],
    rule="case = (segment boundaries, ISN, arrival order, which ACK packets are delivered, block limit, receiver coalescing mode, tracker construction, per-packet encoding); "
         "distinct = distinct (ISN, boundaries, order, delivery pattern[, variant]); non-trivial = every history has >=1 segment, the tracker state + queries are checked in the initial state and after "
         "each delivered ACK packet; exhaustive phase: case index = arrival order (factoradic), all orders enumerated",
    floors=dict(
        quick={"distinct": 100000, "tracker:move-assigned": 500, "tracker:copy-assigned": 500, "acked_range:wrapping": 5000, "acked_range:plain": 20000, "exhaustive_orders": 720, "exhaustive_histories": 150000, "packets": 800000, "queries": 100000000,
               "checks:ack_number": 800000, "checks:acked_intervals": 800000,
               "br:ack-advance-erases-sacked": 50000, "br:ack-jumps-across-2^32": 10000, "br:ack-jumps-across-2^32-sacked-only-before": 1000,
               "br:ack-jumps-across-2^32-sacked-both-sides": 5000, "br:ack-jumps-across-2^31": 5000, "br:ack-lands-on-seq-0": 1000, "br:ack-lands-on-seq-2^32-1": 1000,
               "br:sack-block-wraps-2^32": 10000, "br:sack-block-right-edge-0": 3000, "br:sack-block-left-edge-0": 3000, "br:sack-block-spans-2^31": 5000,
               "br:one-byte-hole-at-ack": 20000, "br:adjacent-blocks-in-packet": 10000, "br:block-joins-known-run": 20000, "br:sacked-run-spans-2^32": 20000,
               "br:intervals>=3": 50000, "br:ack-packet-lost": 100000, "blocks:4": 30000, "blocks:1": 30000,
               "q:true-inside-sacked": 5000000, "q:true-below-ack": 5000000, "q:false-crosses-hole": 10000000, "q:false-straddles-ack": 10000000,
               "q:wraps-2^32-true": 500000, "q:wraps-2^32-false": 5000000, "q:exactly-a-sacked-run": 500000, "q:sacked-run-plus-one-byte": 1000000, "q:starts-before-isn": 5000000,
               "enc:TCP::sack": 100000, "enc:raw-option": 100000, "enc:wire-TCP-parsed": 30000, "enc:wire-IP-parsed": 30000, "enc:serialize-reparse": 50000,
               "histories:Flow": 2000, "histories:sack-disabled-start": 500, "histories:directed-ack-across-wrap": 500, "histories:directed-one-byte-hole": 500,
               "histories:wrap-2^32-inside": 20000},
        thorough=None),
    assumptions=["the receiver is conforming: cumulative ACK monotone, SACK blocks strictly above it and truthful (only received bytes), no D-SACK; ACK packets may be lost but arrive in order",
                 "streams are <= 64 KiB, so everything lies within half the sequence space of the cumulative ACK; queries stay within 40 bytes of the stream",
                 "bytes before the ISN count as 'below the cumulative ACK' (acknowledged); bytes beyond the stream end are never acknowledged",
                 "with SACK processing disabled (AckTracker(isn,false) / default constructor, until use_sack()) the expected SACKed set ignores the blocks"],
)
_c19_q = PROPS["C19"]["floors"]["quick"]
PROPS["C19"]["floors"]["thorough"] = dict({k: 3 * v for k, v in _c19_q.items()}, distinct=1000000, exhaustive_orders=40320, exhaustive_histories=900000)
