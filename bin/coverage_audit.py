#!/usr/bin/env python3
"""coverage_audit.py [Cxx ...] [--frac 0.1]
Blind-spot audit (not a check): builds libtins with gcc --coverage, runs every registered phase's monitor program on a
fraction of its quick-tier cases and reports which functions and lines of /repo/src (and instantiated inline functions
of /repo/include) no monitor workload reached. Output: validation/coverage.md + validation/coverage.json.
Runtime monitoring says nothing about code the workloads never drive; this list is where to aim new workloads."""
import sys, os, json, subprocess, glob, gzip, collections
VERIF = os.path.dirname(os.path.dirname(os.path.abspath(__file__)))
sys.path.insert(0, os.path.join(VERIF, "build")); sys.path.insert(0, os.path.join(VERIF, "bin"))
import build_lib, checks
from concurrent.futures import ThreadPoolExecutor

def main():
    args = sys.argv[1:]; frac = 0.1
    if "--frac" in args: i = args.index("--frac"); frac = float(args[i + 1]); del args[i:i + 2]
    props = args or sorted(checks.PROPS)
    fd = build_lib.build_flavor("gcov")
    for g in glob.glob(os.path.join(fd, "**", "*.gcda"), recursive=True): os.remove(g)
    corpus = build_lib.corpus()
    ran = []
    for p in props:
        for ph in checks.PROPS[p]["phases"]:
            if ph.get("wrapper"): continue
            exe = build_lib.build_harness(ph["harness"], "gcov")
            n = max(8, int(ph["cases"]["quick"] * frac)); nw = 16
            def one(w):
                cmd = [exe, "--seed", "1", "--start", str(w), "--stride", str(nw), "--count", str(n), "--tier", "quick", "--out", "/dev/null", "--journal", "/dev/null",
                       "--worker", str(w), "--mode", ph.get("mode", ""), "--corpus=" + corpus] + ["--%s=%s" % kv for kv in ph.get("args", {}).items()]
                if ph.get("per_case_process"): cmd = [exe, "--seed", "1", "--only", str(w), "--tier", "quick", "--out", "/dev/null", "--mode", ph.get("mode", ""), "--corpus=" + corpus]
                try: return subprocess.run(cmd, capture_output=True, timeout=1800).returncode
                except subprocess.TimeoutExpired: return -1
            with ThreadPoolExecutor(nw) as ex: rcs = list(ex.map(one, range(nw)))
            ran.append((p, ph["name"], n, rcs.count(0)))
            sys.stderr.write("[cov] %s/%s cases=%d workers_ok=%d/16\n" % (p, ph["name"], n, rcs.count(0)))
    # aggregate
    funcs = {}; lines = collections.defaultdict(dict)
    for g in glob.glob(os.path.join(fd, "**", "*.gcda"), recursive=True):
        r = subprocess.run(["gcov", "-j", "-t", "-o", os.path.dirname(g), g], capture_output=True, text=True, cwd=os.path.dirname(g))
        if r.returncode != 0 or not r.stdout.strip(): continue
        for doc in r.stdout.strip().split("\n"):
            try: j = json.loads(doc)
            except Exception: continue
            for f in j.get("files", []):
                fn = os.path.normpath(os.path.join(j.get("current_working_directory", ""), f["file"]))
                if not fn.startswith(build_lib.REPO + "/src") and not fn.startswith(build_lib.REPO + "/include"): continue
                rel = fn[len(build_lib.REPO) + 1:]
                for fu in f.get("functions", []):
                    k = (rel, fu["demangled_name"], fu["start_line"]); funcs[k] = max(funcs.get(k, 0), fu["execution_count"])
                for ln in f.get("lines", []):
                    lines[rel][ln["line_number"]] = max(lines[rel].get(ln["line_number"], 0), ln["count"])
    per_file = {}
    for rel, ls in lines.items(): per_file[rel] = (sum(1 for c in ls.values() if c), len(ls))
    unc = sorted(k for k, c in funcs.items() if c == 0)
    out = {"frac": frac, "ran": ran, "files": {k: {"lines_hit": v[0], "lines": v[1]} for k, v in sorted(per_file.items())},
           "uncovered_functions": [{"file": a, "function": b, "line": c} for a, b, c in unc]}
    os.makedirs(os.path.join(VERIF, "validation"), exist_ok=True)
    json.dump(out, open(os.path.join(VERIF, "validation", "coverage.json"), "w"), indent=1)
    th = sum(v[0] for v in per_file.values()); tl = sum(v[1] for v in per_file.values())
    with open(os.path.join(VERIF, "validation", "coverage.md"), "w") as o:
        o.write("# Which libtins code the monitors' workloads reach\n\nProduced by `bin/coverage_audit.py` (gcc --coverage build, %g of each phase's quick-tier cases, seed 1) on /repo %s.\n" % (frac, subprocess.run(["git", "-C", build_lib.REPO, "rev-parse", "--short", "HEAD"], capture_output=True, text=True).stdout.strip()))
        o.write("Not a check: a map of blind spots. Lines reached: %d of %d (%.1f%%); functions never entered: %d of %d.\n\n" % (th, tl, 100.0 * th / max(tl, 1), len(unc), len(funcs)))
        o.write("## Per file (src/ and instantiated inline code of include/)\n\n| file | lines reached | of | % |\n|---|---|---|---|\n")
        for k, v in sorted(per_file.items(), key=lambda kv: kv[1][0] / max(kv[1][1], 1)):
            o.write("| %s | %d | %d | %.0f |\n" % (k, v[0], v[1], 100.0 * v[0] / max(v[1], 1)))
        o.write("\n## Functions never entered\n\n")
        for a, b, c in unc: o.write("- %s:%d `%s`\n" % (a, c, b))
    print("lines %d/%d functions uncovered %d/%d" % (th, tl, len(unc), len(funcs)))

if __name__ == "__main__": main()
