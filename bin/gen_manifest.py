#!/usr/bin/env python3
"""Writes /verif/MANIFEST.json from bin/checks.py (single source of truth)."""
import json, os, sys
VERIF = os.path.dirname(os.path.dirname(os.path.abspath(__file__)))
sys.path.insert(0, os.path.join(VERIF, "bin"))
import checks
props = [json.loads(l)["id"] for l in open(os.path.join(VERIF, "properties.jsonl"))]
man = dict(
    version=1,
    setup_cmd="python3 build/build_lib.py lib asan && python3 build/build_lib.py gen",
    hooks=dict(guard="TINS_VERIF_HOOKS",
               enable="checks compile /repo/src/**/*.cpp directly with -DTINS_VERIF_HOOKS=1 (build/build_lib.py); the hooks are null function pointers unless a monitor installs a receiver",
               baseline_off_cmd="cmake --build /repo/_build -j16 && cmake --build /repo/_build --target tests -j16 && ctest --test-dir /repo/_build -j8 --timeout 900",
               source_commits=checks.HOOK_COMMITS, add_only=True),
    engines=[dict(name="vcheck", path="bin/vcheck", serves_properties=sorted(checks.PROPS.keys()),
                  kind_free_text="driver: rebuilds libtins from /repo's working tree per sanitizer flavor, runs monitor programs as parallel workers, "
                                 "classifies oracle violations and sanitizer aborts into keys, matches known-findings.txt, writes evidence")],
    checks=[], not_applicable=[],
    notes="Runtime monitoring and sanitizers only. See DESIGN.md. exit 0 = held on everything explored, 1 = VIOLATION line(s), 2 = inconclusive/harness failure.")
for pid in props:
    c = checks.PROPS.get(pid)
    if not c or c.get("disabled"):
        man["not_applicable"].append(dict(property_id=pid, reason=(c or {}).get("disabled", "monitor not built yet in this revision of /verif (work in progress; see DESIGN.md section 5 for the planned oracle)")))
        continue
    man["checks"].append(dict(
        property_id=pid,
        quick_cmd="bin/vcheck %s --tier quick" % pid,
        thorough_cmd="bin/vcheck %s --tier thorough" % pid,
        evidence_file="evidence/%s.json" % pid,
        replay_cmd_template="bin/vcheck %s --replay {path}" % pid,
        engine="vcheck",
        level_claimed=dict(category=c.get("level", "exploration"), text=c["level_text"], design_ref=c.get("design_ref", "DESIGN.md section 5 (%s)" % pid)),
        level_note=c["level_note"], technique=c["technique"]))
json.dump(man, open(os.path.join(VERIF, "MANIFEST.json"), "w"), indent=1)
print("MANIFEST.json: %d checks, %d not_applicable" % (len(man["checks"]), len(man["not_applicable"])))
