#!/bin/sh
# soak.sh <tier> <seed>... : every registered check at the given seeds; one line per run into validation/soak.log
TIER="$1"; shift
cd /verif
for S in "$@"; do
  for P in ${SOAK_PROPS:-$(python3 -c "import sys; sys.path.insert(0,'bin'); import checks; print(' '.join(sorted(checks.PROPS)))")}; do
    T0=$(date +%s)
    VERIF_SEED=$S VERIF_RUNTAG=soak bin/vcheck $P --tier $TIER > .run/soak_$P.log 2>&1; RC=$?
    T1=$(date +%s)
    echo "$(date -u +%H:%M) $P tier=$TIER seed=$S rc=$RC wall=$((T1-T0))s $(grep -c '^VIOLATION' .run/soak_$P.log) violations; $(tail -1 .run/soak_$P.log | cut -c1-160)" >> validation/soak.log
    [ $RC -ne 0 ] && grep '^VIOLATION\|^INCONCLUSIVE' .run/soak_$P.log | cut -c1-400 >> validation/soak.log
  done
done
