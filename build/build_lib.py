#!/usr/bin/env python3
"""Build libtins from /repo's *current working tree* in a sanitizer "flavor", plus the
generated describe tables and a monitor program. Everything is cached under
/verif/.cache/<flavor>-<hash of the tree + flags>, so an edited tree is always rebuilt.
"""
import hashlib, os, sys, subprocess, json, re, shutil, glob, time, fcntl, contextlib
from concurrent.futures import ThreadPoolExecutor

VERIF = os.path.dirname(os.path.dirname(os.path.abspath(__file__)))
REPO = os.environ.get("VERIF_REPO", "/repo")
CACHE = os.path.join(VERIF, ".cache")
JOBS = int(os.environ.get("VERIF_JOBS", "16"))

COMMON = ["-g", "-fno-omit-frame-pointer", "-DTINS_STATIC=1", "-DTINS_VERIF_HOOKS=1",
          "-DHAVE_PCAP_IMMEDIATE_MODE=1", "-DHAVE_PCAP_TIMESTAMP_PRECISION=1", "-w"]
FLAVORS = {
    "asan": dict(cxx="g++", flags=["-O1", "-fsanitize=address,undefined", "-fno-sanitize=enum,null",
                                    "-fno-sanitize-recover=all", "-D_GLIBCXX_SANITIZE_VECTOR"]),
    "cov": dict(cxx="g++", flags=["-O1", "-fsanitize-coverage=trace-pc"], hflags=["-DVERIF_COV=1"], harness_flags=["-O1"]),  # harness itself uninstrumented (callback would recurse)
    "tsan": dict(cxx="g++", flags=["-O1", "-fsanitize=thread"]),
    "rel": dict(cxx="g++", flags=["-O2", "-DNDEBUG"]),
    "vg": dict(cxx="g++", flags=["-O1"]),
    "gcov": dict(cxx="g++", flags=["-O0", "--coverage"], link=["--coverage"]),     # bin/coverage_audit.py: which libtins code the monitors' workloads reach
    "fuzz": dict(cxx="clang++-14", flags=["-O1", "-fsanitize=fuzzer-no-link,address,undefined",
                                         "-fno-sanitize=enum,object-size", "-fno-sanitize-recover=all"],
                 link=["-fsanitize=fuzzer,address,undefined"]),
}


@contextlib.contextmanager
def locked(name):
    """Serialise concurrent vcheck processes that would build into the same cache entry."""
    os.makedirs(CACHE, exist_ok=True)
    f = open(os.path.join(CACHE, "lock-" + re.sub(r"\W+", "_", name)), "w")
    try:
        fcntl.flock(f, fcntl.LOCK_EX)
        yield
    finally:
        fcntl.flock(f, fcntl.LOCK_UN); f.close()


def sh(cmd, **kw):
    return subprocess.run(cmd, capture_output=True, text=True, **kw)


def tree_files():
    out = []
    for root in ("src", "include"):
        for d, _, fs in os.walk(os.path.join(REPO, root)):
            for f in fs:
                if f.endswith((".cpp", ".h", ".in")):
                    out.append(os.path.join(d, f))
    return sorted(out)


_tree_hash = None
def tree_hash():
    global _tree_hash
    if _tree_hash is None:
        h = hashlib.sha256()
        for f in tree_files():
            h.update(f.encode()); h.update(b"\0")
            with open(f, "rb") as fh:
                h.update(fh.read())
            h.update(b"\0")
        _tree_hash = h.hexdigest()
    return _tree_hash


def flavor_dir(flavor):
    fl = FLAVORS[flavor]
    key = hashlib.sha256((tree_hash() + flavor + " ".join(fl["flags"]) + " ".join(COMMON)).encode()).hexdigest()[:16]
    return os.path.join(CACHE, "%s-%s" % (flavor, key))


def config_inc(d):
    """-I dir providing tins/config.h when the tree does not have one."""
    cfg = os.path.join(REPO, "include", "tins", "config.h")
    if os.path.exists(cfg):
        return []
    inc = os.path.join(d, "inc")
    os.makedirs(os.path.join(inc, "tins"), exist_ok=True)
    src = open(os.path.join(REPO, "include", "tins", "config.h.in")).read()
    on = ["TINS_HAVE_CXX11", "TINS_HAVE_DOT11", "TINS_HAVE_WPA2_DECRYPTION", "TINS_HAVE_TCPIP",
          "TINS_HAVE_ACK_TRACKER", "TINS_HAVE_TCP_STREAM_CUSTOM_DATA", "TINS_HAVE_GCC_BUILTIN_SWAP",
          "TINS_HAVE_WPA2_CALLBACKS", "TINS_HAVE_PCAP"]
    def rep(m):
        return "#define %s" % m.group(1) if m.group(1) in on else "/* #undef %s */" % m.group(1)
    src = re.sub(r"#cmakedefine\s+(\w+)", rep, src)
    ver = {"MAJOR": "4", "MINOR": "6", "PATCH": "0"}
    try:
        cm = open(os.path.join(REPO, "CMakeLists.txt")).read()
        for k in ver:
            m = re.search(r"TINS_VERSION_%s\s+(\d+)" % k, cm)
            if m:
                ver[k] = m.group(1)
    except Exception:
        pass
    for k, v in ver.items():
        src = src.replace("${TINS_VERSION_%s}" % k, v)
    open(os.path.join(inc, "tins", "config.h"), "w").write(src)
    return ["-I", inc]


def prune(flavor, keep):
    """Remove stale cache dirs of this flavor (other tree hashes). Dirs touched in the last 90 minutes are
    kept: another check may be running from them (e.g. a mutant worktree via VERIF_REPO)."""
    now = time.time()
    for d in glob.glob(os.path.join(CACHE, flavor + "-*")):
        if d != keep:
            try:
                if now - os.path.getmtime(d) > 90 * 60:
                    shutil.rmtree(d, ignore_errors=True)
            except OSError:
                pass


def build_flavor(flavor, log=sys.stderr):
    with locked(os.path.basename(flavor_dir(flavor))):
        return _build_flavor(flavor, log)


def _build_flavor(flavor, log=sys.stderr):
    d = flavor_dir(flavor)
    lib = os.path.join(d, "libtins.a")
    if os.path.exists(lib) and os.path.exists(os.path.join(d, "ok")):
        os.utime(d, None)
        return d
    prune(flavor, d)
    os.makedirs(os.path.join(d, "obj"), exist_ok=True)
    fl = FLAVORS[flavor]
    inc = config_inc(d) + ["-I", os.path.join(REPO, "include")]
    srcs = []
    for dd, _, fs in os.walk(os.path.join(REPO, "src")):
        for f in fs:
            if f.endswith(".cpp"):
                srcs.append(os.path.join(dd, f))
    srcs.sort()
    t0 = time.time()
    def comp(s):
        o = os.path.join(d, "obj", hashlib.sha1(s.encode()).hexdigest()[:10] + "_" + os.path.basename(s)[:-4] + ".o")
        r = sh([fl["cxx"], "-std=c++11"] + COMMON + fl["flags"] + inc + ["-c", s, "-o", o])
        return (s, o, r.returncode, r.stderr)
    with ThreadPoolExecutor(JOBS) as ex:
        res = list(ex.map(comp, srcs))
    bad = [r for r in res if r[2] != 0]
    if bad:
        log.write("BUILD FAILED (%s):\n%s\n" % (flavor, bad[0][3][-4000:]))
        raise SystemExit(2)
    if os.path.exists(lib):
        os.remove(lib)
    r = sh(["ar", "rcs", lib] + [r[1] for r in res])
    if r.returncode != 0:
        log.write(r.stderr); raise SystemExit(2)
    open(os.path.join(d, "ok"), "w").write(json.dumps({"flavor": flavor, "tree": tree_hash(), "secs": time.time() - t0, "sources": len(srcs)}))
    log.write("[build] %s: %d sources in %.1fs\n" % (flavor, len(srcs), time.time() - t0))
    return d


def gen_dir():
    key = hashlib.sha256((tree_hash() + open(os.path.join(VERIF, "build", "gen_describe.py")).read()
                          + open(os.path.join(VERIF, "harness", "common", "view.h")).read()
                          + open(os.path.join(VERIF, "harness", "common", "view_put.h")).read()
                          + open(os.path.join(VERIF, "harness", "common", "view_impl.cpp")).read()
                          + open(os.path.join(VERIF, "harness", "common", "gen_probe.cpp")).read()).encode()).hexdigest()[:16]
    return os.path.join(CACHE, "gen-%s" % key)


def gen_with_probe(log=sys.stderr):
    with locked(os.path.basename(gen_dir())):
        return _gen_with_probe(log)


def _gen_with_probe(log=sys.stderr):
    """Generate gen_tins.inc from the current headers; drop generated lines the compiler
    rejects (recorded in dropped.json and shown in evidence as 'not swept')."""
    d = gen_dir()
    inc_file = os.path.join(d, "gen_tins.inc")
    if os.path.exists(os.path.join(d, "ok")):
        os.utime(d, None)
        return d
    prune("gen", d)
    os.makedirs(d, exist_ok=True)
    cinc = config_inc(d)
    dropped = []
    t0 = time.time()
    for rnd in range(8):
        dj = os.path.join(d, "dropped.json")
        json.dump(dropped, open(dj, "w"))
        r = sh([sys.executable, os.path.join(VERIF, "build", "gen_describe.py"), REPO, inc_file, "--drop", dj] + cinc)
        if r.returncode != 0:
            log.write("gen_describe failed: " + r.stderr[-2000:] + "\n"); raise SystemExit(2)
        stats = r.stdout.strip().split("\n")[-1]
        p = sh(["g++", "-std=gnu++17", "-fsyntax-only", "-fmax-errors=0", "-w"] + COMMON + cinc +
               ["-I", os.path.join(REPO, "include"), "-I", d, "-I", os.path.join(VERIF, "harness", "common"),
                os.path.join(VERIF, "harness", "common", "gen_probe.cpp")])
        if p.returncode == 0:
            lines = open(inc_file).read().split("\n")
            info = {"stats": json.loads(stats), "dropped": dropped, "rounds": rnd + 1, "secs": time.time() - t0}
            # describe which lines were dropped, in readable form
            json.dump(info, open(os.path.join(d, "ok"), "w"))
            log.write("[gen] describe tables: %s, dropped %d lines in %d rounds (%.1fs)\n" % (stats, len(dropped), rnd + 1, time.time() - t0))
            return d
        lines = open(inc_file).read().split("\n")
        bad = set()
        for m in re.finditer(r"gen_tins\.inc:(\d+):\d+: (?:error|  required from|note)", p.stderr):
            pass
        for m in re.finditer(r"gen_tins\.inc:(\d+):\d+:\s+(error|required from here|required from)", p.stderr):
            ln = int(m.group(1)) - 1
            if 0 <= ln < len(lines):
                mm = re.search(r"/\*@([0-9a-f]{12})\*/", lines[ln])
                if mm:
                    bad.add((mm.group(1), lines[ln].split("/*@")[0].strip()))
        if not bad:
            # errors "in expansion of macro" lines
            for m in re.finditer(r"gen_tins\.inc:(\d+):", p.stderr):
                ln = int(m.group(1)) - 1
                if 0 <= ln < len(lines):
                    mm = re.search(r"/\*@([0-9a-f]{12})\*/", lines[ln])
                    if mm:
                        bad.add((mm.group(1), lines[ln].split("/*@")[0].strip()))
        if not bad:
            log.write("gen probe failed without attributable lines:\n" + p.stderr[:6000] + "\n")
            raise SystemExit(2)
        have = set(x for x in dropped)
        for (i, txt) in sorted(bad):
            if i not in have:
                dropped.append(i)
        open(os.path.join(d, "dropped.txt"), "a").write("".join("%s %s\n" % b for b in sorted(bad)))
    log.write("gen probe did not converge\n")
    raise SystemExit(2)


def corpus(log=sys.stderr):
    with locked("corpus"):
        return _corpus(log)


def _corpus(log=sys.stderr):
    """Seed corpus extracted from the unit tests of the current tree + /verif/corpus/*.hex."""
    h = hashlib.sha256()
    fs = sorted(glob.glob(os.path.join(REPO, "tests", "src", "**", "*.cpp"), recursive=True)) + sorted(glob.glob(os.path.join(VERIF, "corpus", "*.hex")))
    fs.append(os.path.join(VERIF, "build", "extract_seeds.py"))
    for f in fs:
        h.update(open(f, "rb").read())
    d = os.path.join(CACHE, "corpus-%s" % h.hexdigest()[:16])
    out = os.path.join(d, "seeds.txt")
    if os.path.exists(out):
        os.utime(d, None)
        return out
    prune("corpus", d)
    os.makedirs(d, exist_ok=True)
    r = sh([sys.executable, os.path.join(VERIF, "build", "extract_seeds.py"), REPO, VERIF, out + ".tmp"])
    if r.returncode != 0:
        log.write("extract_seeds failed: " + r.stderr[-2000:] + "\n"); raise SystemExit(2)
    os.rename(out + ".tmp", out)
    log.write("[corpus] %s seeds\n" % r.stdout.strip())
    return out


def build_view_impl(flavor, fd, gd, log):
    with locked(os.path.basename(fd) + "-view"):
        return _build_view_impl(flavor, fd, gd, log)


def _build_view_impl(flavor, fd, gd, log):
    """view_impl.cpp (generated describe machinery) compiled once per flavor/tree/generator state."""
    fl = FLAVORS[flavor]
    h = hashlib.sha256()
    for f in sorted(glob.glob(os.path.join(VERIF, "harness", "common", "*"))):
        h.update(open(f, "rb").read())
    h.update(gd.encode())
    out = os.path.join(fd, "view_impl-%s.o" % h.hexdigest()[:12])
    if os.path.exists(out):
        return out
    for old in glob.glob(os.path.join(fd, "view_impl-*.o")):
        os.remove(old)
    t0 = time.time()
    cmd = ([fl["cxx"], "-std=gnu++17"] + COMMON + fl.get("harness_flags", fl["flags"]) + fl.get("hflags", []) + config_inc(fd) +
           ["-I", os.path.join(REPO, "include"), "-I", gd, "-I", os.path.join(VERIF, "harness", "common"),
            "-c", os.path.join(VERIF, "harness", "common", "view_impl.cpp"), "-o", out + ".tmp"])
    r = sh(cmd)
    if r.returncode != 0:
        log.write("view_impl BUILD FAILED (%s):\n%s\n" % (flavor, r.stderr[-6000:])); raise SystemExit(2)
    os.rename(out + ".tmp", out)
    log.write("[build] %s/view_impl in %.1fs\n" % (flavor, time.time() - t0))
    return out


def build_harness(src, flavor, log=sys.stderr, extra=None):
    with locked("harness-%s-%s" % (flavor, src)):
        return _build_harness(src, flavor, log, extra)


def _build_harness(src, flavor, log=sys.stderr, extra=None):
    """Compile harness/<src> against the flavor; returns path of the binary."""
    fd = build_flavor(flavor, log)
    gd = gen_with_probe(log)
    fl = FLAVORS[flavor]
    srcp = os.path.join(VERIF, "harness", src)
    _src = open(srcp).read()
    uses_view = ('#include "view' in _src) or ('#include "inputs.h"' in _src)
    extra = list(extra or [])
    pre = [build_view_impl(flavor, fd, gd, log)] if uses_view else []
    deps = [srcp] + sorted(glob.glob(os.path.join(VERIF, "harness", "common", "*.h")))
    h = hashlib.sha256()
    for f in deps:
        h.update(open(f, "rb").read())
    h.update(gd.encode()); h.update(" ".join(extra or []).encode())
    out = os.path.join(fd, "%s-%s" % (os.path.basename(src)[:-4], h.hexdigest()[:12]))
    if os.path.exists(out):
        return out
    for old in glob.glob(os.path.join(fd, os.path.basename(src)[:-4] + "-*")):
        os.remove(old)
    t0 = time.time()
    cmd = ([fl["cxx"], "-std=gnu++17"] + COMMON + fl.get("harness_flags", fl["flags"]) + fl.get("hflags", []) + config_inc(fd) +
           ["-I", os.path.join(REPO, "include"), "-I", gd, "-I", os.path.join(VERIF, "harness", "common"),
            srcp, "-o", out + ".tmp"] + pre + [os.path.join(fd, "libtins.a"), "-lpcap", "-lcrypto", "-lpthread", "-ldl", "-no-pie"] +
           fl.get("link", []) + (extra or []))
    r = sh(cmd)
    if r.returncode != 0:
        log.write("HARNESS BUILD FAILED (%s, %s):\n%s\n" % (src, flavor, r.stderr[-6000:]))
        raise SystemExit(2)
    os.rename(out + ".tmp", out)
    log.write("[build] %s/%s in %.1fs\n" % (flavor, os.path.basename(src), time.time() - t0))
    return out


if __name__ == "__main__":
    if len(sys.argv) >= 2 and sys.argv[1] == "gen":
        print(gen_with_probe())
    elif len(sys.argv) >= 3 and sys.argv[1] == "lib":
        print(build_flavor(sys.argv[2]))
    elif len(sys.argv) >= 4 and sys.argv[1] == "harness":
        print(build_harness(sys.argv[2], sys.argv[3]))
    else:
        print("usage: build_lib.py gen | lib <flavor> | harness <src> <flavor>")
