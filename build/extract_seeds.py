#!/usr/bin/env python3
"""Pull every `uint8_t name[] = { ... }` byte array out of /repo/tests/src/**.cpp (the packets the unit
tests parse) plus the committed hand-made inputs under /verif/corpus/*.hex, into one text file:
one seed per line  "<tag> <hex>". Usage: extract_seeds.py <repo> <verif> <out>"""
import re, sys, os, glob
repo, verif, out = sys.argv[1], sys.argv[2], sys.argv[3]
seeds = []
for f in sorted(glob.glob(os.path.join(repo, "tests", "src", "**", "*.cpp"), recursive=True)):
    src = open(f, errors="replace").read()
    src = re.sub(r"//[^\n]*", "", src); src = re.sub(r"/\*.*?\*/", "", src, flags=re.S)
    base = os.path.basename(f)[:-4]
    def parse_list(body):
        bs = []
        for tok in body.replace("\n", " ").split(","):
            tok = tok.strip()
            if not tok:
                continue
            try:
                v = ord(tok[1]) if (tok.startswith("'") and len(tok) == 3) else int(tok, 0)
            except ValueError:
                return None
            if not 0 <= v <= 255:
                return None
            bs.append(v)
        return bytes(bs) if bs else None
    for m in re.finditer(r"(?:uint8_t|unsigned char|u_char)\s+([\w:]+)\s*((?:\[[^\]]*\])+)\s*=\s*", src):
        name = m.group(1); i = m.end()
        if i >= len(src):
            continue
        if src[i] == '{':
            depth = 0; j = i
            while j < len(src):
                if src[j] == '{': depth += 1
                elif src[j] == '}':
                    depth -= 1
                    if depth == 0: break
                j += 1
            body = src[i + 1:j]
            if '{' in body:
                for k, mm in enumerate(re.finditer(r"\{([^{}]*)\}", body)):
                    b = parse_list(mm.group(1))
                    if b: seeds.append(("%s:%s.%d" % (base, name, k), b))
            else:
                b = parse_list(body)
                if b: seeds.append(("%s:%s" % (base, name), b))
        elif src[i] == '"':
            # adjacent string literals with \x escapes
            mm = re.match(r'((?:"(?:[^"\\]|\\.)*"\s*)+)', src[i:])
            if mm:
                lit = "".join(re.findall(r'"((?:[^"\\]|\\.)*)"', mm.group(1)))
                try:
                    b = lit.encode("latin1").decode("unicode_escape").encode("latin1")
                    if b: seeds.append(("%s:%s" % (base, name), b))
                except Exception:
                    pass
    # rows of a 2D array are padded with zeros up to the widest row: a sibling "<name>_size[]" array gives the real lengths
    for m in re.finditer(r"([\w:]+)_size\s*\[\s*\]\s*=\s*\{([^{}]*)\}", src):
        try:
            sizes = [int(t.strip(), 0) for t in m.group(2).split(",") if t.strip()]
        except ValueError:
            continue
        for k, n in enumerate(sizes):
            tag = "%s:%s.%d" % (base, m.group(1), k)
            for i, (t, b) in enumerate(seeds):
                if t == tag and n <= len(b):
                    seeds[i] = (t, b[:n])
for f in sorted(glob.glob(os.path.join(verif, "corpus", "*.hex"))):
    for i, line in enumerate(open(f)):
        line = line.split("#")[0].strip()
        if not line:
            continue
        parts = line.split()
        tag = parts[0] if len(parts) > 1 else "%s:%d" % (os.path.basename(f)[:-4], i)
        hx = parts[-1]
        try:
            seeds.append(("corpus:" + tag, bytes.fromhex(hx)))
        except ValueError:
            pass
seen = set(); n = 0
with open(out, "w") as o:
    for tag, b in seeds:
        if b in seen:
            continue
        seen.add(b); n += 1
        o.write("%s %s\n" % (tag, b.hex()))
print(n)
