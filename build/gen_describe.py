#!/usr/bin/env python3
"""Scan the libtins headers of the *current* tree (after running the real C
preprocessor over them, so macros and #if branches are resolved) and emit
gen_tins.inc: describe() functions that call every public no-argument const
getter of every class, field-wise printers for the plain option structs,
the setter/getter pair table (C15), the from-buffer entry point table (C01)
and the PDU class table (C13).

Usage: gen_describe.py <repo> <out.inc> [--drop FILE_WITH_IDS]
Every droppable generated line carries a trailing  /*@ID*/  so that the driver
can remove lines the compiler rejects (see build_lib.py: gen_with_probe).
"""
import re, subprocess, sys, os, json

EXTRA_HEADERS = ["tins/tins.h", "tins/pktap.h", "tins/loopback.h",
                 "tins/tcp_ip/stream_follower.h", "tins/tcp_ip/ack_tracker.h",
                 "tins/tcp_ip/data_tracker.h", "tins/tcp_ip/flow.h", "tins/tcp_ip/stream.h",
                 "tins/utils/radiotap_parser.h", "tins/utils/radiotap_writer.h",
                 "tins/icmp_extension.h", "tins/offline_packet_filter.h"]


def preprocess(repo, incdir_extra):
    src = "".join('#include <%s>\n' % h for h in EXTRA_HEADERS)
    cmd = ["g++", "-E", "-std=c++11", "-DTINS_STATIC=1", "-DTINS_VERIF_HOOKS=1", "-x", "c++", "-"]
    for d in incdir_extra:
        cmd += ["-I", d]
    cmd += ["-I", os.path.join(repo, "include")]
    out = subprocess.run(cmd, input=src, capture_output=True, text=True)
    if out.returncode != 0:
        sys.stderr.write(out.stderr)
        raise SystemExit("preprocess failed")
    files = {}
    order = []
    cur = None
    inc_root = os.path.realpath(os.path.join(repo, "include", "tins"))
    for line in out.stdout.split("\n"):
        m = re.match(r'#\s+(\d+)\s+"([^"]+)"', line)
        if m:
            path = m.group(2)
            rp = os.path.realpath(path) if path.startswith("/") else path
            if rp.startswith(inc_root + "/") and not rp.endswith("config.h"):
                cur = rp[len(inc_root) + 1:]
                if cur not in files:
                    files[cur] = []
                    order.append(cur)
            else:
                cur = None
            continue
        if line.startswith("#"):
            continue
        if cur is not None:
            files[cur].append(line)
    return [(f, "\n".join(files[f])) for f in order]


class Cls:
    def __init__(self, name, qual, kind, bases, templ, access_of_decl, file):
        self.name = name; self.qual = qual; self.kind = kind; self.bases = bases
        self.templ = templ; self.decl_access = access_of_decl; self.file = file
        self.getters = []      # (ret, name)
        self.setters = []      # (name, argtype)
        self.members = []      # (type, name) public data members
        self.has_buf_ctor = False
        self.has_default_ctor = None   # None = no ctor seen
        self.any_ctor = False
        self.public_ctor = False
        self.pure = False
        self.statics = []      # (ret, name, args)
        self.typedefs = {}
        self.nested = []
        self.outer_public = True


def match_brace(text, i):
    """text[i] == '{' -> index just after the matching '}'"""
    depth = 0
    n = len(text)
    while i < n:
        c = text[i]
        if c == '{':
            depth += 1
        elif c == '}':
            depth -= 1
            if depth == 0:
                return i + 1
        elif c == '"':
            i += 1
            while i < n and text[i] != '"':
                if text[i] == '\\':
                    i += 1
                i += 1
        elif c == "'":
            i += 1
            while i < n and text[i] != "'":
                if text[i] == '\\':
                    i += 1
                i += 1
        i += 1
    return n


CLASS_RE = re.compile(r'(?:^|\s)(class|struct|union)\s+(?:__attribute__\s*\(\(.*?\)\)\s*)*([A-Za-z_]\w*)?\s*(?:final\s*)?(?::\s*([^{]*))?$', re.S)
NS_RE = re.compile(r'(?:^|\s)namespace\s+([A-Za-z_]\w*)?\s*$')
ENUM_RE = re.compile(r'(?:^|\s)enum\b[^;(]*$')
ACCESS_RE = re.compile(r'^\s*(public|private|protected)\s*:(?!:)')
FUNC_RE = re.compile(
    r'^(?P<pre>(?:(?:virtual|static|inline|explicit|constexpr|friend)\s+)*)'
    r'(?P<ret>[A-Za-z_][\w:<>,\s\*&]*?[\s\*&])??\s*'
    r'(?P<name>~?[A-Za-z_]\w*|operator\s*[^\s(]+|operator\s*\(\s*\))\s*'
    r'\((?P<args>.*)\)\s*(?P<post>(?:const|noexcept|override|final|throw\s*\(\s*\)|=\s*0|=\s*default|=\s*delete|\s)*)'
    r'(?::.*)?$', re.S)


def clean(s):
    s = re.sub(r'__attribute__\s*\(\(.*?\)\)', ' ', s, flags=re.S)
    return re.sub(r'\s+', ' ', s).strip()


def parse_scope(text, scope_qual, cls, classes, file, default_access):
    """Walk statements of a class body or namespace body."""
    i = 0
    n = len(text)
    buf_start = 0
    access = default_access
    paren = 0
    while i < n:
        c = text[i]
        if c == '(':
            paren += 1
        elif c == ')':
            paren -= 1
        elif c == '"':
            i += 1
            while i < n and text[i] != '"':
                if text[i] == '\\':
                    i += 1
                i += 1
        elif c == ':' and paren == 0 and cls is not None:
            head = text[buf_start:i + 1]
            m = ACCESS_RE.match(head)
            if m and (i + 1 >= n or text[i + 1] != ':'):
                access = m.group(1)
                buf_start = i + 1
        elif c == ';' and paren == 0:
            stmt = text[buf_start:i]
            handle_stmt(clean(stmt), False, cls, access, scope_qual)
            buf_start = i + 1
        elif c == '{' and paren == 0:
            head = clean(text[buf_start:i])
            end = match_brace(text, i)
            body = text[i + 1:end - 1]
            templ = head.startswith('template')
            h2 = re.sub(r'^template\s*<[^{]*?>\s*(?=class|struct|union)', '', head) if templ else head
            mns = NS_RE.search(h2)
            mcl = CLASS_RE.search(h2)
            if mns and cls is None:
                ns = mns.group(1)
                parse_scope(body, scope_qual + ([ns] if ns else []), None, classes, file, 'public')
                buf_start = end
                i = end
                continue
            elif h2.startswith('extern'):
                parse_scope(body, scope_qual, None, classes, file, 'public')
                buf_start = end
                i = end
                continue
            elif ENUM_RE.search(h2) and '(' not in h2:
                # skip to the ';'
                j = text.find(';', end)
                i = buf_start = (j + 1) if j >= 0 else end
                continue
            elif mcl and '(' not in h2 and '=' not in h2:
                kind, name, bases = mcl.group(1), mcl.group(2), mcl.group(3)
                j = text.find(';', end)
                trailer = text[end:j] if j >= 0 else ''
                if name:
                    bl = []
                    if bases:
                        for b in bases.split(','):
                            b = re.sub(r'\b(public|private|protected|virtual)\b', '', b).strip()
                            if b:
                                bl.append(b)
                    k = Cls(name, scope_qual + [name], kind, bl, templ, access, file)
                    k.outer_public = (cls is None) or (access == 'public' and cls.outer_public)
                    classes.append(k)
                    if cls is not None:
                        cls.nested.append(k)
                    parse_scope(body, scope_qual + [name], k, classes, file,
                                'private' if kind == 'class' else 'public')
                # anonymous struct/union members are ignored
                i = buf_start = (j + 1) if j >= 0 else end
                continue
            else:
                # function definition with body (or initializer)
                handle_stmt(head, True, cls, access, scope_qual)
                # a following ';' is harmless
                i = buf_start = end
                continue
        i += 1


def handle_stmt(stmt, has_body, cls, access, scope_qual):
    if cls is None or not stmt:
        return
    if stmt.startswith('template') or stmt.startswith('friend') or stmt.startswith('using'):
        return
    if stmt.startswith('typedef'):
        m = re.match(r'typedef\s+(.*?)\s*([A-Za-z_]\w*)$', stmt)
        if m and access == 'public':
            cls.typedefs[m.group(2)] = m.group(1)
        return
    if stmt.startswith('enum') or stmt.startswith('class ') or stmt.startswith('struct '):
        return
    if '(' in stmt:
        m = FUNC_RE.match(stmt)
        if not m:
            return
        name = m.group('name'); ret = (m.group('ret') or '').strip()
        args = m.group('args').strip(); post = m.group('post') or ''; pre = m.group('pre') or ''
        if '= 0' in post or re.search(r'=\s*0', post):
            cls.pure = True
        if name == cls.name and not ret:
            cls.any_ctor = True
            if '= delete' in post:
                return
            if access == 'public':
                cls.public_ctor = True
                if re.match(r'^const\s+uint8_t\s*\*\s*\w*\s*,\s*uint32_t\s*\w*$', args):
                    cls.has_buf_ctor = True
                # default-constructible: all args have defaults or no args
                if args == '' or args == 'void' or all('=' in a for a in split_args(args)):
                    cls.has_default_ctor = True
            return
        if name.startswith('~') or name.startswith('operator') or not ret:
            return
        if access != 'public':
            return
        is_const = bool(re.search(r'\bconst\b', post))
        if 'static' in pre:
            cls.statics.append((ret, name, args))
            return
        if (args == '' or args == 'void') and is_const and ret != 'void':
            cls.getters.append((ret, name))
        elif ret == 'void' and not is_const and args and len(split_args(args)) == 1:
            a = split_args(args)[0]
            a = re.sub(r'=.*$', '', a).strip()
            mt = re.match(r'^(.*?)([A-Za-z_]\w*)$', a)
            at = mt.group(1).strip() if mt and mt.group(1).strip() else a
            cls.setters.append((name, at))
        return
    # data member(s)
    if access != 'public' or has_body:
        return
    if stmt.startswith('static'):
        return
    m = re.match(r'^(?:mutable\s+)?([A-Za-z_][\w:<>,\s\*&]*?)\s+([A-Za-z_]\w*(?:\s*:\s*\d+)?(?:\s*\[[^\]]*\])?(?:\s*,\s*[A-Za-z_]\w*(?:\s*:\s*\d+)?(?:\s*\[[^\]]*\])?)*)$', stmt)
    if m:
        t = m.group(1)
        for nm in m.group(2).split(','):
            nm = nm.strip()
            arr = '[' in nm
            nm2 = re.sub(r'\s*:\s*\d+$', '', nm)
            nm2 = re.sub(r'\s*\[.*$', '', nm2)
            cls.members.append((t, nm2, arr))


def split_args(args):
    out = []; depth = 0; cur = ''
    for ch in args:
        if ch in '<([':
            depth += 1
        elif ch in '>)]':
            depth -= 1
        if ch == ',' and depth == 0:
            out.append(cur.strip()); cur = ''
        else:
            cur += ch
    if cur.strip():
        out.append(cur.strip())
    return out


def main():
    repo = sys.argv[1]; outp = sys.argv[2]
    drop = set()
    incx = []
    a = sys.argv[3:]
    while a:
        if a[0] == '--drop':
            drop = set(json.load(open(a[1]))); a = a[2:]
        elif a[0] == '-I':
            incx.append(a[1]); a = a[2:]
        else:
            a = a[1:]
    files = preprocess(repo, incx)
    classes = []
    for f, text in files:
        parse_scope(text, [], None, classes, f, 'public')
    # index by qualified name
    byq = {}
    for k in classes:
        q = '::'.join(k.qual)
        if q in byq:   # duplicate (forward parse) keep the richer one
            if len(k.getters) + len(k.members) <= len(byq[q].getters) + len(byq[q].members):
                continue
        byq[q] = k
    classes = [k for k in byq.values()]
    tins = [k for k in classes if k.qual[0] == 'Tins' and not k.templ and k.outer_public
            and 'Internals' not in k.qual and 'Memory' not in k.qual and 'Verif' not in k.qual]
    # nested inside a template class -> skip
    templ_quals = set('::'.join(k.qual) for k in classes if k.templ)
    def inside_templ(k):
        for i in range(1, len(k.qual)):
            if '::'.join(k.qual[:i]) in templ_quals:
                return True
        return False
    tins = [k for k in tins if not inside_templ(k)]

    def resolve_base(k, b):
        b = b.strip()
        b = re.sub(r'^Tins::', '', b)
        # search scopes outward
        for i in range(len(k.qual) - 1, 0, -1):
            q = '::'.join(k.qual[:i] + [b])
            if q in byq:
                return byq[q]
        return byq.get('Tins::' + b)

    def ancestors(k, seen=None):
        out = []
        for b in k.bases:
            bk = resolve_base(k, b)
            if bk is not None and bk not in out:
                out.append(bk)
                for a2 in ancestors(bk):
                    if a2 not in out:
                        out.append(a2)
        return out

    pdu = byq.get('Tins::PDU')
    lines = []
    ident = [0]
    def emit(s, droppable=True):
        if droppable:
            ident[0] += 1
            idv = 'L%d_%s' % (ident[0], re.sub(r'\W', '_', s)[:60])
            # stable id: content hash instead of counter
            import hashlib
            idv = hashlib.sha1(s.encode()).hexdigest()[:12]
            if idv in drop:
                lines.append('/* dropped %s */' % idv)
                return
            lines.append(s + ' /*@%s*/' % idv)
        else:
            lines.append(s)

    SKIP_GETTERS = {'clone', 'inner_pdu', 'parent_pdu', 'serialize', 'begin', 'end', 'release_inner_pdu'}
    tins.sort(key=lambda k: '::'.join(k.qual))
    stats = {'classes': 0, 'getters': 0, 'pairs': 0, 'structs': 0, 'entries': 0, 'pdu_classes': 0}

    # ---- struct printers (plain public-data structs, nested or not)
    printable = [k for k in tins if k.members and k.kind in ('struct', 'class') and k is not pdu]
    emit('#ifdef VF_GEN_PROTOS', False)
    for k in printable:
        q = '::'.join(k.qual)
        emit('VF_STRUCT_PROTO(%s)' % q)
    pset = set(id(k) for k in printable)
    NOPRINT = {'IPv4Address', 'IPv6Address', 'NetworkInterface', 'PacketSender', 'BaseSniffer', 'Sniffer', 'FileSniffer',
               'Packet', 'PtrPacket', 'RSNHandshakeCapturer', 'TCPStream', 'PacketWriter', 'SnifferConfiguration'}
    classprint = [k for k in tins if k.getters and id(k) not in pset and k is not pdu and (pdu is None or pdu not in ancestors(k))
                  and k.name not in NOPRINT and 'TCPIP' not in k.qual and 'Crypto' not in k.qual]
    for k in classprint:
        q = '::'.join(k.qual)
        emit('VF_CLASS_PROTO(%s, %s)' % (q, 'describe__' + '__'.join(k.qual[1:])))
    emit('#endif', False)
    emit('#ifdef VF_GEN_CLASS_PUT', False)
    for k in classprint:
        q = '::'.join(k.qual)
        emit('VF_CLASS_PUT(%s, %s)' % (q, 'describe__' + '__'.join(k.qual[1:])))
    emit('#endif', False)
    emit('#ifdef VF_GEN_STRUCT_DEFS', False)
    for k in printable:
        q = '::'.join(k.qual)
        # a struct line is dropped as a whole if any member is rejected
        body = ' '.join('VF_MEMBER(%s)' % nm for (t, nm, arr) in k.members if not arr)
        emit('VF_STRUCT_DEF(%s, %s)' % (q, body))
        stats['structs'] += 1
    emit('#endif', False)

    # ---- describe per class
    desc = [k for k in tins if k.getters and (k is pdu or pdu in ancestors(k) or (k.name not in NOPRINT and 'TCPIP' not in k.qual and 'Crypto' not in k.qual and 'Utils' not in k.qual))]
    emit('#ifdef VF_GEN_DESCRIBE', False)
    for k in desc:
        q = '::'.join(k.qual)
        fn = 'describe__' + '__'.join(k.qual[1:])
        emit('VF_DESCRIBE_BEGIN(%s, %s)' % (fn, q), False)
        seen = set()
        for (ret, name) in k.getters:
            if name in SKIP_GETTERS or name in seen:
                continue
            seen.add(name)
            emit('  VF_GET(%s, %s, %s)' % (q, '.'.join(k.qual[1:]), name))
            stats['getters'] += 1
        emit('VF_DESCRIBE_END()', False)
        stats['classes'] += 1
    emit('#endif', False)

    # ---- dispatch for PDU subclasses: most derived first
    pdus = [k for k in tins if pdu in ancestors(k)]
    pdus.sort(key=lambda k: (-len(ancestors(k)), '::'.join(k.qual)))
    emit('#ifdef VF_GEN_DISPATCH', False)
    for k in pdus:
        q = '::'.join(k.qual)
        chain = [k] + [a for a in ancestors(k) if a is not pdu]
        fns = [('describe__' + '__'.join(c.qual[1:])) for c in chain if c.getters]
        calls = ' '.join('%s(*q, v);' % f for f in fns)
        emit('VF_DISPATCH(%s, %s, { %s })' % (q, k.name, calls))
    emit('#endif', False)

    # ---- PDU classes (C13) and entry points (C01)
    emit('#ifdef VF_GEN_CLASSES', False)
    for k in sorted(pdus, key=lambda k: '::'.join(k.qual)):
        q = '::'.join(k.qual)
        concrete = (not k.pure) and (k.public_ctor or not k.any_ctor)
        emit('VF_PDU_CLASS(%s, %s, %d, %d, %d)' % (q, k.name, 1 if concrete else 0,
             1 if (k.has_default_ctor or not k.any_ctor) else 0, 1 if k.has_buf_ctor else 0))
        stats['pdu_classes'] += 1
    emit('#endif', False)
    emit('#ifdef VF_GEN_ENTRIES', False)
    for k in tins:
        if k.has_buf_ctor and not k.pure:
            q = '::'.join(k.qual)
            ispdu = pdu in ancestors(k)
            fn = 'describe__' + '__'.join(k.qual[1:]) if k.getters else 'describe__none'
            emit('VF_ENTRY(%s, %s, %d, %s)' % (q, '_'.join(k.qual[1:]), 1 if ispdu else 0, fn))
            stats['entries'] += 1
    emit('#endif', False)

    # ---- setter/getter pairs (C15)
    upairs = set()
    emit('#ifdef VF_GEN_FIELDS', False)
    for k in pdus:
        if k.pure:
            continue
        q = '::'.join(k.qual)
        chain = [k] + [a for a in ancestors(k) if a is not pdu]
        seen = set()
        for c in chain:
            gn = dict((n, r) for (r, n) in c.getters)
            for (name, at) in c.setters:
                if name in gn and name not in seen:
                    seen.add(name)
                    emit('VF_FIELD(%s, %s, %s, %s)' % (q, k.name, name, '::'.join(c.qual)))
                    upairs.add(('::'.join(c.qual), name))
                    stats['pairs'] += 1
    emit('#endif', False)
    emit('#ifdef VF_GEN_UFIELDS', False)
    useen = set()
    for k in sorted(pdus, key=lambda k: (len(ancestors(k)), '::'.join(k.qual))):
        if k.pure or not ((not k.pure) and (k.public_ctor or not k.any_ctor)) or not (k.has_default_ctor or not k.any_ctor):
            continue
        q = '::'.join(k.qual)
        chain = [k] + [a for a in ancestors(k) if a is not pdu]
        for c in chain:
            gn = dict((n, r) for (r, n) in c.getters)
            for (name, at) in c.setters:
                key = ('::'.join(c.qual), name)
                if name in gn and key not in useen:
                    useen.add(key)
                    emit('VF_UFIELD(%s, %s, %s, %s, %s)' % (q, k.name, name, '::'.join(c.qual), c.name))
    emit('#endif', False)
    stats['unique_pairs'] = len(upairs)
    emit('// stats ' + json.dumps(stats), False)
    with open(outp, 'w') as f:
        f.write('\n'.join(lines) + '\n')
    print(json.dumps(stats))


if __name__ == '__main__':
    main()
