// C01 — parsing untrusted bytes is memory-safe and fails only as malformed_packet; every read-only
// accessor of an accepted packet is memory-safe, terminates and throws only libtins exceptions.
// Oracles: ASan/UBSan (abort -> driver), exception typing at the call boundary, per-input allocation
// balance (leak attribution), step budget under the `cov` flavor (termination).
#include "view.h"
#include "inputs.h"
using namespace Tins;
using namespace vf;

// ---- one input through one entry point --------------------------------------------------------------
struct Outcome { bool accepted = false; std::string chain; u64 view_hash = 0; u32 depth = 0; };
static bool g_cov = false;

static u64 g_budget = 0;
// step budget applies to each phase of a case separately: parse, each layer's accessor sweep, clone, destruction
static void budget_mark(const char* what) { if (!g_cov) return; if (st().a.verbose) fprintf(stderr, "[steps] %s %llu\n", what, (unsigned long long)steps_now()); cnt_max("max_steps_per_phase", steps_now()); if (g_budget) cnt_max("max_steps_permille_of_budget", steps_now() * 1000 / g_budget); steps_reset(); }
// accessor sweep of every layer; for very deep (but bounded) nestings the middle is sampled, because size() of each
// layer is itself linear in the depth (the sweep, not libtins, would otherwise be quadratic)
static u32 sweep(const PDU* p, View& v, std::string* chain) {
    u32 depth = 0; for (const PDU* q = p; q; q = q->inner_pdu()) depth++;
    u32 i = 0;
    for (const PDU* q = p; q; q = q->inner_pdu(), ++i) {
        if (depth > 256 && i >= 64 && i + 64 < depth && (i % 251)) continue;
        v.prefix = std::to_string(i) + ":"; const char* c = describe_layer(*q, v);
        if (chain && chain->size() < 600) { if (i) *chain += '/'; *chain += c; }
        budget_mark("layer");
    }
    v.prefix.clear();
    return depth;
}
static Outcome run_body(const Entry& e, const Bytes& in, bool report) {
    Outcome o; PDU* p = nullptr; View v;
    {
        ExactBuf buf(in);
        try {
            if (e.ispdu) p = e.parse(buf.data(), (u32)in.size());
            else { e.parse_other(buf.data(), (u32)in.size(), v); o.accepted = true; o.chain = e.name; }
        }
        catch (const malformed_packet&) {}
        catch (const exception_base& ex) { if (!e.ispdu) { /* record/option decoders are accessors: any libtins exception is allowed */ cnt("decoder_rejected_with_other_tins_exception"); } else if (report) violation("escaped-exception/" + demangle(typeid(ex).name()) + "/ctor:" + e.name, "parser let a non-malformed_packet libtins exception escape: " + std::string(ex.what())); }
        catch (const std::exception& ex) { if (report) violation("escaped-exception/" + demangle(typeid(ex).name()) + "/ctor:" + e.name, "parser let a foreign exception escape: " + std::string(ex.what())); }
        catch (...) { if (report) violation("escaped-exception/" + current_exception_type() + "/ctor:" + e.name, "parser let an unknown exception escape"); }
    }   // caller's buffer is freed here: a parser that kept a pointer into it is a use-after-free below
    if (p) {
        o.accepted = true;
        v.strict_exceptions = report;
        budget_mark("parse");
        // every layer; for very deep (but bounded) nestings the middle is sampled, because size() of each layer is
        // itself linear in the depth (the sweep, not libtins, would be quadratic)
        o.depth = sweep(p, v, &o.chain);
        // a clone is swept too; for every other input the ORIGINAL is destroyed first, so a clone that still refers to storage of its source
        // (a cached pointer copied member-wise) reads freed memory here
        const bool original_first = (in.size() & 1) != 0;
        try {
            PDU* c = p->clone(); if (original_first) { delete p; p = nullptr; cnt("clone_outlives_original"); }
            View v2; v2.strict_exceptions = report; sweep(c, v2, nullptr);
            if (report && v2.hash() != v.hash()) cnt("clone_view_differs(observed, C12's business)");
            (void)c->size(); if (original_first) { try { (void)c->serialize(); } catch (const std::exception&) {} }
            delete c; budget_mark("clone");
        } catch (const exception_base&) { cnt("clone_threw_tins_exception"); }
          catch (...) { if (report) violation("escaped-exception/" + current_exception_type() + "/clone:" + e.name, "clone()/size() of an accepted packet threw a non-libtins exception"); }
        delete p; budget_mark("destroy");
    }
    o.view_hash = v.hash();
    return o;
}

static u64 inputs_run = 0;
static void run_input(const Entry& e, const Bytes& in, const char* how) {
    if (in.size() > 65535) return;
    describe_case(std::string("entry=") + e.name + " how=" + how + " len=" + std::to_string(in.size()) + " hex=" + hex(in, 2048));
    if (g_cov) { g_budget = st().a.budget = 2000000ULL + 4000ULL * in.size(); steps_reset(); }
    size_t l0 = live_bytes();
    Outcome o = run_body(e, in, true);
    size_t l1 = live_bytes();
    if (g_cov) { budget_mark("end"); st().a.budget = 0; }
    if (l1 != l0 && !g_cov) {
        // first-use allocations (static counters, iostream buffers) do not repeat; a real leak does
        size_t m0 = live_bytes(); run_body(e, in, false); size_t m1 = live_bytes();
        size_t n0 = live_bytes(); run_body(e, in, false); size_t n1 = live_bytes();
        if (m1 != m0 && n1 != n0) violation("leak/" + e.name + (o.accepted ? "/accepted" : "/rejected"), "allocation balance: " + std::to_string((long)(n1 - n0)) + " bytes stay allocated after parse/describe/clone/destroy, repeatably");
        cnt("balance_rechecks");
    }
    ++inputs_run;
    cnt(o.accepted ? "ok:" + e.name : "rej:" + e.name);
    if (o.accepted) { sig(mix(fnv(e.name), mix(fnv(o.chain), o.view_hash))); cnt_max("max_layers", o.depth);
        if (want_sample() && o.depth >= 3 && in.size() < 120) sample("entry=" + e.name + " accepted chain=" + o.chain + " bytes=" + hex(in)); }
    else sig(mix(fnv(e.name), 0x1000000ULL + in.size()));
}

// ---- derived inputs ----------------------------------------------------------------------------------
static void truncations(const Entry& e, const Bytes& s, Rng& r) {
    if (s.size() <= 400) { for (size_t n = 0; n <= s.size(); ++n) run_input(e, Bytes(s.begin(), s.begin() + n), "trunc"); }
    else { for (size_t n = 0; n <= 64; ++n) run_input(e, Bytes(s.begin(), s.begin() + n), "trunc"); for (int i = 0; i < 120; ++i) { size_t n = r.below((u32)s.size()); run_input(e, Bytes(s.begin(), s.begin() + n), "trunc"); } for (size_t n = s.size() - 48; n <= s.size(); ++n) run_input(e, Bytes(s.begin(), s.begin() + n), "trunc"); }
}
// ---- nesting / density bombs (65535-byte inputs) ----------------------------------------------------------
static void bombs(Rng& r, long which) {
    auto ent = [&](const char* n) -> const Entry& { for (auto& e : entries) if (e.name == n) return e; return entries[0]; };
    switch (which) {
        case 0: { Bytes b; for (int i = 0; i < 16383; ++i) { b.push_back(0); b.push_back(0); b.push_back(i == 16382 ? 0x11 : 0x10); b.push_back(64); } run_input(ent("MPLS"), b, "bomb:mpls-16383"); break; }
        case 1: { Bytes b(12, 0x11); b.push_back(0x81); b.push_back(0x00); for (int i = 0; i < 16380; ++i) { b.push_back(0); b.push_back(1); b.push_back(0x81); b.push_back(0); } run_input(ent("EthernetII"), b, "bomb:vlan-16380"); break; }
        case 2: { Bytes b; u32 left = 65520; while (left >= 40) { b.push_back(0x45); b.push_back(0); b.push_back((u8)(left >> 8)); b.push_back((u8)left); Bytes rest = {0, 0, 0, 0, 64, 4, 0, 0, 1, 1, 1, 1, 2, 2, 2, 2}; b.insert(b.end(), rest.begin(), rest.end()); left -= 20; } b.resize(b.size() + left, 0); run_input(ent("IP"), b, "bomb:ipip-3275"); break; }
        case 3: { Bytes b = {0x11, 0x09, 0, 1, 0xff, 0xf8}; for (int i = 0; i < 16382; ++i) { b.push_back(1); b.push_back(1); b.push_back(0); b.push_back(0); } run_input(ent("PPPoE"), b, "bomb:pppoe-tags"); break; }
        case 4: { // DNS: 5900 records each a pointer into a 30-jump pointer chain
            Bytes b = {0, 1, 0x81, 0x80, 0, 0, 0x17, 0x0c, 0, 0, 0, 0};
            size_t base = b.size(); for (int i = 0; i < 30; ++i) { size_t tgt = base + 2 * (i + 1); b.push_back(0xc0 | (u8)(tgt >> 8)); b.push_back((u8)tgt); } b.push_back(1); b.push_back('a'); b.push_back(0);
            while (b.size() + 12 < 65535) { b.push_back(0xc0); b.push_back((u8)base); Bytes rr = {0, 1, 0, 1, 0, 0, 0, 1, 0, 0}; b.insert(b.end(), rr.begin(), rr.end()); }
            run_input(ent("DNS"), b, "bomb:dns-pointer-chains"); break; }
        case 5: { Bytes b(20, 0); b[0] = 0x50; b[12] = 0xf0; for (int i = 0; i < 40; ++i) b.push_back(1); b.resize(65535, 0x41); run_input(ent("TCP"), b, "bomb:tcp-40-nops-64k"); break; }
        case 6: { Bytes b = {0x60, 0, 0, 0, 0xff, 0xd7, 0, 64}; b.resize(40, 1); u32 left = 65495; while (left >= 8) { b.push_back(left >= 16 ? 0 : 59); b.push_back(0); b.insert(b.end(), 6, 0); left -= 8; } run_input(ent("IPv6"), b, "bomb:ipv6-8k-ext-headers"); break; }
        case 7: { Bytes b(4, 0); b[0] = 135; b.resize(24, 0); while (b.size() + 8 <= 65535) { b.push_back((u8)(1 + r.below(30))); b.push_back(1); b.insert(b.end(), 6, 0xee); } run_input(ent("ICMPv6"), b, "bomb:icmpv6-8k-options"); break; }
        case 8: { Bytes b(240, 0); b[236] = 99; b[237] = 130; b[238] = 83; b[239] = 99; while (b.size() + 3 <= 65535) { b.push_back((u8)(1 + r.below(250))); b.push_back(1); b.push_back(7); } run_input(ent("DHCP"), b, "bomb:dhcp-21k-options"); break; }
        case 9: { Bytes b(24, 0); b[0] = 0x80; b.resize(36, 0); while (b.size() + 2 <= 65535) { b.push_back((u8)r.below(256)); b.push_back(0); } run_input(ent("Dot11Beacon"), b, "bomb:dot11-32k-tags"); break; }
        case 10: { Bytes b(65535, 0xff); for (auto& e : entries) run_input(e, b, "bomb:all-ff-64k"); break; }
        case 11: { Bytes b(65535, 0x00); for (auto& e : entries) run_input(e, b, "bomb:all-00-64k"); break; }
        default: break;
    }
}

// ---- typed option decoders against hostile option bodies ------------------------------------------------------
// For every option-bearing class and every option code: a well-formed layer built by an independent byte encoder
// carrying one option of that code with every body length 0..48 and boundary-heavy contents (small counts, pad
// lengths around the body size, 0xff runs). Parsing accepts most of them; the accessor sweep then runs every typed
// getter whose code matches against that body.
static void optfuzz(long idx, Rng& r) {
    static const char* classes[] = {"ICMPv6", "ICMPv6/NS", "DHCP", "DHCPv6", "TCP", "IP", "Dot11Beacon", "Dot11AssocRequest", "PPPoE", "PPI"};
    const u32 K = 10; u32 which = (u32)(idx % K); u32 code = (u32)((idx / K) % 256);
    auto ent = [&](const char* n) -> const Entry& { for (auto& e : entries) if (e.name == n) return e; return entries[0]; };
    for (u32 L = 0; L <= 48; ++L) for (u32 variant = 0; variant < 5; ++variant) {
        Bytes body(L);
        for (u32 i = 0; i < L; ++i) switch (variant) { case 0: body[i] = 0; break; case 1: body[i] = 0xff; break; case 2: body[i] = (u8)r.edgy(8); break; case 3: body[i] = r.byte(); break; default: body[i] = (u8)(L - i + (long)r.below(5) - 2); }
        if (L && variant >= 2 && r.chance(1, 2)) body[0] = (u8)(L + (long)r.below(7) - 4);      // pad/count octets around the body size
        if (L > 1 && variant >= 2 && r.chance(1, 2)) body[1] = (u8)(L + (long)r.below(7) - 4);
        Bytes b; const char* entry = classes[which];
        switch (which) {
            case 0: case 1: { u32 units = (2 + L + 7) / 8; if (units > 255) continue; b = which == 0 ? Bytes{134, 0, 0, 0, 64, 0, 0, 30, 0, 0, 0, 0, 0, 0, 0, 0} : Bytes{135, 0, 0, 0, 0, 0, 0, 0, 0x20, 1, 0, 0, 0, 0, 0, 0, 0, 0, 0, 0, 0, 0, 0, 1};
                b.push_back((u8)code); b.push_back((u8)units); b.insert(b.end(), body.begin(), body.end()); b.resize(b.size() + units * 8 - 2 - L, 0); entry = "ICMPv6"; break; }
            case 2: { b.assign(236, 0); b[0] = 1; b[1] = 1; b[2] = 6; Bytes m = {99, 130, 83, 99}; b.insert(b.end(), m.begin(), m.end()); if (code == 0 || code == 255) continue; b.push_back((u8)code); b.push_back((u8)L); b.insert(b.end(), body.begin(), body.end()); b.push_back(255); break; }
            case 3: { b = {1, 0x12, 0x34, 0x56, 0, (u8)code, 0, (u8)L}; b.insert(b.end(), body.begin(), body.end()); break; }
            case 4: { if (L > 38 || code < 2) continue; u32 ol = 2 + L, pad = (4 - ol % 4) % 4; b.assign(20, 0); b[12] = (u8)(((20 + ol + pad) / 4) << 4); b.push_back((u8)code); b.push_back((u8)ol); b.insert(b.end(), body.begin(), body.end()); b.resize(b.size() + pad, 1); break; }
            case 5: { if (L > 38 || code < 2) continue; u32 ol = 2 + L, pad = (4 - ol % 4) % 4; b.assign(20, 0); b[0] = (u8)(0x40 | ((20 + ol + pad) / 4)); u32 tot = 20 + ol + pad; b[2] = (u8)(tot >> 8); b[3] = (u8)tot; b[8] = 64; b[9] = 253; b.push_back((u8)code); b.push_back((u8)ol); b.insert(b.end(), body.begin(), body.end()); b.resize(b.size() + pad, 0); break; }
            case 6: case 7: { b.assign(24, 0); b[0] = which == 6 ? 0x80 : 0x00; b.resize(24 + (which == 6 ? 12 : 4), 0); b.push_back((u8)code); b.push_back((u8)L); b.insert(b.end(), body.begin(), body.end()); break; }
            case 8: { b = {0x11, 0x09, 0, 0, (u8)((4 + L) >> 8), (u8)(4 + L), (u8)(code & 0x0f ? 1 : 2), (u8)(code >> 4), (u8)(L >> 8), (u8)L}; b.insert(b.end(), body.begin(), body.end()); break; }
            default: {   // PPI: header length and per-field lengths around what is really there; data link types with their own dissection (802.11 = 105, radiotap 127, ethernet 1, raw 12/101, null 0)
                static const u32 dl[] = {105, 105, 105, 127, 1, 12, 0, 113, 101, 0x7fffffff}; u32 dlt = dl[code % 10]; u32 ftype = (code / 10) % 6 == 0 ? 2 : (code / 10) % 6 == 1 ? 3 : r.below(8); u32 flen = (u32)std::max<long>(0, (long)L + (long)r.below(25) - 12);
                u32 hlen; switch (variant) { case 0: hlen = 8; break; case 1: hlen = 8 + 4 + L; break; case 2: hlen = 8 + r.below(16); break; case 3: hlen = 8 + 4 + (L > 2 ? r.below(L) : 0); break; default: hlen = (u32)r.edgy(16); }
                b = {0, (u8)r.below(2), (u8)hlen, (u8)(hlen >> 8), (u8)dlt, (u8)(dlt >> 8), (u8)(dlt >> 16), (u8)(dlt >> 24), (u8)ftype, (u8)(ftype >> 8), (u8)flen, (u8)(flen >> 8)};
                b.insert(b.end(), body.begin(), body.end()); if (r.chance(1, 2)) { Bytes f = {0x08, 0x02, 0, 0, 1, 2, 3, 4, 5, 6, 7, 8, 9, 10, 11, 12, 13, 14, 15, 16, 17, 18, 0, 0, 0xaa, 0xaa, 3, 0, 0, 0, 8, 0}; b.insert(b.end(), f.begin(), f.end()); } }
        }
        run_input(ent(entry), b, "optfuzz");
        cnt(std::string("optfuzz:") + classes[which]);
    }
}

int main(int argc, char** argv) {
    register_all();
    return vf::run(argc, argv, "C01", [&](long idx, Rng& r) {
        const Args& a = st().a;
        if (idx == 0) { cnt("entry_points", entries.size()); cnt("seeds", seeds.size()); for (auto& e : entries) { cnt("ok:" + e.name, 0); if (e.can_reject) cnt("rej:" + e.name, 0); } }
        if (a.mode == "optfuzz") { optfuzz(idx, r); cnt("inputs", inputs_run); inputs_run = 0; return; }
        const size_t nE = entries.size(), nS = seeds.size();
        if (idx < 12) { bombs(r, idx); }
        const Entry& e = entries[idx % nE];
        size_t pair = (size_t)idx / nE;
        if (pair < nS) {              // every seed through every entry point, with every truncation
            const Bytes& s = seeds[pair].b; run_input(e, s, "seed"); truncations(e, s, r);
        } else {
            u32 op = r.below(10);
            if (op < 4) { const Bytes& s = accepted_seed_for(e, r); for (int i = 0; i < 48; ++i) run_input(e, mutate(s, r), "mut-seed"); }
            else if (op < 7) { std::string tr; Bytes s = generated_for(e, r, &tr); run_input(e, s, "gen"); for (int i = 0; i < 24; ++i) run_input(e, mutate(s, r), "mut-gen"); if (s.size() <= 200 || r.chance(1, 8)) truncations(e, s, r); }
            else if (op < 9) { for (int i = 0; i < 48; ++i) { u32 n = r.below(65); Bytes b = r.bytes(n); if (n && r.chance(1, 2)) b[0] = (u8)r.edgy(8); run_input(e, b, "rand"); } }
            else { const Bytes& s = accepted_seed_for(e, r); Bytes big = s; while (big.size() < 60000) { Bytes m = mutate(s, r); big.insert(big.end(), m.begin(), m.end()); } big.resize(r.chance(1, 2) ? 65535 : 30000 + r.below(35000)); run_input(e, big, "big"); }
        }
        cnt("inputs", inputs_run); inputs_run = 0;
        if ((idx % 4096) < 16) dump_counters();
    }, [&]() {
        load_seeds(st().a.get("corpus"));
        if (seeds.empty()) { fprintf(stderr, "no seeds loaded (corpus=%s)\n", st().a.get("corpus").c_str()); _exit(3); }
#ifdef VERIF_COV
        g_cov = true;
#endif
    });
}
