// C01 (decoders phase) — decoders of untrusted bytes that are not reached through a layer's constructor or getters:
// the static typed decoders (IPv6 extension header structs, DHCPv6 DUID variants, RSNInformation, ICMP extension
// objects, MPLS-from-extension, DNS SOA rdata), the generic PDUOption::to<T>() converters with both byte orders, the
// RadioTap field cursor used directly, and every class's extract_metadata(buffer, size). Found by bin/coverage_audit.py
// as code of the property's anchor files that no other workload entered.
// Rule: whatever the bytes, no access outside the caller's exact-size buffer (ASan), no undefined behaviour, and a
// failure is a libtins exception (malformed_packet for the entry-point-like ones).
#include "verif.h"
#include <tins/tins.h>
#include <tins/pktap.h>
#include <tins/loopback.h>
#include <tins/icmp_extension.h>
#include <tins/utils/radiotap_parser.h>
#include <fstream>
using namespace Tins;
using namespace vf;

static Bytes body_for(u32 L, u32 variant, Rng& r) {
    Bytes body(L);
    for (u32 i = 0; i < L; ++i) switch (variant) { case 0: body[i] = 0; break; case 1: body[i] = 0xff; break; case 2: body[i] = (u8)r.edgy(8); break; case 3: body[i] = r.byte(); break; default: body[i] = (u8)(L - i + (long)r.below(5) - 2); }
    if (L && variant >= 2 && r.chance(1, 2)) body[0] = (u8)(L + (long)r.below(7) - 4);      // pad/count octets around the body size
    if (L > 1 && variant >= 2 && r.chance(1, 2)) body[1] = (u8)(L + (long)r.below(7) - 4);
    if (L > 3 && variant >= 2 && r.chance(1, 3)) { body[2] = 0; body[3] = (u8)(L + (long)r.below(9) - 4); }
    return body;
}

// call f; classify the outcome. strict = only malformed_packet may escape (extract_metadata, the entry-point-like one); option and
// record decoders are accessors in the property's sense: any libtins exception is a legitimate refusal
template <class F> static void guarded(const std::string& what, bool strict, F f) {
    try { f(); cnt("dec_ok:" + what); }
    catch (const malformed_packet&) { cnt("dec_rej:" + what); }
    catch (const exception_base& e) { if (strict) violation("escaped-exception/" + demangle(typeid(e).name()) + "/decoder:" + what, "decoder let " + demangle(typeid(e).name()) + " escape instead of malformed_packet"); else cnt("dec_rej_other:" + what); }
    catch (const std::exception& e) { violation("escaped-exception/" + demangle(typeid(e).name()) + "/decoder:" + what, std::string("decoder let a foreign exception escape: ") + e.what()); }
    catch (...) { violation("escaped-exception/" + current_exception_type() + "/decoder:" + what, "decoder let an unknown exception escape"); }
}
static u64 g_sink = 0;
template <class T> static void use(const T& v) { g_sink += fnv((const u8*)&v, sizeof v > 8 ? 8 : sizeof v); }
static void use(const std::string& s) { g_sink += fnv(s); }
template <class T> static void use(const std::vector<T>& v) { g_sink += v.size(); for (auto& x : v) use(x); }
template <class A, class B> static void use(const std::pair<A, B>& p) { use(p.first); use(p.second); }
static void use(const IPv4Address& a) { g_sink += (u32)a; }
static void use(const IPv6Address& a) { g_sink += fnv(a.begin(), 16); }
template <size_t N> static void use(const HWAddress<N>& a) { g_sink += fnv(a.begin(), N); }

template <class Opt> static void converters(const char* cls, const Opt& o) {
    std::string c = std::string("to<>:") + cls;
    guarded(c + ":u8", false, [&] { use(o.template to<uint8_t>()); });
    guarded(c + ":i8", false, [&] { use(o.template to<int8_t>()); });
    guarded(c + ":u16", false, [&] { use(o.template to<uint16_t>()); });
    guarded(c + ":u32", false, [&] { use(o.template to<uint32_t>()); });
    guarded(c + ":u64", false, [&] { use(o.template to<uint64_t>()); });
    guarded(c + ":hw", false, [&] { use(o.template to<HWAddress<6> >()); });
    guarded(c + ":ip4", false, [&] { use(o.template to<IPv4Address>()); });
    guarded(c + ":ip6", false, [&] { use(o.template to<IPv6Address>()); });
    guarded(c + ":string", false, [&] { use(o.template to<std::string>()); });
    guarded(c + ":vec<float>", false, [&] { auto v = o.template to<std::vector<float> >(); g_sink += v.size(); });
    guarded(c + ":vec<u8>", false, [&] { use(o.template to<std::vector<uint8_t> >()); });
    guarded(c + ":vec<u16>", false, [&] { use(o.template to<std::vector<uint16_t> >()); });
    guarded(c + ":vec<u32>", false, [&] { use(o.template to<std::vector<uint32_t> >()); });
    guarded(c + ":vec<ip4>", false, [&] { use(o.template to<std::vector<IPv4Address> >()); });
    guarded(c + ":vec<ip6>", false, [&] { use(o.template to<std::vector<IPv6Address> >()); });
    guarded(c + ":vec<pair<u8,u8>>", false, [&] { use(o.template to<std::vector<std::pair<uint8_t, uint8_t> > >()); });
    guarded(c + ":pair<u8,u8>", false, [&] { use(o.template to<std::pair<uint8_t, uint8_t> >()); });
    guarded(c + ":pair<u16,u32>", false, [&] { use(o.template to<std::pair<uint16_t, uint32_t> >()); });
    guarded(c + ":pair<u32,u32>", false, [&] { use(o.template to<std::pair<uint32_t, uint32_t> >()); });
}

// ---- extract_metadata of every class that has one --------------------------------------------------------------
template <class Q, class = void> struct has_md : std::false_type {};
template <class Q> struct has_md<Q, decltype((void)Q::extract_metadata((const uint8_t*)0, 0u))> : std::true_type {};
struct MdEntry { std::string name; std::function<PDU::metadata(const u8*, u32)> md; std::function<PDU*(const u8*, u32)> parse; };
static std::vector<MdEntry> g_md;
template <class Q> static void add_md(const char* n, std::true_type) { MdEntry e; e.name = n; e.md = [](const u8* b, u32 l) { return Q::extract_metadata(b, l); }; e.parse = [](const u8* b, u32 l) -> PDU* { return new Q(b, l); }; g_md.push_back(e); }
template <class Q> static void add_md(const char*, std::false_type) {}
template <class Q, int BUF> struct AddMd { static void go(const char* n) { add_md<Q>(n, has_md<Q>()); } };
template <class Q> struct AddMd<Q, 0> { static void go(const char*) {} };
static void build_md() {
#define VF_PDU_CLASS(Q, N, CONCRETE, DEFCTOR, BUFCTOR) AddMd<Q, (CONCRETE && BUFCTOR) ? 1 : 0>::go(#N);
#define VF_GEN_CLASSES
#include "gen_tins.inc"
#undef VF_GEN_CLASSES
}

static std::vector<Bytes> g_seeds;

static void metadata_case(long idx, Rng& r) {
    const MdEntry& e = g_md[(size_t)idx % g_md.size()];
    for (int k = 0; k < 40; ++k) {
        Bytes in;
        switch (r.below(4)) {
            case 0: in = r.bytes(r.below(70)); break;
            case 1: { const Bytes& s = g_seeds[r.below((u32)g_seeds.size())]; u32 off = r.below(4) == 0 ? 0 : (u32)std::min<size_t>(s.size(), 14 * r.below(2) + 20 * r.below(2)); in.assign(s.begin() + off, s.end()); if (r.chance(1, 2)) in.resize(r.below((u32)in.size() + 1)); break; }
            case 2: { std::unique_ptr<PDU> p; in = r.bytes(r.below(70)); if (!in.empty()) in[0] = (u8)r.edgy(8); break; }
            default: { const Bytes& s = g_seeds[r.below((u32)g_seeds.size())]; in = s; for (u32 m = 1 + r.below(3); m-- && !in.empty();) in[r.below((u32)in.size())] = r.byte(); }
        }
        describe_case("extract_metadata class=" + e.name + " len=" + std::to_string(in.size()) + " hex=" + hex(in, 512));
        ExactBuf eb(in); bool ok = false; PDU::metadata m;
        guarded("extract_metadata:" + e.name, true, [&] { m = e.md(eb.data(), (u32)in.size()); ok = true; });
        if (ok) { use(m.header_size); use((int)m.current_pdu_type); use((int)m.next_pdu_type); sig(mix(fnv(e.name), mix(m.header_size, (u64)m.next_pdu_type)));
            // observation (not a clause of C01): the constructor accepts what extract_metadata accepted, and agrees on the header size
            try { std::unique_ptr<PDU> p(e.parse(eb.data(), (u32)in.size())); if (p->header_size() != m.header_size) cnt("observation:metadata-header-size-differs-from-parsed:" + e.name); else cnt("metadata_agrees_with_parse"); }
            catch (const malformed_packet&) { cnt("observation:metadata-accepts-what-constructor-rejects:" + e.name); } }
    }
}

static void decoder_case(long idx, Rng& r) {
    u32 L = (u32)(idx % 64); u32 code = (u32)((idx / 64) % 256);
    for (u32 variant = 0; variant < 5; ++variant) {
        Bytes body = body_for(L, variant, r); ExactBuf eb(body);
        describe_case("decoders L=" + std::to_string(L) + " code=" + std::to_string(code) + " variant=" + std::to_string(variant) + " body=" + hex(body, 256));
        sig(mix(fnv(body.data(), body.size()), code));
        // IPv6 extension header structs
        { IPv6::ext_header h((u8)code, body.begin(), body.end());
          // each struct decoder on a header of its own type (the body is what is hostile) and on the case's code (type check)
          for (int own = 0; own < 2; ++own) {
          IPv6::ext_header hh(IPv6::HOP_BY_HOP, body.begin(), body.end()), hd(IPv6::DESTINATION_ROUTING_OPTIONS, body.begin(), body.end()), hr(IPv6::ROUTING, body.begin(), body.end()), hf(IPv6::FRAGMENT, body.begin(), body.end());
          guarded("IPv6::hop_by_hop_header", false, [&] { auto x = IPv6::hop_by_hop_header::from_extension_header(own ? hh : h); for (auto& o : x.options) { use(o.first); use(o.second); } });
          guarded("IPv6::destination_routing_header", false, [&] { auto x = IPv6::destination_routing_header::from_extension_header(own ? hd : h); for (auto& o : x.options) { use(o.first); use(o.second); } });
          guarded("IPv6::routing_header", false, [&] { auto x = IPv6::routing_header::from_extension_header(own ? hr : h); use(x.routing_type); use(x.segments_left); use(x.data); });
          guarded("IPv6::fragment_header", false, [&] { auto x = IPv6::fragment_header::from_extension_header(own ? hf : h); use(x.fragment_offset); use(x.more_fragments); use(x.identification); });
          }
          converters("IPv6", h); }
        // generic converters in both byte orders and both option-code widths
        { DHCP::option o((DHCP::OptionTypes)code, body.begin(), body.end()); converters("DHCP", o); }
        { Dot11::option o((u8)code, body.begin(), body.end()); converters("Dot11", o); guarded("RSNInformation::from_option", false, [&] { RSNInformation x = RSNInformation::from_option(o); use(x.version()); use(x.pairwise_cyphers().size()); use(x.akm_cyphers().size()); Bytes s = x.serialize(); use(s); }); }
        { DHCPv6::option o((u16)(code * 257), body.begin(), body.end()); converters("DHCPv6", o); }
        { TCP::option o((TCP::OptionTypes)code, body.begin(), body.end()); converters("TCP", o); }
        { PPPoE::tag o((PPPoE::TagTypes)(code * 257), body.begin(), body.end()); converters("PPPoE", o); }
        // DHCPv6 DUID variants, straight from bytes
        guarded("DHCPv6::duid_llt::from_bytes", false, [&] { auto x = DHCPv6::duid_llt::from_bytes(eb.data(), L); use(x.hw_type); use(x.time); use(x.lladdress); Bytes s = x.serialize(); if (s.size() != L) cnt("observation:duid_llt-serialize-length-differs"); });
        guarded("DHCPv6::duid_en::from_bytes", false, [&] { auto x = DHCPv6::duid_en::from_bytes(eb.data(), L); use(x.enterprise_number); use(x.identifier); Bytes s = x.serialize(); use(s); });
        guarded("DHCPv6::duid_ll::from_bytes", false, [&] { auto x = DHCPv6::duid_ll::from_bytes(eb.data(), L); use(x.hw_type); use(x.lladdress); Bytes s = x.serialize(); use(s); });
        // RSN information element, both constructors
        guarded("RSNInformation(ptr,len)", false, [&] { RSNInformation x(eb.data(), L); use(x.capabilities()); use(x.group_suite()); Bytes s = x.serialize(); use(s); });
        guarded("RSNInformation(vector)", false, [&] { RSNInformation x(body); use(x.version()); });
        // ICMP extension object / structure / checksum validation / MPLS from an extension
        guarded("ICMPExtension(ptr,len)", false, [&] { ICMPExtension x(eb.data(), L); use(x.extension_class()); use(x.extension_type()); use(x.payload()); use(x.size());
            guarded("MPLS(ICMPExtension)", false, [&] { MPLS m(x); use(m.label()); use(m.bottom_of_stack()); use(m.ttl()); }); });
        guarded("ICMPExtensionsStructure(ptr,len)", false, [&] { ICMPExtensionsStructure x(eb.data(), L); use(x.version()); use(x.checksum()); use(x.size()); for (auto& e : x.extensions()) use(e.payload()); Bytes s = x.serialize(); use(s); });
        guarded("ICMPExtensionsStructure::validate_extensions", false, [&] { use(ICMPExtensionsStructure::validate_extensions(eb.data(), L)); });
        { ICMPExtension e2((u8)code, (u8)variant); e2.payload(body); guarded("MPLS(ICMPExtension built)", false, [&] { MPLS m(e2); use(m.label()); }); }
        // DNS SOA rdata
        guarded("DNS::soa_record(ptr,len)", false, [&] { DNS::soa_record x(eb.data(), L); use(x.mname()); use(x.rname()); use(x.serial()); use(x.minimum_ttl()); Bytes s = x.serialize(); use(s); });
        // RadioTap field cursor used directly on a header (body = present words + fields)
        guarded("RadioTapParser", false, [&] {
            Utils::RadioTapParser p(body); u32 steps = 0;
            use((int)p.current_namespace()); use(p.current_namespace_index()); use((u32)p.namespace_flags()); use(p.has_fields());
            for (u32 bit = 0; bit < 32; bit += 1 + r.below(4)) use(p.has_field((RadioTap::PresentFlags)(1u << bit)));
            while (p.has_fields() && steps++ < 4096) { use((u32)p.current_field()); if (r.chance(1, 2)) { RadioTap::option o = p.current_option(); use(o.data_size()); if (o.data_size()) use(*o.data_ptr()); } else { const uint8_t* q = p.current_option_ptr(); if (q) use(*q); } if (!p.advance_field()) break; }
            if (steps >= 4096) violation("no-progress/RadioTapParser", "field cursor did not finish within 4096 advances on a " + std::to_string(L) + "-byte header");
            Utils::RadioTapParser p2(body); use(p2.skip_to_field((RadioTap::PresentFlags)(1u << r.below(32)))); if (p2.has_fields()) { RadioTap::option o = p2.current_option(); use(o.data_size()); }
            Utils::RadioTapParser p3(body); u32 ns = 0; while (p3.advance_namespace() && ns++ < 4096) use(p3.current_namespace_index()); });
    }
}

int main(int argc, char** argv) {
    build_md();
    return vf::run(argc, argv, "C01", [&](long idx, Rng& r) {
        if (idx == 0) { cnt("classes_with_extract_metadata", g_md.size()); std::string s; for (auto& e : g_md) s += e.name + " "; sample("extract_metadata: " + s); }
        if (idx % 4 == 3) metadata_case(idx / 4, r); else decoder_case(idx - idx / 4, r);
        if (g_sink == 0x1234567) cnt("sink");
    }, [&]() {
        std::ifstream f(st().a.get("corpus")); std::string tag, hx; while (f >> tag >> hx) g_seeds.push_back(unhex(hx));
        if (g_seeds.empty()) { fprintf(stderr, "no seeds\n"); _exit(3); }
    });
}
