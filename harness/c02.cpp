// C02 — serialization is total, size-exact, and layers never overwrite each other.
// Oracles: H1 hook inside PDU::serialize(uint8_t*,uint32_t) (snapshot of the inner region before a layer's
// write_serialization, compared afterwards; UNDERFLOW event), size arithmetic, exception typing, ASan on the
// output vector. Workload: parsed packets (all PDU entry points), API-built packets with edit histories between
// serializations, and an enumeration of option shapes per option-bearing class.
#include "inputs.h"
#include <tins/pdu_cacher.h>
using namespace Tins;
using namespace vf;

// ---- H1 receiver ---------------------------------------------------------------------------------------
struct Frame { const PDU* pdu; u8* buf; u32 total, hs, ts; Bytes inner; };
static std::vector<Frame> g_stack; static u64 g_layers = 0; static std::string g_cur_layer; static std::set<std::string> g_types_seen;
static std::string cls(const PDU* p) { std::string n = demangle(typeid(*p).name()); size_t k = n.rfind("::"); return k == std::string::npos ? n : n.substr(n.find("Tins::") == 0 ? 6 : 0); }
static void ser_hook(int ev, const PDU* p, u8* buf, u32 total, u32 hs, u32 ts) {
    if (ev == Verif::SER_UNDERFLOW) { violation("underflow/" + cls(p), "serialize(): buffer of " + std::to_string(total) + " bytes is smaller than header " + std::to_string(hs) + " + trailer " + std::to_string(ts)); return; }
    if (ev == Verif::SER_PRE) {
        Frame f{p, buf, total, hs, ts, Bytes()};
        if (total >= hs + ts) f.inner.assign(buf + hs, buf + total - ts);
        g_stack.push_back(std::move(f)); g_cur_layer = cls(p); ++g_layers;
        return;
    }
    if (g_stack.empty()) return;
    Frame f = std::move(g_stack.back()); g_stack.pop_back();
    if (f.pdu != p) { violation("hook-order/" + cls(p), "PRE/POST mismatch"); return; }
    g_types_seen.insert(cls(p));
    if (total >= hs + ts && f.inner.size() == total - hs - ts && !f.inner.empty() && memcmp(f.inner.data(), buf + hs, f.inner.size()) != 0) {
        size_t i = 0; while (i < f.inner.size() && f.inner[i] == buf[hs + i]) ++i;
        std::string inner = p->inner_pdu() ? cls(p->inner_pdu()) : "none";
        violation("overwrite/" + cls(p) + "/inner=" + inner, cls(p) + "::write_serialization changed byte " + std::to_string(i) + " of the " + std::to_string(f.inner.size()) + "-byte region produced by the layers above it (header " + std::to_string(hs) + ", trailer " + std::to_string(ts) + ")");
    }
}

static bool not_serializable_root(const PDU* p) { return dynamic_cast<const PPI*>(p) || dynamic_cast<const PKTAP*>(p); }
static bool ip_root_needs_routing(const PDU* p) { const IP* ip = dynamic_cast<const IP*>(p); return ip && (uint32_t)ip->src_addr() == 0; }
static std::string chain_of(const PDU* p) { std::string s; int n = 0; for (; p && n < 12; p = p->inner_pdu(), ++n) { if (n) s += '/'; s += cls(p); } if (p) s += "/..."; return s; }

static bool g_may_refuse = false;    // set only for packets that exceed a wire-format limit (no serialization exists): a libtins exception is then the right answer
// returns the serialization (empty on failure)
static Bytes check_packet(PDU* p, const std::string& origin, bool allow_big = false) {
    cnt("packets_checked");
    u64 expect = 0; for (const PDU* q = p; q; q = q->inner_pdu()) expect += q->header_size() + q->trailer_size();
    u32 sz = p->size();
    std::string chain = chain_of(p);
    if (sz != expect) { violation("size-sum/" + cls(p), "size()=" + std::to_string(sz) + " but the layers' header+trailer sizes add up to " + std::to_string(expect) + " chain=" + chain); }
    if (expect > 65535 + 64 && !allow_big) { cnt("skipped_oversize"); return Bytes(); }
    g_stack.clear(); g_cur_layer.clear();
    // a header longer than its own 4-bit length field can express (IPv4/TCP: 60 octets) has no serialization: refusing it is the right answer
    bool unrepresentable = false; for (const PDU* q = p; q; q = q->inner_pdu()) if ((dynamic_cast<const TCP*>(q) || dynamic_cast<const IP*>(q)) && q->header_size() > 60) unrepresentable = true;
    struct Restore { bool& f; bool old; ~Restore() { f = old; } } restore{g_may_refuse, g_may_refuse}; if (unrepresentable) { g_may_refuse = true; cnt("packets_beyond_ipv4_tcp_header_limit"); }
    Bytes y;
    try { y = p->serialize(); }
    catch (const pdu_not_serializable&) {
        if (not_serializable_root(p)) { cnt("pseudo_header_refused_as_documented"); return Bytes(); }
        violation("serialize-throws:pdu_not_serializable/" + (g_cur_layer.empty() ? cls(p) : g_cur_layer), "serialize() threw pdu_not_serializable for " + origin + " chain=" + chain); return Bytes();
    }
    catch (const value_too_large& ex) { if (g_may_refuse) { cnt("unrepresentable_packet_refused_at_serialization:" + cls(p)); return Bytes(); }
        violation("serialize-throws:" + demangle(typeid(ex).name()) + "/" + (g_cur_layer.empty() ? cls(p) : g_cur_layer), std::string("serialize() threw: ") + ex.what() + " for " + origin + " chain=" + chain); return Bytes(); }
    catch (const exception_base& ex) { if (g_may_refuse) { cnt("unrepresentable_packet_refused_at_serialization:" + cls(p)); return Bytes(); }
        violation("serialize-throws:" + demangle(typeid(ex).name()) + "/" + (g_cur_layer.empty() ? cls(p) : g_cur_layer), std::string("serialize() threw: ") + ex.what() + " for " + origin + " chain=" + chain); return Bytes(); }
    catch (const std::exception& ex) { violation("serialize-throws:" + demangle(typeid(ex).name()) + "/" + (g_cur_layer.empty() ? cls(p) : g_cur_layer), std::string("serialize() threw: ") + ex.what() + " for " + origin + " chain=" + chain); return Bytes(); }
    catch (...) { violation("serialize-throws:" + current_exception_type() + "/" + g_cur_layer, "serialize() threw for " + origin + " chain=" + chain); return Bytes(); }
    if (not_serializable_root(p)) { violation("pseudo-header-serialized/" + cls(p), "PPI/PKTAP are documented as not serializable but serialize() succeeded"); }
    if (y.size() != sz) violation("size-mismatch/" + cls(p), "serialize() returned " + std::to_string(y.size()) + " bytes, size() said " + std::to_string(sz) + " chain=" + chain);
    if (p->size() != sz) violation("size-changed-by-serialize/" + cls(p), "size() before serialize " + std::to_string(sz) + ", after " + std::to_string(p->size()) + " chain=" + chain);
    sig(mix(fnv(chain), mix(sz, fnv(y.data(), std::min<size_t>(y.size(), 64)))));
    cnt_max("max_packet_size", sz);
    return y;
}

// ---- edit histories between serializations ------------------------------------------------------------------
static void edit(PDU* root, Rng& r, std::string& log) {
    std::vector<PDU*> layers; for (PDU* q = root; q; q = q->inner_pdu()) layers.push_back(q);
    PDU* l = layers[r.below((u32)layers.size())];
    try {
    if (TCP* t = dynamic_cast<TCP*>(l)) { switch (r.below(4)) { case 0: if (t->header_size() < 48) { t->mss((u16)r.next()); log += "tcp.mss "; } break; case 1: t->remove_option(TCP::MSS); log += "tcp.rm(mss) "; break; case 2: if (t->header_size() < 50) { Bytes b = r.bytes(1 + r.below(6)); t->add_option(TCP::option((TCP::OptionTypes)(9 + r.below(200)), b.begin(), b.end())); log += "tcp.add "; } break; default: t->remove_option((TCP::OptionTypes)(r.below(256))); log += "tcp.rm "; } }
    else if (IP* ip = dynamic_cast<IP*>(l)) { if (r.chance(1, 2)) { if (ip->header_size() < 50) { ip->stream_identifier((u16)r.next()); log += "ip.sid "; } } else { ip->remove_option(IP::option_identifier(IP::SID, IP::CONTROL, 1)); log += "ip.rm(sid) "; } }
    else if (ICMP* ic = dynamic_cast<ICMP*>(l)) { switch (r.below(4)) { case 0: ic->set_echo_reply((u16)r.next(), (u16)r.next()); log += "icmp.echo-reply "; break; case 1: ic->type((ICMP::Flags)r.below(19)); log += "icmp.type "; break; case 2: ic->set_time_exceeded(r.below(2)); log += "icmp.time-exceeded "; break; default: ic->use_length_field(r.below(2)); log += "icmp.length "; } }      // the message type changes under extensions that are already there
    else if (ICMPv6* c = dynamic_cast<ICMPv6*>(l)) { if (r.chance(1, 3)) { c->type((ICMPv6::Types)(r.chance(1, 2) ? 128 + r.below(10) : 1 + r.below(4))); log += "icmp6.type "; } else if (r.chance(1, 2)) { c->source_link_layer_addr(HWAddress<6>("00:01:02:03:04:05")); log += "icmp6.add "; } else { c->remove_option((ICMPv6::OptionTypes)(1 + r.below(3))); log += "icmp6.rm "; } }
    else if (DHCP* d = dynamic_cast<DHCP*>(l)) { if (r.chance(1, 2)) { d->lease_time((u32)r.next()); log += "dhcp.add "; } else { d->remove_option((DHCP::OptionTypes)(1 + r.below(80))); log += "dhcp.rm "; } }
    else if (DHCPv6* d6 = dynamic_cast<DHCPv6*>(l)) { if (r.chance(1, 2)) { d6->preference(r.byte()); log += "dhcp6.add "; } else { d6->remove_option((DHCPv6::OptionTypes)(1 + r.below(20))); log += "dhcp6.rm "; } }
    else if (Dot11ManagementFrame* m = dynamic_cast<Dot11ManagementFrame*>(l)) { if (r.chance(1, 2)) { m->ssid("x" + std::to_string(r.below(1000))); log += "dot11.ssid "; } else { m->remove_option((Dot11::OptionTypes)r.below(8)); log += "dot11.rm "; } }
    else if (PPPoE* pp = dynamic_cast<PPPoE*>(l)) { pp->service_name("svc" + std::to_string(r.below(100))); log += "pppoe.tag "; }
    else if (IPv6* v6 = dynamic_cast<IPv6*>(l)) { Bytes b(6 + 8 * r.below(2), 0); v6->add_header(IPv6::ext_header(IPv6::DESTINATION_ROUTING_OPTIONS, b.begin(), b.end())); log += "ipv6.hdr "; }
    else if (RTP* rt = dynamic_cast<RTP*>(l)) { if (r.chance(1, 2) && rt->csrc_count() < 15) { rt->add_csrc_id((u32)r.next()); log += "rtp.csrc "; } else if (rt->csrc_count()) { rt->remove_csrc_id(rt->csrc_ids()[0]); log += "rtp.rmcsrc "; } }
    else if (DNS* dn = dynamic_cast<DNS*>(l)) { dn->add_answer(DNS::resource("a.b", "1.2.3.4", DNS::A, DNS::INTERNET, 5)); log += "dns.ans "; }
    else if (RawPDU* rw = dynamic_cast<RawPDU*>(l)) { rw->payload(r.bytes(r.below(80))); log += "raw.payload "; }
    else if (RadioTap* rt2 = dynamic_cast<RadioTap*>(l)) { (void)rt2; /* RadioTap setters are C11's business */ }
    else if (r.chance(1, 3) && l->inner_pdu()) { delete l->release_inner_pdu(); Bytes b = r.bytes(1 + r.below(30)); l->inner_pdu(new RawPDU(b.data(), (u32)b.size())); log += "replace-inner "; }
    } catch (const exception_base&) { log += "(edit refused) "; }
}

// ---- option shape enumeration -----------------------------------------------------------------------------
static void option_shapes(long idx, Rng& r) {
    static const u32 lens[] = {0, 1, 2, 3, 6, 7, 8, 9, 14, 30, 38, 62, 254, 262, 510};
    u32 code = (u32)(idx % 256); u32 len = lens[(idx / 256) % 15]; u32 which = (u32)((idx / (256 * 15)) % 7); bool payload = ((idx / (256 * 15 * 7)) % 2) == 0;
    if (len > 38 && (which == 0 || which == 1)) len = 38;          // TCP/IP option space
    if (len > 255 && (which == 2 || which == 4)) len = 255;       // one-octet length fields
    Bytes data = r.bytes(len); std::unique_ptr<PDU> root; std::string what;
    // one shape in five announces a length field different from the amount of data it carries (the documented 4-argument option constructor):
    // sizes are accounted from the data, the length octet is whatever was asked for
    const bool spoof = r.chance(1, 5); const u16 lf = spoof ? (u16)(r.chance(1, 2) ? r.below(256) : (u32)std::max<long>(0, (long)len + (long)r.below(9) - 4)) : (u16)len;
    auto with_payload = [&](PDU* l) { if (payload) { Bytes b = r.bytes(1 + r.below(20)); l->inner_pdu(new RawPDU(b.data(), (u32)b.size())); } };
    try {
        switch (which) {
            case 0: { TCP* t = new TCP(80, 1025); t->add_option(spoof ? TCP::option((TCP::OptionTypes)code, lf, data.begin(), data.end()) : TCP::option((TCP::OptionTypes)code, data.begin(), data.end())); with_payload(t); root.reset(new EthernetII(EthernetII() / IP("1.2.3.4", "4.3.2.1"))); root->inner_pdu()->inner_pdu(t); what = "TCP"; break; }
            case 1: { IP* ip = new IP("1.2.3.4", "4.3.2.1"); IP::option_identifier id; memcpy(&id, &code, 1); ip->add_option(spoof ? IP::option(id, lf, data.begin(), data.end()) : IP::option(id, data.begin(), data.end())); with_payload(ip); root.reset(new EthernetII()); root->inner_pdu(ip); what = "IP"; break; }
            case 2: { DHCP* d = new DHCP(); d->add_option(spoof ? DHCP::option((DHCP::OptionTypes)code, lf, data.begin(), data.end()) : DHCP::option((DHCP::OptionTypes)code, data.begin(), data.end())); if (r.chance(1, 2)) d->end(); root.reset(new EthernetII(EthernetII() / IP("1.2.3.4", "4.3.2.1") / UDP(67, 68))); root->inner_pdu()->inner_pdu()->inner_pdu(d); what = "DHCP"; break; }
            case 3: { if (((len + 2) % 8) != 0) { data.resize(((len + 2 + 7) / 8) * 8 - 2); } ICMPv6* c = new ICMPv6(ICMPv6::ROUTER_ADVERT); c->add_option(ICMPv6::option((u8)code, data.begin(), data.end())); root.reset(new EthernetII(EthernetII() / IPv6("::1", "::2"))); root->inner_pdu()->inner_pdu(c); what = "ICMPv6"; break; }
            case 4: { Dot11Beacon* b = new Dot11Beacon(); b->add_option(spoof ? Dot11::option((u8)code, lf, data.begin(), data.end()) : Dot11::option((u8)code, data.begin(), data.end())); root.reset(new RadioTap()); root->inner_pdu(b); what = "Dot11Beacon"; break; }
            case 5: { PPPoE* p = new PPPoE(); p->add_tag(spoof ? PPPoE::tag((PPPoE::TagTypes)(code * 257), lf, data.begin(), data.end()) : PPPoE::tag((PPPoE::TagTypes)(code * 257), data.begin(), data.end())); root.reset(new EthernetII()); root->inner_pdu(p); what = "PPPoE"; break; }
            default: { DHCPv6* d = new DHCPv6(); d->add_option(spoof ? DHCPv6::option((u16)code, lf, data.begin(), data.end()) : DHCPv6::option((u16)code, data.begin(), data.end())); root.reset(new EthernetII(EthernetII() / IPv6("::1", "::2") / UDP(546, 547))); root->inner_pdu()->inner_pdu()->inner_pdu(d); what = "DHCPv6"; }
        }
    } catch (const exception_base& e) { cnt("option_shape_refused_by_setter:" + what); return; }
    std::string d = "option-shape class=" + what + " code=" + std::to_string(code) + " len=" + std::to_string(data.size()) + (payload ? " +payload" : " no-payload");
    describe_case(d);
    cnt("option_shapes:" + what); if (spoof) { cnt("option_shapes_with_spoofed_length_field"); d += " length-field=" + std::to_string(lf); describe_case(d); }
    Bytes y = check_packet(root.get(), d);
    if (y.empty()) return;
    // the same shape parsed from bytes, then serialized again
    try { EthernetII* e = dynamic_cast<EthernetII*>(root.get()); std::unique_ptr<PDU> q; ExactBuf buf(y); if (e) q.reset(new EthernetII(buf.data(), (u32)y.size())); else q.reset(new RadioTap(buf.data(), (u32)y.size())); check_packet(q.get(), d + " (re-parsed)"); cnt("option_shapes_reparsed"); }
    catch (const malformed_packet&) { cnt("option_shape_reparse_rejected(C04's business)"); }
}

// ---- variable-length header elements that are not options (record lists, extension objects, padding) ---------
static void element_shapes(long idx, Rng& r) {
    u32 which = (u32)(idx % 8); std::unique_ptr<PDU> root; std::string d;
    auto ip6 = [&]() { Bytes b = r.bytes(16); return IPv6Address(b.data()); };
    try {
        switch (which) {
            case 0: { ICMPv6* c = new ICMPv6(ICMPv6::MLD2_REPORT); ICMPv6::multicast_address_records_list l; u32 n = 1 + r.below(3); d = "ICMPv6 MLDv2 report records:";
                      for (u32 i = 0; i < n; ++i) { ICMPv6::multicast_address_record m; m.type = (u8)(1 + r.below(6)); m.multicast_address = ip6(); for (u32 k = r.below(4); k--;) m.sources.push_back(ip6()); m.aux_data = r.bytes(r.below(14)); d += " (sources=" + std::to_string(m.sources.size()) + ",aux=" + std::to_string(m.aux_data.size()) + ")"; l.push_back(m); }
                      c->multicast_address_records(l); if (r.chance(1, 3)) c->source_link_layer_addr(HWAddress<6>("00:01:02:03:04:05"));
                      root.reset(new EthernetII(EthernetII() / IPv6("::1", "::2"))); root->inner_pdu()->inner_pdu(c); break; }
            case 1: { ICMP* c = new ICMP(r.chance(1, 2) ? ICMP::TIME_EXCEEDED : ICMP::DEST_UNREACHABLE); u32 n = 1 + r.below(3); d = "ICMP extensions:";
                      for (u32 i = 0; i < n; ++i) { ICMPExtension e(r.byte(), r.byte()); Bytes pl = r.bytes(r.below(23)); e.payload(pl); d += " payload=" + std::to_string(pl.size()); c->extensions().add_extension(e); }
                      if (r.chance(1, 2)) { MPLS m; m.label(r.below(1 << 20)); c->extensions().add_extension(m); d += " +mpls"; }
                      u32 inner = r.below(5) == 0 ? 0 : r.below(200); if (inner) { Bytes b = r.bytes(inner); c->inner_pdu(new RawPDU(b.data(), (u32)b.size())); } d += " inner=" + std::to_string(inner);
                      if (r.chance(1, 3)) c->use_length_field(r.chance(1, 2));
                      root.reset(new EthernetII()); root->inner_pdu(new IP("1.2.3.4", "4.3.2.1")); root->inner_pdu()->inner_pdu(c); break; }
            case 2: { ICMPv6* c = new ICMPv6(r.chance(1, 2) ? ICMPv6::TIME_EXCEEDED : ICMPv6::DEST_UNREACHABLE); u32 n = 1 + r.below(3); d = "ICMPv6 extensions:";
                      for (u32 i = 0; i < n; ++i) { ICMPExtension e(r.byte(), r.byte()); Bytes pl = r.bytes(r.below(23)); e.payload(pl); d += " payload=" + std::to_string(pl.size()); c->extensions().add_extension(e); }
                      u32 inner = r.below(5) == 0 ? 0 : r.below(200); if (inner) { Bytes b = r.bytes(inner); c->inner_pdu(new RawPDU(b.data(), (u32)b.size())); } d += " inner=" + std::to_string(inner);
                      if (r.chance(1, 3)) c->use_length_field(r.chance(1, 2));
                      root.reset(new EthernetII(EthernetII() / IPv6("::1", "::2"))); root->inner_pdu()->inner_pdu(c); break; }
            case 3: { RTP* t = new RTP(); u32 nc = r.below(16), ne = r.below(9), pad = r.below(3) ? 0 : 1 + r.below(40); d = "RTP csrc=" + std::to_string(nc) + " ext_words=" + std::to_string(ne) + " padding=" + std::to_string(pad);
                      for (u32 i = 0; i < nc; ++i) t->add_csrc_id((u32)r.next());
                      if (ne || r.chance(1, 4)) { t->extension_bit(1); t->extension_profile((u16)r.next()); for (u32 i = 0; i < ne; ++i) t->add_extension_data((u32)r.next()); }
                      if (pad) t->padding_size((u8)pad);
                      u32 inner = r.below(60); if (inner) { Bytes b = r.bytes(inner); t->inner_pdu(new RawPDU(b.data(), (u32)b.size())); }
                      root.reset(new EthernetII(EthernetII() / IP("1.2.3.4", "4.3.2.1") / UDP(5004, 5004))); root->inner_pdu()->inner_pdu()->inner_pdu(t); break; }
            case 4: { IPSecAH* ah = new IPSecAH(); Bytes icv = r.bytes(4 * r.below(8) + (r.chance(1, 4) ? r.below(4) : 0)); ah->icv(icv); d = "IPSecAH icv=" + std::to_string(icv.size());
                      u32 inner = r.below(40); if (inner) { Bytes b = r.bytes(inner); ah->inner_pdu(new RawPDU(b.data(), (u32)b.size())); }
                      root.reset(new EthernetII()); root->inner_pdu(new IP("1.2.3.4", "4.3.2.1")); root->inner_pdu()->inner_pdu(ah); break; }
            case 5: { ICMPv6* c = new ICMPv6(ICMPv6::MGM_QUERY); d = "ICMPv6 MLD query:";      // MLDv1/MLDv2 switch and the source list, in any order
                      for (u32 k = 1 + r.below(5); k--;) switch (r.below(5)) {
                          case 0: { ICMPv6::sources_list l; for (u32 i = r.below(5); i--;) l.push_back(ip6()); c->sources(l); d += " sources(" + std::to_string(l.size()) + ")"; break; }
                          case 1: { bool v = r.chance(1, 2); c->use_mldv2(v); d += v ? " use_mldv2(1)" : " use_mldv2(0)"; break; }
                          case 2: c->multicast_addr(ip6()); d += " multicast_addr"; break;
                          case 3: c->qrv((u8)r.below(8)); c->qqic(r.byte()); c->supress(r.chance(1, 2)); d += " qrv/qqic/s"; break;
                          default: c->maximum_response_code((u16)r.next()); d += " mrc"; }
                      if (r.chance(1, 2)) { Bytes b = r.bytes(1 + r.below(30)); c->inner_pdu(new RawPDU(b.data(), (u32)b.size())); d += " +payload"; }
                      root.reset(new EthernetII(EthernetII() / IPv6("::1", "::2"))); root->inner_pdu()->inner_pdu(c); break; }
            case 6: {      // the caching wrapper as a layer in the middle of a stack: it may only write its own (cached) octets
                Bytes b = r.bytes(1 + r.below(60)); u32 k = r.below(4); d = "PDUCacher in a stack, kind " + std::to_string(k) + " payload=" + std::to_string(b.size());
                PDU* c; switch (k) { case 0: { UDP u(53, 1025); c = new PDUCacher<UDP>(u); break; } case 1: { Dot1Q q(r.below(4096), false); c = new PDUCacher<Dot1Q>(q); break; } case 2: { SNAP sn; c = new PDUCacher<SNAP>(sn); break; } default: { RawPDU rw("cached-bytes"); c = new PDUCacher<RawPDU>(rw); } }
                c->inner_pdu(new RawPDU(b.data(), (u32)b.size()));
                root.reset(new EthernetII()); if (k == 0) { root->inner_pdu(new IP("1.2.3.4", "4.3.2.1")); root->inner_pdu()->inner_pdu(c); } else root->inner_pdu(c);
                if (r.chance(1, 2)) { try { root->serialize(); } catch (...) {} d += " (second serialization: cache warm)"; }
                break; }
            default: { IPv6* v6 = new IPv6("::1", "::2"); u32 n = 1 + r.below(4); d = "IPv6 extension headers:";
                      static const IPv6::ExtensionHeader hs[] = {IPv6::HOP_BY_HOP, IPv6::DESTINATION_ROUTING_OPTIONS, IPv6::ROUTING, IPv6::FRAGMENT, IPv6::MOBILITY};
                      for (u32 i = 0; i < n; ++i) { Bytes b = r.bytes(r.chance(1, 2) ? 6 + 8 * r.below(4) : r.below(30)); if (r.chance(1, 5)) { u16 l2 = (u16)r.below((u32)b.size() + 9); v6->add_header(IPv6::ext_header(hs[r.below(5)], l2, b.begin(), b.end())); d += " len=" + std::to_string(b.size()) + "(length-field " + std::to_string(l2) + ")"; cnt("element_shapes_with_spoofed_length_field"); } else v6->add_header(IPv6::ext_header(hs[r.below(5)], b.begin(), b.end())); d += " len=" + std::to_string(b.size()); }
                      u32 inner = r.below(40); if (inner) { Bytes b = r.bytes(inner); v6->inner_pdu(new RawPDU(b.data(), (u32)b.size())); }
                      root.reset(new EthernetII()); root->inner_pdu(v6); }
        }
    } catch (const exception_base&) { cnt("element_shape_refused_by_setter:" + std::to_string(which)); return; }
    describe_case("element-shape " + d);
    static const char* nm[] = {"ICMPv6.mld2", "ICMP.extensions", "ICMPv6.extensions", "RTP", "IPSecAH", "ICMPv6.mld_query", "PDUCacher", "IPv6.ext_headers"};
    cnt(std::string("element_shapes:") + nm[which]);
    Bytes y = check_packet(root.get(), "element-shape " + d);
    if (y.empty()) return;
    std::string log; for (u32 k = r.below(3); k--;) edit(root.get(), r, log);
    if (!log.empty()) { check_packet(root.get(), "element-shape " + d + " after edits: " + log); cnt("serializations_after_edit"); }
}

// ---- containers filled to their limit, then one more addition (accepted or refused): sizes and regions must still agree ----
static void limit_shapes(long idx, Rng& r) {
    u32 which = (u32)(idx % 9); std::unique_ptr<PDU> root; std::string d; bool refused = false; PDU* layer = nullptr;
    auto attempt = [&](const char* what, std::function<void()> f) { try { f(); } catch (const std::exception& e) { refused = true; d += std::string(" [") + what + " refused: " + demangle(typeid(e).name()) + "]"; } };
    Bytes pay = r.bytes(1 + r.below(24));
    switch (which) {
        case 0: { RTP* t = new RTP(); layer = t; u32 n = r.chance(1, 2) ? 65535 : 65535 - r.below(3); d = "RTP with " + std::to_string(n) + " extension words, then +1..3"; for (u32 i = 0; i < n; ++i) t->add_extension_data(i); for (u32 k = 1 + r.below(3); k--;) attempt("add_extension_data", [&] { t->add_extension_data(0xabcdef01); }); root.reset(t); break; }
        case 1: { RTP* t = new RTP(); layer = t; d = "RTP with 15 CSRC ids, then +1..2"; for (u32 i = 0; i < 15; ++i) t->add_csrc_id(i); for (u32 k = 1 + r.below(2); k--;) attempt("add_csrc_id", [&] { t->add_csrc_id(77); }); if (r.chance(1, 2)) attempt("remove_csrc_id", [&] { t->remove_csrc_id(77); }); root.reset(t); break; }
        case 2: { TCP* t = new TCP(80, 81); layer = t; d = "TCP options up to the 40-octet space, then more"; for (u32 i = 0; i < 14; ++i) attempt("add_option", [&] { Bytes b = r.bytes(r.below(9)); t->add_option(TCP::option((TCP::OptionTypes)(2 + r.below(30)), b.begin(), b.end())); }); root.reset(new IP("1.2.3.4", "4.3.2.1")); root->inner_pdu(t); break; }
        case 3: { IP* t = new IP("1.2.3.4", "4.3.2.1"); layer = t; d = "IP options up to the 40-octet space, then more"; for (u32 i = 0; i < 14; ++i) attempt("add_option", [&] { Bytes b = r.bytes(r.below(9)); t->add_option(IP::option(IP::option_identifier((IP::OptionNumber)(2 + r.below(20)), IP::CONTROL, 1), b.begin(), b.end())); }); root.reset(t); break; }
        case 4: { Dot11Beacon* t = new Dot11Beacon(); layer = t; u32 n = 250 + r.below(12); d = "Dot11 element of " + std::to_string(n) + " octets"; attempt("add_option", [&] { Bytes b = r.bytes(n); t->add_option(Dot11::option((u8)r.below(256), b.begin(), b.end())); }); attempt("ssid", [&] { t->ssid(std::string(n, 'x')); }); root.reset(t); break; }
        case 5: { DHCP* t = new DHCP(); layer = t; u32 n = 250 + r.below(12); d = "DHCP option of " + std::to_string(n) + " octets"; attempt("add_option", [&] { Bytes b = r.bytes(n); t->add_option(DHCP::option((DHCP::OptionTypes)(1 + r.below(250)), b.begin(), b.end())); }); attempt("domain_name", [&] { t->domain_name(std::string(n, 'y')); }); t->end(); root.reset(t); break; }
        case 6: { PPPoE* t = new PPPoE(); t->code(0x09); layer = t; u32 n = r.chance(1, 2) ? 65531 - r.below(8) : 60000 + r.below(6000); d = "PPPoE tag of " + std::to_string(n) + " octets + a second tag"; attempt("add_tag", [&] { Bytes b(n, 0x5a); t->add_tag(PPPoE::tag(PPPoE::VENDOR_SPECIFIC, b.begin(), b.end())); }); attempt("service_name", [&] { t->service_name(std::string(r.below(40), 's')); }); root.reset(t); pay.clear(); break; }
        case 7: { ICMPv6* t = new ICMPv6(ICMPv6::ROUTER_ADVERT); layer = t; u32 n = 2030 + r.below(20); d = "ICMPv6 option of " + std::to_string(n) + " octets (limit 255*8-2)"; attempt("add_option", [&] { Bytes b(n, 0x11); t->add_option(ICMPv6::option((u8)(1 + r.below(30)), b.begin(), b.end())); }); root.reset(new IPv6("::1", "::2")); root->inner_pdu(t); pay.clear(); break; }
        default: { IPv6* t = new IPv6("::1", "::2"); layer = t; u32 n = 2030 + r.below(24); d = "IPv6 extension header of " + std::to_string(n) + " octets (limit 256*8-2)"; attempt("add_header", [&] { Bytes b(n, 0); t->add_header(IPv6::ext_header(IPv6::DESTINATION_ROUTING_OPTIONS, b.begin(), b.end())); }); root.reset(t); break; }
    }
    if (!pay.empty() && layer && !layer->inner_pdu()) layer->inner_pdu(new RawPDU(pay.data(), (u32)pay.size()));
    describe_case("limit-shape " + d);
    static const char* nm[] = {"RTP.extension", "RTP.csrc", "TCP.options", "IP.options", "Dot11.element", "DHCP.option", "PPPoE.tag", "ICMPv6.option", "IPv6.ext_header"};
    cnt(std::string("limit_shapes:") + nm[which]); if (refused) cnt(std::string("limit_shapes_refused:") + nm[which]);
    sig(mix(fnv(d), (u64)idx));
    // a refusal by the setter is fine and so is an encoder that refuses at serialization time with a libtins exception... but not one that writes
    // outside its region or reports a size it does not fill: check_packet decides (option_payload_too_large & co. are legitimate refusals)
    bool over = false;       // does the packet exceed what its own length fields can express?
    if (IP* ip = dynamic_cast<IP*>(layer)) over = ip->header_size() > 60;
    else if (TCP* t = dynamic_cast<TCP*>(layer)) over = t->header_size() > 60;
    else if (PPPoE* pp = dynamic_cast<PPPoE*>(layer)) { u64 t = 0; for (auto& tg : pp->tags()) t += 4 + tg.data_size(); over = t > 65535; }      // own sum: the 16-bit payload length cannot express more
    if (over) cnt(std::string("limit_shapes_over_wire_limit:") + nm[which]);
    g_may_refuse = over; check_packet(root.get(), "limit-shape " + d, true); g_may_refuse = false;
}

int main(int argc, char** argv) {
    register_all();
    return vf::run(argc, argv, "C02", [&](long idx, Rng& r) {
        const Args& a = st().a;
        struct Fin { ~Fin() { cnt("hook_layer_serializations", g_layers); g_layers = 0; for (auto& t : g_types_seen) cnt("hooked_type:" + t); g_types_seen.clear(); } } fin;
        if (a.mode == "options") { option_shapes(idx, r); return; }
        if (a.mode == "elements") { element_shapes(idx, r); return; }
        if (a.mode == "limits") { limit_shapes(idx, r); return; }
        if (a.mode == "built") {
            PktGen g(r); int rk = 0; std::unique_ptr<PDU> p(g.packet(&rk));
            describe_case("built: " + g.trace);
            if (ip_root_needs_routing(p.get())) { cnt("skipped_ip_root_without_source"); return; }
            Bytes y = check_packet(p.get(), "built: " + g.trace);
            std::string log;
            for (u32 round = 0, n = r.below(4); round < n && !y.empty(); ++round) {
                for (u32 k = 1 + r.below(3); k--;) edit(p.get(), r, log);
                describe_case("built: " + g.trace + " edits: " + log);
                y = check_packet(p.get(), "built: " + g.trace + " after edits: " + log); cnt("serializations_after_edit");
            }
            if (want_sample()) sample("built " + g.trace + (log.empty() ? "" : " edits: " + log) + " -> " + std::to_string(y.size()) + " bytes");
            return;
        }
        // parsed packets
        std::vector<size_t> pe; for (size_t i = 0; i < entries.size(); ++i) if (entries[i].ispdu) pe.push_back(i);
        const Entry& e = entries[pe[idx % pe.size()]];
        size_t pair = (size_t)idx / pe.size();
        auto one = [&](const Bytes& in, const char* how) {
            if (in.size() > 65535) return;
            describe_case(std::string("parsed entry=") + e.name + " how=" + how + " len=" + std::to_string(in.size()) + " hex=" + hex(in, 2048));
            std::unique_ptr<PDU> p;
            try { ExactBuf buf(in); p.reset(e.parse(buf.data(), (u32)in.size())); } catch (...) { cnt("rejected_inputs"); return; }
            if (!p) { cnt("rejected_inputs"); return; }
            cnt("accepted:" + e.name);
            if (ip_root_needs_routing(p.get())) { cnt("skipped_ip_root_without_source"); return; }
            Bytes y = check_packet(p.get(), std::string("entry=") + e.name + " input=" + hex(in, 200));
            if (!y.empty() && r.chance(1, 4)) { std::string log; edit(p.get(), r, log); if (!log.empty()) { describe_case(std::string("parsed entry=") + e.name + " edits=" + log + " hex=" + hex(in, 2048)); check_packet(p.get(), std::string("entry=") + e.name + " after edits " + log + " input=" + hex(in, 200)); cnt("serializations_after_edit"); } }
        };
        if (pair < seeds.size()) { const Bytes& s = seeds[pair].b; one(s, "seed"); for (int i = 0; i < 40; ++i) { size_t n = r.below((u32)s.size() + 1); one(Bytes(s.begin(), s.begin() + n), "trunc"); } for (int i = 0; i < 40; ++i) one(mutate(s, r), "mut-seed"); }
        else { u32 op = r.below(3);
            if (op == 0) { const Bytes& s = accepted_seed_for(e, r); for (int i = 0; i < 60; ++i) one(mutate(s, r), "mut-seed"); }
            else { Bytes s = generated_for(e, r, nullptr); one(s, "gen"); for (int i = 0; i < 40; ++i) one(mutate(s, r), "mut-gen"); for (int i = 0; i < 10; ++i) { size_t n = r.below((u32)s.size() + 1); one(Bytes(s.begin(), s.begin() + n), "trunc-gen"); } } }
    }, [&]() {
        load_seeds(st().a.get("corpus"));
        Verif::serialize_hook = &ser_hook;
    });
}
