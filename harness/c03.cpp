// C03 — re-serializing a parsed packet preserves it.
// For every accepted input b of every PDU entry point E: p = E(b), y = serialize(p), q = E(y) must parse, the
// views (every getter of every layer, generated from the headers) must agree outside the fields libtins derives,
// and serialize(q) == y whenever the innermost payload is non-empty.
#include "inputs.h"
using namespace Tins;
using namespace vf;

static std::string cls(const PDU* p) { std::string n = demangle(typeid(*p).name()); return n.find("Tins::") == 0 ? n.substr(6) : n; }
static bool not_serializable_root(const PDU* p) { return dynamic_cast<const PPI*>(p) || dynamic_cast<const PKTAP*>(p); }
static bool ip_root_needs_routing(const PDU* p) { const IP* ip = dynamic_cast<const IP*>(p); return ip && (uint32_t)ip->src_addr() == 0; }

// Fields libtins derives itself at serialization (lengths, checksums, alignment padding) ...
static const std::set<std::string>& derived() {
    static const std::set<std::string> s = {
        "PDU.size", "IP.tot_len", "IP.head_len", "IP.checksum", "IPv6.payload_length", "TCP.checksum", "TCP.data_offset", "UDP.length", "UDP.checksum",
        "ICMP.checksum", "ICMP.length", "ICMPv6.checksum", "ICMPv6.length", "Dot3.length", "PPPoE.payload_length", "RC4EAPOL.length", "RSNEAPOL.length", "EAPOL.length",
        "RadioTap.length", "IPSecAH.length", "MPLS.bottom_of_stack", "EthernetII.trailer_size", "Dot1Q.trailer_size", "Dot3.trailer_size", "RadioTap.trailer_size",
        "ICMP.trailer_size", "ICMPv6.trailer_size", "IP.advertised_size", "RSNEAPOL.key_length", "RSNEAPOL.wpa_length",
    };
    return s;
}
// ... and next-protocol tags: derived when a recognised payload follows, must survive when an unrecognised payload
// follows, free when nothing follows.
static const std::set<std::string>& tags() {
    static const std::set<std::string> s = {"IP.protocol", "IPv6.next_header", "EthernetII.payload_type", "Dot1Q.payload_type", "SNAP.eth_type", "SLL.protocol",
        "IPSecAH.next_header", "Loopback.family", "LLC.dsap", "LLC.ssap", "PPPoE.code", "VXLAN.payload_type"};
    return s;
}

// For the RFC 4884 message types the second word of the header holds the derived length octet; these getters overlay it.
static const std::set<std::string>& rfc4884_alias() {
    static const std::set<std::string> s = {"ICMP.id", "ICMP.gateway", "ICMP.mtu", "ICMP.pointer", "ICMP.sequence", "ICMPv6.identifier", "ICMPv6.hop_limit", "ICMPv6.maximum_response_code",
        "ICMPv6.router_pref", "ICMPv6.home_agent", "ICMPv6.other", "ICMPv6.managed", "ICMPv6.router", "ICMPv6.solicited", "ICMPv6.override", "ICMPv6.reserved", "ICMPv6.multicast_address_records",
        "ICMPv6.sources", "ICMPv6.supress", "ICMPv6.qrv", "ICMPv6.qqic", "ICMPv6.mtu"};
    return s;
}
struct LayerView { std::string cls; std::vector<std::pair<std::string, std::string>> kv; bool is_raw; Bytes raw; bool next_is_raw_nonempty; bool has_next; u32 rem_size; bool rfc4884; };
static std::vector<LayerView> views(const PDU* p) {
    std::vector<LayerView> out;
    for (const PDU* q = p; q; q = q->inner_pdu()) {
        LayerView lv; View v; lv.cls = describe_layer(*q, v); lv.kv = v.kv; const RawPDU* r = dynamic_cast<const RawPDU*>(q); lv.is_raw = r != nullptr; if (r) lv.raw = r->payload();
        // LLC declares its getters non-const, so the header scan (const getters only) sees none of its fields: add them by hand
        if (const LLC* lc = dynamic_cast<const LLC*>(q)) { LLC& m = const_cast<LLC&>(*lc);
            lv.kv.push_back({"LLC.dsap", std::to_string((unsigned)m.dsap())}); lv.kv.push_back({"LLC.ssap", std::to_string((unsigned)m.ssap())}); lv.kv.push_back({"LLC.type", std::to_string((unsigned)m.type())});
            if (m.type() != LLC::UNNUMBERED) { lv.kv.push_back({"LLC.receive_seq_number", std::to_string((unsigned)m.receive_seq_number())}); lv.kv.push_back({"LLC.poll_final", std::to_string((unsigned)m.poll_final())}); }
            if (m.type() == LLC::INFORMATION) lv.kv.push_back({"LLC.send_seq_number", std::to_string((unsigned)m.send_seq_number())});
            if (m.type() == LLC::SUPERVISORY) lv.kv.push_back({"LLC.supervisory_function", std::to_string((unsigned)m.supervisory_function())});
            if (m.type() == LLC::UNNUMBERED) { lv.kv.push_back({"LLC.modifier_function", std::to_string((unsigned)m.modifier_function())}); lv.kv.push_back({"LLC.poll_final", std::to_string((unsigned)m.poll_final())}); } }
        lv.rem_size = q->size(); lv.rfc4884 = false;
        if (const ICMP* ic = dynamic_cast<const ICMP*>(q)) lv.rfc4884 = ic->type() == ICMP::DEST_UNREACHABLE || ic->type() == ICMP::TIME_EXCEEDED || ic->type() == ICMP::PARAM_PROBLEM;
        if (const ICMPv6* i6 = dynamic_cast<const ICMPv6*>(q)) lv.rfc4884 = i6->type() == ICMPv6::DEST_UNREACHABLE || i6->type() == ICMPv6::TIME_EXCEEDED;
        const PDU* n = q->inner_pdu(); lv.has_next = n != nullptr; const RawPDU* nr = n ? dynamic_cast<const RawPDU*>(n) : nullptr; lv.next_is_raw_nonempty = nr && nr->payload_size() > 0;
        out.push_back(std::move(lv));
        if (out.size() > 300) break;
    }
    return out;
}
static void strip_empty_tail(std::vector<LayerView>& v) { while (!v.empty() && v.back().is_raw && v.back().raw.empty()) { v.pop_back(); if (!v.empty()) { v.back().has_next = false; v.back().next_is_raw_nonempty = false; } } }
static bool all_zero(const Bytes& b) { for (u8 x : b) if (x) return false; return true; }

static std::string chain_str(const std::vector<LayerView>& v) { std::string s; for (size_t i = 0; i < v.size() && i < 14; ++i) { if (i) s += '/'; s += v[i].cls; } return s; }

static bool g_built = false;
static std::string g_kp;      // key prefix: "" for parse->serialize->parse, "built/" for API-built -> serialize -> parse
static void compare(const std::string& ename, const std::vector<LayerView>& a0, const std::vector<LayerView>& b0, const Bytes& y, const std::string& ctx) {
    std::vector<LayerView> a = a0, b = b0; strip_empty_tail(a); strip_empty_tail(b);
    // minimum-frame padding: some Ethernet-like layer of the re-parsed packet carries a frame of at most 64 bytes
    bool min_frame = false; for (auto& l : b0) if ((l.cls == "EthernetII" || l.cls == "Dot3" || l.cls == "Dot1Q") && l.rem_size <= 64) min_frame = true;
    // ... but a layer that delimits its payload with a length field of its own (IPv4 total length, IPv6 payload length) keeps the frame padding out of it
    for (auto& l : b0) if (l.cls == "IP" || l.cls == "IPv6") { if (min_frame) cnt("min-frame-padding-rule-not-applicable-below-ip"); min_frame = false; }
    bool icmp_pad = false; for (auto& l : b0) if (l.rfc4884) icmp_pad = true;      // RFC 4884: original datagram zero-padded to a word boundary
    (void)y;
    // Ethernet minimum-frame padding exposed by the re-parse as a trailing all-zero payload
    if (b.size() == a.size() + 1 && b.back().is_raw && all_zero(b.back().raw) && min_frame) { cnt("normalised:min-frame-padding-as-payload"); b.pop_back(); b.back().has_next = a.back().has_next; b.back().next_is_raw_nonempty = a.back().next_is_raw_nonempty; }
    if (a.size() != b.size() || chain_str(a) != chain_str(b)) { violation(g_kp + "layers-differ/" + ename + "/" + (a.empty() ? "?" : a[0].cls), "parsed " + chain_str(a) + " but the re-parse of its serialization gives " + chain_str(b) + " :: " + ctx); return; }
    for (size_t i = 0; i < a.size(); ++i) {
        const LayerView& x = a[i]; const LayerView& z = b[i];
        if (x.is_raw) { if (x.raw != z.raw) { Bytes zr = z.raw; // padding appended to the innermost payload of a short frame
                if (i + 1 == a.size() && zr.size() > x.raw.size() && (min_frame || (icmp_pad && (zr.size() - x.raw.size() < 8 || zr.size() == 128))) && std::equal(x.raw.begin(), x.raw.end(), zr.begin()) && all_zero(Bytes(zr.begin() + x.raw.size(), zr.end()))) { cnt(min_frame ? "normalised:min-frame-padding-appended" : "normalised:rfc4884-word-padding-appended"); continue; }
                violation(g_kp + "payload-differs/" + ename + "/" + (i ? a[i - 1].cls : "root"), "payload bytes changed: " + hex(x.raw, 40) + " -> " + hex(z.raw, 40) + " :: " + ctx); return; } continue; }
        for (size_t k = 0; k < x.kv.size() && k < z.kv.size(); ++k) {
            const std::string& key = x.kv[k].first; if (key == "class") continue;
            if (x.kv[k].second == z.kv[k].second) continue;
            if (g_built) {
                auto strip = [](std::string t) { size_t p = t.find("ICMPExtensionsStructure.checksum="); if (p != std::string::npos) { size_t e2 = t.find(';', p); t.erase(p, e2 == std::string::npos ? std::string::npos : e2 - p + 1); } return t; };
                if ((key == "ICMP.extensions" || key == "ICMPv6.extensions") && strip(x.kv[k].second) == strip(z.kv[k].second)) { cnt("derived_field_changed"); continue; }      // the structure's checksum is computed while writing
                static const std::set<std::string> api_only = {"Dot1Q.append_padding", "ICMP.use_length_field", "ICMPv6.use_length_field", "ICMPv6.use_mldv2"};      // switches of the encoder, not fields of the message
                if (api_only.count(key)) { cnt("built:api-only-switch-differs"); continue; }
                if (key.size() > 12 && key.compare(key.size() - 12, 12, ".header_size") == 0) { cnt("built:header-size-follows-the-option-list"); continue; }     // computed from the option list, which is compared itself
                if (key == "BootP.vend" && x.cls == "DHCP") { cnt("built:dhcp-vend-is-the-options-area"); continue; }       // DHCP keeps its encoded options in BootP's vend area after serializing
                if (key == "RTP.extension_profile") { bool xbit = false; for (auto& kv2 : x.kv) if (kv2.first == "RTP.extension_bit" && kv2.second != "0") xbit = true; if (!xbit) { cnt("built:rtp-profile-without-extension-bit"); continue; } }
                if (key == "IP.options") {      // an explicit End-of-options-list entry terminates the list for every parser
                    auto strip_end = [](std::string t) { const std::string e1 = ",opt{{number=0;op_class=0;copied=0;},len=0,lf=0,}]", e2 = "[opt{{number=0;op_class=0;copied=0;},len=0,lf=0,}]"; if (t.size() >= e1.size() && t.compare(t.size() - e1.size(), e1.size(), e1) == 0) t = t.substr(0, t.size() - e1.size()) + "]"; else if (t == e2) t = "[]"; return t; };
                    if (strip_end(x.kv[k].second) == z.kv[k].second) { cnt("built:ip-end-of-list-option-dropped"); continue; } }
            }
            if (derived().count(key)) { cnt("derived_field_changed"); continue; }
            if (x.rfc4884 && rfc4884_alias().count(key)) { cnt("rfc4884_length_alias_changed"); continue; }
            if ((key == "LLC.ssap" || key == "LLC.dsap") && ((atoi(x.kv[k].second.c_str()) ^ atoi(z.kv[k].second.c_str())) & 1)) {      // the low bit of a SAP octet is not part of the address (SSAP: command/response, DSAP: individual/group): it is a field of its own and must survive
                violation(g_kp + "view-differs/" + key + "/low-bit", key + ": " + x.kv[k].second + " -> " + z.kv[k].second + " (the " + (key == "LLC.ssap" ? "command/response" : "individual/group") + " bit changed) in layer " + std::to_string(i) + " of " + chain_str(a) + " :: " + ctx); return; }
            if (tags().count(key)) { if (!x.next_is_raw_nonempty) { cnt(x.has_next ? "tag_rederived_for_recognised_payload" : "tag_free_without_payload"); continue; } }
            violation(g_kp + "view-differs/" + key, key + ": " + x.kv[k].second.substr(0, g_built ? 600 : 120) + " -> " + z.kv[k].second.substr(0, g_built ? 600 : 120) + " in layer " + std::to_string(i) + " of " + chain_str(a) + " :: " + ctx); return;
        }
    }
    cnt("views_equal");
}

int main(int argc, char** argv) {
    register_all();
    std::vector<size_t> pe;
    return vf::run(argc, argv, "C03", [&](long idx, Rng& r) {
        if (pe.empty()) for (size_t i = 0; i < entries.size(); ++i) if (entries[i].ispdu) pe.push_back(i);
        if (st().a.mode == "built") {
            // C04's second sentence on whole stacks: what the building API assembled is what a parser of its serialization gets back
            PktGen g(r); std::unique_ptr<PDU> p(g.packet());
            std::vector<PDU*> layers; for (PDU* q = p.get(); q; q = q->inner_pdu()) layers.push_back(q);
            PDU* root = r.chance(2, 3) ? p.get() : layers[r.below((u32)layers.size())];
            const Entry* e = nullptr; for (size_t i : pe) if (entries[i].is_class(root)) { e = &entries[i]; break; }
            if (!e) { cnt("built:no-entry-point-for-root"); return; }
            std::string ctx = "built: " + g.trace + " rooted at " + cls(root); describe_case(ctx);
            if (not_serializable_root(root) || ip_root_needs_routing(root)) { cnt("skipped_not_serializable_or_routing"); return; }
            Bytes y; try { y = root->serialize(); } catch (...) { cnt("serialize_threw(C02's business)"); return; }
            if (y.size() > 65535 || y.empty()) { cnt("skipped_oversize_or_empty"); return; }
            // packets whose parse is a guess: an opaque payload under a layer that has no next-protocol field (label stack: IP by first nibble; 802.11 data:
            // LLC/SNAP by content), and discovery tags on a session-stage PPPoE packet (on the wire they are the session payload)
            for (PDU* x = root; x; x = x->inner_pdu()) {
                bool guess = dynamic_cast<MPLS*>(x) || dynamic_cast<Dot11Data*>(x);
                if (guess && x->inner_pdu() && dynamic_cast<RawPDU*>(x->inner_pdu())) { cnt("built:skipped:opaque-payload-under-" + cls(x)); return; }
                if (PPPoE* pp = dynamic_cast<PPPoE*>(x)) if (pp->code() == 0 && !pp->tags().empty()) { cnt("built:skipped:pppoe-session-packet-with-tags"); return; }
            }
            std::vector<LayerView> va = views(root);        // after serialize(): derived fields now hold what was written
            std::unique_ptr<PDU> q;
            try { ExactBuf buf(y); q.reset(e->parse(buf.data(), (u32)y.size())); }
            catch (const std::exception& ex) { violation("built/reparse-rejects/" + e->name + "/" + demangle(typeid(ex).name()), "libtins rejects its own serialization of an API-built packet (" + std::string(ex.what()) + "), chain=" + chain_str(va) + " y=" + hex(y, 200) + " :: " + ctx); return; }
            cnt("built:roundtrips"); cnt("built:" + e->name);
            std::vector<LayerView> vb = views(q.get());
            // Where the two chains stop having the same classes, the rest is compared as bytes: a parser can only dissect what the wire announces
            // (UDP payloads stay raw, a label stack guesses IP from the first nibble, 802.11 data frames guess LLC/SNAP, ...).
            { std::vector<PDU*> la, lb; for (PDU* x = root; x; x = x->inner_pdu()) la.push_back(x); for (PDU* x = q.get(); x; x = x->inner_pdu()) lb.push_back(x);
              size_t i = 0; while (i < la.size() && i < lb.size() && typeid(*la[i]) == typeid(*lb[i])) ++i;
              if (i < la.size() || i < lb.size()) {
                  Bytes ta, tb; try { if (i < la.size()) ta = la[i]->serialize(); if (i < lb.size()) tb = lb[i]->serialize(); } catch (...) { cnt("built:tail-serialize-threw"); return; }
                  size_t m = std::min(ta.size(), tb.size()); bool same = std::equal(ta.begin(), ta.begin() + m, tb.begin()) && all_zero(Bytes(ta.begin() + m, ta.end())) && all_zero(Bytes(tb.begin() + m, tb.end()));
                  if (!same || i == 0) { violation("built/tail-bytes-differ/" + e->name + "/" + (i ? cls(la[i - 1]) : std::string("root")), "below layer " + std::to_string(i) + " the API-built packet has " + chain_str(va) + " and the parse of its serialization " + chain_str(vb) + ", and the bytes of the two tails differ: " + hex(ta, 60) + " vs " + hex(tb, 60) + " :: " + ctx); return; }
                  cnt("built:normalised:tail-dissected-differently-same-bytes/" + cls(la[i - 1]));
                  va.resize(i); vb.resize(i); va.back().has_next = vb.back().has_next = true; va.back().next_is_raw_nonempty = vb.back().next_is_raw_nonempty = true;
              } }
            g_kp = "built/"; g_built = true; compare(e->name, va, vb, y, ctx + " y=" + hex(y, 300)); g_kp = ""; g_built = false;
            sig(mix(fnv(ctx), fnv(y.data(), std::min<size_t>(y.size(), 96))));
            return;
        }
        const Entry& e = entries[pe[idx % pe.size()]]; size_t pair = (size_t)idx / pe.size();
        auto one = [&](const Bytes& in, const char* how) {
            if (in.size() > 65535) return;
            std::string ctx = std::string("entry=") + e.name + " how=" + how + " len=" + std::to_string(in.size()) + " hex=" + hex(in, 1024);
            describe_case(ctx);
            std::unique_ptr<PDU> p, q;
            try { ExactBuf buf(in); p.reset(e.parse(buf.data(), (u32)in.size())); } catch (...) { cnt("rejected_inputs"); return; }
            if (!p) { cnt("rejected_inputs"); return; }
            if (not_serializable_root(p.get()) || ip_root_needs_routing(p.get())) { cnt("skipped_not_serializable_or_routing"); return; }
            if (e.name == "cap:EN10MB" && (!p->inner_pdu() || (dynamic_cast<Dot3*>(p.get()) && p->size() > 1514))) { cnt("skipped_en10mb_dispatch_not_preservable"); return; }
            std::vector<LayerView> va = views(p.get());
            Bytes y; try { y = p->serialize(); } catch (...) { cnt("serialize_threw(C02's business)"); return; }
            if (y.size() > 65535) { cnt("skipped_oversize"); return; }
            try { ExactBuf buf(y); q.reset(e.parse(buf.data(), (u32)y.size())); }
            catch (const std::exception& ex) { violation("reparse-rejects/" + e.name + "/" + (va.empty() ? "?" : va[0].cls) + "/" + demangle(typeid(ex).name()), "libtins accepted the input but rejects its own serialization of it (" + std::string(ex.what()) + "), chain=" + chain_str(va) + " y=" + hex(y, 200) + " :: " + ctx); return; }
            if (!q) { violation("reparse-rejects/" + e.name + "/null", "re-parse returned no packet :: " + ctx); return; }
            cnt("roundtrips"); cnt("ok:" + e.name);
            std::vector<LayerView> vb = views(q.get());
            compare(e.name, va, vb, y, ctx + " y=" + hex(y, 300));
            for (auto& l : va) cnt("layer:" + l.cls);
            // byte-for-byte idempotence when the innermost payload is non-empty
            const PDU* last = q.get(); while (last->inner_pdu()) last = last->inner_pdu();
            const RawPDU* lr = dynamic_cast<const RawPDU*>(last);
            if (lr && lr->payload_size() > 0) {
                try { Bytes y2 = q->serialize(); if (y2 != y) { size_t d = 0; while (d < y.size() && d < y2.size() && y[d] == y2[d]) ++d; violation("not-idempotent/" + e.name + "/" + chain_str(va).substr(0, 60), "serialize(parse(y)) differs from y at byte " + std::to_string(d) + " (|y|=" + std::to_string(y.size()) + ", |y2|=" + std::to_string(y2.size()) + ") :: " + ctx + " y=" + hex(y, 300)); } else cnt("idempotent_serializations"); }
                catch (const std::exception& ex) { violation("second-serialize-throws/" + e.name, std::string(ex.what()) + " :: " + ctx); }
            }
            sig(mix(fnv(e.name), mix(fnv(chain_str(va)), fnv(y.data(), std::min<size_t>(y.size(), 96)))));
            if (want_sample() && va.size() >= 3 && in.size() < 100) sample("entry=" + e.name + " chain=" + chain_str(va) + " in=" + hex(in) + " y=" + hex(y));
        };
        if (pair < seeds.size()) { const Bytes& s = seeds[pair].b; one(s, "seed"); for (int i = 0; i < 30; ++i) { size_t n = r.below((u32)s.size() + 1); one(Bytes(s.begin(), s.begin() + n), "trunc"); } for (int i = 0; i < 40; ++i) one(mutate(s, r), "mut-seed"); }
        else { u32 op = r.below(3);
            if (op == 0) { const Bytes& s = accepted_seed_for(e, r); for (int i = 0; i < 60; ++i) one(mutate(s, r), "mut-seed"); }
            else { Bytes s = generated_for(e, r, nullptr); one(s, "gen"); for (int i = 0; i < 40; ++i) one(mutate(s, r), "mut-gen"); for (int i = 0; i < 10; ++i) { size_t n = r.below((u32)s.size() + 1); one(Bytes(s.begin(), s.begin() + n), "trunc-gen"); } } }
    }, [&]() { load_seeds(st().a.get("corpus")); });
}
