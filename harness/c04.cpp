// C04 — what is set through the API is what a parser of the wire bytes gets back.
// Random API programs per layer class over the generated setter/getter table (scalar fields and typed option
// setters with generated arguments of their real types, including the option structs), raw add_option/remove_option
// where the class has them. Shadow model: last value set per field (text form of the argument). After EVERY step every
// shadowed getter must return the shadowed value; then the layer is serialized, re-parsed with its own from-buffer
// constructor and every shadowed getter must again return the shadowed value (encoder and decoder are inverses through
// the wire), and a second serialization must reproduce the first.
#include "view_put.h"
using namespace Tins;
using namespace vf;

template <class C, class A> A vf_setter_arg(void (C::*)(A));
static bool g_unfillable = false;

// ---- generated-argument machinery: genfill(r, x) for every argument type ---------------------------------------
#define VF_STRUCT_PROTO(Q) void genfill(Rng& r, Q& x);
#define VF_CLASS_PROTO(Q, FN)
#define VF_GEN_PROTOS
#include "gen_tins.inc"
#undef VF_GEN_PROTOS
#undef VF_STRUCT_PROTO
#undef VF_CLASS_PROTO

static void genfill(Rng& r, bool& x) { x = r.chance(1, 2); }
static void genfill(Rng& r, std::string& x) { u32 n = 1 + r.below(r.chance(1, 8) ? 60 : 14); x.clear(); for (u32 i = 0; i < n; ++i) x += (char)('a' + r.below(26)); if (n > 4 && r.chance(1, 2)) x[n / 2] = '.'; }
static void genfill(Rng& r, IPv4Address& x) { x = IPv4Address((u32)r.edgy(32)); }
static void genfill(Rng& r, IPv6Address& x) { uint8_t b[16]; u32 m = r.below(4); for (auto& c : b) c = m == 0 ? 0 : m == 1 ? 0xff : r.byte(); x = IPv6Address(b); }
template <size_t N> static void genfill(Rng& r, HWAddress<N>& x) { uint8_t b[N]; u32 m = r.below(4); for (auto& c : b) c = m == 0 ? 0 : m == 1 ? 0xff : r.byte(); x = HWAddress<N>(b); }
template <size_t N> static void genfill(Rng& r, small_uint<N>& x) { x = small_uint<N>((typename small_uint<N>::repr_type)r.edgy(N)); }
static void genfill(Rng& r, float& x) { x = 0.5f * (float)(1 + r.below(126)); }
static void genfill(Rng& r, double& x) { x = 0.5 * (double)(1 + r.below(126)); }
static void genfill(Rng& r, RSNInformation& x) {      // a class with an API of its own: built through it (suite lists of different lengths, so a swapped count shows)
    static const RSNInformation::CypherSuites cs[] = {RSNInformation::WEP_40, RSNInformation::TKIP, RSNInformation::CCMP, RSNInformation::WEP_104, RSNInformation::GCMP_128, RSNInformation::CCMP_256};
    static const RSNInformation::AKMSuites ak[] = {RSNInformation::EAP, RSNInformation::PSK, RSNInformation::EAP_FT, RSNInformation::PSK_FT, RSNInformation::EAP_SHA256, RSNInformation::SAE_SHA256};
    x = RSNInformation(); x.version((u16)r.edgy(16)); x.group_suite(cs[r.below(6)]); x.capabilities((u16)r.edgy(16));
    for (u32 n = r.below(5); n--;) x.add_pairwise_cypher(cs[r.below(6)]);
    for (u32 n = r.below(5); n--;) x.add_akm_cypher(ak[r.below(6)]);
}
template <class A, class B> static void genfill(Rng& r, std::pair<A, B>& x);
template <class T> static void genfill(Rng& r, std::vector<T>& x);
template <class T> static void genfill(Rng& r, T& x) {
    if constexpr (std::is_integral<T>::value) x = (T)r.edgy(sizeof(T) * 8);
    else if constexpr (std::is_enum<T>::value) x = (T)r.below(8);
    else { (void)r; (void)x; g_unfillable = true; }     // pointers and classes without a generator
}
template <class A, class B> static void genfill(Rng& r, std::pair<A, B>& x) { genfill(r, x.first); genfill(r, x.second); }
template <class T> static void genfill(Rng& r, std::vector<T>& x) { u32 n; switch (r.below(8)) { case 0: n = r.chance(1, 8) ? 0 : 2; break; case 1: n = 1; break; case 2: n = 8; break; case 3: n = 9; break; default: n = r.below(7); } x.clear(); for (u32 i = 0; i < n; ++i) { T t{}; genfill(r, t); x.push_back(t); } }

#define VF_MEMBER(N) { typename std::decay<decltype(x.N)>::type tmp_{}; if (std::string(#N).find("reserved") != 0) genfill(r, tmp_); x.N = tmp_; }
#define VF_STRUCT_DEF(Q, BODY) void genfill(Rng& r, Q& x) { (void)r; (void)x; BODY }
#define VF_GEN_STRUCT_DEFS
#include "gen_tins.inc"
#undef VF_GEN_STRUCT_DEFS

// ---- arguments with an invariant between their members: generated member-wise, then made consistent -------------------
template <class T> static void fixup(Rng&, T&) {}
static void fixup(Rng& r, Dot11ManagementFrame::country_params& x) {      // three parallel lists of one length, a 3-character country string (the setter refuses anything else)
    size_t n = r.chance(1, 6) ? 0 : 1 + r.below(8); x.first_channel.resize(n); x.number_channels.resize(n); x.max_transmit_power.resize(n);
    for (size_t i = 0; i < n; ++i) { x.first_channel[i] = (u8)r.edgy(8); x.number_channels[i] = (u8)r.edgy(8); x.max_transmit_power[i] = (u8)r.edgy(8); }
    x.country = std::string(1, (char)('A' + r.below(26))) + (char)('A' + r.below(26)) + (r.chance(1, 2) ? ' ' : 'I');
}

// ---- per field operations ------------------------------------------------------------------------------------------
struct FieldOps { std::string key, cls, owner, fname; bool scalar_kind; std::function<std::string(PDU&, Rng&)> set_random; std::function<std::string(const PDU&)> get; };
static std::vector<FieldOps> g_fields;
struct ClassOps { std::function<PDU*()> make; std::function<PDU*(const u8*, u32)> parse; };
static std::map<std::string, ClassOps> g_cls;

template <class T> static std::string txt(const T& v) { std::string s; put(s, v); return s; }
template <class Q> static PDU* parse_as(const u8* b, u32 n, std::true_type) { return new Q(b, n); }
template <class Q> static PDU* parse_as(const u8*, u32, std::false_type) { return nullptr; }

// state in which the class's options are on the wire and parsed back (ND message for ICMPv6, discovery stage for PPPoE)
static void prepare(PDU* p) {
    if (ICMPv6* c = dynamic_cast<ICMPv6*>(p)) c->type(ICMPv6::ROUTER_ADVERT);
    if (PPPoE* e = dynamic_cast<PPPoE*>(p)) e->code(0x09);
    if (IP* ip = dynamic_cast<IP*>(p)) ip->src_addr("198.51.100.7");
}
template <class Q, class A> struct Reg {
    template <class SET, class GET> static void go(const char* cls, const char* oname, const char* fname, SET set, GET get) {
        FieldOps f; f.key = std::string(oname) + "." + fname; f.cls = cls; f.owner = oname; f.fname = fname;
        f.scalar_kind = std::is_integral<A>::value || std::is_enum<A>::value;
        if (!g_cls.count(cls)) { ClassOps c; c.make = []() -> PDU* { Q* q = new Q(); prepare(q); return q; };
            c.parse = [](const u8* b, u32 n) -> PDU* { return parse_as<Q>(b, n, std::integral_constant<bool, std::is_constructible<Q, const uint8_t*, uint32_t>::value>()); }; g_cls[cls] = c; }
        const std::string key = f.key;
        f.set_random = [set, key](PDU& o, Rng& r) { A v{}; g_unfillable = false;
            if constexpr (std::is_same<A, const uint8_t*>::value) {       // setters that copy a fixed-size array from the pointer: hand them that many generated octets
                size_t n = fixed_array_len(key); if (!n) { g_unfillable = true; return std::string(); }
                static uint8_t buf[512]; u32 m = r.below(4); for (size_t i = 0; i < sizeof buf; ++i) buf[i] = m == 0 ? 0 : m == 1 ? 0xff : r.byte(); v = buf;
                set(static_cast<Q&>(o), v); return "arr:" + hex(buf, n, 4096); }
            else { g_unfillable = std::is_pointer<A>::value; if (!g_unfillable) { genfill(r, v); fixup(r, v); } if (g_unfillable) return std::string(); std::string t = txt(v); set(static_cast<Q&>(o), v); return t; } };
        f.get = [get, key](const PDU& o) { std::string s; put_named(s, key.c_str(), get(static_cast<const Q&>(o))); return s; };
        g_fields.push_back(f);
    }
};
static void register_fields() {
#define VF_UFIELD(Q, N, F, OWNER, ON) { typedef typename std::decay<decltype(vf_setter_arg(&OWNER::F))>::type A; \
    if (std::is_default_constructible<A>::value) Reg<Q, A>::go(#N, #ON, #F, [](Q& o, const A& v) { o.F(v); }, [](const Q& o) { return o.F(); }); }
#define VF_GEN_UFIELDS
#include "gen_tins.inc"
#undef VF_GEN_UFIELDS
}

// pairs that are not inverse by documented design, or whose argument space is wider than the wire field (in-range precondition of the property)
static const std::set<std::string>& excluded() {
    static const std::set<std::string> s = {
        // not wire fields, or only present on the wire for particular message types / flag combinations (in-range precondition of the property)
        "Dot1Q.append_padding", "DHCPv6.link_address", "DHCPv6.peer_address", "DHCPv6.hop_count", "Dot11Data.addr4", "Dot11ManagementFrame.addr4", "ICMP.use_length_field", "ICMPv6.use_length_field", "ICMPv6.use_mldv2",
        // a Loopback family announces the network layer that must follow: meaningless without that layer
        "Loopback.family",
        // ICMPv6 header words whose presence depends on the message type (target/dest address, MLD fields)
        "ICMPv6.target_addr", "ICMPv6.dest_addr", "ICMPv6.multicast_addr", "ICMPv6.multicast_address_records", "ICMPv6.sources", "ICMPv6.maximum_response_code", "ICMPv6.supress", "ICMPv6.qrv", "ICMPv6.qqic",
        "ICMPv6.reachable_time", "ICMPv6.retransmit_timer", "ICMPv6.checksum", "ICMP.checksum", "ICMP.original_timestamp", "ICMP.receive_timestamp", "ICMP.transmit_timestamp", "ICMP.address_mask", "ICMP.gateway",
        "ICMP.id", "ICMP.sequence", "ICMP.mtu", "ICMP.pointer", "ICMP.type", "ICMPv6.type",
        // checksums / lengths / header lengths are derived at serialization (C05); next-protocol tags need a payload to survive (C03)
        "IP.checksum", "IP.tot_len", "IP.head_len", "TCP.checksum", "TCP.data_offset", "UDP.length", "UDP.checksum", "Dot3.length", "EAPOL.length", "PPPoE.payload_length", "PPPoE.code", "IPv6.payload_length", "IPSecAH.length",
        "EthernetII.payload_type", "Dot1Q.payload_type", "SNAP.eth_type", "SLL.protocol", "IP.protocol", "IPv6.next_header", "IPSecAH.next_header", "LLC.dsap", "LLC.ssap", "MPLS.bottom_of_stack", "IP.version", "IPv6.version",
        "RSNEAPOL.wpa_length", "RSNEAPOL.key_length", "RadioTap.length", "RC4EAPOL.key_length", "RTP.extension_profile", "RTP.extension_length", "RTP.padding_size",
        // ICMPv6 type-specific second header word (C15 checks these accessors; which of them is on the wire depends on the message type)
        "ICMPv6.identifier", "ICMPv6.sequence", "ICMPv6.hop_limit", "ICMPv6.router_pref", "ICMPv6.home_agent", "ICMPv6.other", "ICMPv6.managed", "ICMPv6.router", "ICMPv6.solicited", "ICMPv6.override",
        "ICMPv6.router_lifetime", "ICMPv6.length", "ICMP.length",
        // a root IP with source 0.0.0.0 asks the OS routing table for a source address when serialized
        "IP.src_addr",
    };
    return s;
}
// getters overlaying the same bits / same option: setting one invalidates the shadow of the others
static bool overlaps(const std::string& a, const std::string& b);

// ICMPv6 options are padded to a multiple of 8 octets: a byte list that is not 6 mod 8 long comes back with trailing zeros
static std::string strip_trailing_zero_items(const std::string& t) { std::string o = t; for (;;) { size_t p = o.find(",0]"); if (p == std::string::npos) break; o.erase(p, 2); } for (;;) { size_t p = o.find("[0]"); if (p == std::string::npos) break; o.replace(p, 3, "[]"); } return o; }
static bool owner_pad_equal(const std::string& key, const std::string& a, const std::string& b) { return key.find("ICMPv6.") == 0 && strip_trailing_zero_items(a) == strip_trailing_zero_items(b); }
static std::string cls_of(const std::string& key) { return key.substr(0, key.find('.')); }

static void program(const std::string& cls, Rng& r) {
    ClassOps& co = g_cls[cls];
    std::unique_ptr<PDU> o(co.make());
    if (cls == "RadioTap" || cls == "DNS") return;        // dedicated checks C11 / C10
    std::vector<const FieldOps*> fs; for (auto& f : g_fields) if (f.cls == cls && !excluded().count(f.key)) fs.push_back(&f);
    if (fs.empty()) return;
    std::map<std::string, std::string> shadow; std::map<std::string, const FieldOps*> byname; std::string prog = cls + ": ";
    u32 steps = 1 + r.below(12);
    for (u32 s = 0; s < steps; ++s) {
        const FieldOps* f = fs[r.below((u32)fs.size())];
        static std::set<std::string> option_fields;                    // learned: setters that change the layer's size
        if (shadow.count(f->key) && (option_fields.count(f->key) || !f->scalar_kind)) continue;        // typed option already present: a second add would sit behind the first match
        g_unfillable = false; std::string val; u32 size_before = o->size();
        std::unique_ptr<PDU> backup(o->clone());
        try { val = f->set_random(*o, r); }
        catch (const exception_base& e) { cnt("setter_refused_argument"); o.reset(backup.release()); continue; }
        catch (const value_too_large&) { cnt("setter_refused_argument"); o.reset(backup.release()); continue; }
        if (g_unfillable) { cnt("fields_with_ungeneratable_argument"); cnt("ungeneratable:" + f->key); o.reset(backup.release()); continue; }
        const bool is_option = o->size() != size_before; if (is_option) option_fields.insert(f->key);
        // protocol limits: IPv4/TCP option space is 40 bytes, an AH ICV is a multiple of 4: outside them the argument is not representable
        if ((cls == "IP" || cls == "TCP") && o->header_size() > 60) { cnt("argument_exceeds_option_space"); o.reset(backup.release()); continue; }
        if (cls == "ICMPv6" && (o->header_size() % 8)) { cnt("argument_not_multiple_of_8_octets"); o.reset(backup.release()); continue; }      // ND options are sized in units of 8 octets
        if (cls == "IPSecAH" && (o->header_size() % 4)) { cnt("argument_not_word_multiple"); o.reset(backup.release()); continue; }
        bool has_empty_list = val.find("[]") != std::string::npos;
        if (!is_option && f->scalar_kind) { try { val = f->get(*o); } catch (...) {} }      // integral header field: exact inverse (incl. rejection of over-wide values) is C15's clause; C04 follows the value through the wire.
        // Header fields of any other type (addresses, structs such as the STP bridge identifiers, fixed arrays) are nobody else's: the getter must return what was set
        prog += f->fname + "(" + val.substr(0, 60) + ") "; describe_case(prog);
        cnt(o->size() != size_before ? "steps:option-setter" : "steps:scalar-setter");
        // a set may legitimately change what aliasing getters return: forget their shadows
        for (auto it = shadow.begin(); it != shadow.end();) { if (it->first != f->key && overlaps(it->first, f->key)) it = shadow.erase(it); else ++it; }
        shadow[f->key] = val; byname[f->key] = f;
        // (1) getters reflect exactly the accumulated edits
        for (auto& kv : shadow) { std::string got; try { got = byname[kv.first]->get(*o); } catch (const std::exception& e) { got = std::string("<exc:") + demangle(typeid(e).name()) + ">"; }
            if (got != kv.second && owner_pad_equal(kv.first, got, kv.second)) { cnt("normalised:icmpv6-option-zero-padding"); continue; }
            if (got != kv.second) { violation(std::string("getter-after-edits/") + (has_empty_list && kv.first == f->key ? "empty-list-argument/" : "") + kv.first + (kv.first == f->key ? "" : "/after:" + f->key), "expected " + kv.second.substr(0, 120) + " got " + got.substr(0, 120) + " :: " + prog); return; } }
        cnt("getter_checks", shadow.size());
        // (2) through the wire
        Bytes y; try { y = o->serialize(); } catch (const std::exception& e) { violation("serialize-throws/" + cls + "/after:" + f->key, std::string(e.what()) + " :: " + prog); return; }
        std::unique_ptr<PDU> q;
        try { ExactBuf buf(y); q.reset(co.parse(buf.data(), (u32)y.size())); } catch (const std::exception& e) { violation("reparse-rejects/" + cls + "/after:" + f->key, std::string(e.what()) + " y=" + hex(y, 120) + " :: " + prog); return; }
        if (!q) { cnt("class_without_buffer_constructor"); continue; }
        for (auto& kv : shadow) { std::string got; try { got = byname[kv.first]->get(*q); } catch (const std::exception& e) { got = std::string("<exc:") + demangle(typeid(e).name()) + ">"; }
            if (got != kv.second && owner_pad_equal(kv.first, got, kv.second)) { cnt("normalised:icmpv6-option-zero-padding"); continue; }
            if (got != kv.second) { violation(std::string("wire-roundtrip/") + (kv.second.find("[]") != std::string::npos ? "empty-list-argument/" : "") + kv.first, "set " + kv.second.substr(0, 120) + " but parsing the serialization gives " + got.substr(0, 120) + " y=" + hex(y, 100) + " :: " + prog); return; } }
        cnt("wire_checks", shadow.size());
        try { Bytes y2 = q->serialize(); if (y2 != y) { size_t d = 0; while (d < y.size() && d < y2.size() && y[d] == y2[d]) ++d; violation("reserialize-differs/" + cls + "/after:" + f->key, "byte " + std::to_string(d) + " y=" + hex(y, 100) + " y2=" + hex(y2, 100) + " :: " + prog); return; } }
        catch (const std::exception& e) { violation("reserialize-throws/" + cls, std::string(e.what()) + " :: " + prog); return; }
        for (auto& kv : shadow) cnt("field:" + kv.first);
    }
    sig(fnv(prog)); if (want_sample() && prog.size() < 400) sample(prog);
}

static bool overlaps(const std::string& a, const std::string& b) {
    static const std::vector<std::set<std::string>> g = {
        {"ICMP.id", "ICMP.sequence", "ICMP.gateway", "ICMP.mtu", "ICMP.pointer", "ICMP.length", "ICMP.type"}, {"ICMP.original_timestamp", "ICMP.address_mask"},
        {"IP.frag_off", "IP.flags", "IP.fragment_offset"}, {"IP.tos", "IP.dscp", "IP.ecn"}, {"IPv6.traffic_class", "IPv6.dscp", "IPv6.ecn"},
        {"DHCPv6.hop_count", "DHCPv6.transaction_id", "DHCPv6.msg_type"}, {"Dot1Q.id", "Dot1Q.priority", "Dot1Q.cfi"}, {"LLC.dsap", "LLC.group"}, {"LLC.ssap", "LLC.response"},
        {"RSNEAPOL.key_descriptor", "RSNEAPOL.key_t", "RSNEAPOL.key_index", "RSNEAPOL.install", "RSNEAPOL.key_ack", "RSNEAPOL.key_mic", "RSNEAPOL.secure", "RSNEAPOL.error", "RSNEAPOL.request", "RSNEAPOL.encrypted"},
    };
    for (auto& s : g) if (s.count(a) && s.count(b)) return true;
    // every ICMPv6 header getter overlays the type-specific second word: be conservative inside ICMPv6's fixed header
    return false;
}

int main(int argc, char** argv) {
    register_fields();
    std::vector<std::string> classes; for (auto& f : g_fields) if (std::find(classes.begin(), classes.end(), f.cls) == classes.end()) classes.push_back(f.cls);
    return vf::run(argc, argv, "C04", [&](long idx, Rng& r) {
        if (idx == 0) { cnt("field_pairs_in_table", g_fields.size()); cnt("classes_in_table", classes.size()); }
        program(classes[(size_t)idx % classes.size()], r);
        cnt("programs");
    });
}
