// C04 / phase "lists" — histories of raw additions, removals and look-ups on every list-bearing class,
// checked against an ordered shadow list after EVERY step.
//
// Shadow model: ordered vector of (code, bytes). A case is (class, configuration, program of 1..14 steps over
// {add(code, bytes), remove(code), search(code)}) with only 1..3 distinct codes per program, so that several
// entries with the SAME code are the normal situation (that is where "first match" matters).
// After every step, on the real object:
//   (1) list getter == shadow (order, codes, bytes, data_size(), length_field()==data_size())
//   (2) remove(code) returned true iff the shadow held the code, and exactly the FIRST match went away
//       (documented: "If there are multiple options of the given type, only the first one will be removed")
//   (3) search(code) is null iff absent, else equals the FIRST match (and, where the getter returns a reference,
//       IS the element at that index of the list)
//   (4) size()/header_size() equal what the wire format implies for the shadow (own encoder below), and
//       serialize().size()==size(); add-then-remove of an absent code on a copy returns to the same size and list
//   (5) through the wire: the option region of serialize() equals the own encoding of the shadow (+ zero padding the
//       format requires), the class's own (buffer,size) constructor yields the same list, and re-serialization of the
//       parsed object reproduces the bytes.
// The encoders / size arithmetic here are written from the RFC wire formats, not from libtins helpers.
//
// Restrictions of the GENERATOR (the oracle is never loosened; each is counted under "lists-skip:..."):
//   * TCP kind 0 (EOL) / IPv4 type 0 (END) are never added: on the wire they terminate the list and every conforming
//     parser (libtins' included) drops them together with what follows, so they are padding, not list elements.
//   * TCP NOP / IPv4 NOOP are single-octet options: only added with empty data.
//   * TCP / IPv4 option space is 40 octets (data offset / IHL are 4-bit word counts): an add that would make the padded
//     option region exceed 40 octets is not representable and is skipped.
//   * DHCP PAD(0)/END(255) are single-octet options: only added with empty data; nothing is added after an END (RFC 2132:
//     END marks the end of valid information). PPPoE End-Of-List (0x0000) likewise (RFC 2516: length MUST be zero,
//     no further tags).
//   * one-octet length fields: DHCP / Dot11 data <= 255 octets; ICMPv6 ND option data = 8k-2 octets, k in 1..255.
//   * IPv6 extension headers: only identifiers that the IPv6 parser chains as generic extension headers (0, 43, 44, 60,
//     135); 59 (No Next Header) is not a header, 51 (AH) counts its length in 4-octet units (RFC 4302) and has its own
//     class, 44 (Fragment) is a fixed 8-octet header (6 data octets). Data is 8k-2 octets; in 1 of 5 adds the data is
//     NOT 8k-2 octets long: IPv6 itself zero-pads such a header to the next 8-octet boundary when writing it, so for
//     those elements (only) the list parsed from the wire is compared with data + that many zero octets.
//   * RTP: at most 15 CSRC identifiers (4-bit CC); csrc_ids()/extension_data() hold the words in network byte order
//     (pinned by the repo's own unit tests), so the getter is compared with the byte-swapped shadow value.
//   * ICMP / ICMPv6 extensions (RFC 4884) only exist behind an "original datagram" of >= 128 octets: the message always
//     carries a payload; types are limited to those for which libtins allows extensions.
#include <tins/tcp.h>
#include <tins/ip.h>
#include <tins/ipv6.h>
#include <tins/dhcp.h>
#include <tins/dhcpv6.h>
#include <tins/icmp.h>
#include <tins/icmpv6.h>
#include <tins/icmp_extension.h>
#include <tins/dot11.h>
#include <tins/pppoe.h>
#include <tins/rtp.h>
#include <tins/rawpdu.h>
#include <tins/exceptions.h>
#include <memory>
#include <algorithm>
#include "verif.h"
using namespace Tins;
using namespace vf;

namespace {

struct Elem { u32 code; Bytes data; };
typedef std::vector<Elem> List;
struct Got { u32 code; Bytes data; size_t lf; };

std::string show(const Elem& e) { return std::to_string(e.code) + ":" + (e.data.size() > 24 ? "(" + std::to_string(e.data.size()) + " octets)" + hex(e.data, 8) : hex(e.data)); }
std::string show(const List& l) { std::string s = "["; for (size_t i = 0; i < l.size(); ++i) { if (i) s += ' '; s += show(l[i]); if (s.size() > 400) { s += " ..(" + std::to_string(l.size()) + " elements)"; break; } } return s + "]"; }
std::string show(const std::vector<Got>& l) { List t; for (auto& g : l) t.push_back(Elem{g.code, g.data}); return show(t); }
long first_of(const List& l, u32 code) { for (size_t i = 0; i < l.size(); ++i) if (l[i].code == code) return (long)i; return -1; }
u32 count_of(const List& l, u32 code) { u32 n = 0; for (auto& e : l) n += e.code == code; return n; }
void put16be(Bytes& o, u32 v) { o.push_back((u8)(v >> 8)); o.push_back((u8)v); }
void append(Bytes& o, const Bytes& d) { o.insert(o.end(), d.begin(), d.end()); }
template <class Opt> Got grab(const Opt& o, u32 code) { Got g; g.code = code; g.lf = o.length_field(); if (o.data_size()) g.data.assign(o.data_ptr(), o.data_ptr() + o.data_size()); return g; }
std::string exc_name(const std::exception& e) { return demangle(typeid(e).name()); }
// data lengths: many tiny (incl. 0), around the PDUOption small-buffer boundary (8), some long
u32 small_len(Rng& r, u32 mx) { u32 n; switch (r.below(8)) { case 0: n = 0; break; case 1: n = 1; break; case 2: n = 8; break; case 3: n = 9; break; default: n = r.below(13); } return n > mx ? mx : n; }

// ---------------------------------------------------------------------------------------------------------------
// API adaptors: how the list is reached on each class
// ---------------------------------------------------------------------------------------------------------------
template <class C, class Arg> struct StdApi {            // add_option / remove_option / search_option / options(), integral option type
    typedef C Obj; typedef typename C::option Opt; static const bool has_remove = true; static const bool getter_is_reference = true;
    static void add(Obj& o, const Elem& e, u32 how) { Opt x((typename Opt::option_type)e.code, e.data.begin(), e.data.end()); if (how == 0) { const Opt& cx = x; o.add_option(cx); } else o.add_option(std::move(x)); }
    static bool remove(Obj& o, u32 c) { return o.remove_option((Arg)c); }
    static const Opt* search(const Obj& o, u32 c) { return o.search_option((Arg)c); }
    static std::vector<Got> list(const Obj& o) { std::vector<Got> v; for (const Opt& x : o.options()) v.push_back(grab(x, (u32)x.option())); return v; }
    static long index_of(const Obj& o, const Opt* p) { const auto& v = o.options(); for (size_t i = 0; i < v.size(); ++i) if (&v[i] == p) return (long)i; return -1; }
    static u32 code_of(const Opt& x) { return (u32)x.option(); }
};
struct TcpApi : StdApi<TCP, TCP::OptionTypes> {           // + the variadic emplace overload
    static void add(Obj& o, const Elem& e, u32 how) { if (how == 2) o.add_option((uint8_t)e.code, e.data.begin(), e.data.end()); else StdApi<TCP, TCP::OptionTypes>::add(o, e, how); }
};
struct DhcpApi : StdApi<DHCP, DHCP::OptionTypes> {        // options() returns a copy: identity of the found element cannot be checked
    static const bool getter_is_reference = false;
    static std::vector<Got> list(const Obj& o) { std::vector<Got> v; const DHCP::options_type l = o.options(); for (const Opt& x : l) v.push_back(grab(x, (u32)x.option())); return v; }
    static long index_of(const Obj&, const Opt*) { return -2; }
};
struct IpApi {
    typedef IP Obj; typedef IP::option Opt; static const bool has_remove = true; static const bool getter_is_reference = true;
    static_assert(sizeof(IP::option_identifier) == 1, "option_identifier is the type octet");
    static u32 byte_of(const IP::option_identifier& id) { u8 b; memcpy(&b, &id, 1); return b; }
    static void add(Obj& o, const Elem& e, u32 how) { IP::option_identifier id((uint8_t)e.code); if (how == 2) { o.add_option(id, e.data.begin(), e.data.end()); return; } Opt x(id, e.data.begin(), e.data.end()); if (how == 0) { const Opt& cx = x; o.add_option(cx); } else o.add_option(std::move(x)); }
    static bool remove(Obj& o, u32 c) { return o.remove_option(IP::option_identifier((uint8_t)c)); }
    static const Opt* search(const Obj& o, u32 c) { return o.search_option(IP::option_identifier((uint8_t)c)); }
    static std::vector<Got> list(const Obj& o) { std::vector<Got> v; for (const Opt& x : o.options()) v.push_back(grab(x, byte_of(x.option()))); return v; }
    static long index_of(const Obj& o, const Opt* p) { const auto& v = o.options(); for (size_t i = 0; i < v.size(); ++i) if (&v[i] == p) return (long)i; return -1; }
    static u32 code_of(const Opt& x) { return byte_of(x.option()); }
};
struct PppoeApi {
    typedef PPPoE Obj; typedef PPPoE::tag Opt; static const bool has_remove = false; static const bool getter_is_reference = true;
    static void add(Obj& o, const Elem& e, u32 how) { Opt x((PPPoE::TagTypes)e.code, e.data.begin(), e.data.end()); if (how == 0) { const Opt& cx = x; o.add_tag(cx); } else o.add_tag(std::move(x)); }
    static bool remove(Obj&, u32) { return false; }
    static const Opt* search(const Obj& o, u32 c) { return o.search_tag((PPPoE::TagTypes)c); }
    static std::vector<Got> list(const Obj& o) { std::vector<Got> v; for (const Opt& x : o.tags()) v.push_back(grab(x, (u32)x.option())); return v; }
    static long index_of(const Obj& o, const Opt* p) { const auto& v = o.tags(); for (size_t i = 0; i < v.size(); ++i) if (&v[i] == p) return (long)i; return -1; }
    static u32 code_of(const Opt& x) { return (u32)x.option(); }
};
struct Ipv6Api {
    typedef IPv6 Obj; typedef IPv6::ext_header Opt; static const bool has_remove = false; static const bool getter_is_reference = true;
    static void add(Obj& o, const Elem& e, u32 how) { if (how == 2) { o.add_header((uint8_t)e.code, e.data.begin(), e.data.end()); return; } Opt x((uint8_t)e.code, e.data.begin(), e.data.end()); if (how == 0) { const Opt& cx = x; o.add_header(cx); } else o.add_header(std::move(x)); }
    static bool remove(Obj&, u32) { return false; }
    static const Opt* search(const Obj& o, u32 c) { return o.search_header((IPv6::ExtensionHeader)c); }
    static std::vector<Got> list(const Obj& o) { std::vector<Got> v; for (const Opt& x : o.headers()) v.push_back(grab(x, (u32)x.option())); return v; }
    static long index_of(const Obj& o, const Opt* p) { const auto& v = o.headers(); for (size_t i = 0; i < v.size(); ++i) if (&v[i] == p) return (long)i; return -1; }
    static u32 code_of(const Opt& x) { return (u32)x.option(); }
};

// ---------------------------------------------------------------------------------------------------------------
// Protocol descriptions: generator restrictions + own wire encoder
// ---------------------------------------------------------------------------------------------------------------
struct ProtoBase {
    static u32 padded(u32 region) { return region; }                      // size of the option region as written
    static const char* refuse(const List&, const Elem&, u32) { return nullptr; }
    static Bytes wire_data(const Elem& e) { return e.data; }              // the element's data as a parser of the wire sees it
    static u32 ways_to_add() { return 2; }                                // const& / && (3: + variadic emplace)
};
struct TcpProto : ProtoBase {
    static const char* name() { return "TCP"; }
    static std::unique_ptr<TCP> make(Rng& r, std::string& cfg) { std::unique_ptr<TCP> t(new TCP((u16)r.next(), (u16)r.next())); t->seq((u32)r.next()); t->flags((u8)r.next()); cfg = ""; return t; }
    static TCP* parse(const u8* b, u32 n) { return new TCP(b, n); }
    static u32 draw_code(Rng& r) { for (;;) { u32 c = r.chance(1, 3) ? 1u : r.chance(1, 2) ? 2u + r.below(7) : r.below(256);
        if (c == 0) { cnt("lists-skip:TCP:EOL-terminates-the-list"); continue; } return c; } }
    static Bytes draw_data(Rng& r, u32 code) { if (code == 1) return Bytes(); return r.bytes(r.chance(1, 10) ? r.below(39) : small_len(r, 38)); }
    static void encode(const Elem& e, Bytes& o) { o.push_back((u8)e.code); if (e.code > 1) { o.push_back((u8)(e.data.size() + 2)); append(o, e.data); } }     // RFC 9293 3.1: kind, length (incl. both), data
    static u32 padded(u32 region) { return (region + 3) & ~3u; }          // header length is counted in 32-bit words
    static const char* refuse(const List&, const Elem& e, u32 region) { Bytes t; encode(e, t); return padded(region + (u32)t.size()) > 40 ? "option-space-is-40-octets" : nullptr; }
    static u32 ways_to_add() { return 3; }
};
struct IpProto : ProtoBase {
    static const char* name() { return "IP"; }
    static std::unique_ptr<IP> make(Rng& r, std::string& cfg) { std::unique_ptr<IP> p(new IP("203.0.113.9", "198.51.100.7")); p->ttl((u8)r.next()); p->id((u16)r.next()); cfg = ""; return p; }   // non-zero source: no routing table lookup
    static IP* parse(const u8* b, u32 n) { return new IP(b, n); }
    static u32 draw_code(Rng& r) { for (;;) { static const u32 usual[] = {1, 7, 68, 130, 131, 136, 137, 148, 0x81, 0x80 | 0x1f};
        u32 c = r.chance(1, 4) ? 1u : r.chance(1, 2) ? usual[r.below(10)] : r.below(256);
        if (c == 0) { cnt("lists-skip:IP:END-terminates-the-list"); continue; } return c; } }
    static Bytes draw_data(Rng& r, u32 code) { if (code == 1) return Bytes(); return r.bytes(r.chance(1, 10) ? r.below(39) : small_len(r, 38)); }
    static void encode(const Elem& e, Bytes& o) { o.push_back((u8)e.code); if (e.code > 1) { o.push_back((u8)(e.data.size() + 2)); append(o, e.data); } }     // RFC 791 3.1
    static u32 padded(u32 region) { return (region + 3) & ~3u; }
    static const char* refuse(const List&, const Elem& e, u32 region) { Bytes t; encode(e, t); return padded(region + (u32)t.size()) > 40 ? "option-space-is-40-octets" : nullptr; }
    static u32 ways_to_add() { return 3; }
};
struct DhcpProto : ProtoBase {
    static const char* name() { return "DHCP"; }
    static std::unique_ptr<DHCP> make(Rng& r, std::string& cfg) { std::unique_ptr<DHCP> d(new DHCP()); d->xid((u32)r.next()); cfg = ""; return d; }
    static DHCP* parse(const u8* b, u32 n) { return new DHCP(b, n); }
    static u32 draw_code(Rng& r) { return r.chance(1, 10) ? 0u : r.chance(1, 16) ? 255u : r.chance(1, 2) ? 50u + r.below(12) : 1u + r.below(254); }
    static Bytes draw_data(Rng& r, u32 code) { if (code == 0 || code == 255) { cnt("lists-skip:DHCP:PAD-END-carry-no-data"); return Bytes(); }
        return r.bytes(r.chance(1, 12) ? 253 + r.below(3) : r.chance(1, 8) ? r.below(256) : small_len(r, 255)); }
    static void encode(const Elem& e, Bytes& o) { o.push_back((u8)e.code); if (e.code != 0 && e.code != 255) { o.push_back((u8)e.data.size()); append(o, e.data); } }     // RFC 2132 2.
    static const char* refuse(const List& sh, const Elem&, u32) { return first_of(sh, 255) >= 0 ? "nothing-follows-END" : nullptr; }
};
struct Dhcp6Proto : ProtoBase {
    static const char* name() { return "DHCPv6"; }
    static std::unique_ptr<DHCPv6> make(Rng& r, std::string& cfg) { std::unique_ptr<DHCPv6> d(new DHCPv6());
        if (r.chance(1, 3)) { d->msg_type(r.chance(1, 2) ? DHCPv6::RELAY_FORWARD : DHCPv6::RELAY_REPLY); d->hop_count(r.byte()); Bytes a = r.bytes(16), b = r.bytes(16); d->link_address(IPv6Address(a.data())); d->peer_address(IPv6Address(b.data())); cfg = "relay"; }
        else { d->msg_type((DHCPv6::MessageType)(1 + r.below(11))); d->transaction_id((u32)r.next() & 0xffffff); cfg = "client-server"; }
        return d; }
    static DHCPv6* parse(const u8* b, u32 n) { return new DHCPv6(b, n); }
    static u32 draw_code(Rng& r) { return r.chance(1, 2) ? 1u + r.below(24) : (u32)r.edgy(16); }
    static Bytes draw_data(Rng& r, u32) { return r.bytes(r.chance(1, 12) ? 250 + r.below(600) : small_len(r, 65535)); }
    static void encode(const Elem& e, Bytes& o) { put16be(o, e.code); put16be(o, (u32)e.data.size()); append(o, e.data); }      // RFC 8415 21.1
};
struct Icmp6Proto : ProtoBase {
    static const char* name() { return "ICMPv6"; }
    static std::unique_ptr<ICMPv6> make(Rng& r, std::string& cfg) { static const ICMPv6::Types ts[] = {ICMPv6::ROUTER_ADVERT, ICMPv6::ROUTER_SOLICIT, ICMPv6::NEIGHBOUR_SOLICIT, ICMPv6::NEIGHBOUR_ADVERT, ICMPv6::REDIRECT};
        u32 k = r.chance(1, 2) ? 0 : r.below(5); std::unique_ptr<ICMPv6> c(new ICMPv6(ts[k])); cfg = "type=" + std::to_string((int)ts[k]);       // ND messages: the only ones that carry options
        if (c->has_target_addr()) { Bytes a = r.bytes(16); c->target_addr(IPv6Address(a.data())); } return c; }
    static ICMPv6* parse(const u8* b, u32 n) { return new ICMPv6(b, n); }
    static u32 draw_code(Rng& r) { return r.chance(1, 2) ? 1u + r.below(5) : r.below(256); }
    static Bytes draw_data(Rng& r, u32) { u32 units = r.chance(1, 20) ? 255u : r.chance(1, 8) ? 1u + r.below(40) : 1u + r.below(3); return r.bytes(units * 8 - 2); }     // length is counted in units of 8 octets
    static void encode(const Elem& e, Bytes& o) { o.push_back((u8)e.code); o.push_back((u8)((e.data.size() + 2) / 8)); append(o, e.data); }      // RFC 4861 4.6
};
template <class F> struct Dot11Proto : ProtoBase {
    static const char* name() { return std::is_same<F, Dot11Beacon>::value ? "Dot11Beacon" : std::is_same<F, Dot11ProbeResponse>::value ? "Dot11ProbeResponse" : "Dot11AssocRequest"; }
    static std::unique_ptr<F> make(Rng& r, std::string& cfg) { Bytes a = r.bytes(6), b = r.bytes(6); std::unique_ptr<F> f(new F(HWAddress<6>(a.data()), HWAddress<6>(b.data()))); cfg = ""; return f; }
    static F* parse(const u8* b, u32 n) { return new F(b, n); }
    static u32 draw_code(Rng& r) { return r.chance(1, 2) ? r.below(8) : r.chance(1, 2) ? 221u : r.below(256); }
    static Bytes draw_data(Rng& r, u32) { return r.bytes(r.chance(1, 12) ? 253 + r.below(3) : r.chance(1, 8) ? r.below(256) : small_len(r, 255)); }
    static void encode(const Elem& e, Bytes& o) { o.push_back((u8)e.code); o.push_back((u8)e.data.size()); append(o, e.data); }        // IEEE 802.11 9.4.2.1: element id, length, information
};
struct PppoeProto : ProtoBase {
    static const char* name() { return "PPPoE"; }
    static std::unique_ptr<PPPoE> make(Rng& r, std::string& cfg) { static const u8 codes[] = {0x09, 0x07, 0x19, 0x65, 0xa7}; std::unique_ptr<PPPoE> p(new PPPoE()); u8 c = codes[r.below(5)]; p->code(c); p->session_id((u16)r.next()); cfg = "code=" + std::to_string(c); return p; }   // discovery stage: tags are on the wire
    static PPPoE* parse(const u8* b, u32 n) { return new PPPoE(b, n); }
    // TagTypes values are the wire octets read as a host-order (little-endian) 16-bit word
    static u32 draw_code(Rng& r) { static const u32 usual[] = {PPPoE::SERVICE_NAME, PPPoE::AC_NAME, PPPoE::HOST_UNIQ, PPPoE::AC_COOKIE, PPPoE::VENDOR_SPECIFIC, PPPoE::RELAY_SESSION_ID, PPPoE::GENERIC_ERROR};
        return r.chance(1, 16) ? 0u : r.chance(1, 2) ? usual[r.below(7)] : (u32)r.edgy(16); }
    static Bytes draw_data(Rng& r, u32 code) { if (code == 0) { cnt("lists-skip:PPPoE:End-Of-List-carries-no-data"); return Bytes(); } return r.bytes(r.chance(1, 12) ? 250 + r.below(600) : small_len(r, 65535)); }
    static void encode(const Elem& e, Bytes& o) { o.push_back((u8)e.code); o.push_back((u8)(e.code >> 8)); put16be(o, (u32)e.data.size()); append(o, e.data); }    // RFC 2516 app. A; see note on TagTypes above
    static const char* refuse(const List& sh, const Elem&, u32) { return first_of(sh, 0) >= 0 ? "nothing-follows-End-Of-List" : nullptr; }
};
struct Ipv6Proto : ProtoBase {
    static const char* name() { return "IPv6"; }
    static std::unique_ptr<IPv6> make(Rng& r, std::string& cfg) { std::unique_ptr<IPv6> p(new IPv6("2001:db8::1", "2001:db8::2")); p->hop_limit((u8)r.next()); p->flow_label((u32)r.next() & 0xfffff); cfg = ""; return p; }
    static IPv6* parse(const u8* b, u32 n) { return new IPv6(b, n); }
    static u32 draw_code(Rng& r) { static const u32 ids[] = {IPv6::HOP_BY_HOP, IPv6::DESTINATION_OPTIONS, IPv6::ROUTING, IPv6::FRAGMENT, IPv6::MOBILITY}; return ids[r.below(5)]; }
    static Bytes draw_data(Rng& r, u32 code) { if (code == IPv6::FRAGMENT) return r.bytes(6);
        if (r.chance(1, 5)) { cnt("lists-normalised:IPv6:class-zero-pads-data-to-8-octet-units"); return r.bytes(r.below(40)); }
        u32 units = r.chance(1, 20) ? 256u : r.chance(1, 8) ? 1u + r.below(40) : 1u + r.below(3); return r.bytes(units * 8 - 2); }
    static u32 padlen(const Elem& e) { return (8 - (e.data.size() + 2) % 8) % 8; }
    static Bytes wire_data(const Elem& e) { Bytes d = e.data; d.resize(d.size() + padlen(e), 0); return d; }
    // the "code" octet of header i on the wire is the identifier of header i+1 (or of what follows); handled in encode_region
    static void encode(const Elem& e, Bytes& o) { o.push_back((u8)e.code); o.push_back((u8)((e.data.size() + 2 + padlen(e)) / 8 - 1)); append(o, wire_data(e)); }     // RFC 8200 4.: next header, hdr ext len
};

template <class P> Bytes encode_region(const List& sh) { Bytes o; for (auto& e : sh) P::encode(e, o); return o; }
template <> Bytes encode_region<Ipv6Proto>(const List& sh) {
    Bytes o; for (size_t i = 0; i < sh.size(); ++i) { Elem e = sh[i]; e.code = i + 1 < sh.size() ? sh[i + 1].code : 59u /* No Next Header: the packet has no payload */; Ipv6Proto::encode(e, o); } return o; }

// ---------------------------------------------------------------------------------------------------------------
// The program runner for (code, bytes) lists
// ---------------------------------------------------------------------------------------------------------------
static std::unordered_set<u64> g_local_sigs;
static void finish_program(const std::string& prog, bool dup_seen) {
    u64 h = fnv(prog); sig(h); if (g_local_sigs.insert(h).second) cnt("lists:distinct-histories");
    cnt("lists:programs"); if (dup_seen) cnt("lists:programs-with-duplicate-codes");
    if (want_sample() && prog.size() < 300 && dup_seen) sample(prog);
}

template <class A, class P> static void option_program(Rng& r) {
    typedef typename A::Obj Obj; typedef typename A::Opt Opt;
    const std::string C = P::name(); std::string cfg;
    std::unique_ptr<Obj> o = P::make(r, cfg);
    std::string prog = "lists " + C + (cfg.empty() ? "" : "{" + cfg + "}") + ":"; describe_case(prog);
    const u32 base = o->size();
    if (!A::list(*o).empty()) { violation("list-after-edits/" + C + "/fresh-object-not-empty", prog); return; }
    // few distinct codes per program: duplicates of one code are the normal case
    std::vector<u32> pool; for (u32 n = 1 + r.below(3); pool.size() < n;) { u32 c = P::draw_code(r); if (std::find(pool.begin(), pool.end(), c) == pool.end() || r.chance(1, 4)) pool.push_back(c); }
    List sh; bool dup_seen = false; const u32 steps = 1 + r.below(14);

    auto same = [&](const std::vector<Got>& got, const List& want, bool wire, std::string& why) -> bool {
        if (got.size() != want.size()) { why = "count"; return false; }
        for (size_t i = 0; i < got.size(); ++i) {
            if (got[i].code != want[i].code) { why = "code-or-order"; return false; }
            if (got[i].data != (wire ? P::wire_data(want[i]) : want[i].data)) { why = "bytes"; return false; }
            if (got[i].lf != got[i].data.size()) { why = "length_field"; return false; }
        }
        return true;
    };
    auto expected_size = [&](const List& l) { return base + P::padded((u32)encode_region<P>(l).size()); };

    for (u32 s = 0; s < steps; ++s) {
        u32 op = r.below(A::has_remove ? 8 : 6);          // 0-3 add, 4-5 search, 6-7 remove
        std::string opname = op < 4 ? "add" : op < 6 ? "search" : "remove";
        try {
            if (op < 4) {
                Elem e; e.code = r.pick(pool); e.data = P::draw_data(r, e.code);
                if (const char* why = P::refuse(sh, e, (u32)encode_region<P>(sh).size())) { cnt("lists-skip:" + C + ":" + why); continue; }
                u32 how = r.below(P::ways_to_add());
                prog += " +" + show(e) + (how == 0 ? "" : how == 1 ? "&&" : "..."); describe_case(prog);
                A::add(*o, e, how); sh.push_back(e);
                cnt("lists:" + C + ":add"); if (e.data.empty()) cnt("lists:" + C + ":add-empty-data"); if (count_of(sh, e.code) >= 2) { dup_seen = true; cnt("lists:" + C + ":add-duplicate-code"); }
            } else {
                u32 code = r.chance(1, 6) ? P::draw_code(r) : r.pick(pool);
                long at = first_of(sh, code); bool dups = count_of(sh, code) >= 2;
                if (op < 6) {
                    prog += " ?" + std::to_string(code); describe_case(prog);
                    const Opt* p = A::search(*o, code);
                    if ((p != nullptr) != (at >= 0)) { violation("search-result/" + C + (p ? "/found-absent-code" : "/missed-present-code"), "search(" + std::to_string(code) + ") returned " + (p ? "an element" : "null") + " but the edits so far leave " + show(sh) + " :: " + prog); return; }
                    if (p) {
                        Got g = grab(*p, A::code_of(*p));
                        if (g.code != code || g.data != sh[at].data || g.lf != g.data.size()) { violation("search-result/" + C + "/not-first-match", "search(" + std::to_string(code) + ") returned " + show(Elem{g.code, g.data}) + ", the first match after the edits so far is " + show(sh[at]) + " (element " + std::to_string(at) + " of " + show(sh) + ") :: " + prog); return; }
                        if (A::getter_is_reference) { long ix = A::index_of(*o, p); if (ix != at) { violation("search-result/" + C + "/not-first-match", "search(" + std::to_string(code) + ") returned element " + std::to_string(ix) + " of the list, the first match is element " + std::to_string(at) + " of " + show(sh) + " :: " + prog); return; } cnt("lists:search-identity-checks"); }
                        cnt("lists:" + C + ":search-hit"); if (dups) { cnt("lists:" + C + ":dup-code-present"); cnt("lists:dup-code-present"); }
                    } else cnt("lists:" + C + ":search-miss");
                } else {
                    prog += " -" + std::to_string(code); describe_case(prog);
                    bool res = A::remove(*o, code);
                    if (res != (at >= 0)) { violation("remove-result/" + C + (res ? "/true-for-absent-code" : "/false-for-present-code"), "remove(" + std::to_string(code) + ") returned " + (res ? "true" : "false") + " but the edits so far leave " + show(sh) + " :: " + prog); return; }
                    if (at >= 0) { sh.erase(sh.begin() + at); cnt("lists:" + C + ":remove-hit"); if (dups) { cnt("lists:" + C + ":dup-code-present"); cnt("lists:dup-code-present"); cnt("lists:" + C + ":remove-with-duplicates"); } }
                    else cnt("lists:" + C + ":remove-miss");
                }
            }
            // (1) the list getter reflects exactly the accumulated edits
            std::string why; std::vector<Got> got = A::list(*o);
            if (!same(got, sh, false, why)) { violation("list-after-edits/" + C + "/after:" + opname + "/" + why, "list getter gives " + show(got) + ", the edits so far leave " + show(sh) + " :: " + prog); return; }
            cnt("lists:getter_checks");
            // (4) sizes follow the wire format
            const u32 want_size = expected_size(sh);
            if (o->size() != want_size || o->header_size() != want_size) { violation("size-accounting/" + C + "/after:" + opname, "size()=" + std::to_string(o->size()) + " header_size()=" + std::to_string(o->header_size()) + " but the wire format implies " + std::to_string(want_size) + " (fixed part " + std::to_string(base) + ") for " + show(sh) + " :: " + prog); return; }
            cnt("lists:size_checks");
            // (5) through the wire -- not after every step: an encoder that caches its last output must also be caught when several edits (possibly
            // of the same total size) lie between two serializations
            if (s + 1 < steps && r.chance(1, 3)) { cnt("lists:wire-check-deferred"); continue; }
            Bytes y = o->serialize();
            if (y.size() != want_size) { violation("size-accounting/" + C + "/serialization-length", "serialize() gave " + std::to_string(y.size()) + " octets, size() said " + std::to_string(want_size) + " :: " + prog); return; }
            { Bytes region = encode_region<P>(sh); region.resize(P::padded((u32)region.size()), 0);
              if (!std::equal(region.begin(), region.end(), y.begin() + base)) { size_t d = 0; while (d < region.size() && region[d] == y[base + d]) ++d;
                  violation("wire-bytes/" + C + "/after:" + opname, "octet " + std::to_string(d) + " of the list region differs from the protocol encoding of " + show(sh) + ": wrote " + hex(y.data() + base, region.size(), 80) + " expected " + hex(region, 80) + " :: " + prog); return; } }
            got = A::list(*o);
            if (!same(got, sh, false, why)) { violation("list-after-edits/" + C + "/changed-by-serialize/" + why, "after serialize() the list getter gives " + show(got) + ", expected " + show(sh) + " :: " + prog); return; }
            std::unique_ptr<Obj> q;
            try { ExactBuf buf(y); q.reset(P::parse(buf.data(), (u32)y.size())); }
            catch (const std::exception& ex) { violation("wire-roundtrip/" + C + "/reparse-rejects", exc_name(ex) + " parsing " + hex(y, 120) + " :: " + prog); return; }
            got = A::list(*q);
            if (!same(got, sh, true, why)) { violation("wire-roundtrip/" + C + "/list/" + why, "parsing the serialization gives " + show(got) + ", the edits so far leave " + show(sh) + " y=" + hex(y, 100) + " :: " + prog); return; }
            if (q->size() != y.size()) { violation("wire-roundtrip/" + C + "/parsed-size", "parsed object reports size() " + std::to_string(q->size()) + " for " + std::to_string(y.size()) + " octets :: " + prog); return; }
            // look-ups on the parsed object see the same first matches
            for (u32 code : pool) { const Opt* p = A::search(*q, code); long at = first_of(sh, code);
                if ((p != nullptr) != (at >= 0) || (p && (A::code_of(*p) != code || grab(*p, code).data != P::wire_data(sh[at])))) { violation("wire-roundtrip/" + C + "/search-on-parsed", "search(" + std::to_string(code) + ") on the parsed object disagrees with " + show(sh) + " :: " + prog); return; } }
            Bytes y2 = q->serialize();
            if (y2 != y) { size_t d = 0; while (d < y.size() && d < y2.size() && y[d] == y2[d]) ++d; violation("wire-roundtrip/" + C + "/reserialize-differs", "octet " + std::to_string(d) + " y=" + hex(y, 100) + " y2=" + hex(y2, 100) + " :: " + prog); return; }
            cnt("lists:wire_checks"); cnt("lists:" + C + ":steps"); cnt_max("lists:max-list-length:" + C, sh.size());
            // the history sometimes continues on the object parsed from the wire (it was just shown to hold the same list;
            // for the IPv6 elements the class padded, the shadow takes over the padded data that is now stored)
            if (r.chance(1, 8)) { o = std::move(q); for (auto& e : sh) e.data = P::wire_data(e); prog += " [continue-on-parsed]"; describe_case(prog); cnt("lists:continued-on-parsed-object"); }
            // (4b) on a copy: adding an element with a code that is absent and removing that code again is a no-op
            if (A::has_remove && r.chance(1, 4)) {
                Elem e; e.code = P::draw_code(r); e.data = P::draw_data(r, e.code);
                if (first_of(sh, e.code) < 0 && !P::refuse(sh, e, (u32)encode_region<P>(sh).size())) {
                    Obj c(*o); std::string pp = prog + " [copy: +" + show(e) + " -" + std::to_string(e.code) + "]"; describe_case(pp);
                    A::add(c, e, 0); List sh2 = sh; sh2.push_back(e);
                    if (c.size() != expected_size(sh2)) { violation("size-accounting/" + C + "/after:add", "on a copy: size()=" + std::to_string(c.size()) + ", the wire format implies " + std::to_string(expected_size(sh2)) + " for " + show(sh2) + " :: " + pp); return; }
                    bool res = A::remove(c, e.code); got = A::list(c);
                    if (!res || !same(got, sh, false, why) || c.size() != want_size) { violation("list-after-edits/" + C + "/add-then-remove-not-neutral", std::string("remove returned ") + (res ? "true" : "false") + ", list " + show(got) + " size " + std::to_string(c.size()) + "; expected " + show(sh) + " size " + std::to_string(want_size) + " :: " + pp); return; }
                    if (o->size() != want_size || !same(A::list(*o), sh, false, why)) { violation("list-after-edits/" + C + "/copy-not-independent", "editing a copy changed the original :: " + pp); return; }
                    cnt("lists:add-remove-neutral-checks"); describe_case(prog);
                }
            }
        }
        catch (const std::exception& ex) { violation("throws/" + C + "/during:" + opname + "/" + exc_name(ex), std::string(ex.what()) + " :: " + prog); return; }
    }
    finish_program(prog, dup_seen);
}

// ---------------------------------------------------------------------------------------------------------------
// RTP: two lists of 32-bit words (CSRC identifiers, extension header data), look-ups return bool
// ---------------------------------------------------------------------------------------------------------------
static u32 be32(u32 v) { return __builtin_bswap32(v); }       // x86-64 little-endian (assumption of the property set)
static void rtp_program(Rng& r) {
    const std::string C = "RTP"; RTP o; o.payload_type((u8)(r.next() & 0x7f)); o.sequence_number((u16)r.next()); o.timestamp((u32)r.next()); o.ssrc_id((u32)r.next());
    u16 profile = (u16)r.next(); o.extension_profile(profile);
    std::string prog = "lists RTP:"; describe_case(prog);
    std::vector<u32> pool; for (u32 n = 1 + r.below(3); pool.size() < n;) pool.push_back(r.chance(1, 3) ? (u32)r.edgy(32) : r.chance(1, 2) ? r.below(4) : (u32)r.next());
    std::vector<u32> cs, ex; bool dup_seen = false; const u32 steps = 1 + r.below(14);
    if (r.chance(1, 6)) for (u32 n = 13 + r.below(3); cs.size() < n;) { u32 v = (u32)r.next(); o.add_csrc_id(v); cs.push_back(v); }      // start close to the 15-identifier limit
    auto words = [](const std::vector<u32>& v) { std::string s = "["; for (size_t i = 0; i < v.size(); ++i) { if (i) s += ' '; char b[16]; snprintf(b, sizeof b, "%08x", v[i]); s += b; } return s + "]"; };
    auto swapped = [](const std::vector<u32>& v) { std::vector<u32> o; for (u32 x : v) o.push_back(be32(x)); return o; };
    for (u32 s = 0; s < steps; ++s) {
        const bool on_csrc = r.chance(1, 2); std::vector<u32>& l = on_csrc ? cs : ex; const std::string L = on_csrc ? "csrc" : "ext";
        u32 op = r.below(8); std::string opname = op < 4 ? "add" : op < 6 ? "search" : "remove";
        u32 v = r.chance(1, 6) ? (u32)r.next() : r.pick(pool);
        auto it = std::find(l.begin(), l.end(), v); const bool present = it != l.end(); const bool dups = std::count(l.begin(), l.end(), v) >= 2;
        char vb[16]; snprintf(vb, sizeof vb, "%08x", v);
        try {
            if (op < 4) {
                if (on_csrc && cs.size() >= 15) {      // the 4-bit CC field holds at most 15: a 16th add must be refused AND leave the object as it was (the checks below run on the unchanged shadow)
                    prog += " +" + L + ":" + vb + "(16th)"; describe_case(prog); bool refused = false;
                    try { o.add_csrc_id(v); } catch (const std::exception&) { refused = true; }
                    if (!refused) { violation("add-beyond-limit/RTP/csrc/accepted", "add_csrc_id accepted a 16th identifier (CC is a 4-bit field) :: " + prog); return; }
                    cnt("lists:RTP:add-refused-at-limit"); opname = "refused-add"; }
                else {
                prog += " +" + L + ":" + vb; describe_case(prog);
                if (on_csrc) o.add_csrc_id(v); else o.add_extension_data(v);
                l.push_back(v); cnt("lists:RTP:add"); if (std::count(l.begin(), l.end(), v) >= 2) { dup_seen = true; cnt("lists:RTP:add-duplicate-code"); } }
            } else if (op < 6) {
                prog += " ?" + L + ":" + vb; describe_case(prog);
                bool res = on_csrc ? o.search_csrc_id(v) : o.search_extension_data(v);
                if (res != present) { violation("search-result/RTP/" + L + (res ? "/found-absent-value" : "/missed-present-value"), "search " + std::string(vb) + " returned " + (res ? "true" : "false") + ", list after the edits so far " + words(l) + " :: " + prog); return; }
                cnt(res ? "lists:RTP:search-hit" : "lists:RTP:search-miss"); if (dups) { cnt("lists:RTP:dup-code-present"); cnt("lists:dup-code-present"); }
            } else {
                prog += " -" + L + ":" + vb; describe_case(prog);
                bool res = on_csrc ? o.remove_csrc_id(v) : o.remove_extension_data(v);
                if (res != present) { violation("remove-result/RTP/" + L + (res ? "/true-for-absent-value" : "/false-for-present-value"), "remove " + std::string(vb) + " returned " + (res ? "true" : "false") + ", list after the edits so far " + words(l) + " :: " + prog); return; }
                if (present) { l.erase(it); cnt("lists:RTP:remove-hit"); if (dups) { cnt("lists:RTP:dup-code-present"); cnt("lists:dup-code-present"); cnt("lists:RTP:remove-with-duplicates"); } } else cnt("lists:RTP:remove-miss");
            }
            // (1) getters (words are held in network byte order, see header comment)
            if (std::vector<u32>(o.csrc_ids().begin(), o.csrc_ids().end()) != swapped(cs) || (u32)o.csrc_count() != cs.size()) { violation("list-after-edits/RTP/csrc/after:" + opname, "csrc_ids() (byte-swapped) " + words(swapped(std::vector<u32>(o.csrc_ids().begin(), o.csrc_ids().end()))) + " csrc_count()=" + std::to_string((u32)o.csrc_count()) + ", the edits so far leave " + words(cs) + " :: " + prog); return; }
            if (std::vector<u32>(o.extension_data().begin(), o.extension_data().end()) != swapped(ex) || o.extension_length() != ex.size() || (u32)o.extension_bit() != (ex.empty() ? 0u : 1u)) { violation("list-after-edits/RTP/ext/after:" + opname, "extension_data() (byte-swapped) " + words(swapped(std::vector<u32>(o.extension_data().begin(), o.extension_data().end()))) + " extension_length()=" + std::to_string(o.extension_length()) + " extension_bit()=" + std::to_string((u32)o.extension_bit()) + ", the edits so far leave " + words(ex) + " :: " + prog); return; }
            cnt("lists:getter_checks");
            // (4) RFC 3550 5.1 / 5.3.1: 12 octets, CC words, and - only with X set - a 4-octet extension header plus its words
            const u32 want_size = 12 + 4 * (u32)cs.size() + (ex.empty() ? 0 : 4 + 4 * (u32)ex.size());
            if (o.size() != want_size || o.header_size() != want_size) { violation("size-accounting/RTP/after:" + opname, "size()=" + std::to_string(o.size()) + ", the wire format implies " + std::to_string(want_size) + " for csrc " + words(cs) + " ext " + words(ex) + " :: " + prog); return; }
            cnt("lists:size_checks");
            // (5) wire
            Bytes y = o.serialize();
            Bytes region; for (u32 x : cs) { put16be(region, x >> 16); put16be(region, x & 0xffff); } if (!ex.empty()) { put16be(region, profile); put16be(region, (u32)ex.size()); for (u32 x : ex) { put16be(region, x >> 16); put16be(region, x & 0xffff); } }
            if (y.size() != want_size) { violation("size-accounting/RTP/serialization-length", "serialize() gave " + std::to_string(y.size()) + " octets, expected " + std::to_string(want_size) + " :: " + prog); return; }
            if ((y[0] & 0x0fu) != cs.size() || ((y[0] >> 4) & 1u) != (ex.empty() ? 0u : 1u) || !std::equal(region.begin(), region.end(), y.begin() + 12)) { violation("wire-bytes/RTP/after:" + opname, "wrote " + hex(y, 100) + ", expected CC=" + std::to_string(cs.size()) + " X=" + (ex.empty() ? "0" : "1") + " then " + hex(region, 100) + " :: " + prog); return; }
            std::unique_ptr<RTP> q;
            try { ExactBuf buf(y); q.reset(new RTP(buf.data(), (u32)y.size())); } catch (const std::exception& e2) { violation("wire-roundtrip/RTP/reparse-rejects", exc_name(e2) + " parsing " + hex(y, 120) + " :: " + prog); return; }
            if (std::vector<u32>(q->csrc_ids().begin(), q->csrc_ids().end()) != swapped(cs) || std::vector<u32>(q->extension_data().begin(), q->extension_data().end()) != swapped(ex)) { violation("wire-roundtrip/RTP/list", "parsing the serialization gives csrc " + words(swapped(std::vector<u32>(q->csrc_ids().begin(), q->csrc_ids().end()))) + " ext " + words(swapped(std::vector<u32>(q->extension_data().begin(), q->extension_data().end()))) + ", the edits so far leave csrc " + words(cs) + " ext " + words(ex) + " :: " + prog); return; }
            for (u32 pv : pool) if (q->search_csrc_id(pv) != (std::find(cs.begin(), cs.end(), pv) != cs.end()) || q->search_extension_data(pv) != (std::find(ex.begin(), ex.end(), pv) != ex.end())) { violation("wire-roundtrip/RTP/search-on-parsed", "look-up on the parsed object disagrees with csrc " + words(cs) + " ext " + words(ex) + " :: " + prog); return; }
            Bytes y2 = q->serialize();
            if (y2 != y) { violation("wire-roundtrip/RTP/reserialize-differs", "y=" + hex(y, 100) + " y2=" + hex(y2, 100) + " :: " + prog); return; }
            cnt("lists:wire_checks"); cnt("lists:RTP:steps"); cnt_max("lists:max-list-length:RTP", std::max(cs.size(), ex.size()));
            // continue on the parsed object (without extension words the profile is not on the wire: a later first word starts from profile 0)
            if (r.chance(1, 8)) { o = *q; if (ex.empty()) profile = 0; prog += " [continue-on-parsed]"; describe_case(prog); cnt("lists:continued-on-parsed-object"); }
        }
        catch (const std::exception& e2) { violation("throws/RTP/during:" + opname + "/" + exc_name(e2), std::string(e2.what()) + " :: " + prog); return; }
    }
    finish_program(prog, dup_seen);
}

// ---------------------------------------------------------------------------------------------------------------
// ICMP / ICMPv6 extension objects (RFC 4884): add-only list of (class, c-type, payload)
// ---------------------------------------------------------------------------------------------------------------
template <class M> static void icmp_ext_program(Rng& r) {
    const bool v6 = std::is_same<M, ICMPv6>::value; const std::string C = v6 ? "ICMPv6.extensions" : "ICMP.extensions";
    M o; std::string cfg;
    if constexpr (std::is_same<M, ICMPv6>::value) { o.type(ICMPv6::TIME_EXCEEDED); cfg = "type=3"; }
    else { static const ICMP::Flags ts[] = {ICMP::DEST_UNREACHABLE, ICMP::TIME_EXCEEDED, ICMP::PARAM_PROBLEM}; ICMP::Flags t = ts[r.below(3)]; o.type(t); cfg = "type=" + std::to_string((int)t); }
    // the "original datagram": zero-padded by the class to 128 octets, or to the length unit (4 / 8 octets) above that
    const u32 inner = r.chance(1, 6) ? 128u : r.chance(1, 4) ? 129u + r.below(80) : 1u + r.below(127);
    Bytes pl = r.bytes(inner); o.inner_pdu(new RawPDU(pl.data(), (u32)pl.size()));
    const u32 unit = v6 ? 8 : 4; const u32 padded_inner = std::max(128u, (inner + unit - 1) / unit * unit);
    std::string prog = "lists " + C + "{" + cfg + " datagram=" + std::to_string(inner) + "}:"; describe_case(prog);
    std::vector<std::pair<u8, u8>> pool; for (u32 n = 1 + r.below(3); pool.size() < n;) pool.push_back({(u8)(r.chance(1, 2) ? 1 + r.below(3) : r.byte()), (u8)(r.chance(1, 2) ? 1 : r.byte())});
    List sh; bool dup_seen = false; const u32 steps = 1 + r.below(8);
    auto lst = [](const M& m) { std::vector<Got> v; for (const ICMPExtension& e : m.extensions().extensions()) { Got g; g.code = (u32)e.extension_class() << 8 | e.extension_type(); g.data = e.payload(); g.lf = g.data.size(); v.push_back(g); } return v; };
    auto same = [](const std::vector<Got>& g, const List& w) { if (g.size() != w.size()) return false; for (size_t i = 0; i < g.size(); ++i) if (g[i].code != w[i].code || g[i].data != w[i].data) return false; return true; };
    for (u32 s = 0; s < steps; ++s) {
        try {
            auto ct = r.pick(pool); Elem e; e.code = (u32)ct.first << 8 | ct.second; e.data = r.bytes(r.chance(1, 4) ? r.below(24) : 4 * r.below(6));
            prog += " +" + show(e); describe_case(prog);
            ICMPExtension x(ct.first, ct.second); x.payload(e.data); o.extensions().add_extension(x); sh.push_back(e);
            cnt("lists:" + C + ":add"); if (count_of(sh, e.code) >= 2) { dup_seen = true; cnt("lists:" + C + ":add-duplicate-code"); }
            std::vector<Got> got = lst(o);
            if (!same(got, sh)) { violation("list-after-edits/" + C + "/after:add", "extensions() gives " + show(got) + ", the edits so far leave " + show(sh) + " :: " + prog); return; }
            cnt("lists:getter_checks");
            // RFC 4884 7.: 4-octet extension header, then objects of 4-octet header (length incl. header, class, c-type) + payload
            Bytes region; for (auto& el : sh) { put16be(region, (u32)el.data.size() + 4); region.push_back((u8)(el.code >> 8)); region.push_back((u8)el.code); append(region, el.data); }
            const u32 want_size = 8 + padded_inner + 4 + (u32)region.size();
            if (o.size() != want_size) { violation("size-accounting/" + C + "/after:add", "size()=" + std::to_string(o.size()) + ", the wire format implies " + std::to_string(want_size) + " for " + show(sh) + " :: " + prog); return; }
            cnt("lists:size_checks");
            Bytes y = o.serialize();
            if (y.size() != want_size) { violation("size-accounting/" + C + "/serialization-length", "serialize() gave " + std::to_string(y.size()) + " octets, expected " + std::to_string(want_size) + " :: " + prog); return; }
            if (!std::equal(region.begin(), region.end(), y.end() - region.size()) || !std::equal(pl.begin(), pl.end(), y.begin() + 8)) { violation("wire-bytes/" + C + "/after:add", "wrote ..." + hex(y.data() + 8 + padded_inner, y.size() - 8 - padded_inner, 100) + ", expected the 4-octet extension header then " + hex(region, 100) + " :: " + prog); return; }
            std::unique_ptr<M> q;
            try { ExactBuf buf(y); q.reset(new M(buf.data(), (u32)y.size())); } catch (const std::exception& e2) { violation("wire-roundtrip/" + C + "/reparse-rejects", exc_name(e2) + " :: " + prog); return; }
            got = lst(*q);
            if (got.empty()) {
                // own RFC 1071 verification of the extension structure that was written: the one's complement sum of all its
                // 16-bit words, checksum included, must be 0xffff. If it is and the parser still ignored the structure, the
                // parser rejected a correct checksum (kf=ext-checksum-carry: validate_extensions drops the end-around carry).
                const u8* es = y.data() + 8 + padded_inner; size_t en = y.size() - 8 - padded_inner; u32 acc = 0;
                for (size_t i = 0; i < en; i += 2) acc += (u32)es[i] << 8 | (i + 1 < en ? es[i + 1] : 0); while (acc >> 16) acc = (acc & 0xffff) + (acc >> 16);
                if (acc == 0xffff) { violation("wire-roundtrip/" + C + "/valid-extension-checksum-rejected", "the extension structure " + hex(es, en, 60) + " carries a correct checksum (words sum to ffff) but parsing the serialization yields no extensions; the edits so far leave " + show(sh) + " kf=ext-checksum-carry :: " + prog); return; }
            }
            if (!same(got, sh)) { violation("wire-roundtrip/" + C + "/list", "parsing the serialization gives " + show(got) + ", the edits so far leave " + show(sh) + " :: " + prog); return; }
            Bytes y2 = q->serialize();
            if (y2 != y) { size_t d = 0; while (d < y.size() && d < y2.size() && y[d] == y2[d]) ++d; violation("wire-roundtrip/" + C + "/reserialize-differs", "octet " + std::to_string(d) + " of " + std::to_string(y.size()) + "/" + std::to_string(y2.size()) + " :: " + prog); return; }
            cnt("lists:wire_checks"); cnt("lists:" + C + ":steps"); cnt_max("lists:max-list-length:" + C, sh.size());
        }
        catch (const std::exception& e2) { violation("throws/" + C + "/during:add/" + exc_name(e2), std::string(e2.what()) + " :: " + prog); return; }
    }
    finish_program(prog, dup_seen);
}

typedef void (*ProgFn)(Rng&);
const ProgFn g_programs[] = {
    &option_program<TcpApi, TcpProto>,
    &option_program<IpApi, IpProto>,
    &option_program<DhcpApi, DhcpProto>,
    &option_program<StdApi<DHCPv6, DHCPv6::OptionTypes>, Dhcp6Proto>,
    &option_program<StdApi<ICMPv6, ICMPv6::OptionTypes>, Icmp6Proto>,
    &option_program<StdApi<Dot11Beacon, Dot11::OptionTypes>, Dot11Proto<Dot11Beacon>>,
    &option_program<StdApi<Dot11ProbeResponse, Dot11::OptionTypes>, Dot11Proto<Dot11ProbeResponse>>,
    &option_program<StdApi<Dot11AssocRequest, Dot11::OptionTypes>, Dot11Proto<Dot11AssocRequest>>,
    &option_program<PppoeApi, PppoeProto>,
    &option_program<Ipv6Api, Ipv6Proto>,
    &rtp_program,
    &icmp_ext_program<ICMP>,
    &icmp_ext_program<ICMPv6>,
    // the classes with a remove operation get a second slot (removal histories are the point of this phase)
    &option_program<TcpApi, TcpProto>,
    &option_program<IpApi, IpProto>,
    &option_program<DhcpApi, DhcpProto>,
    &option_program<StdApi<DHCPv6, DHCPv6::OptionTypes>, Dhcp6Proto>,
    &option_program<StdApi<ICMPv6, ICMPv6::OptionTypes>, Icmp6Proto>,
    &rtp_program,
};

} // namespace

int main(int argc, char** argv) {
    return vf::run(argc, argv, "C04", [&](long idx, Rng& r) {
        const size_t n = sizeof(g_programs) / sizeof(g_programs[0]);
        g_programs[(size_t)idx % n](r);
    });
}
