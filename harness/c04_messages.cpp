// C04 / phase "messages" — type-aware API programs: fields that only exist on the wire for a particular message
// type / flag combination, and setters with two or more arguments (which the generated single-argument table of
// c04.cpp cannot drive).
//
// A case is (message kind, program). The message is first put into the state in which the fields exist (type / format /
// flag set first), then 1..N randomly chosen applicable fields are set to generated in-range values (boundary heavy:
// 0, 1, max, max-1, powers of two), possibly several times (last value wins). Shadow model: field -> last value set,
// initialised from a full getter snapshot of the fresh object. After EVERY set
//   (1) every getter of the kind must equal the shadow: the field just set returns the value set, every other field
//       keeps its previous value (snapshot comparison);
// and after about every second set, and always after the last one,
//   (2) the message is serialized (standalone, or inside the lower layer that gives it context: ICMPv6 in IPv6, ICMP in
//       IP, Dot11 through Dot11::from_bytes, an SOA record inside a DNS message), parsed with the class's own
//       (buffer,size) constructor, every getter of the parsed object must equal the shadow and the re-serialization must
//       be byte-identical;
//   (3) the octets of the layer are compared with an image computed HERE from the shadow with RFC / IEEE offset
//       arithmetic (big/little endian puts at fixed offsets; nothing of libtins is used for it), region by region, so an
//       encoder and a decoder that are wrong in the same way are still caught. Checksums are not part of the image; they
//       are verified with an own RFC 1071 sum where the context makes them defined.
// Two non-generic programs: ICMP::set_*() compound helpers (type/code/named fields as documented, through the wire),
// TCP::set_flag/get_flag/flags/has_flags against a 12-bit model.
//
// Restrictions of the GENERATOR (never of an oracle; each is counted under "msgs:restrict:*"):
//   * a typed option / tag / element setter is called at most once per program: a second call appends a second
//     element and the typed getter returns the first (repeated codes are phase "lists");
//   * ICMPv6 ND option data is 8k-2 octets (the length octet counts 8-octet units);
//   * MLDv2 records: aux data is a whole number of 32-bit words, at most 255 (one-octet word count);
//   * ICMP DEST_UNREACHABLE / PARAM_PROBLEM / ICMPv6 payloads stay below 128 octets (RFC 4884: from 128 octets on the
//     trailing octets may be an extension structure) and only the fields of the message type are set (the other
//     accessors overlay the same header word);
//   * MLDv1 queries and ND messages carry no payload (trailing octets are MLDv2 fields / ND options by definition);
//   * LLC: SSAP 0x42/0x43 is never generated (DSAP=SSAP=0x42 announces an STP BPDU: the payload would have to be one);
//   * Dot11Data: a payload is only attached with the protected-frame bit set (otherwise it must be a SNAP header);
//   * PPPoE: nothing is added after End-Of-List (RFC 2516); RTP: at most 15 CSRC identifiers (4-bit CC), padding
//     1..255 octets; the extension profile is only set while the X bit is set (else it is not on the wire);
//   * DNS names: 0..4 labels of 1..63 letters/digits/hyphens (what a domain name can hold).
#pragma GCC optimize("O0")      // the monitor is mostly table-building lambdas: optimising them only costs build time (libtins itself is built -O1)
#include <tins/icmp.h>
#include <tins/icmpv6.h>
#include <tins/icmp_extension.h>
#include <tins/ip.h>
#include <tins/ipv6.h>
#include <tins/tcp.h>
#include <tins/dhcpv6.h>
#include <tins/bootp.h>
#include <tins/pppoe.h>
#include <tins/dns.h>
#include <tins/rtp.h>
#include <tins/llc.h>
#include <tins/dot11.h>
#include <tins/rawpdu.h>
#include <tins/exceptions.h>
#include <memory>
#include <algorithm>
#include "verif.h"
using namespace Tins;
using namespace vf;

namespace {

// ---------------------------------------------------------------------------------------------------------------
// values, shadow, wire image
// ---------------------------------------------------------------------------------------------------------------
struct Val { int k = 0; u64 n = 0; Bytes b; };      // k: 0 number, 1 octets, 2 absent (typed getter: option_not_found), 3 getter threw something else
bool operator==(const Val& a, const Val& c) { return a.k == c.k && a.n == c.n && a.b == c.b; }
bool operator!=(const Val& a, const Val& c) { return !(a == c); }
Val N(u64 n) { Val v; v.n = n; return v; }
Val B(const Bytes& b) { Val v; v.k = 1; v.b = b; return v; }
Val ABSENT() { Val v; v.k = 2; return v; }
Val ERR(const std::string& s) { Val v; v.k = 3; v.b.assign(s.begin(), s.end()); return v; }
std::string show(const Val& v) {
    if (v.k == 0) return std::to_string(v.n);
    if (v.k == 1) return "x" + hex(v.b, 40) + "[" + std::to_string(v.b.size()) + "]";
    if (v.k == 2) return "<absent>";
    return "<exc:" + std::string(v.b.begin(), v.b.end()) + ">";
}
typedef std::map<std::string, Val> Shadow;
const Val& at(const Shadow& s, const std::string& k) { static const Val none = ABSENT(); auto i = s.find(k); return i == s.end() ? none : i->second; }
u64 num(const Shadow& s, const std::string& k) { return at(s, k).k == 0 ? at(s, k).n : 0; }
const Bytes& oct(const Shadow& s, const std::string& k) { return at(s, k).b; }

template <class F> Val guard(F f) {
    try { return f(); }
    catch (const option_not_found&) { return ABSENT(); }
    catch (const std::exception& e) { return ERR(demangle(typeid(e).name())); }
}

struct Image {
    struct Reg { std::string name; size_t off, len; bool care; };
    Bytes b; std::vector<Reg> regs;
    void put(const std::string& name, const Bytes& d, bool care = true) { regs.push_back(Reg{name, b.size(), d.size(), care}); b.insert(b.end(), d.begin(), d.end()); }
    void u8_(const std::string& n, u64 v) { put(n, Bytes{(u8)v}); }
    void be16(const std::string& n, u64 v) { put(n, Bytes{(u8)(v >> 8), (u8)v}); }
    void be32(const std::string& n, u64 v) { put(n, Bytes{(u8)(v >> 24), (u8)(v >> 16), (u8)(v >> 8), (u8)v}); }
    void le16(const std::string& n, u64 v) { put(n, Bytes{(u8)v, (u8)(v >> 8)}); }
    void le64(const std::string& n, u64 v) { Bytes d; for (int i = 0; i < 8; ++i) d.push_back((u8)(v >> (8 * i))); put(n, d); }
    void zeros(const std::string& n, size_t k) { put(n, Bytes(k, 0)); }
    void skip(const std::string& n, size_t k) { put(n, Bytes(k, 0), false); }
};
void app(Bytes& o, const Bytes& d) { o.insert(o.end(), d.begin(), d.end()); }
void app16(Bytes& o, u64 v) { o.push_back((u8)(v >> 8)); o.push_back((u8)v); }
void app32(Bytes& o, u64 v) { o.push_back((u8)(v >> 24)); o.push_back((u8)(v >> 16)); o.push_back((u8)(v >> 8)); o.push_back((u8)v); }
u64 rd16(const Bytes& b, size_t o) { return (u64)b[o] << 8 | b[o + 1]; }
u64 rd32(const Bytes& b, size_t o) { return (u64)b[o] << 24 | (u64)b[o + 1] << 16 | (u64)b[o + 2] << 8 | b[o + 3]; }
// RFC 1071: one's complement sum of 16-bit big-endian words (odd octet padded with zero), folded
u32 ocsum(const u8* p, size_t n, u32 acc = 0) { for (size_t i = 0; i < n; i += 2) acc += (u32)p[i] << 8 | (i + 1 < n ? p[i + 1] : 0); while (acc >> 16) acc = (acc & 0xffff) + (acc >> 16); return acc; }

// ---------------------------------------------------------------------------------------------------------------
// address helpers (set through one representation, read back through another where the class offers two)
// ---------------------------------------------------------------------------------------------------------------
Bytes gen_octets(Rng& r, size_t n) { u32 m = r.below(6); Bytes b(n); for (auto& c : b) c = m == 0 ? 0 : m == 1 ? 0xff : r.byte(); return b; }
IPv6Address a6(const Bytes& b) { return IPv6Address(b.data()); }
Bytes b6(const IPv6Address& a) { return Bytes(a.begin(), a.end()); }
HWAddress<6> hw6(const Bytes& b) { return HWAddress<6>(b.data()); }
Bytes bhw(const HWAddress<6>& a) { return Bytes(a.begin(), a.end()); }
IPv4Address a4(const Bytes& b) { char t[32]; snprintf(t, sizeof t, "%u.%u.%u.%u", b[0], b[1], b[2], b[3]); return IPv4Address(std::string(t)); }   // dotted text in ...
Bytes b4(const IPv4Address& a) { unsigned x[4] = {0, 0, 0, 0}; std::string s = a.to_string(); sscanf(s.c_str(), "%u.%u.%u.%u", &x[0], &x[1], &x[2], &x[3]); return Bytes{(u8)x[0], (u8)x[1], (u8)x[2], (u8)x[3]}; }   // ... dotted text out
Bytes raw_payload(const PDU& o) { const PDU* in = o.inner_pdu(); if (!in) return Bytes(); const RawPDU* rp = dynamic_cast<const RawPDU*>(in); if (rp) return rp->payload(); Bytes t{'?'}; return t; }
Bytes gen_payload(Rng& r, u32 mx) { u32 n = r.chance(1, 4) ? 0 : r.chance(1, 6) ? mx : 1 + r.below(mx); return r.bytes(n); }

// ---------------------------------------------------------------------------------------------------------------
// generic kind description + program runner
// ---------------------------------------------------------------------------------------------------------------
template <class O> struct Field {
    std::string name;
    std::function<Val(Rng&)> gen;                          // null: observed only (never set)
    std::function<void(O&, const Val&)> set;
    std::function<Val(O&)> get;                            // null: no getter (checked through the wire image only)
    bool once = false;                                     // typed option setter: appends, the getter finds the first
    std::function<void(Shadow&, const Val&)> model;        // effect of the set on the shadow (default: sh[name] = v)
    std::function<Val(const Shadow&, bool parsed)> expect; // what the getter must return (default: sh[name])
    std::function<const char*(const Shadow&, const Val&)> refuse;   // generator restriction: reason, or null
};
template <class O> struct Kind {
    std::string cls, kind;
    std::function<std::shared_ptr<O>(Rng&, std::string& cfg, Shadow& init)> make;
    std::vector<Field<O>> fields;
    u32 contexts = 1;
    std::function<Bytes(O&, int ctx, const Shadow&, size_t& off)> ser;
    std::function<std::shared_ptr<O>(const u8*, u32, int ctx, const Shadow&, std::function<Bytes()>& reser)> parse;
    std::function<void(const Shadow&, const std::vector<std::string>& order, int ctx, Image&)> image;
    std::function<std::string(const Bytes& y, size_t off, int ctx, const Shadow&)> wire_extra;     // "" or "site|text"
    std::function<std::string(O& orig, O& parsed, const Shadow&)> extra;                          // "" or "site|text"
    std::function<std::string(const Shadow&)> variant;     // sub-kind label for the evidence counters
    u32 max_steps = 10;
};

template <class O> Bytes ser_self(O& o, int, const Shadow&, size_t& off) { off = 0; return o.serialize(); }
template <class O> std::shared_ptr<O> parse_self(const u8* p, u32 n, int, const Shadow&, std::function<Bytes()>& reser) { auto q = std::make_shared<O>(p, n); reser = [q] { return q->serialize(); }; return q; }

std::string exc_name(const std::exception& e) { return demangle(typeid(e).name()); }
bool split_report(const std::string& s, std::string& site, std::string& text) { if (s.empty()) return false; size_t p = s.find('|'); site = s.substr(0, p); text = p == std::string::npos ? "" : s.substr(p + 1); return true; }

template <class O> void run_kind(const Kind<O>& K, Rng& r) {
    const std::string KN = K.cls + "." + K.kind;
    std::string cfg; Shadow sh;
    std::shared_ptr<O> o = K.make(r, cfg, sh);
    const int ctx = (int)r.below(K.contexts);
    std::string prog = "msgs " + KN + "{" + cfg + (K.contexts > 1 ? " ctx=" + std::to_string(ctx) : "") + "}:"; describe_case(prog);
    for (auto& f : K.fields) if (f.get && (!f.expect || f.gen) && !sh.count(f.name)) sh[f.name] = f.get(*o);          // full getter snapshot of the fresh message
    std::vector<const Field<O>*> settable; for (auto& f : K.fields) if (f.gen) settable.push_back(&f);
    std::vector<std::string> order; std::set<std::string> done;
    const u32 steps = 1 + r.below(K.max_steps);
    auto want = [&](const Field<O>& g, bool parsed) { return g.expect ? g.expect(sh, parsed) : at(sh, g.name); };
    u32 performed = 0;
    for (u32 s = 0; s < steps; ++s) {
        const Field<O>& f = *settable[r.below((u32)settable.size())];
        const bool last = s + 1 == steps;
        bool did = false;
        if (f.once && done.count(f.name)) { cnt("msgs:restrict:typed-option-set-once"); }
        else {
            Val v = f.gen(r);
            const char* why = f.refuse ? f.refuse(sh, v) : nullptr;
            if (why) cnt(std::string("msgs:restrict:") + why);
            else {
                prog += " " + f.name + "(" + show(v) + ")"; describe_case(prog);
                try { f.set(*o, v); }
                catch (const std::exception& e) { violation("setter-throws/" + KN + "/" + f.name + "/" + exc_name(e), std::string(e.what()) + " :: " + prog); return; }
                if (f.model) f.model(sh, v); else sh[f.name] = v;
                if (f.once) { done.insert(f.name); order.push_back(f.name); }
                cnt("msgs:field:" + K.cls + "." + f.name); did = true; ++performed;
                // (1) getters reflect exactly the accumulated edits; untouched fields keep their values
                for (auto& g : K.fields) {
                    if (!g.get) continue;
                    Val got = g.get(*o), w = want(g, false);
                    if (got != w) { violation("getter-after-edits/" + K.cls + "." + g.name + (g.name == f.name ? "" : "/after:" + f.name), KN + ": " + g.name + "() gives " + show(got) + ", the edits so far leave " + show(w) + " :: " + prog); return; }
                    cnt(g.name == f.name ? "msgs:getter_checks" : "msgs:untouched-field-checks");
                }
            }
        }
        if (!(last ? performed > 0 : (did && r.chance(1, 2)))) continue;
        // (2)+(3) through the wire
        size_t off = 0; Bytes y;
        try { y = K.ser(*o, ctx, sh, off); } catch (const std::exception& e) { violation("serialize-throws/" + KN + "/" + exc_name(e), std::string(e.what()) + " :: " + prog); return; }
        if (K.image) {
            Image im; K.image(sh, order, ctx, im);
            if (y.size() < off || y.size() - off != im.b.size()) { violation("wire-layout/" + KN + "/length", "the layer occupies " + std::to_string(y.size() < off ? 0 : y.size() - off) + " octets, the format implies " + std::to_string(im.b.size()) + "; wrote " + hex(y.data() + std::min(off, y.size()), y.size() - std::min(off, y.size()), 80) + " expected " + hex(im.b, 80) + " :: " + prog); return; }
            for (auto& g : im.regs) {
                if (!g.care) continue;
                if (!std::equal(im.b.begin() + g.off, im.b.begin() + g.off + g.len, y.begin() + off + g.off)) {
                    violation("wire-layout/" + KN + "/" + g.name, "octets " + std::to_string(g.off) + ".." + std::to_string(g.off + g.len - 1) + " of the layer are " + hex(y.data() + off + g.off, g.len, 40) + ", the format puts " + g.name + "=" + hex(im.b.data() + g.off, g.len, 40) + " there; layer=" + hex(y.data() + off, y.size() - off, 80) + " :: " + prog); break; }      // reported once; the round trip below is still checked
                cnt("msgs:offset_checks");
            }
        }
        std::string site, text;
        if (K.wire_extra && split_report(K.wire_extra(y, off, ctx, sh), site, text)) { violation(site, text + " y=" + hex(y, 100) + " :: " + prog); return; }
        std::shared_ptr<O> q; std::function<Bytes()> reser;
        try { ExactBuf buf(y); q = K.parse(buf.data(), (u32)y.size(), ctx, sh, reser); }
        catch (const std::exception& e) { violation("reparse-rejects/" + KN + "/" + exc_name(e), "parsing " + hex(y, 120) + " :: " + prog); return; }
        if (!q) { violation("reparse-loses-layer/" + KN, "parsing " + hex(y, 120) + " yields no " + K.cls + " layer :: " + prog); return; }
        for (auto& g : K.fields) {
            if (!g.get) continue;
            Val got = g.get(*q), w = want(g, true);
            if (got != w) { violation("wire-roundtrip/" + KN + "/" + g.name, "set " + show(w) + " but parsing the serialization gives " + show(got) + " y=" + hex(y, 100) + " :: " + prog); return; }
        }
        try { Bytes y2 = reser(); if (y2 != y) { size_t d = 0; while (d < y.size() && d < y2.size() && y[d] == y2[d]) ++d; violation("reserialize-differs/" + KN, "octet " + std::to_string(d) + " y=" + hex(y, 100) + " y2=" + hex(y2, 100) + " :: " + prog); return; } }
        catch (const std::exception& e) { violation("reserialize-throws/" + KN + "/" + exc_name(e), std::string(e.what()) + " :: " + prog); return; }
        if (K.extra && split_report(K.extra(*o, *q, sh), site, text)) { violation(site, text + " y=" + hex(y, 100) + " :: " + prog); return; }
        cnt("msgs:wire_checks"); cnt("msgs:msg:" + KN + (K.variant ? "." + K.variant(sh) : "")); if (K.contexts > 1 && ctx) cnt("msgs:in-context:" + K.cls);
    }
    if (!performed) { cnt("msgs:programs-without-a-set"); return; }
    cnt("msgs:programs"); cnt("msgs:programs:" + K.cls); sig(fnv(prog));
    if (want_sample() && prog.size() < 500 && r.chance(1, 40)) sample(prog);
}

// field constructors -------------------------------------------------------------------------------------------
#define NUMF(O, NAME, BITS, T) Field<O>{#NAME, [](Rng& r) { return N(r.edgy(BITS)); }, [](O& o, const Val& v) { o.NAME((T)v.n); }, [](O& o) { return guard([&] { return N((u64)o.NAME()); }); }}
#define ADDR6F(O, NAME) Field<O>{#NAME, [](Rng& r) { return B(gen_octets(r, 16)); }, [](O& o, const Val& v) { o.NAME(a6(v.b)); }, [](O& o) { return guard([&] { return B(b6(o.NAME())); }); }}
#define ADDR4F(O, NAME) Field<O>{#NAME, [](Rng& r) { return B(gen_octets(r, 4)); }, [](O& o, const Val& v) { o.NAME(a4(v.b)); }, [](O& o) { return guard([&] { return B(b4(o.NAME())); }); }}
#define HWF(O, NAME) Field<O>{#NAME, [](Rng& r) { return B(gen_octets(r, 6)); }, [](O& o, const Val& v) { o.NAME(hw6(v.b)); }, [](O& o) { return guard([&] { return B(bhw(o.NAME())); }); }}
template <class O> Field<O> payload_field(u32 mx) {
    return Field<O>{"payload", [mx](Rng& r) { return B(gen_payload(r, mx)); }, [](O& o, const Val& v) { o.inner_pdu(new RawPDU(v.b.data(), (u32)v.b.size())); }, [](O& o) { return B(raw_payload(o)); }};
}
template <class O, class E> Field<O> choice_field(const char* name, std::vector<u32> vals, void (O::*set)(E), E (O::*get)() const) {
    return Field<O>{name, [vals](Rng& r) { return N(r.pick(vals)); }, [set](O& o, const Val& v) { (o.*set)((E)v.n); }, [get](O& o) { return N((u64)(o.*get)()); }};
}
template <class O> Field<O> with_once(Field<O> f) { f.once = true; return f; }

// ---------------------------------------------------------------------------------------------------------------
// ICMPv6 (RFC 4443, 4861, 4191, 2710, 3810)
// ---------------------------------------------------------------------------------------------------------------
const char* V6_SRC = "2001:db8::1"; const char* V6_DST = "2001:db8::2";
Bytes icmp6_ser(ICMPv6& o, int ctx, const Shadow&, size_t& off) {
    if (!ctx) { off = 0; return o.serialize(); }
    IPv6 ip(V6_DST, V6_SRC); ip.hop_limit(255); ip.inner_pdu(o.clone()); off = 40; return ip.serialize();
}
std::shared_ptr<ICMPv6> icmp6_parse(const u8* p, u32 n, int ctx, const Shadow& sh, std::function<Bytes()>& reser) {
    if (!ctx) return parse_self<ICMPv6>(p, n, ctx, sh, reser);
    auto root = std::make_shared<IPv6>(p, n); reser = [root] { return root->serialize(); };
    ICMPv6* q = root->find_pdu<ICMPv6>(); return q ? std::shared_ptr<ICMPv6>(root, q) : std::shared_ptr<ICMPv6>();
}
// RFC 4443 2.3: checksum over the IPv6 pseudo-header (src, dst, upper-layer length, next header 58) and the message
std::string icmp6_cksum(const Bytes& y, size_t off, int ctx, const Shadow&) {
    if (!ctx) return "";
    Bytes ph; ph.insert(ph.end(), y.begin() + 8, y.begin() + 40); app32(ph, y.size() - off); app32(ph, 58);
    u32 acc = ocsum(ph.data(), ph.size()); acc = ocsum(y.data() + off, y.size() - off, acc);
    cnt("msgs:checksum_checks");
    return acc == 0xffff ? "" : "checksum/ICMPv6|pseudo-header sum of the written message is " + std::to_string(acc) + ", not ffff";
}
void nd_option(Image& im, const std::string& name, u8 type, const Bytes& data) { Bytes o{type, (u8)((data.size() + 2) / 8)}; app(o, data); im.put("option:" + name, o); }
void nd_options(Image& im, const Shadow& sh, const std::vector<std::string>& order) {
    static const std::map<std::string, u8> code = {{"source_link_layer_addr", 1}, {"target_link_layer_addr", 2}, {"prefix_info", 3}, {"redirect_header", 4}, {"mtu", 5}, {"new_advert_interval", 7}};
    for (auto& n : order) nd_option(im, n, code.at(n), oct(sh, n));
}
Kind<ICMPv6> icmp6_base(const std::string& kind, std::vector<u32> types) {
    Kind<ICMPv6> K; K.cls = "ICMPv6"; K.kind = kind; K.contexts = 2; K.ser = icmp6_ser; K.parse = icmp6_parse; K.wire_extra = icmp6_cksum;
    const u32 t0 = types[0];
    K.make = [t0](Rng& r, std::string& cfg, Shadow&) { std::shared_ptr<ICMPv6> o; if (r.chance(1, 2)) o = std::make_shared<ICMPv6>((ICMPv6::Types)t0); else { o = std::make_shared<ICMPv6>(); o->type((ICMPv6::Types)t0); } cfg = "type=" + std::to_string(t0); return o; };
    K.fields.push_back(choice_field<ICMPv6, ICMPv6::Types>("type", types, &ICMPv6::type, &ICMPv6::type));
    K.fields.push_back(NUMF(ICMPv6, code, 8, uint8_t));
    return K;
}
void icmp6_head(Image& im, const Shadow& sh) { im.u8_("type", num(sh, "type")); im.u8_("code", num(sh, "code")); im.skip("checksum", 2); }
Field<ICMPv6> nd_hw_option(const char* name, void (ICMPv6::*set)(const ICMPv6::hwaddress_type&), ICMPv6::hwaddress_type (ICMPv6::*get)() const) {
    Field<ICMPv6> f{name, [](Rng& r) { return B(gen_octets(r, 6)); }, [set](ICMPv6& o, const Val& v) { (o.*set)(hw6(v.b)); }, [get](ICMPv6& o) { return guard([&] { return B(bhw((o.*get)())); }); }};
    f.once = true; return f;
}

Kind<ICMPv6> icmp6_echo() {
    Kind<ICMPv6> K = icmp6_base("ECHO", {128, 129});
    K.fields.push_back(NUMF(ICMPv6, identifier, 16, uint16_t)); K.fields.push_back(NUMF(ICMPv6, sequence, 16, uint16_t)); K.fields.push_back(payload_field<ICMPv6>(100));
    K.image = [](const Shadow& sh, const std::vector<std::string>&, int, Image& im) { icmp6_head(im, sh); im.be16("identifier", num(sh, "identifier")); im.be16("sequence", num(sh, "sequence")); im.put("payload", oct(sh, "payload")); };
    return K;
}
Kind<ICMPv6> icmp6_router_advert() {
    Kind<ICMPv6> K = icmp6_base("ROUTER_ADVERT", {134});
    K.fields.push_back(NUMF(ICMPv6, hop_limit, 8, uint8_t)); K.fields.push_back(NUMF(ICMPv6, managed, 1, small_uint<1>)); K.fields.push_back(NUMF(ICMPv6, other, 1, small_uint<1>));
    K.fields.push_back(NUMF(ICMPv6, home_agent, 1, small_uint<1>)); K.fields.push_back(NUMF(ICMPv6, router_pref, 2, small_uint<2>)); K.fields.push_back(NUMF(ICMPv6, router_lifetime, 16, uint16_t));
    K.fields.push_back(NUMF(ICMPv6, reachable_time, 32, uint32_t)); K.fields.push_back(NUMF(ICMPv6, retransmit_timer, 32, uint32_t));
    K.fields.push_back(nd_hw_option("source_link_layer_addr", &ICMPv6::source_link_layer_addr, &ICMPv6::source_link_layer_addr));
    // option values are kept as the option's data octets (RFC 4861 4.6.x), decoded into / encoded from the structs here
    K.fields.push_back(with_once(Field<ICMPv6>{"mtu", [](Rng& r) { Bytes d; app16(d, r.edgy(16)); app32(d, r.edgy(32)); return B(d); },
        [](ICMPv6& o, const Val& v) { o.mtu(ICMPv6::mtu_type((uint16_t)rd16(v.b, 0), (uint32_t)rd32(v.b, 2))); },
        [](ICMPv6& o) { return guard([&] { ICMPv6::mtu_type m = o.mtu(); Bytes d; app16(d, m.first); app32(d, m.second); return B(d); }); }}));
    K.fields.push_back(with_once(Field<ICMPv6>{"prefix_info", [](Rng& r) { Bytes d; d.push_back((u8)r.edgy(8)); d.push_back((u8)(r.below(4) << 6)); app32(d, r.edgy(32)); app32(d, r.edgy(32)); app32(d, 0); app(d, gen_octets(r, 16)); return B(d); },
        [](ICMPv6& o, const Val& v) { ICMPv6::prefix_info_type p(v.b[0], (v.b[1] >> 6) & 1, (v.b[1] >> 7) & 1, (uint32_t)rd32(v.b, 2), (uint32_t)rd32(v.b, 6), a6(Bytes(v.b.begin() + 14, v.b.end()))); o.prefix_info(p); },
        [](ICMPv6& o) { return guard([&] { ICMPv6::prefix_info_type p = o.prefix_info(); Bytes d; d.push_back(p.prefix_len); d.push_back((u8)((u8)p.L << 7 | (u8)p.A << 6)); app32(d, p.valid_lifetime); app32(d, p.preferred_lifetime); app32(d, p.reserved2); app(d, b6(p.prefix)); return B(d); }); }}));
    K.fields.push_back(with_once(Field<ICMPv6>{"new_advert_interval", [](Rng& r) { Bytes d; app16(d, r.edgy(16)); app32(d, r.edgy(32)); return B(d); },
        [](ICMPv6& o, const Val& v) { ICMPv6::new_advert_interval_type x((uint32_t)rd32(v.b, 2)); x.reserved = (uint16_t)rd16(v.b, 0); o.new_advert_interval(x); },
        [](ICMPv6& o) { return guard([&] { ICMPv6::new_advert_interval_type x = o.new_advert_interval(); Bytes d; app16(d, x.reserved); app32(d, x.interval); return B(d); }); }}));
    K.image = [](const Shadow& sh, const std::vector<std::string>& order, int, Image& im) {
        icmp6_head(im, sh); im.u8_("hop_limit", num(sh, "hop_limit"));
        im.u8_("M-O-H-Prf-flags", num(sh, "managed") << 7 | num(sh, "other") << 6 | num(sh, "home_agent") << 5 | num(sh, "router_pref") << 3);     // RFC 4191 2.2
        im.be16("router_lifetime", num(sh, "router_lifetime")); im.be32("reachable_time", num(sh, "reachable_time")); im.be32("retransmit_timer", num(sh, "retransmit_timer"));
        nd_options(im, sh, order); };
    return K;
}
Kind<ICMPv6> icmp6_neighbour(bool advert) {
    Kind<ICMPv6> K = icmp6_base(advert ? "NEIGHBOUR_ADVERT" : "NEIGHBOUR_SOLICIT", {advert ? 136u : 135u});
    if (advert) { K.fields.push_back(NUMF(ICMPv6, router, 1, small_uint<1>)); K.fields.push_back(NUMF(ICMPv6, solicited, 1, small_uint<1>)); K.fields.push_back(NUMF(ICMPv6, override, 1, small_uint<1>)); }
    K.fields.push_back(ADDR6F(ICMPv6, target_addr));
    K.fields.push_back(advert ? nd_hw_option("target_link_layer_addr", &ICMPv6::target_link_layer_addr, &ICMPv6::target_link_layer_addr) : nd_hw_option("source_link_layer_addr", &ICMPv6::source_link_layer_addr, &ICMPv6::source_link_layer_addr));
    K.image = [advert](const Shadow& sh, const std::vector<std::string>& order, int, Image& im) {
        icmp6_head(im, sh);
        if (advert) { im.u8_("R-S-O-flags", num(sh, "router") << 7 | num(sh, "solicited") << 6 | num(sh, "override") << 5); im.zeros("reserved", 3); } else im.zeros("reserved", 4);
        im.put("target_addr", oct(sh, "target_addr")); nd_options(im, sh, order); };
    return K;
}
Kind<ICMPv6> icmp6_redirect() {
    Kind<ICMPv6> K = icmp6_base("REDIRECT", {137});
    K.fields.push_back(ADDR6F(ICMPv6, target_addr)); K.fields.push_back(ADDR6F(ICMPv6, dest_addr));
    K.fields.push_back(nd_hw_option("target_link_layer_addr", &ICMPv6::target_link_layer_addr, &ICMPv6::target_link_layer_addr));
    K.fields.push_back(with_once(Field<ICMPv6>{"redirect_header", [](Rng& r) { static const u32 lens[] = {6, 14, 46, 70}; return B(r.bytes(lens[r.below(4)])); },       // 8k-2 octets
        [](ICMPv6& o, const Val& v) { o.redirect_header(v.b); }, [](ICMPv6& o) { return guard([&] { return B(o.redirect_header()); }); }}));
    K.image = [](const Shadow& sh, const std::vector<std::string>& order, int, Image& im) { icmp6_head(im, sh); im.zeros("reserved", 4); im.put("target_addr", oct(sh, "target_addr")); im.put("dest_addr", oct(sh, "dest_addr")); nd_options(im, sh, order); };
    return K;
}
Kind<ICMPv6> icmp6_mld_query() {
    Kind<ICMPv6> K = icmp6_base("MGM_QUERY", {130});
    auto base_make = K.make;
    K.make = [base_make](Rng& r, std::string& cfg, Shadow& sh) { auto o = base_make(r, cfg, sh); sh["use_mldv2"] = N(1); if (r.chance(1, 3)) { o->use_mldv2(false); sh["use_mldv2"] = N(0); cfg += " mldv1"; } return o; };      // a fresh object speaks MLDv2
    K.fields.push_back(NUMF(ICMPv6, maximum_response_code, 16, uint16_t)); K.fields.push_back(ADDR6F(ICMPv6, multicast_addr));
    K.fields.push_back(Field<ICMPv6>{"use_mldv2", [](Rng& r) { return N(r.chance(2, 3)); }, [](ICMPv6& o, const Val& v) { o.use_mldv2(v.n != 0); }, nullptr});
    // the MLDv2 part is only on the wire of a version 2 query: a parser of a 24-octet query sees the defaults
    auto v2 = [](Field<ICMPv6> f, Val dflt) { const std::string n = f.name; f.expect = [n, dflt](const Shadow& sh, bool parsed) { return parsed && !num(sh, "use_mldv2") ? dflt : at(sh, n); }; return f; };
    auto mk_init = K.make;
    K.make = [mk_init](Rng& r, std::string& cfg, Shadow& sh) { auto o = mk_init(r, cfg, sh); sh["supress"] = N(0); sh["qrv"] = N(0); sh["qqic"] = N(0); sh["sources"] = B(Bytes()); return o; };
    K.fields.push_back(v2(NUMF(ICMPv6, supress, 1, small_uint<1>), N(0))); K.fields.push_back(v2(NUMF(ICMPv6, qrv, 3, small_uint<3>), N(0))); K.fields.push_back(v2(NUMF(ICMPv6, qqic, 8, uint8_t), N(0)));
    K.fields.push_back(v2(Field<ICMPv6>{"sources", [](Rng& r) { Bytes d; for (u32 n = r.below(5); n--;) app(d, gen_octets(r, 16)); return B(d); },
        [](ICMPv6& o, const Val& v) { ICMPv6::sources_list l; for (size_t i = 0; i < v.b.size(); i += 16) l.push_back(a6(Bytes(v.b.begin() + i, v.b.begin() + i + 16))); o.sources(l); },
        [](ICMPv6& o) { Bytes d; for (auto& a : o.sources()) app(d, b6(a)); return B(d); }}, B(Bytes())));
    K.image = [](const Shadow& sh, const std::vector<std::string>&, int, Image& im) {
        icmp6_head(im, sh); im.be16("maximum_response_code", num(sh, "maximum_response_code")); im.zeros("reserved", 2); im.put("multicast_addr", oct(sh, "multicast_addr"));
        if (num(sh, "use_mldv2")) {      // RFC 3810 5.1: Resv(4) S(1) QRV(3) | QQIC | Number of Sources | sources
            im.u8_("S-QRV-octet", num(sh, "supress") << 3 | num(sh, "qrv")); im.u8_("qqic", num(sh, "qqic")); im.be16("number-of-sources", oct(sh, "sources").size() / 16); im.put("sources", oct(sh, "sources")); } };
    K.variant = [](const Shadow& sh) { return std::string(num(sh, "use_mldv2") ? "v2" : "v1"); };
    return K;
}
struct Rec { u8 type; Bytes mcast; std::vector<Bytes> src; Bytes aux; };
Bytes enc_recs(const std::vector<Rec>& l) { Bytes d; for (auto& x : l) { d.push_back(x.type); d.push_back((u8)(x.aux.size() / 4)); app16(d, x.src.size()); app(d, x.mcast); for (auto& s : x.src) app(d, s); app(d, x.aux); } return d; }   // RFC 3810 5.2
std::vector<Rec> dec_recs(const Bytes& d) { std::vector<Rec> l; size_t p = 0; while (p < d.size()) { Rec x; x.type = d[p]; size_t al = d[p + 1] * 4u, ns = rd16(d, p + 2); p += 4; x.mcast.assign(d.begin() + p, d.begin() + p + 16); p += 16; for (size_t i = 0; i < ns; ++i, p += 16) x.src.push_back(Bytes(d.begin() + p, d.begin() + p + 16)); x.aux.assign(d.begin() + p, d.begin() + p + al); p += al; l.push_back(x); } return l; }
Kind<ICMPv6> icmp6_mld2_report() {
    Kind<ICMPv6> K = icmp6_base("MLD2_REPORT", {143});
    K.fields.push_back(Field<ICMPv6>{"multicast_address_records",
        [](Rng& r) { std::vector<Rec> l; for (u32 n = r.below(4); n--;) { Rec x; x.type = (u8)(r.chance(1, 2) ? 1 + r.below(6) : r.byte()); x.mcast = gen_octets(r, 16); for (u32 k = r.below(4); k--;) x.src.push_back(gen_octets(r, 16));
                x.aux = r.bytes(4 * (r.chance(1, 2) ? 0 : r.chance(1, 12) ? 255 : r.below(4))); l.push_back(x); } return B(enc_recs(l)); },
        [](ICMPv6& o, const Val& v) { ICMPv6::multicast_address_records_list l; for (auto& x : dec_recs(v.b)) { ICMPv6::multicast_address_record m(x.type); m.multicast_address = a6(x.mcast); for (auto& s : x.src) m.sources.push_back(a6(s)); m.aux_data = x.aux; l.push_back(m); } o.multicast_address_records(l); },
        [](ICMPv6& o) { std::vector<Rec> l; for (auto& m : o.multicast_address_records()) { Rec x; x.type = m.type; x.mcast = b6(m.multicast_address); for (auto& s : m.sources) x.src.push_back(b6(s)); x.aux = m.aux_data; l.push_back(x); } return B(enc_recs(l)); }});
    K.make = [mk = K.make](Rng& r, std::string& cfg, Shadow& sh) { auto o = mk(r, cfg, sh); return o; };
    K.image = [](const Shadow& sh, const std::vector<std::string>&, int, Image& im) { icmp6_head(im, sh); im.zeros("reserved", 2); im.be16("number-of-records", dec_recs(oct(sh, "multicast_address_records")).size()); im.put("records", oct(sh, "multicast_address_records")); };
    K.max_steps = 4;
    return K;
}

// ---------------------------------------------------------------------------------------------------------------
// ICMP (RFC 792, 950, 1191)
// ---------------------------------------------------------------------------------------------------------------
Bytes icmp_ser(ICMP& o, int ctx, const Shadow&, size_t& off) {
    if (!ctx) { off = 0; return o.serialize(); }
    IP ip("192.0.2.9", "198.51.100.7"); ip.inner_pdu(o.clone()); off = 20; return ip.serialize();       // explicit source: 0.0.0.0 would consult the routing table
}
std::shared_ptr<ICMP> icmp_parse(const u8* p, u32 n, int ctx, const Shadow& sh, std::function<Bytes()>& reser) {
    if (!ctx) return parse_self<ICMP>(p, n, ctx, sh, reser);
    auto root = std::make_shared<IP>(p, n); reser = [root] { return root->serialize(); };
    ICMP* q = root->find_pdu<ICMP>(); return q ? std::shared_ptr<ICMP>(root, q) : std::shared_ptr<ICMP>();
}
std::string icmp_cksum(const Bytes& y, size_t off, int, const Shadow&) {
    u32 acc = ocsum(y.data() + off, y.size() - off); cnt("msgs:checksum_checks");
    return acc == 0xffff ? "" : "checksum/ICMP|RFC 1071 sum of the written message is " + std::to_string(acc) + ", not ffff";
}
Kind<ICMP> icmp_base(const std::string& kind, std::vector<u32> types) {
    Kind<ICMP> K; K.cls = "ICMP"; K.kind = kind; K.contexts = 2; K.ser = icmp_ser; K.parse = icmp_parse; K.wire_extra = icmp_cksum;
    const u32 t0 = types[0];
    K.make = [t0](Rng& r, std::string& cfg, Shadow&) { std::shared_ptr<ICMP> o; if (r.chance(1, 2)) o = std::make_shared<ICMP>((ICMP::Flags)t0); else { o = std::make_shared<ICMP>(); o->type((ICMP::Flags)t0); } cfg = "type=" + std::to_string(t0); return o; };
    K.fields.push_back(choice_field<ICMP, ICMP::Flags>("type", types, &ICMP::type, &ICMP::type));
    K.fields.push_back(NUMF(ICMP, code, 8, uint8_t));
    return K;
}
void icmp_head(Image& im, const Shadow& sh) { im.u8_("type", num(sh, "type")); im.u8_("code", num(sh, "code")); im.skip("checksum", 2); }
Kind<ICMP> icmp_idseq(const std::string& kind, std::vector<u32> types, int extra) {      // extra: 0 echo (+payload), 1 information, 2 timestamps, 3 address mask
    Kind<ICMP> K = icmp_base(kind, types);
    K.fields.push_back(NUMF(ICMP, id, 16, uint16_t)); K.fields.push_back(NUMF(ICMP, sequence, 16, uint16_t));
    if (extra == 0) K.fields.push_back(payload_field<ICMP>(200));
    if (extra == 2) { K.fields.push_back(NUMF(ICMP, original_timestamp, 32, uint32_t)); K.fields.push_back(NUMF(ICMP, receive_timestamp, 32, uint32_t)); K.fields.push_back(NUMF(ICMP, transmit_timestamp, 32, uint32_t)); }
    if (extra == 3) K.fields.push_back(ADDR4F(ICMP, address_mask));
    K.image = [extra](const Shadow& sh, const std::vector<std::string>&, int, Image& im) {
        icmp_head(im, sh); im.be16("id", num(sh, "id")); im.be16("sequence", num(sh, "sequence"));
        if (extra == 0) im.put("payload", oct(sh, "payload"));
        if (extra == 2) { im.be32("original_timestamp", num(sh, "original_timestamp")); im.be32("receive_timestamp", num(sh, "receive_timestamp")); im.be32("transmit_timestamp", num(sh, "transmit_timestamp")); }
        if (extra == 3) im.put("address_mask", oct(sh, "address_mask")); };
    return K;
}
Kind<ICMP> icmp_redirect() {
    Kind<ICMP> K = icmp_base("REDIRECT", {5});
    K.fields.push_back(ADDR4F(ICMP, gateway)); K.fields.push_back(payload_field<ICMP>(100));
    K.image = [](const Shadow& sh, const std::vector<std::string>&, int, Image& im) { icmp_head(im, sh); im.put("gateway", oct(sh, "gateway")); im.put("payload", oct(sh, "payload")); };
    return K;
}
Kind<ICMP> icmp_frag_needed() {
    Kind<ICMP> K = icmp_base("DEST_UNREACHABLE", {3});
    K.fields.push_back(NUMF(ICMP, mtu, 16, uint16_t)); K.fields.push_back(payload_field<ICMP>(100));
    K.image = [](const Shadow& sh, const std::vector<std::string>&, int, Image& im) { icmp_head(im, sh); im.zeros("unused", 1); im.zeros("rfc4884-length", 1); im.be16("mtu", num(sh, "mtu")); im.put("payload", oct(sh, "payload")); };   // RFC 1191 4.
    return K;
}
// the same two messages with the RFC 4884 length attribute in use: the quoted datagram is a whole number of 32-bit words (so nothing is padded) and
// the length octet must hold that number of words -- next to the MTU / pointer, which must stay what was set
Kind<ICMP> icmp_rfc4884_length(bool frag) {
    Kind<ICMP> K = icmp_base(frag ? "DEST_UNREACHABLE.length-field" : "PARAM_PROBLEM.length-field", {frag ? 3u : 12u});
    auto base_make = K.make;
    K.make = [base_make](Rng& r, std::string& cfg, Shadow& init) { auto o = base_make(r, cfg, init); Bytes b = r.bytes(4 * (1 + r.below(24))); o->inner_pdu(new RawPDU(b.data(), (u32)b.size())); o->use_length_field(true); cfg += " use_length_field payload=" + std::to_string(b.size()); return o; };
    if (frag) K.fields.push_back(NUMF(ICMP, mtu, 16, uint16_t)); else K.fields.push_back(NUMF(ICMP, pointer, 8, uint8_t));
    K.fields.push_back(Field<ICMP>{"payload", [](Rng& r) { return B(r.bytes(4 * (1 + r.below(24)))); }, [](ICMP& o, const Val& v) { o.inner_pdu(new RawPDU(v.b.data(), (u32)v.b.size())); }, [](ICMP& o) { return B(raw_payload(o)); }});
    K.image = [frag](const Shadow& sh, const std::vector<std::string>&, int, Image& im) { icmp_head(im, sh); const Bytes& p = oct(sh, "payload");
        if (frag) { im.zeros("unused", 1); im.u8_("rfc4884-length", p.size() / 4); im.be16("mtu", num(sh, "mtu")); } else { im.u8_("pointer", num(sh, "pointer")); im.u8_("rfc4884-length", p.size() / 4); im.zeros("unused", 2); }
        im.put("payload", p); };
    return K;
}
Kind<ICMP> icmp_param_problem() {
    Kind<ICMP> K = icmp_base("PARAM_PROBLEM", {12});
    K.fields.push_back(NUMF(ICMP, pointer, 8, uint8_t)); K.fields.push_back(payload_field<ICMP>(100));
    K.image = [](const Shadow& sh, const std::vector<std::string>&, int, Image& im) { icmp_head(im, sh); im.u8_("pointer", num(sh, "pointer")); im.zeros("rfc4884-length", 1); im.zeros("unused", 2); im.put("payload", oct(sh, "payload")); };
    return K;
}

// ICMP::set_*() compound helpers: after the helper type()/code()/the fields it names have the documented values (RFC 792
// codes where the documentation speaks of the meaning: "ttl exceeded" is code 0, "fragment reassembly time exceeded"
// code 1; a parameter problem WITH pointer is code 0). Helpers whose documentation does not mention the code may keep
// the previous code or reset it to 0.
void icmp_helpers_program(Rng& r) {
    ICMP o; std::string prog = "msgs ICMP.helpers{";
    const bool dirty = r.chance(1, 2);
    if (dirty) { static const u32 ts[] = {0, 3, 4, 5, 8, 11, 12, 15, 16}; u32 t = ts[r.below(9)]; o.type((ICMP::Flags)t); o.code((u8)r.edgy(8)); o.id((u16)r.edgy(16)); o.sequence((u16)r.edgy(16)); prog += "previous type=" + std::to_string(t) + " code=" + std::to_string(o.code()) + " id=" + std::to_string(o.id()) + " seq=" + std::to_string(o.sequence()); }
    const u32 ts0 = (u32)r.edgy(32), ts1 = (u32)r.edgy(32), ts2 = (u32)r.edgy(32); o.original_timestamp(ts0); o.receive_timestamp(ts1); o.transmit_timestamp(ts2);
    const int ctx = (int)r.below(2); prog += std::string(" ctx=") + (ctx ? "1" : "0") + "}:";
    const u32 h = r.below(9); const u8 prev_code = o.code();
    u32 want_type = 0; int want_code = -1; std::string hn; u16 id = (u16)r.edgy(16), seq = (u16)r.edgy(16); Bytes gw = gen_octets(r, 4); u8 ptr = (u8)r.edgy(8), icode = (u8)r.edgy(8); bool flag = r.chance(1, 2);
    describe_case(prog + " helper #" + std::to_string(h));
    try {
        switch (h) {
            case 0: hn = "set_echo_request"; o.set_echo_request(id, seq); want_type = 8; break;
            case 1: hn = "set_echo_reply"; o.set_echo_reply(id, seq); want_type = 0; break;
            case 2: hn = "set_info_request"; o.set_info_request(id, seq); want_type = 15; want_code = 0; break;
            case 3: hn = "set_info_reply"; o.set_info_reply(id, seq); want_type = 16; want_code = 0; break;
            case 4: hn = "set_dest_unreachable"; o.set_dest_unreachable(); want_type = 3; break;
            case 5: hn = "set_time_exceeded"; if (r.chance(1, 4)) { o.set_time_exceeded(); flag = true; } else o.set_time_exceeded(flag); want_type = 11; want_code = flag ? 0 : 1; break;
            case 6: hn = "set_param_problem"; if (r.chance(1, 5)) { o.set_param_problem(); flag = false; } else o.set_param_problem(flag, ptr); want_type = 12; want_code = flag ? 0 : 1; break;
            case 7: hn = "set_source_quench"; o.set_source_quench(); want_type = 4; break;
            default: hn = "set_redirect"; o.set_redirect(icode, a4(gw)); want_type = 5; want_code = icode; break;
        }
    } catch (const std::exception& e) { violation("setter-throws/ICMP.helpers/" + hn + "/" + exc_name(e), prog); return; }
    prog += " " + hn + "(" + (h < 4 ? std::to_string(id) + "," + std::to_string(seq) : h == 5 ? std::to_string(flag) : h == 6 ? std::to_string(flag) + "," + std::to_string(ptr) : h == 8 ? std::to_string(icode) + "," + hex(gw) : "") + ")"; describe_case(prog);
    auto check = [&](ICMP& x, const std::string& clause) -> bool {
        if ((u32)x.type() != want_type) { violation(clause + "/ICMP." + hn + "/type", "type() is " + std::to_string((u32)x.type()) + ", documented " + std::to_string(want_type) + " :: " + prog); return false; }
        if (want_code >= 0 ? x.code() != want_code : (x.code() != prev_code && x.code() != 0)) { violation(clause + "/ICMP." + hn + "/code", "code() is " + std::to_string(x.code()) + ", documented " + (want_code >= 0 ? std::to_string(want_code) : "unchanged or 0") + " :: " + prog); return false; }
        if (h < 4 && (x.id() != id || x.sequence() != seq)) { violation(clause + "/ICMP." + hn + "/id-sequence", "id()/sequence() are " + std::to_string(x.id()) + "/" + std::to_string(x.sequence()) + " :: " + prog); return false; }
        if (h == 6 && flag && x.pointer() != ptr) { violation(clause + "/ICMP." + hn + "/pointer", "pointer() is " + std::to_string(x.pointer()) + " :: " + prog); return false; }
        if (h == 8 && b4(x.gateway()) != gw) { violation(clause + "/ICMP." + hn + "/gateway", "gateway() is " + x.gateway().to_string() + " :: " + prog); return false; }
        return true; };
    if (!check(o, "getter-after-edits")) return;
    if (o.original_timestamp() != ts0 || o.receive_timestamp() != ts1 || o.transmit_timestamp() != ts2) { violation("getter-after-edits/ICMP." + hn + "/timestamps-moved", prog); return; }
    cnt("msgs:getter_checks"); cnt("msgs:untouched-field-checks", 3); cnt("msgs:field:ICMP." + hn);
    Shadow none; size_t off = 0; Bytes y;
    try { y = icmp_ser(o, ctx, none, off); } catch (const std::exception& e) { violation("serialize-throws/ICMP.helpers/" + exc_name(e), prog); return; }
    if (y.size() != off + 8) { violation("wire-layout/ICMP.helpers/length", hn + ": the message occupies " + std::to_string(y.size() - off) + " octets, RFC 792 gives 8 :: " + prog); return; }
    const u8* m = y.data() + off; bool ok = m[0] == want_type && (want_code < 0 || m[1] == want_code);
    if (h < 4) ok = ok && rd16(y, off + 4) == id && rd16(y, off + 6) == seq;
    if (h == 6 && flag) ok = ok && m[4] == ptr;
    if (h == 8) ok = ok && std::equal(gw.begin(), gw.end(), m + 4);
    if (!ok) { violation("wire-layout/ICMP.helpers/" + hn, "wrote " + hex(m, 8) + " :: " + prog); return; }
    cnt("msgs:offset_checks", 3);
    std::string site, text; if (split_report(icmp_cksum(y, off, ctx, none), site, text)) { violation(site, text + " :: " + prog); return; }
    std::shared_ptr<ICMP> q; std::function<Bytes()> reser;
    try { ExactBuf buf(y); q = icmp_parse(buf.data(), (u32)y.size(), ctx, none, reser); } catch (const std::exception& e) { violation("reparse-rejects/ICMP.helpers/" + exc_name(e), hex(y) + " :: " + prog); return; }
    if (!q) { violation("reparse-loses-layer/ICMP.helpers", hex(y) + " :: " + prog); return; }
    if (!check(*q, "wire-roundtrip")) return;
    try { if (reser() != y) { violation("reserialize-differs/ICMP.helpers", hex(y) + " :: " + prog); return; } } catch (const std::exception& e) { violation("reserialize-throws/ICMP.helpers/" + exc_name(e), prog); return; }
    cnt("msgs:wire_checks"); cnt("msgs:msg:ICMP.helpers"); cnt("msgs:msg:ICMP.helpers." + hn); cnt("msgs:programs"); cnt("msgs:programs:ICMP"); sig(fnv(prog)); if (want_sample() && r.chance(1, 40)) sample(prog);
}

// ---------------------------------------------------------------------------------------------------------------
// TCP flags: set_flag / get_flag / flags / has_flags against a 12-bit model (RFC 9293 3.1: octet 12 = data offset |
// 4 reserved bits, octet 13 = CWR ECE URG ACK PSH RST SYN FIN)
// ---------------------------------------------------------------------------------------------------------------
void tcp_flags_program(Rng& r) {
    static const TCP::Flags F[8] = {TCP::FIN, TCP::SYN, TCP::RST, TCP::PSH, TCP::ACK, TCP::URG, TCP::ECE, TCP::CWR};
    static const char* FN[8] = {"FIN", "SYN", "RST", "PSH", "ACK", "URG", "ECE", "CWR"};
    const u16 sp = (u16)r.edgy(16), dp = (u16)r.edgy(16), win = (u16)r.edgy(16), urg = (u16)r.edgy(16); const u32 sq = (u32)r.edgy(32), ak = (u32)r.edgy(32);
    TCP o(dp, sp); o.seq(sq); o.ack_seq(ak); o.window(win); o.urg_ptr(urg);
    std::string prog = "msgs TCP.flags:"; describe_case(prog);
    u32 m = (u32)(u16)o.flags();
    if (m != 0) { violation("getter-after-edits/TCP.flags/fresh", "a fresh TCP has flags() " + std::to_string(m)); return; }
    const u32 steps = 1 + r.below(10);
    for (u32 s = 0; s < steps; ++s) {
        std::string fieldname;
        if (r.chance(1, 4)) { u32 v = (u32)r.edgy(12); prog += " flags(" + std::to_string(v) + ")"; describe_case(prog); o.flags(small_uint<12>((uint16_t)v)); m = v; fieldname = "flags"; }
        else { u32 i = r.below(8), v = r.below(2); prog += std::string(" set_flag(") + FN[i] + "," + std::to_string(v) + ")"; describe_case(prog); o.set_flag(F[i], small_uint<1>((uint8_t)v)); m = v ? (m | (1u << i)) : (m & ~(1u << i)); fieldname = "set_flag"; }
        cnt("msgs:field:TCP." + fieldname);
        auto check = [&](const TCP& x, const std::string& clause) -> bool {
            if ((u32)(u16)x.flags() != m) { violation(clause + "/TCP.flags", "flags() is " + std::to_string((u32)(u16)x.flags()) + ", the edits so far leave " + std::to_string(m) + " :: " + prog); return false; }
            for (u32 i = 0; i < 8; ++i) if ((u32)(u8)x.get_flag(F[i]) != ((m >> i) & 1)) { violation(clause + "/TCP.get_flag/" + FN[i], std::string("get_flag(") + FN[i] + ") is " + std::to_string((u32)(u8)x.get_flag(F[i])) + " with flags " + std::to_string(m) + " :: " + prog); return false; }
            for (u32 k = 0; k < 4; ++k) { u32 mask = k == 0 ? m : k == 1 ? (1u << r.below(12)) : k == 2 ? (m | (1u << r.below(12))) : (u32)r.edgy(12);
                if (x.has_flags(small_uint<12>((uint16_t)mask)) != ((m & mask) == mask)) { violation(clause + "/TCP.has_flags", "has_flags(" + std::to_string(mask) + ") is " + std::to_string(x.has_flags(small_uint<12>((uint16_t)mask))) + " with flags " + std::to_string(m) + " :: " + prog); return false; } }
            if (x.sport() != sp || x.dport() != dp || x.seq() != sq || x.ack_seq() != ak || x.window() != win || x.urg_ptr() != urg) { violation(clause + "/TCP.flags/other-field-moved", "sport/dport/seq/ack_seq/window/urg_ptr changed :: " + prog); return false; }
            return true; };
        if (!check(o, "getter-after-edits")) return;
        cnt("msgs:getter_checks"); cnt("msgs:untouched-field-checks", 6);
        if (s + 1 != steps && !r.chance(1, 2)) continue;
        Bytes y; try { y = o.serialize(); } catch (const std::exception& e) { violation("serialize-throws/TCP.flags/" + exc_name(e), prog); return; }
        if (y.size() != 20 || y[12] != (0x50 | (m >> 8)) || y[13] != (m & 0xff) || rd16(y, 0) != sp || rd16(y, 2) != dp || rd32(y, 4) != sq || rd32(y, 8) != ak || rd16(y, 14) != win || rd16(y, 18) != urg) {
            violation("wire-layout/TCP.flags", "wrote " + hex(y) + " for flags " + std::to_string(m) + " :: " + prog); return; }
        cnt("msgs:offset_checks", 8);
        std::unique_ptr<TCP> q; try { ExactBuf buf(y); q.reset(new TCP(buf.data(), (u32)y.size())); } catch (const std::exception& e) { violation("reparse-rejects/TCP.flags/" + exc_name(e), hex(y) + " :: " + prog); return; }
        if (!check(*q, "wire-roundtrip")) return;
        if (q->serialize() != y) { violation("reserialize-differs/TCP.flags", hex(y) + " :: " + prog); return; }
        cnt("msgs:wire_checks"); cnt("msgs:msg:TCP.flags");
    }
    cnt("msgs:programs"); cnt("msgs:programs:TCP"); sig(fnv(prog)); if (want_sample() && r.chance(1, 40)) sample(prog);
}

// ---------------------------------------------------------------------------------------------------------------
// DHCPv6 (RFC 8415 8./9.): client/server messages carry a 24-bit transaction id, relay messages hop count + 2 addresses
// ---------------------------------------------------------------------------------------------------------------
void dhcp6_options(Image& im, const Shadow& sh, const std::vector<std::string>& order) {
    static const std::map<std::string, u32> code = {{"preference", 7}, {"elapsed_time", 8}, {"relay_message", 9}, {"rapid_commit", 14}, {"interface_id", 18}, {"reconfigure_accept", 20}};
    for (auto& n : order) { Bytes o, d; const Val& v = at(sh, n);
        if (n == "preference") d.push_back((u8)v.n); else if (n == "elapsed_time") app16(d, v.n); else if (v.k == 1) d = v.b;       // the two marker options have no data
        app16(o, code.at(n)); app16(o, d.size()); app(o, d); im.put("option:" + n, o); }
}
Kind<DHCPv6> dhcp6_kind(bool relay) {
    Kind<DHCPv6> K; K.cls = "DHCPv6"; K.kind = relay ? "RELAY" : "CLIENT_SERVER"; K.ser = ser_self<DHCPv6>; K.parse = parse_self<DHCPv6>;
    std::vector<u32> types = relay ? std::vector<u32>{12, 13} : std::vector<u32>{1, 2, 3, 4, 5, 6, 7, 8, 9, 10, 11};
    K.make = [types](Rng& r, std::string& cfg, Shadow&) { auto o = std::make_shared<DHCPv6>(); u32 t = r.pick(types); o->msg_type((DHCPv6::MessageType)t); cfg = "msg_type=" + std::to_string(t); return o; };
    K.fields.push_back(choice_field<DHCPv6, DHCPv6::MessageType>("msg_type", types, &DHCPv6::msg_type, &DHCPv6::msg_type));
    if (relay) { K.fields.push_back(NUMF(DHCPv6, hop_count, 8, uint8_t)); K.fields.push_back(ADDR6F(DHCPv6, link_address)); K.fields.push_back(ADDR6F(DHCPv6, peer_address)); }
    else K.fields.push_back(NUMF(DHCPv6, transaction_id, 24, small_uint<24>));
    auto marker = [](const char* name, void (DHCPv6::*set)(), bool (DHCPv6::*has)() const) { Field<DHCPv6> f{name, [](Rng&) { return N(1); }, [set](DHCPv6& o, const Val&) { (o.*set)(); }, [has](DHCPv6& o) { return N((o.*has)() ? 1 : 0); }}; f.once = true; return f; };
    K.fields.push_back(marker("reconfigure_accept", &DHCPv6::reconfigure_accept, &DHCPv6::has_reconfigure_accept));
    K.fields.push_back(marker("rapid_commit", &DHCPv6::rapid_commit, &DHCPv6::has_rapid_commit));
    if (relay) {
        K.fields.push_back(with_once(Field<DHCPv6>{"relay_message", [](Rng& r) { return B(r.bytes(1 + r.below(40))); }, [](DHCPv6& o, const Val& v) { o.relay_message(v.b); }, [](DHCPv6& o) { return guard([&] { return B(o.relay_message()); }); }}));
        K.fields.push_back(with_once(Field<DHCPv6>{"interface_id", [](Rng& r) { return B(r.bytes(1 + r.below(20))); }, [](DHCPv6& o, const Val& v) { o.interface_id(v.b); }, [](DHCPv6& o) { return guard([&] { return B(o.interface_id()); }); }}));
    } else {
        K.fields.push_back(with_once(NUMF(DHCPv6, preference, 8, uint8_t))); K.fields.push_back(with_once(NUMF(DHCPv6, elapsed_time, 16, uint16_t)));
    }
    K.image = [relay](const Shadow& sh, const std::vector<std::string>& order, int, Image& im) {
        im.u8_("msg_type", num(sh, "msg_type"));
        if (relay) { im.u8_("hop_count", num(sh, "hop_count")); im.put("link_address", oct(sh, "link_address")); im.put("peer_address", oct(sh, "peer_address")); }
        else { u64 t = num(sh, "transaction_id"); im.put("transaction_id", Bytes{(u8)(t >> 16), (u8)(t >> 8), (u8)t}); }
        dhcp6_options(im, sh, order); };
    return K;
}

// ---------------------------------------------------------------------------------------------------------------
// BootP (RFC 951): 236 fixed octets, then the vendor area
// ---------------------------------------------------------------------------------------------------------------
Kind<BootP> bootp_kind() {
    Kind<BootP> K; K.cls = "BootP"; K.kind = "vend"; K.ser = ser_self<BootP>;
    K.make = [](Rng&, std::string& cfg, Shadow&) { cfg = ""; return std::make_shared<BootP>(); };
    K.parse = [](const u8* p, u32 n, int, const Shadow& sh, std::function<Bytes()>& reser) { const size_t vs = oct(sh, "vend").size();
        std::shared_ptr<BootP> q = vs == 64 ? std::make_shared<BootP>(p, n) : std::make_shared<BootP>(p, n, (uint32_t)vs); reser = [q] { return q->serialize(); }; return q; };       // 64 is the constructor's default vend size
    K.fields.push_back(NUMF(BootP, opcode, 8, uint8_t)); K.fields.push_back(NUMF(BootP, hops, 8, uint8_t)); K.fields.push_back(NUMF(BootP, xid, 32, uint32_t)); K.fields.push_back(NUMF(BootP, secs, 16, uint16_t));
    K.fields.push_back(ADDR4F(BootP, ciaddr)); K.fields.push_back(ADDR4F(BootP, giaddr));
    K.fields.push_back(Field<BootP>{"vend", [](Rng& r) { static const u32 lens[] = {0, 1, 4, 63, 64, 64, 65, 128, 312}; return B(r.bytes(lens[r.below(9)])); }, [](BootP& o, const Val& v) { o.vend(v.b); }, [](BootP& o) { const BootP& c = o; return B(c.vend()); }});
    K.image = [](const Shadow& sh, const std::vector<std::string>&, int, Image& im) {
        im.u8_("opcode", num(sh, "opcode")); im.zeros("htype-hlen", 2); im.u8_("hops", num(sh, "hops")); im.be32("xid", num(sh, "xid")); im.be16("secs", num(sh, "secs")); im.zeros("flags", 2);
        im.put("ciaddr", oct(sh, "ciaddr")); im.zeros("yiaddr-siaddr", 8); im.put("giaddr", oct(sh, "giaddr")); im.zeros("chaddr-sname-file", 16 + 64 + 128); im.put("vend", oct(sh, "vend")); };
    K.max_steps = 6;
    return K;
}

// ---------------------------------------------------------------------------------------------------------------
// PPPoE discovery (RFC 2516 4./5./Appendix A)
// ---------------------------------------------------------------------------------------------------------------
Kind<PPPoE> pppoe_kind() {
    Kind<PPPoE> K; K.cls = "PPPoE"; K.kind = "discovery"; K.ser = ser_self<PPPoE>; K.parse = parse_self<PPPoE>;
    static const std::vector<u32> codes = {0x09, 0x07, 0x19, 0x65, 0xa7};
    K.make = [](Rng& r, std::string& cfg, Shadow& sh) { auto o = std::make_shared<PPPoE>(); u32 c = r.pick(codes); o->code((u8)c); cfg = "code=" + std::to_string(c); sh["end_of_list"] = N(0); return o; };
    K.fields.push_back(NUMF(PPPoE, version, 4, small_uint<4>)); K.fields.push_back(NUMF(PPPoE, type, 4, small_uint<4>)); K.fields.push_back(NUMF(PPPoE, session_id, 16, uint16_t));
    K.fields.push_back(choice_field<PPPoE, uint8_t>("code", codes, &PPPoE::code, &PPPoE::code));
    auto after_eol = [](const Shadow& sh, const Val&) -> const char* { return num(sh, "end_of_list") ? "PPPoE-nothing-after-End-Of-List" : nullptr; };
    auto text = [after_eol](const char* name, void (PPPoE::*set)(const std::string&), std::string (PPPoE::*get)() const) {
        Field<PPPoE> f{name, [](Rng& r) { Bytes b; for (u32 n = r.chance(1, 10) ? 0 : 1 + r.below(20); n--;) b.push_back((u8)('a' + r.below(26))); return B(b); },
            [set](PPPoE& o, const Val& v) { (o.*set)(std::string(v.b.begin(), v.b.end())); }, [get](PPPoE& o) { return guard([&] { std::string s = (o.*get)(); return B(Bytes(s.begin(), s.end())); }); }}; f.once = true; f.refuse = after_eol; return f; };
    auto blob = [after_eol](const char* name, void (PPPoE::*set)(const byte_array&), byte_array (PPPoE::*get)() const) {
        Field<PPPoE> f{name, [](Rng& r) { return B(r.bytes(r.chance(1, 10) ? 0 : 1 + r.below(20))); }, [set](PPPoE& o, const Val& v) { (o.*set)(v.b); }, [get](PPPoE& o) { return guard([&] { return B((o.*get)()); }); }}; f.once = true; f.refuse = after_eol; return f; };
    K.fields.push_back(text("service_name", &PPPoE::service_name, &PPPoE::service_name)); K.fields.push_back(text("ac_name", &PPPoE::ac_name, &PPPoE::ac_name));
    K.fields.push_back(blob("host_uniq", &PPPoE::host_uniq, &PPPoE::host_uniq)); K.fields.push_back(blob("ac_cookie", &PPPoE::ac_cookie, &PPPoE::ac_cookie)); K.fields.push_back(blob("relay_session_id", &PPPoE::relay_session_id, &PPPoE::relay_session_id));
    K.fields.push_back(text("service_name_error", &PPPoE::service_name_error, &PPPoE::service_name_error)); K.fields.push_back(text("ac_system_error", &PPPoE::ac_system_error, &PPPoE::ac_system_error)); K.fields.push_back(text("generic_error", &PPPoE::generic_error, &PPPoE::generic_error));
    { Field<PPPoE> f{"vendor_specific", [](Rng& r) { Bytes d; app32(d, r.edgy(32)); app(d, r.bytes(r.below(12))); return B(d); }, [](PPPoE& o, const Val& v) { o.vendor_specific(PPPoE::vendor_spec_type((uint32_t)rd32(v.b, 0), Bytes(v.b.begin() + 4, v.b.end()))); },
        [](PPPoE& o) { return guard([&] { PPPoE::vendor_spec_type x = o.vendor_specific(); Bytes d; app32(d, x.vendor_id); app(d, x.data); return B(d); }); }}; f.once = true; f.refuse = after_eol; K.fields.push_back(f); }
    { Field<PPPoE> f{"end_of_list", [](Rng&) { return N(1); }, [](PPPoE& o, const Val&) { o.end_of_list(); }, [](PPPoE& o) { return N(o.search_tag(PPPoE::END_OF_LIST) ? 1 : 0); }}; f.once = true; K.fields.push_back(f); }
    K.image = [](const Shadow& sh, const std::vector<std::string>& order, int, Image& im) {
        static const std::map<std::string, u32> tag = {{"end_of_list", 0x0000}, {"service_name", 0x0101}, {"ac_name", 0x0102}, {"host_uniq", 0x0103}, {"ac_cookie", 0x0104}, {"vendor_specific", 0x0105}, {"relay_session_id", 0x0110},
            {"service_name_error", 0x0201}, {"ac_system_error", 0x0202}, {"generic_error", 0x0203}};
        Bytes tags; std::vector<std::pair<std::string, Bytes>> parts;
        for (auto& n : order) { Bytes t; app16(t, tag.at(n)); const Bytes& d = at(sh, n).k == 1 ? oct(sh, n) : Bytes(); app16(t, d.size()); app(t, d); parts.push_back({n, t}); app(tags, t); }
        im.u8_("version-type", num(sh, "version") << 4 | num(sh, "type")); im.u8_("code", num(sh, "code")); im.be16("session_id", num(sh, "session_id")); im.be16("payload_length", tags.size());
        for (auto& p : parts) im.put("tag:" + p.first, p.second); };
    return K;
}

// ---------------------------------------------------------------------------------------------------------------
// DNS SOA record data (RFC 1035 3.3.13): MNAME RNAME SERIAL REFRESH RETRY EXPIRE MINIMUM
// ---------------------------------------------------------------------------------------------------------------
Bytes enc_name(const Bytes& dotted) { Bytes o; size_t s = 0; if (!dotted.empty()) for (;;) { size_t e = std::find(dotted.begin() + s, dotted.end(), (u8)'.') - dotted.begin(); o.push_back((u8)(e - s)); o.insert(o.end(), dotted.begin() + s, dotted.begin() + e); if (e >= dotted.size()) break; s = e + 1; } o.push_back(0); return o; }
Bytes gen_name(Rng& r) { Bytes b; u32 labels = r.chance(1, 20) ? 0 : 1 + r.below(4); for (u32 i = 0; i < labels; ++i) { if (i) b.push_back('.'); u32 n = r.chance(1, 16) ? 63 : 1 + r.below(12); for (u32 k = 0; k < n; ++k) { static const char al[] = "abcdefghijklmnopqrstuvwxyz0123456789-"; b.push_back((u8)al[r.below(37)]); } } return b; }
const Bytes SOA_OWNER = {'z', 'o', 'n', 'e', '.', 'e', 'x', 'a', 'm', 'p', 'l', 'e'};
Kind<DNS::soa_record> soa_kind() {
    typedef DNS::soa_record S;
    Kind<S> K; K.cls = "DNS.soa_record"; K.kind = "rdata"; K.contexts = 3;      // 0: soa_record(buffer,size)  1: soa_record(resource)  2: inside a DNS message, answers() -> soa_record(resource)
    K.make = [](Rng& r, std::string& cfg, Shadow&) { cfg = ""; if (r.chance(1, 3)) { cfg = "7-argument constructor"; return std::make_shared<S>("", "", 0, 0, 0, 0, 0); } return std::make_shared<S>(); };
    auto name = [](const char* n, void (S::*set)(const std::string&), const std::string& (S::*get)() const) { return Field<S>{n, [](Rng& r) { return B(gen_name(r)); }, [set](S& o, const Val& v) { (o.*set)(std::string(v.b.begin(), v.b.end())); }, [get](S& o) { const std::string& s = (o.*get)(); return B(Bytes(s.begin(), s.end())); }}; };
    K.fields.push_back(name("mname", &S::mname, &S::mname)); K.fields.push_back(name("rname", &S::rname, &S::rname));
    K.fields.push_back(NUMF(S, serial, 32, uint32_t)); K.fields.push_back(NUMF(S, refresh, 32, uint32_t)); K.fields.push_back(NUMF(S, retry, 32, uint32_t)); K.fields.push_back(NUMF(S, expire, 32, uint32_t)); K.fields.push_back(NUMF(S, minimum_ttl, 32, uint32_t));
    K.ser = [](S& o, int ctx, const Shadow&, size_t& off) { Bytes rd = o.serialize(); off = 0; if (ctx != 2) return rd;
        DNS d; d.id(0x1234); d.type(DNS::RESPONSE); d.add_answer(DNS::resource(std::string(SOA_OWNER.begin(), SOA_OWNER.end()), std::string(rd.begin(), rd.end()), DNS::SOA, DNS::IN, 3600));
        off = 12 + enc_name(SOA_OWNER).size() + 10; return d.serialize(); };
    K.parse = [](const u8* p, u32 n, int ctx, const Shadow&, std::function<Bytes()>& reser) {
        std::shared_ptr<S> q;
        if (ctx == 0) q = std::make_shared<S>(p, n);
        else if (ctx == 1) q = std::make_shared<S>(DNS::resource("x", std::string((const char*)p, n), DNS::SOA, DNS::IN, 1));
        else { auto d = std::make_shared<DNS>(p, n); DNS::resources_type a = d->answers(); if (a.size() != 1 || a[0].query_type() != DNS::SOA) return std::shared_ptr<S>(); q = std::make_shared<S>(a[0]); reser = [d] { return d->serialize(); }; return q; }
        reser = [q] { return q->serialize(); }; return q; };
    K.image = [](const Shadow& sh, const std::vector<std::string>&, int, Image& im) { im.put("mname", enc_name(oct(sh, "mname"))); im.put("rname", enc_name(oct(sh, "rname"))); for (const char* f : {"serial", "refresh", "retry", "expire", "minimum_ttl"}) im.be32(f, num(sh, f)); };
    return K;
}

// ---------------------------------------------------------------------------------------------------------------
// ICMP extension objects and the extension structure (RFC 4884 7.)
// ---------------------------------------------------------------------------------------------------------------
Kind<ICMPExtension> icmp_ext_kind() {
    typedef ICMPExtension E;
    Kind<E> K; K.cls = "ICMPExtension"; K.kind = "object";
    K.make = [](Rng& r, std::string& cfg, Shadow&) { if (r.chance(1, 2)) { cfg = "default"; return std::make_shared<E>(); } u8 c = r.byte(), t = r.byte(); cfg = "class=" + std::to_string(c) + " type=" + std::to_string(t); return std::make_shared<E>(c, t); };
    K.fields.push_back(NUMF(E, extension_class, 8, uint8_t)); K.fields.push_back(NUMF(E, extension_type, 8, uint8_t));
    K.fields.push_back(Field<E>{"payload", [](Rng& r) { return B(r.bytes(r.chance(1, 5) ? 0 : r.chance(1, 10) ? 300 + r.below(900) : 1 + r.below(40))); }, [](E& o, const Val& v) { o.payload(v.b); }, [](E& o) { return B(o.payload()); }});
    K.ser = [](E& o, int, const Shadow&, size_t& off) { off = 0; const E& c = o; Bytes y = c.serialize(); if (y.size() != o.size()) y.push_back(0xEE); return y; };      // size() must agree (shows up as a length mismatch)
    K.parse = [](const u8* p, u32 n, int, const Shadow&, std::function<Bytes()>& reser) { auto q = std::make_shared<E>(p, n); reser = [q] { const E& c = *q; return c.serialize(); }; return q; };
    K.image = [](const Shadow& sh, const std::vector<std::string>&, int, Image& im) { im.be16("length", 4 + oct(sh, "payload").size()); im.u8_("extension_class", num(sh, "extension_class")); im.u8_("extension_type", num(sh, "extension_type")); im.put("payload", oct(sh, "payload")); };
    return K;
}
Bytes enc_exts(const ICMPExtensionsStructure& s) { Bytes d; for (auto& e : s.extensions()) { app16(d, 4 + e.payload().size()); d.push_back(e.extension_class()); d.push_back(e.extension_type()); app(d, e.payload()); } return d; }
Kind<ICMPExtensionsStructure> icmp_ext_structure_kind() {
    typedef ICMPExtensionsStructure X;
    Kind<X> K; K.cls = "ICMPExtensionsStructure"; K.kind = "structure";
    K.make = [](Rng&, std::string& cfg, Shadow&) { cfg = ""; return std::make_shared<X>(); };
    K.fields.push_back(NUMF(X, version, 4, small_uint<4>)); K.fields.push_back(NUMF(X, reserved, 12, small_uint<12>));
    { Field<X> f{"extensions", [](Rng& r) { Bytes d; Bytes pl = r.bytes(r.chance(1, 3) ? 0 : 4 * r.below(6) + (r.chance(1, 4) ? r.below(4) : 0)); app16(d, 4 + pl.size()); d.push_back(r.byte()); d.push_back(r.byte()); app(d, pl); return B(d); },      // one object: own encoding
        [](X& o, const Val& v) { ICMPExtension e(v.b[2], v.b[3]); e.payload(Bytes(v.b.begin() + 4, v.b.end())); o.add_extension(e); }, [](X& o) { return B(enc_exts(o)); }};
      f.model = [](Shadow& sh, const Val& v) { Bytes d = oct(sh, "extensions"); app(d, v.b); sh["extensions"] = B(d); }; K.fields.push_back(f); }
    K.ser = [](X& o, int, const Shadow&, size_t& off) { off = 0; Bytes y = o.serialize(); if (y.size() != o.size()) y.push_back(0xEE); return y; };
    K.parse = [](const u8* p, u32 n, int, const Shadow&, std::function<Bytes()>& reser) { auto q = std::make_shared<X>(p, n); reser = [q] { return q->serialize(); }; return q; };
    K.image = [](const Shadow& sh, const std::vector<std::string>&, int, Image& im) { im.be16("version-reserved", num(sh, "version") << 12 | num(sh, "reserved")); im.skip("checksum", 2); im.put("objects", oct(sh, "extensions")); };
    K.wire_extra = [](const Bytes& y, size_t, int, const Shadow&) -> std::string { cnt("msgs:checksum_checks");
        if (ocsum(y.data(), y.size()) != 0xffff) return "checksum/ICMPExtensionsStructure|RFC 1071 sum of the written structure is not ffff";
        ExactBuf buf(y); if (!ICMPExtensionsStructure::validate_extensions(buf.data(), (u32)y.size())) return "wire-roundtrip/ICMPExtensionsStructure/validate_extensions-rejects-own-output|validate_extensions() is false for the structure just written";
        return ""; };
    K.max_steps = 8;
    return K;
}

// ---------------------------------------------------------------------------------------------------------------
// RTP (RFC 3550 5.1, 5.3.1): V P X CC | M PT | seq | timestamp | SSRC | CSRC* | [profile, length, words] | payload | padding
// ---------------------------------------------------------------------------------------------------------------
Bytes raw_words(const std::vector<uint32_t>& v) { Bytes d; for (uint32_t x : v) { u8 t[4]; memcpy(t, &x, 4); d.insert(d.end(), t, t + 4); } return d; }     // the lists hold the words as they are on the wire
Kind<RTP> rtp_kind(bool ext) {
    Kind<RTP> K; K.cls = "RTP"; K.kind = ext ? "extension" : "plain"; K.ser = ser_self<RTP>; K.parse = parse_self<RTP>;
    K.make = [ext](Rng&, std::string& cfg, Shadow& sh) { auto o = std::make_shared<RTP>(); if (ext) o->extension_bit(1); cfg = ext ? "X=1" : "X=0"; sh["csrc"] = B(Bytes()); sh["extension_data"] = B(Bytes()); sh["padding_size"] = N(0); return o; };
    K.fields.push_back(NUMF(RTP, version, 2, small_uint<2>)); K.fields.push_back(NUMF(RTP, marker_bit, 1, small_uint<1>)); K.fields.push_back(NUMF(RTP, payload_type, 7, small_uint<7>));
    K.fields.push_back(NUMF(RTP, sequence_number, 16, uint16_t)); K.fields.push_back(NUMF(RTP, timestamp, 32, uint32_t)); K.fields.push_back(NUMF(RTP, ssrc_id, 32, uint32_t));
    K.fields.push_back(NUMF(RTP, padding_size, 8, uint8_t)); K.fields.push_back(payload_field<RTP>(60));
    { Field<RTP> f{"csrc", [](Rng& r) { Bytes d; app32(d, r.edgy(32)); return B(d); }, [](RTP& o, const Val& v) { o.add_csrc_id((uint32_t)rd32(v.b, 0)); }, [](RTP& o) { return B(raw_words(o.csrc_ids())); }};
      f.model = [](Shadow& sh, const Val& v) { Bytes d = oct(sh, "csrc"); app(d, v.b); sh["csrc"] = B(d); };
      f.refuse = [](const Shadow& sh, const Val&) -> const char* { return oct(sh, "csrc").size() >= 60 ? "RTP-15-CSRC-identifiers" : nullptr; }; K.fields.push_back(f); }
    // observed only: the bits and counts that follow from the edits
    auto derived = [](const char* name, std::function<Val(RTP&)> get, std::function<u64(const Shadow&)> want) { Field<RTP> f{name, nullptr, nullptr, get}; f.expect = [want](const Shadow& sh, bool) { return N(want(sh)); }; return f; };
    K.fields.push_back(derived("padding_bit", [](RTP& o) { return N((u64)o.padding_bit()); }, [](const Shadow& sh) { return (u64)(num(sh, "padding_size") > 0); }));
    K.fields.push_back(derived("csrc_count", [](RTP& o) { return N((u64)o.csrc_count()); }, [](const Shadow& sh) { return (u64)oct(sh, "csrc").size() / 4; }));
    K.fields.push_back(derived("extension_bit", [](RTP& o) { return N((u64)o.extension_bit()); }, [ext](const Shadow&) { return (u64)ext; }));
    if (ext) {
        K.fields.push_back(NUMF(RTP, extension_profile, 16, uint16_t));
        Field<RTP> f{"extension_data", [](Rng& r) { Bytes d; app32(d, r.edgy(32)); return B(d); }, [](RTP& o, const Val& v) { o.add_extension_data((uint32_t)rd32(v.b, 0)); }, [](RTP& o) { return B(raw_words(o.extension_data())); }};
        f.model = [](Shadow& sh, const Val& v) { Bytes d = oct(sh, "extension_data"); app(d, v.b); sh["extension_data"] = B(d); }; K.fields.push_back(f);
        K.fields.push_back(derived("extension_length", [](RTP& o) { return N((u64)o.extension_length()); }, [](const Shadow& sh) { return (u64)oct(sh, "extension_data").size() / 4; }));
    }
    K.image = [ext](const Shadow& sh, const std::vector<std::string>&, int, Image& im) {
        const u64 pad = num(sh, "padding_size");
        im.u8_("V-P-X-CC", num(sh, "version") << 6 | (u64)(pad > 0) << 5 | (u64)ext << 4 | oct(sh, "csrc").size() / 4); im.u8_("M-PT", num(sh, "marker_bit") << 7 | num(sh, "payload_type"));
        im.be16("sequence_number", num(sh, "sequence_number")); im.be32("timestamp", num(sh, "timestamp")); im.be32("ssrc_id", num(sh, "ssrc_id")); im.put("csrc", oct(sh, "csrc"));
        if (ext) { im.be16("extension_profile", num(sh, "extension_profile")); im.be16("extension_length", oct(sh, "extension_data").size() / 4); im.put("extension_data", oct(sh, "extension_data")); }
        im.put("payload", oct(sh, "payload"));
        if (pad) { im.zeros("padding", pad - 1); im.u8_("padding-count", pad); } };
    return K;
}

// ---------------------------------------------------------------------------------------------------------------
// LLC (IEEE 802.2 3.2, 5.2): DSAP (I/G bit) | SSAP (C/R bit) | control: I = N(S)<<1, N(R)<<1|P ; S = 01|SS<<2, N(R)<<1|P ;
// U = 11 | MM<<2 | P<<4 | MMM<<5
// ---------------------------------------------------------------------------------------------------------------
Kind<LLC> llc_kind(int fmt) {      // 0 INFORMATION, 1 SUPERVISORY, 3 UNNUMBERED
    Kind<LLC> K; K.cls = "LLC"; K.kind = fmt == 0 ? "INFORMATION" : fmt == 1 ? "SUPERVISORY" : "UNNUMBERED"; K.ser = ser_self<LLC>; K.parse = parse_self<LLC>;
    K.make = [fmt](Rng& r, std::string& cfg, Shadow& sh) { std::shared_ptr<LLC> o; if (r.chance(1, 2)) { o = std::make_shared<LLC>(); cfg = "LLC()"; } else { u8 d = r.byte(), s = r.byte(); if ((s | 1) == 0x43) s = 0x40; o = std::make_shared<LLC>(d, s); cfg = "LLC(" + std::to_string(d) + "," + std::to_string(s) + ")"; }
        o->type((LLC::Format)fmt); sh["xid"] = B(Bytes()); return o; };
    { Field<LLC> f = NUMF(LLC, dsap, 8, uint8_t); f.model = [](Shadow& sh, const Val& v) { sh["dsap"] = v; sh["group"] = N(v.n & 1); }; K.fields.push_back(f); }
    { Field<LLC> f = NUMF(LLC, ssap, 8, uint8_t); f.model = [](Shadow& sh, const Val& v) { sh["ssap"] = v; sh["response"] = N(v.n & 1); };
      f.refuse = [](const Shadow&, const Val& v) -> const char* { return (v.n | 1) == 0x43 ? "LLC-SSAP-0x42-announces-STP" : nullptr; }; K.fields.push_back(f); }
    { Field<LLC> f = NUMF(LLC, group, 1, bool); f.model = [](Shadow& sh, const Val& v) { sh["group"] = v; sh["dsap"] = N((num(sh, "dsap") & 0xfe) | v.n); }; K.fields.push_back(f); }
    { Field<LLC> f = NUMF(LLC, response, 1, bool); f.model = [](Shadow& sh, const Val& v) { sh["response"] = v; sh["ssap"] = N((num(sh, "ssap") & 0xfe) | v.n); };
      f.refuse = [](const Shadow& sh, const Val& v) -> const char* { return (((num(sh, "ssap") & 0xfe) | v.n) | 1) == 0x43 ? "LLC-SSAP-0x42-announces-STP" : nullptr; }; K.fields.push_back(f); }
    K.fields.push_back(NUMF(LLC, poll_final, 1, bool));
    auto fixed = [](const char* name, std::function<Val(LLC&)> get, u64 v) { Field<LLC> f{name, nullptr, nullptr, get}; f.expect = [v](const Shadow&, bool) { return N(v); }; return f; };
    K.fields.push_back(fixed("type", [](LLC& o) { return N((u64)o.type()); }, (u64)fmt));
    if (fmt == 0) K.fields.push_back(NUMF(LLC, send_seq_number, 7, uint8_t)); else K.fields.push_back(fixed("send_seq_number", [](LLC& o) { return N((u64)o.send_seq_number()); }, 0));
    if (fmt != 3) K.fields.push_back(NUMF(LLC, receive_seq_number, 7, uint8_t)); else K.fields.push_back(fixed("receive_seq_number", [](LLC& o) { return N((u64)o.receive_seq_number()); }, 0));
    if (fmt == 1) K.fields.push_back(NUMF(LLC, supervisory_function, 2, LLC::SupervisoryFunctions)); else K.fields.push_back(fixed("supervisory_function", [](LLC& o) { return N((u64)o.supervisory_function()); }, 0));
    if (fmt == 3) K.fields.push_back(NUMF(LLC, modifier_function, 5, LLC::ModifierFunctions)); else K.fields.push_back(fixed("modifier_function", [](LLC& o) { return N((u64)o.modifier_function()); }, 0));
    { Field<LLC> f = payload_field<LLC>(40);       // XID information fields have no accessor: a parser sees them in front of the payload
      f.expect = [](const Shadow& sh, bool parsed) { if (!parsed) return at(sh, "payload"); Bytes d = oct(sh, "xid"); app(d, oct(sh, "payload")); return B(d); }; K.fields.push_back(f); }
    if (fmt == 3) {
        Field<LLC> f{"add_xid_information", [](Rng& r) { return B(Bytes{(u8)r.edgy(8), (u8)r.edgy(8), (u8)r.edgy(8)}); }, [](LLC& o, const Val& v) { o.add_xid_information(v.b[0], v.b[1], v.b[2]); }, nullptr};
        f.model = [](Shadow& sh, const Val& v) { Bytes d = oct(sh, "xid"); app(d, v.b); sh["xid"] = B(d); };
        f.refuse = [](const Shadow& sh, const Val&) -> const char* { return oct(sh, "xid").size() >= 240 ? "LLC-information-length-octet" : nullptr; }; K.fields.push_back(f);
        Field<LLC> c{"clear_information_fields", [](Rng&) { return N(0); }, [](LLC& o, const Val&) { o.clear_information_fields(); }, nullptr};
        c.model = [](Shadow& sh, const Val&) { sh["xid"] = B(Bytes()); }; K.fields.push_back(c);
    }
    K.fields.push_back(fixed("header_size", [](LLC& o) { return N((u64)o.header_size()); }, 0));
    K.fields.back().expect = [fmt](const Shadow& sh, bool parsed) { return N((fmt == 3 ? 3u : 4u) + (parsed ? 0 : oct(sh, "xid").size())); };
    K.image = [fmt](const Shadow& sh, const std::vector<std::string>&, int, Image& im) {
        im.u8_("dsap", num(sh, "dsap")); im.u8_("ssap", num(sh, "ssap"));
        if (fmt == 0) { im.u8_("control-1", num(sh, "send_seq_number") << 1); im.u8_("control-2", num(sh, "receive_seq_number") << 1 | num(sh, "poll_final")); }
        else if (fmt == 1) { im.u8_("control-1", 0x01 | num(sh, "supervisory_function") << 2); im.u8_("control-2", num(sh, "receive_seq_number") << 1 | num(sh, "poll_final")); }
        else { const u64 m = num(sh, "modifier_function"); im.u8_("control", 0x03 | (m >> 3) << 2 | num(sh, "poll_final") << 4 | (m & 7) << 5); im.put("xid-information", oct(sh, "xid")); }
        im.put("payload", oct(sh, "payload")); };
    return K;
}

// ---------------------------------------------------------------------------------------------------------------
// IEEE 802.11 (9.2.3, 9.3.3.2/3.10, 9.4.2): management frames with two-argument element setters, Address 4
// ---------------------------------------------------------------------------------------------------------------
template <class O> std::shared_ptr<O> dot11_parse(const u8* p, u32 n, int ctx, const Shadow& sh, std::function<Bytes()>& reser) {
    if (!ctx) return parse_self<O>(p, n, ctx, sh, reser);
    std::shared_ptr<Dot11> root(Dot11::from_bytes(p, n)); reser = [root] { return root->serialize(); };
    O* q = dynamic_cast<O*>(root.get()); return q ? std::shared_ptr<O>(root, q) : std::shared_ptr<O>();
}
template <class O> void dot11_common_fields(Kind<O>& K) {
    K.fields.push_back(NUMF(O, to_ds, 1, small_uint<1>)); K.fields.push_back(NUMF(O, from_ds, 1, small_uint<1>)); K.fields.push_back(NUMF(O, duration_id, 16, uint16_t));
    K.fields.push_back(HWF(O, addr1)); K.fields.push_back(HWF(O, addr2)); K.fields.push_back(HWF(O, addr3));
    K.fields.push_back(NUMF(O, frag_num, 4, small_uint<4>)); K.fields.push_back(NUMF(O, seq_num, 12, small_uint<12>));
    Field<O> a4f = HWF(O, addr4);        // Address 4 is only on the wire with To DS = From DS = 1: otherwise a parser sees the default
    a4f.expect = [](const Shadow& sh, bool parsed) { return parsed && !(num(sh, "to_ds") && num(sh, "from_ds")) ? B(Bytes(6, 0)) : at(sh, "addr4"); };
    K.fields.push_back(a4f);
}
void dot11_head(Image& im, const Shadow& sh, u8 fc0, u64 fc1_extra) {
    im.u8_("frame-control-0", fc0); im.u8_("frame-control-1(ToDS,FromDS)", num(sh, "to_ds") | num(sh, "from_ds") << 1 | fc1_extra); im.le16("duration_id", num(sh, "duration_id"));
    im.put("addr1", oct(sh, "addr1")); im.put("addr2", oct(sh, "addr2")); im.put("addr3", oct(sh, "addr3")); im.le16("sequence-control", num(sh, "frag_num") | num(sh, "seq_num") << 4);
    if (num(sh, "to_ds") && num(sh, "from_ds")) im.put("addr4", oct(sh, "addr4"));
}
template <class O> Kind<O> dot11_mgmt_kind(const char* cls, u8 fc0) {
    Kind<O> K; K.cls = cls; K.kind = "elements"; K.contexts = 2; K.ser = ser_self<O>; K.parse = dot11_parse<O>;
    K.make = [](Rng& r, std::string& cfg, Shadow& sh) { std::shared_ptr<O> o; if (r.chance(1, 2)) { o = std::make_shared<O>(); cfg = "default"; } else { Bytes d = gen_octets(r, 6), s = gen_octets(r, 6); o = std::make_shared<O>(hw6(d), hw6(s)); cfg = "dst=" + hex(d) + " src=" + hex(s); }
        if (r.chance(1, 2)) { o->to_ds(1); o->from_ds(1); cfg += " ToDS=FromDS=1"; }       // the state in which Address 4 exists
        return o; };
    dot11_common_fields(K);
    K.fields.push_back(NUMF(O, timestamp, 64, uint64_t)); K.fields.push_back(NUMF(O, interval, 16, uint16_t));
    auto pairf = [](const char* name, void (Dot11ManagementFrame::*set)(uint8_t, uint8_t), std::pair<uint8_t, uint8_t> (Dot11ManagementFrame::*get)() const) {
        Field<O> f{name, [](Rng& r) { return B(Bytes{(u8)r.edgy(8), (u8)r.edgy(8)}); }, [set](O& o, const Val& v) { (o.*set)(v.b[0], v.b[1]); }, [get](O& o) { return guard([&] { std::pair<uint8_t, uint8_t> p = (o.*get)(); return B(Bytes{p.first, p.second}); }); }}; f.once = true; return f; };
    K.fields.push_back(pairf("power_capability", &Dot11ManagementFrame::power_capability, &Dot11ManagementFrame::power_capability));
    K.fields.push_back(pairf("fh_parameters", &Dot11ManagementFrame::fh_parameters, &Dot11ManagementFrame::fh_parameters));
    K.fields.push_back(pairf("tpc_report", &Dot11ManagementFrame::tpc_report, &Dot11ManagementFrame::tpc_report));
    // no typed getter: read back through search_option (QoS Info octet, reserved octet, then four 4-octet AC records; the 32-bit arguments are little endian like every 802.11 field)
    K.fields.push_back(with_once(Field<O>{"edca_parameter_set", [](Rng& r) { Bytes d; for (int i = 0; i < 4; ++i) { u32 x = (u32)r.edgy(32); d.push_back((u8)x); d.push_back((u8)(x >> 8)); d.push_back((u8)(x >> 16)); d.push_back((u8)(x >> 24)); } return B(d); },
        [](O& o, const Val& v) { auto le = [&](size_t i) { return (uint32_t)(v.b[i] | v.b[i + 1] << 8 | v.b[i + 2] << 16 | (uint32_t)v.b[i + 3] << 24); }; o.edca_parameter_set(le(0), le(4), le(8), le(12)); },
        [](O& o) { const Dot11::option* x = o.search_option(Dot11::EDCA); if (!x) return ABSENT(); if (x->data_size() != 18 || x->data_ptr()[0] || x->data_ptr()[1]) return ERR("unexpected element body " + hex(x->data_ptr(), x->data_size())); return B(Bytes(x->data_ptr() + 2, x->data_ptr() + 18)); }}));
    K.image = [fc0](const Shadow& sh, const std::vector<std::string>& order, int, Image& im) {
        static const std::map<std::string, u8> id = {{"fh_parameters", 8}, {"edca_parameter_set", 12}, {"power_capability", 33}, {"tpc_report", 35}};
        dot11_head(im, sh, fc0, 0); im.le64("timestamp", num(sh, "timestamp")); im.le16("interval", num(sh, "interval")); im.zeros("capability", 2);
        for (auto& n : order) { Bytes e{id.at(n)}; Bytes d; if (n == "edca_parameter_set") d = Bytes{0, 0}; app(d, oct(sh, n)); e.push_back((u8)d.size()); app(e, d); im.put("element:" + n, e); } };
    return K;
}
Kind<Dot11Data> dot11_data_kind() {
    typedef Dot11Data O;
    Kind<O> K; K.cls = "Dot11Data"; K.kind = "addr4"; K.contexts = 2; K.ser = ser_self<O>; K.parse = dot11_parse<O>;
    K.make = [](Rng& r, std::string& cfg, Shadow& sh) { std::shared_ptr<O> o; if (r.chance(1, 2)) { o = std::make_shared<O>(); cfg = "default"; } else { Bytes d = gen_octets(r, 6), s = gen_octets(r, 6); o = std::make_shared<O>(hw6(d), hw6(s)); cfg = "dst=" + hex(d) + " src=" + hex(s); }
        if (r.chance(1, 2)) { o->to_ds(1); o->from_ds(1); cfg += " ToDS=FromDS=1"; }       // the state in which Address 4 exists
        return o; };
    dot11_common_fields(K);
    { Field<O> f = NUMF(O, wep, 1, small_uint<1>); f.refuse = [](const Shadow& sh, const Val& v) -> const char* { return !v.n && !oct(sh, "payload").empty() ? "Dot11Data-unprotected-payload-must-be-SNAP" : nullptr; }; K.fields.push_back(f); }
    { Field<O> f = payload_field<O>(40); f.refuse = [](const Shadow& sh, const Val& v) -> const char* { return !num(sh, "wep") && !v.b.empty() ? "Dot11Data-unprotected-payload-must-be-SNAP" : nullptr; }; K.fields.push_back(f); }
    K.image = [](const Shadow& sh, const std::vector<std::string>&, int, Image& im) { dot11_head(im, sh, 0x08, num(sh, "wep") << 6); im.put("payload", oct(sh, "payload")); };
    K.variant = [](const Shadow& sh) { return std::string(num(sh, "to_ds") && num(sh, "from_ds") ? "four-address" : "three-address"); };
    return K;
}

// ---------------------------------------------------------------------------------------------------------------
typedef std::function<void(Rng&)> Program;
template <class O> Program prog_of(Kind<O> k) { auto kp = std::make_shared<Kind<O>>(std::move(k)); return [kp](Rng& r) { run_kind(*kp, r); }; }
std::vector<Program> g_programs;
void build_programs() {
    auto add = [](Program p, int weight = 1) { while (weight--) g_programs.push_back(p); };
    add(prog_of(icmp6_echo())); add(prog_of(icmp6_router_advert()), 2); add(prog_of(icmp6_neighbour(false))); add(prog_of(icmp6_neighbour(true))); add(prog_of(icmp6_redirect()), 2);
    add(prog_of(icmp6_mld_query()), 3); add(prog_of(icmp6_mld2_report()), 2);
    add(prog_of(icmp_idseq("ECHO", {8, 0}, 0))); add(prog_of(icmp_idseq("INFO", {15, 16}, 1))); add(prog_of(icmp_idseq("TIMESTAMP", {13, 14}, 2)), 2); add(prog_of(icmp_idseq("ADDRESS_MASK", {17, 18}, 3)));
    add(prog_of(icmp_redirect())); add(prog_of(icmp_frag_needed())); add(prog_of(icmp_param_problem())); add(prog_of(icmp_rfc4884_length(true))); add(prog_of(icmp_rfc4884_length(false))); add(icmp_helpers_program, 3);
    add(tcp_flags_program, 2);
    add(prog_of(dhcp6_kind(true)), 2); add(prog_of(dhcp6_kind(false)));
    add(prog_of(bootp_kind())); add(prog_of(pppoe_kind()), 2); add(prog_of(soa_kind()), 2);
    add(prog_of(icmp_ext_kind())); add(prog_of(icmp_ext_structure_kind()));
    add(prog_of(rtp_kind(false))); add(prog_of(rtp_kind(true)), 2);
    add(prog_of(llc_kind(0))); add(prog_of(llc_kind(1))); add(prog_of(llc_kind(3)), 2);
    add(prog_of(dot11_mgmt_kind<Dot11Beacon>("Dot11Beacon", 0x80)), 2); add(prog_of(dot11_mgmt_kind<Dot11ProbeResponse>("Dot11ProbeResponse", 0x50)), 2); add(prog_of(dot11_data_kind()), 2);
}

} // namespace

int main(int argc, char** argv) {
    build_programs();
    return vf::run(argc, argv, "C04", [&](long idx, Rng& r) {
        if (idx == 0) cnt("msgs:program-slots", g_programs.size());
        g_programs[(size_t)idx % g_programs.size()](r);
    });
}
