// C05 — fields libtins derives are correct on the wire for independent decoders.
// A "shadow" spec (plain data) describes a layer stack; the packet is built from it through the public
// libtins API; an independent size/offset model (own arithmetic) says where every layer must lie; the
// checker reads serialize() at those offsets and demands that every derived field (lengths, header lengths,
// next-protocol tags, checksums by RFC 1071 / CRC-32, padding) has the value the RFCs prescribe; libpcap
// (pcap_compile + pcap_offline_filter) is used as a second, free-running dissector with predicates built from
// the values that were set.  Checked after every step of a small history (build, mutate, clone, re-parse).
#include "verif.h"
#include <tins/tins.h>
#include <tins/loopback.h>
#include <pcap/pcap.h>
#include <algorithm>
#include <memory>
using namespace Tins;
using namespace vf;

// ------------------------------------------------------------------ independent arithmetic
static inline u32 be16(const Bytes& y, size_t o) { return ((u32)y[o] << 8) | y[o + 1]; }
static inline u32 be32(const Bytes& y, size_t o) { return ((u32)y[o] << 24) | ((u32)y[o + 1] << 16) | ((u32)y[o + 2] << 8) | y[o + 3]; }
static inline u32 le16(const Bytes& y, size_t o) { return ((u32)y[o + 1] << 8) | y[o]; }
static inline u32 le32(const Bytes& y, size_t o) { return ((u32)y[o + 3] << 24) | ((u32)y[o + 2] << 16) | ((u32)y[o + 1] << 8) | y[o]; }
// RFC 1071: 16-bit big-endian words, odd trailing byte padded with zero, end-around carry
static u64 ocsum(const u8* p, size_t n, u64 acc = 0) { size_t i = 0; for (; i + 1 < n; i += 2) acc += ((u32)p[i] << 8) | p[i + 1]; if (n & 1) acc += (u32)p[n - 1] << 8; return acc; }
static u16 fold(u64 a) { while (a >> 16) a = (a & 0xffff) + (a >> 16); return (u16)a; }
// sum of y[s,e) with the two bytes at f (f-s even) taken as zero, plus acc
static u64 sum_wo_field(const Bytes& y, size_t s, size_t e, size_t f, u64 acc) { acc = ocsum(&y[s], f - s, acc); if (e > f + 2) acc = ocsum(&y[f + 2], e - f - 2, acc); return acc; }
static u32 crc32_ieee(const u8* p, size_t n) { u32 c = 0xffffffffu; for (size_t i = 0; i < n; ++i) { c ^= p[i]; for (int k = 0; k < 8; ++k) c = (c >> 1) ^ (0xEDB88320u & (0u - (c & 1))); } return ~c; }
static u32 pad_to(u32 n, u32 a) { return (n + a - 1) / a * a; }

// ------------------------------------------------------------------ shadow
enum Kind { ETH, VLAN, DOT3, LLCK, SNAPK, SLLK, LOOPK, PPPOEK, MPLSK, IP4, IP6K, AHK, ESPK, TCPK, UDPK, ICMP4, ICMP6K, ARPK, STPK, EAPOLK, RTAP, WLAN, RAWK, NKINDS };
static const char* KN[] = {"eth", "vlan", "dot3", "llc", "snap", "sll", "loop", "pppoe", "mpls", "ip", "ip6", "ah", "esp", "tcp", "udp", "icmp", "icmp6", "arp", "stp", "eapol", "radiotap", "dot11", "raw"};
struct TLV { u32 t; Bytes d; };
struct L {
    Kind k; Bytes a1, a2, a3, a4; u32 v[10]; std::vector<TLV> tl; Bytes raw;
    u32 off = 0, hlen = 0, trl = 0, end = 0;   // filled by the model: [off, end) = header + inner + trailer
    L() : k(RAWK) { memset(v, 0, sizeof v); }
    explicit L(Kind kk) : k(kk) { memset(v, 0, sizeof v); }
};
struct Spec { int dlt = 1; std::vector<L> ls; std::string kf; };

static std::string show(const Spec& s) {
    std::string d = "dlt=" + std::to_string(s.dlt) + (s.kf.empty() ? "" : " kf=" + s.kf) + " ";
    for (size_t i = 0; i < s.ls.size(); ++i) {
        const L& l = s.ls[i]; if (i) d += "/"; d += KN[l.k];
        if (l.k == RAWK) { d += "(" + std::to_string(l.raw.size()) + ":" + hex(l.raw, 12) + ")"; continue; }
        d += "(";
        if (!l.a1.empty()) d += hex(l.a1) + ",";
        if (!l.a2.empty()) d += hex(l.a2) + ",";
        if (!l.a3.empty()) d += hex(l.a3) + ",";
        for (int j = 0; j < 10; ++j) { d += std::to_string(l.v[j]); d += j < 9 ? "," : ""; }
        if (!l.tl.empty()) { d += " tl="; for (auto& t : l.tl) d += "[" + std::to_string(t.t) + ":" + hex(t.d, 44) + "]"; }
        if (!l.raw.empty()) d += " raw=" + hex(l.raw, 20);
        d += ")";
    }
    return d;
}
static u64 shape_sig(const Spec& s) { u64 h = s.dlt; for (auto& l : s.ls) { h = mix(h, l.k); h = mix(h, l.k == RAWK ? l.raw.size() : l.tl.size() * 131 + l.raw.size()); for (auto& t : l.tl) h = mix(h, t.t * 977 + t.d.size()); if (l.k == ICMP4 || l.k == ICMP6K) h = mix(h, l.v[0] * 7 + l.v[4]); } return h; }

static bool icmp4_ext_ok(u32 t) { return t == 3 || t == 11 || t == 12; }
static bool nd_type(u32 t) { return t >= 133 && t <= 137; }

// ------------------------------------------------------------------ model: header sizes by the RFCs, own arithmetic
static u32 tlv_opts_size(const L& l) { u32 n = 0; for (auto& t : l.tl) n += (t.t <= 1) ? 1 : 2 + (u32)t.d.size(); return n; }   // IPv4 / TCP options
static u32 model_hlen(const L& l) {
    switch (l.k) {
        case ETH: return 14; case VLAN: return 4; case DOT3: return 14; case LLCK: return 2 + (l.v[2] == 3 ? 1 : 2); case SNAPK: return 8;
        case SLLK: return 16; case LOOPK: return 4; case MPLSK: return 4; case ESPK: return 8; case UDPK: return 8; case ARPK: return 28; case STPK: return 35;
        case PPPOEK: { u32 n = 6; for (auto& t : l.tl) n += 4 + (u32)t.d.size(); return n; }
        case IP4: return 20 + pad_to(tlv_opts_size(l), 4);
        case TCPK: return 20 + pad_to(tlv_opts_size(l), 4);
        case IP6K: { u32 n = 40; for (auto& t : l.tl) n += pad_to(2 + (u32)t.d.size(), 8); return n; }
        case AHK: return 12 + (u32)l.raw.size();
        case ICMP4: return 8 + ((l.v[0] == 13 || l.v[0] == 14) ? 12 : (l.v[0] == 17 || l.v[0] == 18) ? 4 : 0);
        case ICMP6K: { u32 n = 8; u32 t = l.v[0]; if (t == 135 || t == 136) n += 16; else if (t == 137) n += 32; else if (t == 134) n += 8;
                       if (nd_type(t)) for (auto& o : l.tl) n += 2 + (u32)o.d.size(); return n; }
        case EAPOLK: return (l.v[0] == 0 ? 4 + 1 + 43 : 4 + 1 + 94) + (u32)l.raw.size();
        case RTAP: return l.v[1];          // taken from the present bitmap on the wire by the checker (see check_rtap); v[1] = layout size expected
        case WLAN: return l.v[0] == 3 ? 10 : l.v[0] == 2 ? 24 + 12 + (u32)(l.raw.empty() ? 0 : 2 + l.raw.size()) : 24 + ((l.v[1] && l.v[2]) ? 6 : 0) + (l.v[0] == 1 ? 2 : 0);
        case RAWK: return (u32)l.raw.size();
        default: return 0;
    }
}
static u32 ext_struct_size(const L& l) { u32 n = 4; for (auto& t : l.tl) n += 4 + (u32)t.d.size(); return n; }
static bool has_ext(const L& l) { return ((l.k == ICMP4) || (l.k == ICMP6K && !nd_type(l.v[0]))) && !l.tl.empty(); }
// fills off/hlen/trl/end, returns total size. Header sizes fix every offset; trailers (padding, extension structures, FCS) fix the sizes.
// RFC 4884 allows two encodings of an error message without extension structure (length attribute 0 and no padding, or length attribute
// n and the original datagram zero-padded to n units): which one was chosen is read from the length octet on the wire (y), and the
// checker then demands that the octet and the bytes present agree.
static u32 model(Spec& s, const Bytes* y = nullptr) {
    size_t n = s.ls.size(); std::vector<u32> sz(n + 1, 0);
    { u32 off = 0; for (size_t i = 0; i < n; ++i) { L& l = s.ls[i]; l.hlen = model_hlen(l); l.off = off; off += l.hlen; } }
    for (size_t i = n; i-- > 0;) {
        L& l = s.ls[i]; u32 inner = sz[i + 1]; l.trl = 0;
        if (l.k == ETH) l.trl = inner + 14 < 60 ? 60 - 14 - inner : 0;
        else if (l.k == VLAN && l.v[3]) l.trl = inner + 4 < 50 ? 50 - 4 - inner : 0;      // libtins' 802.1Q padding rule (64-byte tagged minimum incl. FCS)
        else if (has_ext(l)) { l.trl = ext_struct_size(l); if (i + 1 < n) { u32 p = pad_to(inner, l.k == ICMP4 ? 4 : 8); if (p < 128) p = 128; l.trl += p - inner; } }
        else if (y && i + 1 < n && ((l.k == ICMP4 && icmp4_ext_ok(l.v[0])) || (l.k == ICMP6K && (l.v[0] == 3 || l.v[0] == 1)))) {
            u32 unit = l.k == ICMP4 ? 4 : 8, lp = l.off + (l.k == ICMP4 ? 5 : 4); u32 lf = lp < y->size() ? (*y)[lp] : 0;
            if (lf && lf * unit >= inner && lf * unit - inner < unit) l.trl = lf * unit - inner;
        }
        else if (l.k == RTAP && (l.v[0] & 0x10)) l.trl = 4;
        sz[i] = l.hlen + inner + l.trl;
    }
    for (size_t i = 0; i < n; ++i) { L& l = s.ls[i]; l.end = l.off + sz[i]; }
    return n ? sz[0] : 0;
}

// next-protocol tags by the assigned-numbers registries; -1 = no tag defined for that payload in libtins' tables
static int ethertype_of(const Spec& s, size_t i /* index of the payload layer */, Kind parent) {
    if (i >= s.ls.size()) return -1;
    const L& c = s.ls[i];
    switch (c.k) {
        case IP4: return 0x0800; case IP6K: return 0x86dd; case ARPK: return 0x0806; case MPLSK: return 0x8847; case EAPOLK: return 0x888e;
        case VLAN: return (parent == ETH && i + 1 < s.ls.size() && s.ls[i + 1].k == VLAN) ? 0x88a8 : 0x8100;
        case PPPOEK: return c.v[0] == 0 ? 0x8864 : 0x8863;
        default: return -1;
    }
}
static int ipproto_of(const Spec& s, size_t i) {
    if (i >= s.ls.size()) return -1;
    switch (s.ls[i].k) { case IP4: return 4; case IP6K: return 41; case TCPK: return 6; case UDPK: return 17; case ICMP4: return 1; case ICMP6K: return 58; case AHK: return 51; case ESPK: return 50; default: return -1; }
}
// ------------------------------------------------------------------ building through the public API
static HWAddress<6> mac(const Bytes& b) { return HWAddress<6>(b.data()); }
static IPv4Address ip4(const Bytes& b) { u32 x; memcpy(&x, b.data(), 4); return IPv4Address(x); }
static IPv6Address ip6(const Bytes& b) { return IPv6Address(b.data()); }
static void add_exts(ICMPExtensionsStructure& es, const L& l) { for (auto& t : l.tl) { ICMPExtension e((u8)(t.t >> 8), (u8)t.t); e.payload(t.d); es.add_extension(e); } }

static PDU* build_layer(const L& l) {
    switch (l.k) {
        case ETH: { auto* p = new EthernetII(mac(l.a1), mac(l.a2)); if (l.v[1]) p->payload_type((u16)l.v[0]); return p; }
        case VLAN: { auto* p = new Dot1Q((u16)l.v[0], l.v[3] != 0); p->priority((u8)l.v[1]); p->cfi((u8)l.v[2]); if (l.v[5]) p->payload_type((u16)l.v[4]); return p; }
        case DOT3: return new Dot3(mac(l.a1), mac(l.a2));
        case LLCK: { auto* p = new LLC((u8)l.v[0], (u8)l.v[1]); p->type((LLC::Format)l.v[2]);
                     if (l.v[2] == 3) p->modifier_function((LLC::ModifierFunctions)l.v[3]); else { p->send_seq_number((u8)l.v[3]); p->receive_seq_number((u8)l.v[4]); }
                     p->poll_final(l.v[5] != 0); return p; }
        case SNAPK: { auto* p = new SNAP(); p->org_code(l.v[0]); p->eth_type((u16)l.v[1]); return p; }
        case SLLK: { auto* p = new SLL(); p->packet_type((u16)l.v[0]); p->lladdr_type((u16)l.v[1]); p->lladdr_len((u16)l.v[2]); p->address(HWAddress<8>(l.a1.data())); p->protocol((u16)l.v[3]); return p; }
        case LOOPK: { auto* p = new Loopback(); p->family(l.v[0]); return p; }
        case PPPOEK: { auto* p = new PPPoE(); p->code((u8)l.v[0]); p->session_id((u16)l.v[1]); if (l.v[3]) p->payload_length((u16)l.v[2]);
                       for (auto& t : l.tl) { std::string sv(t.d.begin(), t.d.end());
                           switch (t.t) { case 0x0101: p->service_name(sv); break; case 0x0102: p->ac_name(sv); break; case 0x0103: p->host_uniq(t.d); break; case 0x0104: p->ac_cookie(t.d); break; case 0x0203: p->generic_error(sv); break; default: p->end_of_list(); } }
                       return p; }
        case MPLSK: { auto* p = new MPLS(); p->label(l.v[0]); p->experimental((u8)l.v[1]); p->ttl((u8)l.v[2]); if (l.v[3]) p->bottom_of_stack(1); return p; }
        case IP4: { auto* p = new IP(ip4(l.a2), ip4(l.a1)); p->tos((u8)l.v[0]); p->id((u16)l.v[1]); p->flags((IP::Flags)l.v[2]); p->ttl((u8)l.v[3]); if (l.v[6]) p->protocol((u8)l.v[4]); p->fragment_offset((u16)l.v[5]);
                    for (auto& t : l.tl) { if (t.t <= 1) p->add_option(IP::option(IP::option_identifier((u8)t.t))); else p->add_option(IP::option(IP::option_identifier((u8)t.t), t.d.size(), t.d.data())); }
                    return p; }
        case IP6K: { auto* p = new IPv6(ip6(l.a2), ip6(l.a1)); p->traffic_class((u8)l.v[0]); p->flow_label(l.v[1]); p->hop_limit((u8)l.v[2]); if (l.v[4]) p->next_header((u8)l.v[3]);
                     for (auto& t : l.tl) { static const u8 z = 0; p->add_header(IPv6::ext_header((u8)t.t, t.d.size(), t.d.empty() ? &z : t.d.data())); }
                     return p; }
        case AHK: { auto* p = new IPSecAH(); p->spi(l.v[0]); p->seq_number(l.v[1]); p->icv(l.raw); return p; }
        case ESPK: { auto* p = new IPSecESP(); p->spi(l.v[0]); p->seq_number(l.v[1]); return p; }
        case TCPK: { auto* p = new TCP((u16)l.v[1], (u16)l.v[0]); p->seq(l.v[2]); p->ack_seq(l.v[3]); p->flags((u16)l.v[4]); p->window((u16)l.v[5]); p->urg_ptr((u16)l.v[6]);
                     for (auto& t : l.tl) { if (t.d.empty()) p->add_option(TCP::option((TCP::OptionTypes)t.t, 0)); else p->add_option(TCP::option((TCP::OptionTypes)t.t, t.d.size(), t.d.data())); }
                     return p; }
        case UDPK: return new UDP((u16)l.v[1], (u16)l.v[0]);
        case ICMP4: { auto* p = new ICMP((ICMP::Flags)l.v[0]); p->code((u8)l.v[1]); u32 t = l.v[0];
                      if (t == 5) p->gateway(ip4(l.a1)); else if (t == 12) p->pointer((u8)l.v[2]); else if (t == 3 && l.v[1] == 4) p->mtu((u16)l.v[3]); else if (t != 3 && t != 11) { p->id((u16)l.v[2]); p->sequence((u16)l.v[3]); }
                      if (t == 13 || t == 14) { p->original_timestamp(l.v[5]); p->receive_timestamp(l.v[6]); p->transmit_timestamp(l.v[7]); }
                      if (t == 17 || t == 18) p->address_mask(ip4(l.a1));
                      if (l.v[4]) p->use_length_field(true);
                      add_exts(p->extensions(), l); return p; }
        case ICMP6K: { auto* p = new ICMPv6((ICMPv6::Types)l.v[0]); p->code((u8)l.v[1]); u32 t = l.v[0];
                       if (t == 128 || t == 129) { p->identifier((u16)l.v[2]); p->sequence((u16)l.v[3]); }
                       if (t == 135 || t == 136 || t == 137) p->target_addr(ip6(l.a1));
                       if (t == 137) p->dest_addr(ip6(l.a2));
                       if (t == 134) { p->hop_limit((u8)l.v[2]); p->router_lifetime((u16)l.v[3]); p->reachable_time(l.v[5]); p->retransmit_timer(l.v[6]); }
                       if (t == 136) { p->solicited(l.v[2] & 1); p->override((l.v[2] >> 1) & 1); }
                       if (l.v[4]) p->use_length_field(true);
                       if (nd_type(t)) { for (auto& o : l.tl) p->add_option(ICMPv6::option((u8)o.t, o.d.size(), o.d.data())); } else add_exts(p->extensions(), l);
                       return p; }
        case ARPK: { auto* p = new ARP(ip4(l.a4), ip4(l.a3), mac(l.a2), mac(l.a1)); p->opcode((ARP::Flags)l.v[0]); return p; }
        case STPK: return new STP();
        case EAPOLK: { if (l.v[0] == 0) { auto* p = new RC4EAPOL(); p->key(l.raw); p->replay_counter(l.v[1]); return p; } auto* p = new RSNEAPOL(); p->key(l.raw); p->replay_counter(l.v[1]); return p; }
        case RTAP: { auto* p = new RadioTap(); if (!(l.v[0] & 0x10)) p->flags((RadioTap::FrameFlags)(l.v[0] & 0xff)); if (l.v[2]) p->dbm_signal((int8_t)l.v[3]); if (l.v[4]) p->antenna((u8)l.v[5]); return p; }
        case WLAN: { if (l.v[0] == 3) return new Dot11Ack(mac(l.a1));
                     if (l.v[0] == 2) { auto* p = new Dot11Beacon(mac(l.a1), mac(l.a2)); p->addr3(mac(l.a3)); if (!l.raw.empty()) p->ssid(std::string(l.raw.begin(), l.raw.end())); return p; }
                     Dot11Data* p = l.v[0] == 1 ? new Dot11QoSData(mac(l.a1), mac(l.a2)) : new Dot11Data(mac(l.a1), mac(l.a2));
                     p->addr3(mac(l.a3)); p->to_ds(l.v[1]); p->from_ds(l.v[2]); if (l.v[1] && l.v[2]) p->addr4(mac(l.a4)); return p; }
        case RAWK: { static const u8 z = 0; return new RawPDU(l.raw.empty() ? &z : l.raw.data(), (u32)l.raw.size()); }
        default: return nullptr;
    }
}
static std::unique_ptr<PDU> build(const Spec& s, int style) {
    std::unique_ptr<PDU> root; PDU* cur = nullptr;
    for (auto& l : s.ls) {
        PDU* p = build_layer(l);
        if (!root) { root.reset(p); cur = p; }
        else if (style == 0) { cur->inner_pdu(p); cur = p; }
        else { *root /= *p; delete p; cur = cur->inner_pdu(); }       // operator/= clones onto the innermost layer
    }
    return root;
}
static PDU* nth(PDU* root, size_t i) { PDU* p = root; while (p && i--) p = p->inner_pdu(); return p; }
static size_t chain_len(PDU* p) { size_t n = 0; while (p) { ++n; p = p->inner_pdu(); } return n; }
// ------------------------------------------------------------------ the checker
struct DF { u32 pos, len; std::string name; int scr; };   // derived field position; scr: 0 = keep, 1 = scramble freely, 2 = may only be enlarged (0xffff)
struct Ck {
    const Spec& s; const Bytes& y; std::string stage; std::vector<DF> df; u64 zero_sums = 0; bool ok = true;
    Ck(const Spec& sp, const Bytes& yy, const std::string& st) : s(sp), y(yy), stage(st) {}
    void fail(const std::string& key, const std::string& msg) { ok = false; violation(key, msg + " [" + stage + "] :: " + show(s) + " :: wire(" + std::to_string(y.size()) + ")=" + hex(y, 160)); }
    bool expect(const char* clause, Kind k, const std::string& disc, u64 got, u64 want, const char* what) {
        std::string key = std::string(clause) + "/" + KN[k]; cnt("chk:" + key);
        if (got == want) return true;
        char b[160]; snprintf(b, sizeof b, "%s: wire has 0x%llx, must be 0x%llx", what, (unsigned long long)got, (unsigned long long)want);
        fail(disc.empty() ? key : key + "/" + disc, b); return false;
    }
    bool bytes_eq(const char* clause, Kind k, const std::string& disc, size_t pos, const Bytes& want, const char* what) {
        std::string key = std::string(clause) + "/" + KN[k]; cnt("chk:" + key);
        if (pos + want.size() <= y.size() && (want.empty() || memcmp(&y[pos], want.data(), want.size()) == 0)) return true;
        fail(disc.empty() ? key : key + "/" + disc, std::string(what) + ": bytes at offset " + std::to_string(pos) + " differ from what was set (" + hex(want, 24) + ")"); return false;
    }
    bool zeros(Kind k, const char* disc, size_t a, size_t b, const char* what) {
        cnt(std::string("chk:pad/") + KN[k]);
        for (size_t i = a; i < b; ++i) if (y[i]) { fail(std::string("pad/") + KN[k] + "/" + disc, std::string(what) + ": byte " + std::to_string(i) + " of the padding [" + std::to_string(a) + "," + std::to_string(b) + ") is non-zero"); return false; }
        return true;
    }
    // RFC 1071 checksum field at f covering [a,b) plus pseudo-header sum acc
    void cksum(Kind k, const char* disc, size_t a, size_t b, size_t f, u64 acc, bool udp_rule, const char* what, int scr = 1) {
        u16 sum = fold(sum_wo_field(y, a, b, f, acc)); u16 want = (u16)~sum;
        if (sum == 0xffff) { ++zero_sums; cnt(std::string("sum-ffff/") + KN[k]); }
        if (udp_rule && want == 0) { want = 0xffff; cnt("udp-zero-to-ffff"); }
        if (sum < 0x0100 || sum > 0xfeff) cnt("sum-near-wrap");
        expect("cksum", k, disc, be16(y, f), want, what);
        df.push_back({(u32)f, 2, std::string(KN[k]) + "-checksum" + (disc[0] ? std::string("-") + disc : ""), scr});
    }
    u64 pseudo(size_t i, u32 len, u32 proto, bool& have) {   // pseudo-header of the layer directly above i, when that is IPv4/IPv6
        have = false; if (i == 0) return 0; const L& p = s.ls[i - 1];
        if (p.k == IP4) { have = true; return ocsum(&y[p.off + 12], 8, (u64)proto + len); }
        if (p.k == IP6K) { have = true; return ocsum(&y[p.off + 8], 32, (u64)proto + (len >> 16) + (len & 0xffff)); }
        return 0;
    }
    // options of IPv4/TCP: exact bytes + zero padding up to the header end
    void opts_v4_tcp(const L& l, size_t at) {
        Bytes w; for (auto& t : l.tl) { w.push_back((u8)t.t); if (t.t > 1) { w.push_back((u8)(2 + t.d.size())); w.insert(w.end(), t.d.begin(), t.d.end()); } }
        bytes_eq("hdrlen", l.k, "options", at, w, "option list (type, derived length byte, data)");
        zeros(l.k, "options", at + w.size(), l.off + l.hlen, "option padding");
    }
    void rfc4884(size_t i, bool v6) {
        const L& l = s.ls[i]; size_t n = s.ls.size(); u32 unit = v6 ? 8 : 4; u32 body = l.off + l.hlen; u32 inner = i + 1 < n ? s.ls[i + 1].end - s.ls[i + 1].off : 0;
        u32 lf = v6 ? y[l.off + 4] : y[l.off + 5];
        if (has_ext(l) && i + 1 >= n) {      // no datagram quoted: nothing a receiver could skip, so the length attribute has nothing to announce (no RFC 4884 parser finds such an extension)
            u32 es = l.end - ext_struct_size(l);
            expect("length", l.k, "rfc4884-ext-without-datagram", lf, 0, "RFC 4884 length field announces an original datagram although none is quoted");
            expect("length", l.k, "rfc4884-ext-without-datagram", es, body, "extension structure must follow the header directly when no datagram is quoted");
            cksum(l.k, "ext", es, l.end, es + 2, 0, false, "ICMP extension structure checksum", 0);
            cnt("rfc4884-ext-without-datagram");
        }
        else if (has_ext(l)) {
            u32 es = l.end - ext_struct_size(l);
            if (lf) expect("length", l.k, "rfc4884", (u64)body + lf * unit, es, "RFC 4884 length field must span the padded original datagram up to the extension structure");
            else expect("length", l.k, "rfc4884-compat", es, body + 128, "with a zero RFC 4884 length the extension structure must start at offset 128 of the payload");
            if (l.v[4] && inner) expect("length", l.k, "rfc4884-requested", lf != 0, 1, "length field requested (use_length_field) but zero on the wire");
            zeros(l.k, "rfc4884", body + inner, es, "padding of the original datagram");
            cksum(l.k, "ext", es, l.end, es + 2, 0, false, "ICMP extension structure checksum", 0);
            u32 o = es + 4;
            for (auto& t : l.tl) { expect("length", l.k, "ext-object", be16(y, o), 4 + t.d.size(), "ICMP extension object length"); expect("field", l.k, "ext-object", be16(y, o + 2), t.t, "extension object class/type"); bytes_eq("field", l.k, "ext-object", o + 4, t.d, "extension object payload"); o += 4 + (u32)t.d.size(); }
            df.push_back({v6 ? l.off + 4 : l.off + 5, 1, std::string(KN[l.k]) + "-rfc4884-length", 0});
        }
        else if (lf) {
            std::string disc = "rfc4884-no-ext"; if (inner % unit) disc += "-unpadded"; else if (v6 && inner < 128) disc += "-below128";
            expect("length", l.k, disc, (u64)body + lf * unit, l.end, "RFC 4884 length field must equal the number of bytes of the original datagram field that follow");
            zeros(l.k, "rfc4884-no-ext", body + inner, l.end, "padding of the original datagram");
            df.push_back({v6 ? l.off + 4 : l.off + 5, 1, std::string(KN[l.k]) + "-rfc4884-length", 0});
            if (inner % unit) cnt("rfc4884-no-ext-padded");
        }
        else if (l.v[4] && inner) expect("length", l.k, "rfc4884-requested", 0, 1, "length field requested (use_length_field) but zero on the wire");
    }
    void check_rtap(size_t i);
    void layer(size_t i);
    bool run(u32 want_size) {
        cnt("serializations_checked");
        if (y.size() != want_size) { Kind k = s.ls[0].k; cnt(std::string("chk:size/") + KN[k]);
            fail(std::string("size/") + KN[k] + (s.kf.empty() ? "" : "/kf:" + s.kf), "serialized size " + std::to_string(y.size()) + " but the layer sizes by the RFCs add up to " + std::to_string(want_size)); return false; }
        cnt(std::string("chk:size/") + KN[s.ls[0].k]);
        for (size_t i = 0; i < s.ls.size(); ++i) layer(i);
        return ok;
    }
};

void Ck::check_rtap(size_t i) {
    const L& l = s.ls[i];
    // radiotap.org field table: size, alignment for bits 0..21
    static const u8 SZ[] = {8, 1, 1, 4, 2, 1, 1, 2, 2, 2, 1, 1, 1, 1, 2, 2, 1, 1, 8, 3, 8, 12}, AL[] = {8, 1, 1, 2, 2, 1, 1, 2, 2, 2, 1, 1, 1, 1, 2, 2, 1, 1, 4, 1, 4, 2};
    if (y.size() < 8) { fail("size/radiotap/short", "radiotap header shorter than 8 bytes"); return; }
    u32 itlen = le16(y, l.off + 2); u32 pos = 4; u32 present = 0; std::vector<u32> words;
    do { if (pos + 4 > y.size()) { fail("hdrlen/radiotap/present", "present bitmap runs past the packet"); return; } present = le32(y, l.off + pos); words.push_back(present); pos += 4; } while (present & 0x80000000u);
    u32 flags = 0; bool known = true;
    for (int b = 0; b < 22 && words.size() == 1; ++b) if (words[0] & (1u << b)) { pos = pad_to(pos, AL[b]); if (b == 1 && pos < y.size()) flags = y[l.off + pos]; pos += SZ[b]; }
    if (words.size() != 1 || (words[0] & 0x7fc00000u)) known = false;
    if (known) expect("hdrlen", RTAP, "", itlen, pos, "radiotap it_len must equal the header size implied by the present bitmap");
    expect("hdrlen", RTAP, "model", itlen, l.hlen, "radiotap it_len vs the start of the 802.11 frame");
    expect("field", RTAP, "flags", flags & 0x10, l.v[0] & 0x10, "radiotap FCS flag");
    df.push_back({l.off + 2, 2, "radiotap-length", 0});
    if ((l.v[0] & 0x10) && i + 1 < s.ls.size()) {
        u32 a = l.off + l.hlen, b = l.end - 4;
        expect("cksum", RTAP, "fcs", le32(y, b), crc32_ieee(&y[a], b - a), "frame check sequence must be the IEEE CRC-32 of the 802.11 frame");
        df.push_back({b, 4, "radiotap-fcs", 0});
    }
}

void Ck::layer(size_t i) {
    const L& l = s.ls[i]; size_t n = s.ls.size(); bool last = i + 1 == n; u32 o = l.off; const L* nx = last ? nullptr : &s.ls[i + 1];
    u32 inner = nx ? nx->end - nx->off : 0; std::string pk = nx ? std::string(KN[nx->k]) : "none";
    switch (l.k) {
        case ETH: {
            bytes_eq("field", ETH, "dst", o, l.a1, "destination address"); bytes_eq("field", ETH, "src", o + 6, l.a2, "source address");
            int t = ethertype_of(s, i + 1, ETH); if (t >= 0) expect("tag", ETH, pk, be16(y, o + 12), t, "EtherType must name the following layer");
            else if (nx && l.v[1]) expect("field", ETH, "type", be16(y, o + 12), l.v[0], "user-set EtherType before a payload without a registered type");
            df.push_back({o + 12, 2, "eth-type", 0});
            expect("pad", ETH, "min60", y.size() >= 60 || o != 0, 1, "Ethernet frame shorter than 60 bytes");
            expect("pad", ETH, "exact", l.end - o, std::max<u32>(60, 14 + inner), "frame must be padded to exactly the 60-byte minimum");
            if (zeros(ETH, "trailer", o + 14 + inner, l.end, "Ethernet minimum-size padding") && l.trl) cnt("eth-padded-frames");
            if (l.trl) df.push_back({o + 14 + inner, l.trl, "eth-padding", 3});
            break; }
        case VLAN: {
            expect("field", VLAN, "tci", be16(y, o), (l.v[1] << 13) | (l.v[2] << 12) | l.v[0], "802.1Q TCI");
            int t = ethertype_of(s, i + 1, VLAN);
            if (t >= 0) expect("tag", VLAN, (nx->k == PPPOEK && nx->v[0] == 0) ? "pppoe-session" : pk, be16(y, o + 2), t, "802.1Q EtherType must name the following layer");
            zeros(VLAN, "trailer", o + 4 + inner, l.end, "802.1Q padding");
            break; }
        case DOT3: {
            bytes_eq("field", DOT3, "dst", o, l.a1, "destination address"); bytes_eq("field", DOT3, "src", o + 6, l.a2, "source address");
            expect("length", DOT3, "", be16(y, o + 12), l.end - o - 14, "802.3 length must equal the LLC bytes that follow"); df.push_back({o + 12, 2, "dot3-length", 1});
            break; }
        case LLCK: {
            if (nx && nx->k == STPK) { expect("tag", LLCK, "stp", y[o], 0x42, "DSAP for spanning tree"); expect("tag", LLCK, "stp", y[o + 1], 0x42, "SSAP for spanning tree"); }
            else { expect("field", LLCK, "dsap", y[o], l.v[0], "DSAP"); expect("field", LLCK, "ssap", y[o + 1], l.v[1], "SSAP"); }
            expect("hdrlen", LLCK, "", 2u + ((y[o + 2] & 3) == 3 ? 1 : 2), l.hlen, "LLC control field width implied by the format bits vs the actual header size");
            break; }
        case SNAPK: {
            expect("tag", SNAPK, "llc", (y[o] << 16) | (y[o + 1] << 8) | y[o + 2], 0xaaaa03, "SNAP DSAP/SSAP/control"); expect("field", SNAPK, "oui", (y[o + 3] << 16) | (y[o + 4] << 8) | y[o + 5], l.v[0], "OUI");
            int t = ethertype_of(s, i + 1, SNAPK); if (t >= 0) expect("tag", SNAPK, (nx->k == PPPOEK && nx->v[0] == 0) ? "pppoe-session" : pk, be16(y, o + 6), t, "SNAP protocol id must name the following layer");
            break; }
        case SLLK: {
            expect("field", SLLK, "pkttype", be16(y, o), l.v[0], "packet type"); expect("field", SLLK, "halen", be16(y, o + 4), l.v[2], "address length"); bytes_eq("field", SLLK, "addr", o + 6, l.a1, "address");
            int t = ethertype_of(s, i + 1, SLLK); if (t >= 0) expect("tag", SLLK, (nx->k == PPPOEK && nx->v[0] == 0) ? "pppoe-session" : pk, be16(y, o + 14), t, "SLL protocol must name the following layer");
            break; }
        case LOOPK: {
            int fam = !nx ? -1 : nx->k == IP4 ? 2 : nx->k == IP6K ? 10 : nx->k == LLCK ? 26 : -1;   // Linux AF_INET / AF_INET6 / AF_LLC, host byte order (DLT_NULL)
            if (fam >= 0) expect("tag", LOOPK, pk, le32(y, o), fam, "loopback family must name the following layer"); else expect("field", LOOPK, "family", le32(y, o), l.v[0], "user-set family");
            break; }
        case PPPOEK: {
            expect("field", PPPOEK, "vt", y[o], 0x11, "version/type"); expect("field", PPPOEK, "code", y[o + 1], l.v[0], "code"); expect("field", PPPOEK, "sid", be16(y, o + 2), l.v[1], "session id");
            expect("length", PPPOEK, (l.v[0] == 0 && l.tl.empty()) ? "session-no-tags" : l.tl.empty() ? "no-tags" : "", be16(y, o + 4), l.end - o - 6, "PPPoE payload_length must equal the bytes that follow the 6-byte header");
            df.push_back({o + 4, 2, "pppoe-length", 2});
            u32 p = o + 6; for (auto& t : l.tl) { expect("field", PPPOEK, "tag-type", be16(y, p), t.t, "tag type"); expect("length", PPPOEK, "tag", be16(y, p + 2), t.d.size(), "tag length"); bytes_eq("field", PPPOEK, "tag", p + 4, t.d, "tag value"); p += 4 + (u32)t.d.size(); }
            break; }
        case MPLSK: {
            expect("field", MPLSK, "label", (be32(y, o) >> 12), l.v[0], "label"); expect("field", MPLSK, "exp", (y[o + 2] >> 1) & 7, l.v[1], "traffic class"); expect("field", MPLSK, "ttl", y[o + 3], l.v[2], "ttl");
            if (i > 0) { bool mp = nx && nx->k == MPLSK; expect("tag", MPLSK, mp ? (l.v[3] ? "stale-s-bit" : "s-bit") : "s-bit", y[o + 2] & 1, mp ? 0 : 1, "bottom-of-stack bit must tell whether another label follows"); }
            break; }
        case IP4: {
            expect("hdrlen", IP4, "", y[o], 0x40 | (l.hlen / 4), "version/IHL byte"); expect("length", IP4, "", be16(y, o + 2), l.end - o, "IPv4 total length must equal header plus payload bytes");
            df.push_back({o + 2, 2, "ip-totlen", 2});
            expect("field", IP4, "tos", y[o + 1], l.v[0], "TOS"); expect("field", IP4, "id", be16(y, o + 4), l.v[1], "id"); expect("field", IP4, "frag", be16(y, o + 6), (l.v[2] << 13) | l.v[5], "flags/fragment offset"); expect("field", IP4, "ttl", y[o + 8], l.v[3], "TTL");
            bytes_eq("field", IP4, "src", o + 12, l.a1, "source address"); bytes_eq("field", IP4, "dst", o + 16, l.a2, "destination address");
            int t = ipproto_of(s, i + 1); if (t >= 0) expect("tag", IP4, pk, y[o + 9], t, "IPv4 protocol must name the following layer"); else if (nx && l.v[6]) expect("field", IP4, "proto", y[o + 9], l.v[4], "user-set protocol before an unregistered payload");
            opts_v4_tcp(l, o + 20);
            cksum(IP4, "", o, o + l.hlen, o + 10, 0, false, "IPv4 header checksum");
            break; }
        case IP6K: {
            expect("field", IP6K, "vtf", be32(y, o), (6u << 28) | (l.v[0] << 20) | l.v[1], "version/traffic class/flow label"); expect("length", IP6K, "", be16(y, o + 4), l.end - o - 40, "IPv6 payload length must equal the bytes after the fixed header");
            df.push_back({o + 4, 2, "ip6-plen", 0});
            expect("field", IP6K, "hlim", y[o + 7], l.v[2], "hop limit"); bytes_eq("field", IP6K, "src", o + 8, l.a1, "source address"); bytes_eq("field", IP6K, "dst", o + 24, l.a2, "destination address");
            int fin = ipproto_of(s, i + 1); u32 p = o + 40; u32 nhpos = o + 6;
            for (size_t j = 0; j < l.tl.size(); ++j) {
                const TLV& t = l.tl[j]; u32 tot = pad_to(2 + (u32)t.d.size(), 8);
                expect("tag", IP6K, "ext-chain", y[nhpos], t.t, "next-header must name the extension header that follows");
                expect("hdrlen", IP6K, t.d.size() % 8 == 7 ? "ext-data7mod8" : "ext", y[p + 1], tot / 8 - 1, "extension header length byte must be (size in 8-byte units) - 1");
                bytes_eq("field", IP6K, "ext-data", p + 2, t.d, "extension header data"); zeros(IP6K, "ext", p + 2 + t.d.size(), p + tot, "extension header padding");
                nhpos = p; p += tot;
            }
            if (fin >= 0) expect("tag", IP6K, pk, y[nhpos], fin, "last next-header must name the upper layer"); else if (nx && l.v[4]) expect("field", IP6K, "nh", y[nhpos], l.v[3], "user-set next header before an unregistered payload");
            break; }
        case AHK: {
            int t = ipproto_of(s, i + 1); if (t >= 0) expect("tag", AHK, pk, y[o], t, "AH next header must name the following layer");
            expect("hdrlen", AHK, "", y[o + 1], l.hlen / 4 - 2, "AH payload length must be (header words) - 2"); expect("field", AHK, "spi", be32(y, o + 4), l.v[0], "SPI"); expect("field", AHK, "seq", be32(y, o + 8), l.v[1], "sequence"); bytes_eq("field", AHK, "icv", o + 12, l.raw, "ICV");
            break; }
        case ESPK: expect("field", ESPK, "spi", be32(y, o), l.v[0], "SPI"); expect("field", ESPK, "seq", be32(y, o + 4), l.v[1], "sequence"); break;
        case TCPK: {
            expect("field", TCPK, "sport", be16(y, o), l.v[0], "source port"); expect("field", TCPK, "dport", be16(y, o + 2), l.v[1], "destination port"); expect("field", TCPK, "seq", be32(y, o + 4), l.v[2], "sequence"); expect("field", TCPK, "ack", be32(y, o + 8), l.v[3], "ack");
            expect("hdrlen", TCPK, "", y[o + 12] >> 4, l.hlen / 4, "TCP data offset must point at the end of the options"); expect("field", TCPK, "flags", be16(y, o + 12) & 0xfff, l.v[4], "flags"); expect("field", TCPK, "win", be16(y, o + 14), l.v[5], "window");
            opts_v4_tcp(l, o + 20);
            bool have; u64 ps = pseudo(i, l.end - o, 6, have); if (have) cksum(TCPK, s.ls[i - 1].k == IP4 ? "v4" : "v6", o, l.end, o + 16, ps, false, "TCP checksum with pseudo-header");
            break; }
        case UDPK: {
            expect("field", UDPK, "sport", be16(y, o), l.v[0], "source port"); expect("field", UDPK, "dport", be16(y, o + 2), l.v[1], "destination port");
            expect("length", UDPK, "", be16(y, o + 4), l.end - o, "UDP length must equal header plus payload bytes"); df.push_back({o + 4, 2, "udp-length", 1});
            bool have; u64 ps = pseudo(i, l.end - o, 17, have); if (have) cksum(UDPK, s.ls[i - 1].k == IP4 ? "v4" : "v6", o, l.end, o + 6, ps, true, "UDP checksum with pseudo-header");
            break; }
        case ICMP4: {
            u32 t = l.v[0]; expect("field", ICMP4, "type", y[o], t, "type"); expect("field", ICMP4, "code", y[o + 1], l.v[1], "code");
            if (t == 5) bytes_eq("field", ICMP4, "gw", o + 4, l.a1, "gateway"); else if (t == 12) expect("field", ICMP4, "ptr", y[o + 4], l.v[2], "pointer"); else if (t == 3 && l.v[1] == 4) expect("field", ICMP4, "mtu", be16(y, o + 6), l.v[3], "next-hop MTU");
            else if (t != 3 && t != 11) { expect("field", ICMP4, "id", be16(y, o + 4), l.v[2], "id"); expect("field", ICMP4, "seq", be16(y, o + 6), l.v[3], "sequence"); }
            if (t == 17 || t == 18) bytes_eq("field", ICMP4, "mask", o + 8, l.a1, "address mask");
            if (icmp4_ext_ok(t)) rfc4884(i, false);
            cksum(ICMP4, "", o, l.end, o + 2, 0, false, "ICMP checksum");
            break; }
        case ICMP6K: {
            u32 t = l.v[0]; expect("field", ICMP6K, "type", y[o], t, "type"); expect("field", ICMP6K, "code", y[o + 1], l.v[1], "code");
            if (t == 128 || t == 129) { expect("field", ICMP6K, "id", be16(y, o + 4), l.v[2], "identifier"); expect("field", ICMP6K, "seq", be16(y, o + 6), l.v[3], "sequence"); }
            if (t == 135 || t == 136 || t == 137) bytes_eq("field", ICMP6K, "target", o + 8, l.a1, "target address");
            if (t == 137) bytes_eq("field", ICMP6K, "dest", o + 24, l.a2, "destination address");
            if (nd_type(t)) { u32 p = o + l.hlen; for (auto& x : l.tl) p -= 2 + (u32)x.d.size();
                for (auto& x : l.tl) { expect("field", ICMP6K, "nd-opt-type", y[p], x.t, "ND option type"); expect("length", ICMP6K, "nd-option", y[p + 1] * 8u, 2 + x.d.size(), "ND option length (8-byte units) must equal the option size"); bytes_eq("field", ICMP6K, "nd-opt", p + 2, x.d, "ND option data"); p += 2 + (u32)x.d.size(); } }
            if (t == 3 || t == 1) rfc4884(i, true);
            bool have; u64 ps = pseudo(i, l.end - o, 58, have); if (have && s.ls[i - 1].k == IP6K) cksum(ICMP6K, "", o, l.end, o + 2, ps, false, "ICMPv6 checksum with pseudo-header");
            break; }
        case ARPK: expect("field", ARPK, "fixed", be32(y, o), 0x00010800, "hardware/protocol type"); expect("field", ARPK, "op", be16(y, o + 6), l.v[0], "opcode"); bytes_eq("field", ARPK, "sha", o + 8, l.a1, "sender hw"); bytes_eq("field", ARPK, "spa", o + 14, l.a3, "sender ip"); bytes_eq("field", ARPK, "tpa", o + 24, l.a4, "target ip"); break;
        case STPK: break;
        case EAPOLK: {
            expect("length", EAPOLK, "", be16(y, o + 2), l.end - o - 4, "EAPOL body length must equal the bytes after the 4-byte header"); df.push_back({o + 2, 2, "eapol-length", 2});
            if (!l.raw.empty()) { if (l.v[0] == 0) expect("length", EAPOLK, "rc4-key", be16(y, o + 5), l.raw.size(), "RC4 key length must equal the key bytes"); else expect("length", EAPOLK, "rsn-keydata", be16(y, o + 97), l.raw.size(), "RSN key data length must equal the key data bytes"); }
            bytes_eq("field", EAPOLK, "key", o + l.hlen - l.raw.size(), l.raw, "key bytes");
            break; }
        case RTAP: check_rtap(i); break;
        case WLAN: {
            u32 fc0 = l.v[0] == 3 ? 0xd4 : l.v[0] == 2 ? 0x80 : l.v[0] == 1 ? 0x88 : 0x08;
            expect("field", WLAN, "fc", y[o], fc0, "frame control type/subtype"); bytes_eq("field", WLAN, "addr1", o + 4, l.a1, "addr1");
            if (l.v[0] != 3) { expect("field", WLAN, "ds", y[o + 1] & 3, l.v[1] | (l.v[2] << 1), "to/from DS"); bytes_eq("field", WLAN, "addr2", o + 10, l.a2, "addr2"); bytes_eq("field", WLAN, "addr3", o + 16, l.a3, "addr3"); }
            break; }
        case RAWK: bytes_eq("payload", RAWK, "", o, l.raw, "payload bytes must start where the header-length fields say"); break;
        default: break;
    }
}
// ------------------------------------------------------------------ libpcap as a free-running dissector
struct PcapEng {
    std::map<int, pcap_t*> dead; std::map<std::string, bpf_program> cache;
    ~PcapEng() { for (auto& kv : cache) pcap_freecode(&kv.second); for (auto& kv : dead) pcap_close(kv.second); }
    int eval(int dlt, const std::string& e, const Bytes& y) {
        pcap_t*& p = dead[dlt]; if (!p) p = pcap_open_dead(dlt, 262144);
        std::string key = std::to_string(dlt) + "|" + e; auto it = cache.find(key);
        if (it == cache.end()) {
            if (cache.size() > 6000) { for (auto& kv : cache) pcap_freecode(&kv.second); cache.clear(); }
            bpf_program bp; if (pcap_compile(p, &bp, e.c_str(), 1, PCAP_NETMASK_UNKNOWN) != 0) { cnt("bpf_compile_failed"); violation("harness/pcap-compile", "pcap_compile rejected '" + e + "' for dlt " + std::to_string(dlt) + ": " + pcap_geterr(p)); return -1; }
            cnt("bpf_programs_compiled"); it = cache.emplace(key, bp).first;
        }
        pcap_pkthdr h; memset(&h, 0, sizeof h); h.caplen = h.len = (bpf_u_int32)y.size();
        return pcap_offline_filter(&it->second, &h, y.data()) != 0;
    }
};
static PcapEng& pe() { static PcapEng e; return e; }
struct Pred { std::string key, e; bool want; };
static std::string s_mac(const Bytes& b) { char t[32]; snprintf(t, sizeof t, "%02x:%02x:%02x:%02x:%02x:%02x", b[0], b[1], b[2], b[3], b[4], b[5]); return t; }
static std::string s_ip4(const Bytes& b) { char t[32]; snprintf(t, sizeof t, "%u.%u.%u.%u", b[0], b[1], b[2], b[3]); return t; }
static std::string s_ip6(const Bytes& b) { std::string r; char t[8]; for (int i = 0; i < 8; ++i) { snprintf(t, sizeof t, "%x", (b[2 * i] << 8) | b[2 * i + 1]); if (i) r += ":"; r += t; } return r; }
static Bytes flip(Bytes b) { b.back() ^= 1; return b; }
static std::string N(u64 v) { return std::to_string(v); }

struct PredGen {
    const Spec& s; const Bytes& y; std::vector<Pred> out; std::string pre;
    PredGen(const Spec& sp, const Bytes& yy) : s(sp), y(yy) {}
    void tf(const std::string& key, const std::string& t, const std::string& f) { out.push_back({key, pre + t, true}); if (!f.empty()) out.push_back({key + "!", pre + f, false}); }
    void num(const std::string& key, const std::string& lhs, u64 v) { tf(key, lhs + " = " + N(v), lhs + " = " + N(v ^ 1)); }
    void l4(size_t i, bool v6, u32 base /* offset of L4 inside the ip6 packet when v6 */) {
        if (i >= s.ls.size()) return; const L& l = s.ls[i]; const char* ipx = v6 ? "ip6" : "ip";
        auto raw = [&](const std::string& key, const char* proto, u32 off, u32 sz, u64 v) { if (v6) num(key, std::string("ip6[") + N(base + off) + ":" + N(sz) + "]", v); else num(key, std::string(proto) + "[" + N(off) + ":" + N(sz) + "]", v); };
        if (l.k == TCPK) { tf("tcp-sport", std::string(ipx) + " and tcp src port " + N(l.v[0]), std::string(ipx) + " and tcp src port " + N(l.v[0] ^ 1)); tf("tcp-dport", "tcp dst port " + N(l.v[1]), "tcp dst port " + N(l.v[1] ^ 1));
            raw("tcp-flags", "tcp", 13, 1, l.v[4] & 0xff); raw("tcp-doff", "tcp", 12, 1, ((l.hlen / 4) << 4) | ((l.v[4] >> 8) & 0xf)); raw("tcp-seq", "tcp", 4, 4, l.v[2]); raw("tcp-cksum", "tcp", 16, 2, be16(y, l.off + 16));
            if (i + 1 < s.ls.size() && s.ls[i + 1].k == RAWK && !s.ls[i + 1].raw.empty() && !v6) num("tcp-payload0", "tcp[" + N(l.hlen) + "]", s.ls[i + 1].raw[0]); }
        else if (l.k == UDPK) { tf("udp-sport", "udp src port " + N(l.v[0]), "udp src port " + N(l.v[0] ^ 1)); tf("udp-dport", std::string(ipx) + " and udp dst port " + N(l.v[1]), std::string(ipx) + " and udp dst port " + N(l.v[1] ^ 1));
            raw("udp-len", "udp", 4, 2, l.end - l.off); raw("udp-cksum", "udp", 6, 2, be16(y, l.off + 6)); }
        else if (l.k == ICMP4 && !v6) { num("icmp-type", "icmp[icmptype]", l.v[0]); num("icmp-code", "icmp[icmpcode]", l.v[1]); num("icmp-cksum", "icmp[2:2]", be16(y, l.off + 2)); if (l.v[0] == 8 || l.v[0] == 0) num("icmp-id", "icmp[4:2]", l.v[2]); }
        else if (l.k == ICMP6K && v6) { tf("icmp6", "icmp6", "icmp"); raw("icmp6-type", "", 0, 1, l.v[0]); raw("icmp6-cksum", "", 2, 2, be16(y, l.off + 2)); }
    }
    void l3(size_t i) {
        if (i >= s.ls.size()) return; const L& l = s.ls[i]; bool last = i + 1 >= s.ls.size();
        if (l.k == IP4) {
            tf("ip", "ip", "ip6"); tf("ip-src", "ip src " + s_ip4(l.a1), "ip src " + s_ip4(flip(l.a1))); tf("ip-dst", "ip dst " + s_ip4(l.a2), "ip dst " + s_ip4(flip(l.a2)));
            num("ip-ttl", "ip[8]", l.v[3]); num("ip-ihl", "ip[0]", 0x40 | (l.hlen / 4)); num("ip-totlen", "ip[2:2]", l.end - l.off); num("ip-cksum", "ip[10:2]", be16(y, l.off + 10));
            int p = ipproto_of(s, i + 1); if (p >= 0) tf("ip-proto", "ip proto " + N(p), "ip proto " + N(p == 6 ? 17 : 6));
            if (last) return; const L& c = s.ls[i + 1];
            if (l.v[5] == 0 && (c.k == TCPK || c.k == UDPK || c.k == ICMP4)) l4(i + 1, false, 0);
            else if (c.k == IP4) { tf("ipip-inner-src", "ip[" + N(l.hlen + 12) + ":4] = 0x" + hex(c.a1), "ip[" + N(l.hlen + 12) + ":4] = 0x" + hex(flip(c.a1))); num("ipip-inner-len", "ip[" + N(l.hlen + 2) + ":2]", c.end - c.off); }
            else if (c.k == AHK) { int q = ipproto_of(s, i + 2); if (q >= 0 && q != 51 && s.dlt != DLT_IEEE802_11_RADIO && y[c.off] != 51) tf("ip-protochain", "ip protochain " + N(q), "ip protochain 132"); num("ah-len", "ip[" + N(l.hlen + 1) + "]", c.hlen / 4 - 2); }
        }
        else if (l.k == IP6K) {
            tf("ip6", "ip6", "ip"); tf("ip6-src", "ip6 src " + s_ip6(l.a1), "ip6 src " + s_ip6(flip(l.a1))); tf("ip6-dst", "ip6 dst " + s_ip6(l.a2), "ip6 dst " + s_ip6(flip(l.a2)));
            num("ip6-hlim", "ip6[7]", l.v[2]); num("ip6-plen", "ip6[4:2]", l.end - l.off - 40);
            int p = ipproto_of(s, i + 1); if (last) return;
            if (l.tl.empty()) { if (p >= 0) { tf("ip6-proto", "ip6 proto " + N(p), "ip6 proto " + N(p == 6 ? 17 : 6)); l4(i + 1, true, 40); } }
            else { num("ip6-nh0", "ip6[6]", l.tl[0].t); if (p >= 0 && s.kf.empty()) { if (s.dlt != DLT_IEEE802_11_RADIO) tf("ip6-protochain", "ip6 protochain " + N(p), p == 51 ? "" : "ip6 protochain 132");   /* libpcap 1.10 mis-steps behind an AH (X = AH length, not += ) and can loop forever: stop at the AH */ /* libpcap: no protochain behind variable-length link headers */ if (l.hlen < 200) l4r(i + 1, l.hlen); } }
        }
    }
    void l4r(size_t i, u32 base) {   // raw offsets only (behind extension headers)
        const L& l = s.ls[i];
        if (l.k == TCPK || l.k == UDPK) { num("ip6x-sport", "ip6[" + N(base) + ":2]", l.v[0]); num("ip6x-dport", "ip6[" + N(base + 2) + ":2]", l.v[1]); }
        if (l.k == UDPK) num("ip6x-udplen", "ip6[" + N(base + 4) + ":2]", l.end - l.off);
        if (l.k == ICMP6K) num("ip6x-icmp6type", "ip6[" + N(base) + "]", l.v[0]);
    }
    void run() {
        const std::vector<L>& ls = s.ls; size_t i = 0; const L& r = ls[0];
        if (r.k == ETH) {
            tf("eth-dst", "ether dst " + s_mac(r.a1), "ether dst " + s_mac(flip(r.a1))); tf("eth-src", "ether src " + s_mac(r.a2), "ether src " + s_mac(flip(r.a2)));
            for (i = 1; i < ls.size() && ls[i].k == VLAN; ++i) { tf("vlan-id", "vlan " + N(ls[i].v[0]), "vlan " + N(ls[i].v[0] ^ 1)); pre += "vlan " + N(ls[i].v[0]) + " and "; }
            if (i >= ls.size()) return; const L& c = ls[i]; bool tagged = i > 1;
            if (c.k == MPLSK) { bool stale = false; for (; i < ls.size() && ls[i].k == MPLSK; ++i) { if (ls[i].v[3] && i + 1 < ls.size() && ls[i + 1].k == MPLSK) stale = true; if (stale) return; tf("mpls-label", "mpls " + N(ls[i].v[0]), "mpls " + N(ls[i].v[0] ^ 1)); pre += "mpls " + N(ls[i].v[0]) + " and "; } l3(i); }
            else if (c.k == PPPOEK) { if (c.v[0] == 0) { if (tagged) return; tf("pppoes", "pppoes " + N(c.v[1]), "pppoes " + N(c.v[1] ^ 1)); tf("pppoed", "", "pppoed"); out.pop_back(); out.push_back({"pppoed!", pre + "pppoed", false}); }
                                      else { tf("pppoed", "pppoed", "pppoes"); } num("pppoe-len", std::string("ether[") + N(c.off + 4) + ":2]", c.end - c.off - 6); }
            else if (c.k == EAPOLK) { tf("eapol", "ether proto 0x888e", "ether proto 0x888f"); if (!tagged) num("eapol-len", "ether[16:2]", c.end - c.off - 4); }
            else if (c.k == ARPK) tf("arp", "arp", "rarp");
            else if (c.k == RAWK) { const L& par = ls[i - 1]; u32 set = par.k == ETH ? par.v[1] : par.v[5], ty = par.k == ETH ? par.v[0] : par.v[4]; if (set && ty >= 0x600) tf("eth-usertype", "ether proto " + N(ty), "ether proto " + N(ty ^ 1)); }
            else l3(i);
        }
        else if (r.k == DOT3) {
            tf("eth-dst", "ether dst " + s_mac(r.a1), "ether dst " + s_mac(flip(r.a1))); num("dot3-len", "ether[12:2]", r.end - 14);
            if (ls.size() > 1 && ls[1].k == LLCK && r.end - 14 <= 1500) { bool stp = ls.size() > 2 && ls[2].k == STPK; out.push_back({stp ? "stp" : "stp!", "stp", stp}); tf("llc", "llc", ""); }
            if (ls.size() > 2 && ls[1].k == SNAPK) { int t = ethertype_of(s, 2, SNAPK); if (t >= 0 && !(ls[2].k == PPPOEK && ls[2].v[0] == 0)) num("snap-type", "ether[20:2]", t); }
        }
        else if (r.k == SLLK) { if (ls.size() > 1) { if (ls[1].k == ARPK) tf("arp", "arp", "rarp"); else l3(1); } }
        else if (r.k == LOOPK) { if (ls.size() > 1) l3(1); }
        else if (r.k == IP4 || r.k == IP6K) l3(0);
        else if (r.k == RTAP && ls.size() > 1) {
            const L& w = ls[1]; tf("wlan-addr1", "wlan addr1 " + s_mac(w.a1), "wlan addr1 " + s_mac(flip(w.a1)));
            if (w.v[0] <= 1) { tf("wlan-type", "type data", "type mgt"); if (!(w.v[1] && w.v[2])) tf("wlan-addr2", "wlan addr2 " + s_mac(w.a2), "wlan addr2 " + s_mac(flip(w.a2))); }
            else if (w.v[0] == 2) tf("wlan-type", "type mgt subtype beacon", "type data"); else tf("wlan-type", "type ctl subtype ack", "type data");
            if (w.v[0] <= 1 && !(w.v[1] && w.v[2]) && ls.size() > 3 && ls[2].k == SNAPK && ls[2].v[0] == 0) l3(3);
        }
    }
};
// evaluates (a random subset of) the predicates; every disagreement is a violation
static void pcap_check(const Spec& s, const Bytes& y, Rng& rng, const std::string& stage, size_t budget) {
    PredGen g(s, y); g.run(); std::vector<Pred>& v = g.out;
    for (size_t i = 0; i < v.size(); ++i) {
        if (v.size() > budget && rng.below((u32)v.size()) >= budget) continue;
        int r = pe().eval(s.dlt, v[i].e, y); if (r < 0) continue;
        cnt("pcap_predicates"); cnt(v[i].want ? "pcap_true_expected" : "pcap_false_expected");
        std::string base = v[i].key; if (!base.empty() && base.back() == '!') base.pop_back(); cnt("pcap:" + base);
        if ((r != 0) != v[i].want)
            violation("pcap/" + v[i].key + (s.kf.empty() ? "" : "/kf:" + s.kf), std::string("libpcap filter '") + v[i].e + "' " + (r ? "matches" : "does not match") + " but the value set says it " + (v[i].want ? "must" : "must not") + " [" + stage + "] :: " + show(s) + " :: wire(" + N(y.size()) + ")=" + hex(y, 160));
    }
}
// ------------------------------------------------------------------ generators
static Bytes B(std::initializer_list<int> l) { Bytes b; for (int x : l) b.push_back((u8)x); return b; }
static Bytes g_mac(Rng& r) { static const std::vector<Bytes> P = {B({0, 0x1b, 0x21, 0x3c, 0x9d, 0xf8}), B({0xff, 0xff, 0xff, 0xff, 0xff, 0xff}), B({1, 0, 0x5e, 0, 0, 0xfb}), B({0x33, 0x33, 0, 0, 0, 1}), B({2, 0x42, 0xac, 0x11, 0, 2}), B({0xde, 0xad, 0xbe, 0xef, 0, 1})}; return r.chance(3, 4) ? r.pick(P) : r.bytes(6); }
static Bytes g_ip4(Rng& r) { static const std::vector<Bytes> P = {B({10, 0, 0, 1}), B({192, 168, 1, 200}), B({1, 2, 3, 4}), B({255, 255, 255, 255}), B({172, 16, 254, 3}), B({224, 0, 0, 251}), B({127, 0, 0, 1}), B({8, 8, 8, 8})}; Bytes b = r.chance(2, 3) ? r.pick(P) : r.bytes(4); if (!b[0] && !b[1] && !b[2] && !b[3]) b[3] = 9; return b; }
static Bytes g_ip6(Rng& r) { static const std::vector<Bytes> P = {unhex("20010db8000000000000000000000001"), unhex("fe80000000000000021b21fffe3c9df8"), unhex("ff020000000000000000000000000001"), unhex("00000000000000000000000000000001"), unhex("ffffffffffffffffffffffffffffffff"), unhex("20010db885a3000000008a2e03707334")}; return r.chance(2, 3) ? r.pick(P) : r.bytes(16); }
static u32 g_port(Rng& r) { static const std::vector<u32> P = {80, 443, 53, 65535, 1, 1024, 8080, 0, 67, 40000}; return r.chance(2, 3) ? r.pick(P) : (u32)r.edgy(16); }
static Bytes g_payload(Rng& r, size_t n) {
    Bytes b(n); switch (r.below(7)) { case 0: std::fill(b.begin(), b.end(), 0xff); break; case 1: break; case 2: std::fill(b.begin(), b.end(), 0xff); for (size_t i = n > 4 ? n - 4 : 0; i < n; ++i) b[i] = r.byte(); break;
        case 3: for (size_t i = 0; i < n; ++i) b[i] = (u8)i; break; default: b = r.bytes(n); } return b;
}
static size_t g_len(Rng& r) { switch (r.below(10)) { case 0: return 0; case 1: return 1 + r.below(8); case 2: case 3: case 4: return r.below(65); case 5: return 120 + r.below(20); default: return r.below(1601); } }
static L raw(Rng& r, size_t n) { L l(RAWK); l.raw = g_payload(r, n); return l; }

static L g_tcp(Rng& r, bool opts) {
    L l(TCPK); l.v[0] = g_port(r); l.v[1] = g_port(r); l.v[2] = (u32)r.edgy(32); l.v[3] = (u32)r.edgy(32); l.v[4] = r.chance(1, 8) ? (u32)r.below(4096) : (u32)r.below(256); l.v[5] = (u32)r.edgy(16); l.v[6] = r.chance(1, 4) ? (u32)r.edgy(16) : 0;
    if (!opts) return l; u32 budget = 40, nopt = 1 + r.below(7);
    for (u32 j = 0; j < nopt; ++j) {
        TLV t; switch (r.below(10)) { case 0: t = {2, r.bytes(2)}; break; case 1: t = {3, r.bytes(1)}; break; case 2: t = {4, {}}; break; case 3: t = {5, r.bytes(8 * (1 + r.below(3)))}; break; case 4: t = {8, r.bytes(8)}; break;
            case 5: case 6: t = {1, {}}; break; case 7: t = {14, r.bytes(1)}; break; case 8: t = {(u32)(r.chance(1, 2) ? 28 : 254), r.bytes(1 + r.below(6))}; break; default: t = {19, r.bytes(16)}; }
        u32 sz = t.t <= 1 ? 1 : 2 + (u32)t.d.size(); if (sz > budget) continue; budget -= sz; l.tl.push_back(t);
    }
    if (budget && r.chance(1, 6)) l.tl.push_back({0, {}});
    return l;
}
static L g_udp(Rng& r) { L l(UDPK); l.v[0] = g_port(r); l.v[1] = g_port(r); return l; }
static std::vector<TLV> g_exts(Rng& r) { std::vector<TLV> v; u32 n = 1 + r.below(3); for (u32 j = 0; j < n; ++j) v.push_back({(u32)((1 + r.below(3)) << 8 | (1 + r.below(4))), r.bytes(r.chance(1, 10) ? r.below(9) : 4 * r.below(5))}); return v; }

static void g_ip4_fields(Rng& r, L& l, bool opts) {
    l.a1 = g_ip4(r); l.a2 = g_ip4(r); l.v[0] = r.chance(1, 2) ? 0 : r.byte(); l.v[1] = (u32)r.edgy(16); l.v[2] = r.chance(1, 2) ? 2 : 0; l.v[3] = r.chance(1, 2) ? 64 : r.byte(); l.v[4] = 253; l.v[6] = r.chance(1, 2); l.v[5] = 0;
    if (!opts) return; u32 budget = 40, nopt = 1 + r.below(5);
    for (u32 j = 0; j < nopt; ++j) {
        TLV t; switch (r.below(8)) { case 0: case 1: t = {1, {}}; break; case 2: t = {130, r.bytes(9)}; break; case 3: t = {136, r.bytes(2)}; break; case 4: { static const u32 rt[] = {131, 137, 7}; Bytes d = r.bytes(1 + 4 * (1 + r.below(3))); d[0] = 4; t = {rt[r.below(3)], d}; break; }
            case 5: t = {68, r.bytes(2 + r.below(9))}; break; case 6: t = {148, B({0, 0})}; break; default: t = {(u32)(r.chance(1, 2) ? 134 : 82), r.bytes(1 + r.below(10))}; }
        u32 sz = t.t <= 1 ? 1 : 2 + (u32)t.d.size(); if (sz > budget) continue; budget -= sz; l.tl.push_back(t);
    }
    if (budget && r.chance(1, 6)) l.tl.push_back({0, {}});
}
static void g_ip6_fields(Rng& r, L& l, bool exts, Spec& s) {
    l.a1 = g_ip6(r); l.a2 = g_ip6(r); l.v[0] = r.chance(1, 2) ? 0 : r.byte(); l.v[1] = r.chance(1, 2) ? 0 : (u32)r.edgy(20); l.v[2] = r.chance(1, 2) ? 64 : r.byte(); l.v[3] = 253; l.v[4] = r.chance(1, 2);
    if (!exts) return; u32 n = 1 + r.below(3);
    for (u32 j = 0; j < n; ++j) {
        u32 ty; do { static const u32 T[] = {0, 60, 43, 44, 60}; ty = T[r.below(5)]; } while (ty == 0 && j > 0);
        Bytes d;
        if (ty == 44) { d = B({0, 0}); Bytes id = r.bytes(4); d.insert(d.end(), id.begin(), id.end()); }
        else { u32 sz; for (;;) { sz = r.chance(1, 2) ? 6 + 8 * r.below(3) : r.below(31); if (sz % 8 != 7 || r.chance(1, 25)) break; }
               if (sz % 8 == 7) s.kf = "ip6-ext-data7mod8";
               if (ty == 43) { d = r.bytes(sz); if (sz >= 2) d[1] = 0; }
               else { d.assign(sz, 0); if (sz >= 2) { d[0] = 1; d[1] = (u8)(sz - 2); } } }
        l.tl.push_back({ty, d});
    }
}

// appends an L4 (and payload) below an IPv4/IPv6 layer
static void g_below_ip(Rng& r, Spec& s, bool v6, int depth);
static void g_l3(Rng& r, Spec& s, int depth = 0) {
    bool v6 = r.chance(2, 5); L l(v6 ? IP6K : IP4);
    if (v6) g_ip6_fields(r, l, r.chance(1, 3), s); else g_ip4_fields(r, l, r.chance(1, 3));
    s.ls.push_back(l); g_below_ip(r, s, v6, depth);
}
static void g_icmp4(Rng& r, Spec& s) {
    L l(ICMP4); u32 c = r.below(20);
    if (c < 9) { l.v[0] = r.chance(1, 2) ? 8 : 0; l.v[2] = (u32)r.edgy(16); l.v[3] = (u32)r.edgy(16); s.ls.push_back(l); if (r.chance(5, 6)) s.ls.push_back(raw(r, g_len(r))); return; }
    if (c < 11) { l.v[0] = r.chance(1, 2) ? 13 : 14; l.v[2] = r.below(65536); l.v[3] = r.below(65536); l.v[5] = (u32)r.next(); l.v[6] = (u32)r.next(); l.v[7] = (u32)r.next(); s.ls.push_back(l); return; }
    if (c < 12) { l.v[0] = r.chance(1, 2) ? 17 : 18; l.v[2] = r.below(65536); l.v[3] = r.below(65536); l.a1 = B({255, 255, (int)r.byte(), 0}); s.ls.push_back(l); return; }
    if (c < 13) { l.v[0] = 5; l.v[1] = r.below(4); l.a1 = g_ip4(r); s.ls.push_back(l); s.ls.push_back(raw(r, 28)); return; }
    static const u32 T[] = {3, 11, 12}; l.v[0] = T[r.below(3)]; l.v[1] = l.v[0] == 3 ? r.below(16) : l.v[0] == 11 ? r.below(2) : 0; if (l.v[0] == 12) l.v[2] = r.byte(); if (l.v[0] == 3 && l.v[1] == 4) l.v[3] = (u32)r.edgy(16);
    bool ext = r.chance(2, 5); if (ext) l.tl = g_exts(r); l.v[4] = r.chance(2, 5);
    bool inner_ip = r.chance(1, 4); size_t len;
    switch (r.below(6)) { case 0: len = 28; break; case 1: len = 120 + r.below(17); break; case 2: len = 4 * r.below(137); break; default: len = r.below(549); }
    if (inner_ip) { len = len < 28 ? 0 : len - 28; }
    size_t inner = inner_ip ? len + 28 : len;
    if (ext && r.chance(1, 8)) { inner = 0; len = 0; inner_ip = false; }
    if (inner == 0 && ext) { if (r.chance(1, 2)) { len = 8; inner = 8; inner_ip = false; } else { s.ls.push_back(l); return; } }      // or: an extension structure and no quoted datagram at all
    s.ls.push_back(l);
    if (inner_ip) { L ip(IP4); g_ip4_fields(r, ip, false); s.ls.push_back(ip); s.ls.push_back(g_udp(r)); s.ls.push_back(raw(r, len)); }
    else if (inner || r.chance(1, 2)) {
        L p = raw(r, inner);
        // a payload that is not an extension structure must not look like one to a RFC 4884 parser: break an accidental checksum match at offset 128
        if (!ext && inner >= 132) { Bytes& b = p.raw; u64 a = ocsum(&b[128], inner - 128); if (fold(a) == 0xffff) b[130] ^= 0x5a; }
        s.ls.push_back(p);
    }
}
static void g_icmp6(Rng& r, Spec& s) {
    L l(ICMP6K); u32 c = r.below(20);
    if (c < 9) { l.v[0] = r.chance(1, 2) ? 128 : 129; l.v[2] = (u32)r.edgy(16); l.v[3] = (u32)r.edgy(16); s.ls.push_back(l); if (r.chance(5, 6)) s.ls.push_back(raw(r, g_len(r))); return; }
    if (c < 14) { static const u32 T[] = {133, 134, 135, 136, 137}; l.v[0] = T[r.below(5)]; l.a1 = g_ip6(r); l.a2 = g_ip6(r); l.v[2] = r.byte(); l.v[3] = r.below(65536); l.v[5] = (u32)r.next(); l.v[6] = (u32)r.next(); if (l.v[0] == 136) l.v[2] &= 3;
        u32 n = r.below(4); for (u32 j = 0; j < n; ++j) l.tl.push_back({1 + r.below(5), r.bytes(6 + 8 * r.below(4))}); s.ls.push_back(l); return; }
    if (c < 17) { static const u32 T[] = {1, 2, 4}; l.v[0] = T[r.below(3)]; l.v[1] = r.below(4); s.ls.push_back(l); s.ls.push_back(raw(r, 40 + r.below(400))); return; }
    l.v[0] = r.chance(1, 3) ? 1 : 3; l.v[1] = r.below(2); bool ext = r.chance(1, 2); if (ext) l.tl = g_exts(r); l.v[4] = r.chance(2, 5);      // Destination Unreachable and Time Exceeded: the two ICMPv6 messages RFC 4884 extends
    size_t inner; switch (r.below(5)) { case 0: inner = 48; break; case 1: inner = 120 + r.below(17); break; case 2: inner = 8 * r.below(150); break; default: inner = 40 + r.below(1100); }
    if (ext && r.chance(1, 8)) inner = 0;
    if (inner == 0 && ext) { if (r.chance(1, 2)) inner = 48; else { s.ls.push_back(l); return; } }      // or: an extension structure and no quoted datagram at all
    s.ls.push_back(l); L p = raw(r, inner);
    if (!ext && inner >= 132) { Bytes& b = p.raw; if (fold(ocsum(&b[128], inner - 128)) == 0xffff) b[130] ^= 0x5a; }
    s.ls.push_back(p);
}
static void g_below_ip(Rng& r, Spec& s, bool v6, int depth) {
    u32 c = r.below(100);
    if (c < 30) { s.ls.push_back(g_tcp(r, r.chance(1, 2))); if (r.chance(4, 5)) s.ls.push_back(raw(r, g_len(r))); }
    else if (c < 55) { s.ls.push_back(g_udp(r)); if (r.chance(5, 6)) s.ls.push_back(raw(r, g_len(r))); }
    else if (c < 75) { if (v6) g_icmp6(r, s); else g_icmp4(r, s); }
    else if (c < 80) { s.ls.push_back(raw(r, g_len(r))); }
    else if (c < 83) { /* no payload at all */ }
    else if (c < 89 && depth < 2) g_l3(r, s, depth + 1);                       // tunnels: IPv4/IPv6 in IPv4/IPv6
    else if (c < 94) { L a(AHK); a.v[0] = (u32)r.next(); a.v[1] = (u32)r.next(); a.raw = r.bytes(v6 ? 12 + 8 * r.below(3) : 4 * (1 + r.below(6))); s.ls.push_back(a);
                       u32 d = r.below(3); if (d == 0) { s.ls.push_back(g_tcp(r, false)); s.ls.push_back(raw(r, r.below(100))); } else if (d == 1) { s.ls.push_back(g_udp(r)); s.ls.push_back(raw(r, r.below(100))); } else s.ls.push_back(raw(r, r.below(100))); }
    else { L e(ESPK); e.v[0] = (u32)r.next(); e.v[1] = (u32)r.next(); s.ls.push_back(e); s.ls.push_back(raw(r, 8 + r.below(200))); }
}
static L g_vlan(Rng& r) { L l(VLAN); l.v[0] = r.chance(1, 2) ? 1 + r.below(20) : (u32)r.edgy(12); l.v[1] = r.below(8); l.v[2] = r.below(2); l.v[3] = r.chance(1, 2); l.v[4] = 0x9000 + r.below(16); l.v[5] = r.chance(1, 2); return l; }
static void g_pppoe(Rng& r, Spec& s, bool direct) {
    L l(PPPOEK); l.v[1] = (u32)r.edgy(16);
    if (r.chance(1, 2)) { l.v[0] = 0; size_t n = r.below(120); if (!direct) s.kf = "pppoe-session-tag"; if (r.chance(1, 2)) { l.v[3] = 1; l.v[2] = r.chance(1, 2) ? (u32)n : (u32)r.below(200); } s.ls.push_back(l); if (n) s.ls.push_back(raw(r, n)); return; }
    static const u32 C[] = {0x09, 0x07, 0x19, 0x65, 0xa7}; l.v[0] = C[r.below(5)]; u32 n = r.below(5);
    for (u32 j = 0; j < n; ++j) { static const u32 T[] = {0x0101, 0x0102, 0x0103, 0x0104, 0x0203}; u32 t = T[r.below(5)]; Bytes d = r.bytes(r.below(20)); if (t != 0x0103 && t != 0x0104) for (auto& c : d) c = 'a' + c % 26; l.tl.push_back({t, d}); }
    s.ls.push_back(l);
}
static void g_mpls(Rng& r, Spec& s) {
    u32 n = 1 + r.below(3);
    for (u32 j = 0; j < n; ++j) { L l(MPLSK); l.v[0] = r.chance(1, 2) ? 16 + r.below(100) : (u32)r.edgy(20); l.v[1] = r.below(8); l.v[2] = r.byte(); if (j + 1 < n && r.chance(1, 30)) { l.v[3] = 1; s.kf = "mpls-stale-s-bit"; } s.ls.push_back(l); }
    if (r.chance(5, 6)) g_l3(r, s); else s.ls.push_back(raw(r, 1 + r.below(80)));
}
static L g_arp(Rng& r) { L l(ARPK); l.a1 = g_mac(r); l.a2 = g_mac(r); l.a3 = g_ip4(r); l.a4 = g_ip4(r); l.v[0] = 1 + r.below(2); return l; }
static void g_after_ethertype(Rng& r, Spec& s, bool direct_eth, bool allow_vlan_things) {
    u32 c = r.below(100);
    if (c < 62) g_l3(r, s);
    else if (c < 70 && allow_vlan_things) g_mpls(r, s);
    else if (c < 77) g_pppoe(r, s, direct_eth);
    else if (c < 82) s.ls.push_back(g_arp(r));
    else if (c < 87) { L e(EAPOLK); e.v[0] = r.below(2); e.v[1] = r.below(1000); if (r.chance(2, 3)) e.raw = r.bytes(1 + r.below(40)); s.ls.push_back(e); }
    else if (c < 97) s.ls.push_back(raw(r, r.chance(1, 2) ? r.below(61) : g_len(r)));
    else { /* nothing */ }
}
static Spec gen_random(Rng& r) {
    Spec s; u32 c = r.below(100);
    if (c < 55) { s.dlt = DLT_EN10MB; L e(ETH); e.a1 = g_mac(r); e.a2 = g_mac(r); e.v[0] = 0x9000 + r.below(16); e.v[1] = r.chance(1, 2); s.ls.push_back(e);
        u32 nv = r.below(20); nv = nv < 12 ? 0 : nv < 17 ? 1 : nv < 19 ? 2 : 3; for (u32 j = 0; j < nv; ++j) s.ls.push_back(g_vlan(r));
        g_after_ethertype(r, s, nv == 0, true); }
    else if (c < 63) { s.dlt = DLT_EN10MB; L d(DOT3); d.a1 = g_mac(r); d.a2 = g_mac(r); s.ls.push_back(d);
        if (r.chance(3, 5)) { L l(LLCK); l.v[0] = r.chance(1, 2) ? 0xf0 : (r.byte() & 0xfe); if (l.v[0] == 0x42) l.v[0] = 0x44; l.v[1] = r.byte(); l.v[2] = r.chance(1, 2) ? 3 : r.below(2); if (l.v[2] == 3) { static const u32 M[] = {0, 0x1d, 7, 0x1e, 2, 6, 0x18, 0x11}; l.v[3] = M[r.below(8)]; } else { l.v[3] = r.below(128); l.v[4] = r.below(128); } l.v[5] = r.below(2);
                             s.ls.push_back(l); if (r.chance(1, 3)) s.ls.push_back(L(STPK)); else if (r.chance(4, 5)) s.ls.push_back(raw(r, r.below(100))); }
        else { L sn(SNAPK); sn.v[0] = r.chance(3, 4) ? 0 : r.below(1 << 24); sn.v[1] = 0x9000; s.ls.push_back(sn); g_after_ethertype(r, s, false, false); } }
    else if (c < 70) { s.dlt = DLT_LINUX_SLL; L l(SLLK); l.v[0] = r.below(5); l.v[1] = 1; l.v[2] = 6; l.a1 = r.bytes(8); l.v[3] = 0x9000; s.ls.push_back(l); g_after_ethertype(r, s, false, false); }
    else if (c < 77) { s.dlt = DLT_NULL; L l(LOOPK); l.v[0] = 77; s.ls.push_back(l); if (r.chance(5, 6)) g_l3(r, s); else { L x(LLCK); x.v[0] = 0xaa; x.v[1] = 0xab; x.v[2] = 3; s.ls.push_back(x); s.ls.push_back(raw(r, r.below(50))); } }
    else if (c < 85) { s.dlt = DLT_IEEE802_11_RADIO; L t(RTAP); t.v[1] = 26 /* 8 + TSFT 8 + FLAGS 1 + pad 1 + CHANNEL 4 + SIGNAL 1 + ANTENNA 1 + RX_FLAGS 2 */; t.v[0] = r.chance(2, 3) ? 0x10 : 0; t.v[2] = r.below(2); t.v[3] = r.byte(); t.v[4] = r.below(2); t.v[5] = r.byte(); s.ls.push_back(t);
        L w(WLAN); w.a1 = g_mac(r); w.a2 = g_mac(r); w.a3 = g_mac(r); w.a4 = g_mac(r); u32 d = r.below(10); w.v[0] = d < 5 ? 0 : d < 7 ? 1 : d < 9 ? 2 : 3;
        if (w.v[0] <= 1) { w.v[1] = r.below(2); w.v[2] = r.below(2); } if (w.v[0] == 2 && r.chance(2, 3)) { w.raw = r.bytes(1 + r.below(20)); for (auto& ch : w.raw) ch = 'A' + ch % 26; }
        s.ls.push_back(w);
        if (w.v[0] <= 1) { if (r.chance(3, 4)) { L sn(SNAPK); sn.v[0] = 0; sn.v[1] = 0x9000; s.ls.push_back(sn); g_l3(r, s); } else s.ls.push_back(raw(r, r.below(200))); } }
    else { s.dlt = DLT_RAW; g_l3(r, s); }
    return s;
}
// ------------------------------------------------------------------ histories: build, mutate, clone, re-parse; check after every step
struct Hist {
    Spec s; std::unique_ptr<PDU> p; Rng& r; std::string log; Bytes y; std::vector<DF> df; bool last_ok = false; u32 steps = 0;
    explicit Hist(Rng& rr) : r(rr) {}
    void note(const std::string& t) { log += " | " + t; describe_case(show(s) + log); }
    // serialize + model + checker (+ libpcap); returns false when the step could not be judged
    bool check(const std::string& stage, size_t pcap_budget) {
        u32 want = model(s); last_ok = false;
        if (want > 65535 || want == 0) { cnt("skipped_over_65535"); return false; }
        for (auto& l : s.ls) if (l.k == IP4 && l.end - l.off > 65535) { cnt("skipped_over_65535"); return false; }
        try { y = p->serialize(); want = model(s, &y); if (y.size() != want) { u32 w2 = model(s, nullptr); if (y.size() == w2) want = w2; else model(s, &y); } }   // an unpadded RFC 4884 datagram is reported by the length check, not as a size mismatch
        catch (...) { violation("exception/serialize/" + current_exception_type() + (s.kf.empty() ? "" : "/kf:" + s.kf), "serialize() threw on an API-built packet [" + stage + "] :: " + show(s)); return false; }
        Ck ck(s, y, stage); bool ok = ck.run(want); df.swap(ck.df); ++steps; cnt("steps:" + stage.substr(0, stage.find(':')));
        if (y.size() == want && pcap_budget) pcap_check(s, y, r, stage, pcap_budget);
        last_ok = ok; return true;
    }
    int find_last(std::initializer_list<Kind> ks) { for (int i = (int)s.ls.size() - 1; i >= 0; --i) for (Kind k : ks) if (s.ls[i].k == k) return i; return -1; }
    bool icmp_err_parent(size_t i) { if (i == 0) return false; const L& q = s.ls[i - 1]; return (q.k == ICMP4 && icmp4_ext_ok(q.v[0])) || (q.k == ICMP6K && q.v[0] <= 4); }
    void guard_ext_lookalike(size_t i) { if (!icmp_err_parent(i) || has_ext(s.ls[i - 1])) return; Bytes& b = s.ls[i].raw; if (b.size() >= 132 && fold(ocsum(&b[128], b.size() - 128)) == 0xffff) b[130] ^= 0x5a; }
    void set_raw(size_t i) { RawPDU* rp = static_cast<RawPDU*>(nth(p.get(), i)); rp->payload(s.ls[i].raw); }

    bool frozen() { for (size_t i = 0; i + 1 < s.ls.size(); ++i) if ((s.ls[i].k == ICMP4 && icmp4_ext_ok(s.ls[i].v[0])) || (s.ls[i].k == ICMP6K && s.ls[i].v[0] <= 4)) return true; return false; }   // RFC 4884 shapes keep their generated sizes
    bool m_payload() {
        size_t n = s.ls.size(); L& l = s.ls[n - 1];
        if (l.k == RAWK) {
            size_t len = frozen() ? l.raw.size() : g_len(r);
            l.raw = g_payload(r, len); guard_ext_lookalike(n - 1); set_raw(n - 1);
            note("payload:=" + N(len)); return true;
        }
        if (frozen()) return false;
        if (l.k == TCPK || l.k == UDPK || (l.k == ICMP4 && (l.v[0] == 8 || l.v[0] == 0)) || (l.k == ICMP6K && (l.v[0] == 128 || l.v[0] == 129)) || l.k == ESPK) {
            L q = raw(r, g_len(r)); s.ls.push_back(q); nth(p.get(), n - 1)->inner_pdu(build_layer(q)); note("append payload " + N(q.raw.size())); return true;
        }
        return false;
    }
    bool m_drop_payload() {
        size_t n = s.ls.size(); if (n < 2 || s.ls[n - 1].k != RAWK || frozen()) return false; Kind pk = s.ls[n - 2].k;
        if (!(pk == TCPK || pk == UDPK || (pk == ICMP4 && !icmp4_ext_ok(s.ls[n - 2].v[0])) || (pk == ICMP6K && s.ls[n - 2].v[0] >= 128 && s.ls[n - 2].v[0] <= 129))) return false;
        nth(p.get(), n - 2)->inner_pdu(nullptr); s.ls.pop_back(); note("drop payload"); return true;
    }
    bool m_addr() {
        std::vector<size_t> c; for (size_t i = 0; i < s.ls.size(); ++i) if (s.ls[i].k == IP4 || s.ls[i].k == IP6K) c.push_back(i); if (c.empty()) return false;
        size_t i = r.pick(c); L& l = s.ls[i]; bool src = r.chance(1, 2); PDU* q = nth(p.get(), i);
        if (l.k == IP4) { Bytes a = g_ip4(r); if (src) { l.a1 = a; static_cast<IP*>(q)->src_addr(ip4(a)); } else { l.a2 = a; static_cast<IP*>(q)->dst_addr(ip4(a)); } }
        else { Bytes a = g_ip6(r); if (src) { l.a1 = a; static_cast<IPv6*>(q)->src_addr(ip6(a)); } else { l.a2 = a; static_cast<IPv6*>(q)->dst_addr(ip6(a)); } }
        note(std::string("addr ") + (src ? "src" : "dst") + " of layer " + N(i)); return true;
    }
    bool m_option() {
        std::vector<size_t> c; for (size_t i = 0; i < s.ls.size(); ++i) if ((s.ls[i].k == IP4 || s.ls[i].k == TCPK) && tlv_opts_size(s.ls[i]) <= 36 && (s.ls[i].tl.empty() || s.ls[i].tl.back().t != 0)) c.push_back(i); if (c.empty()) return false;
        size_t i = r.pick(c); L& l = s.ls[i]; PDU* q = nth(p.get(), i); TLV t;
        if (frozen()) return false;
        if (l.k == IP4) { t = r.chance(1, 2) ? TLV{1, {}} : TLV{148, B({0, 0})}; if (t.t <= 1) static_cast<IP*>(q)->add_option(IP::option(IP::option_identifier((u8)1))); else static_cast<IP*>(q)->add_option(IP::option(IP::option_identifier((u8)148), 2, t.d.data())); }
        else { t = r.chance(1, 2) ? TLV{1, {}} : TLV{2, r.bytes(2)}; if (t.t == 1) static_cast<TCP*>(q)->add_option(TCP::option(TCP::NOP, 0)); else static_cast<TCP*>(q)->mss((u16)((t.d[0] << 8) | t.d[1])); }
        l.tl.push_back(t); note("add option " + N(t.t) + " to layer " + N(i)); return true;
    }
    bool m_remove_option() {
        std::vector<size_t> c; for (size_t i = 0; i < s.ls.size(); ++i) if (s.ls[i].k == TCPK && !s.ls[i].tl.empty()) c.push_back(i); if (c.empty()) return false;
        size_t i = r.pick(c); L& l = s.ls[i]; u32 ty = l.tl[r.below((u32)l.tl.size())].t;
        static_cast<TCP*>(nth(p.get(), i))->remove_option((TCP::OptionTypes)ty);
        for (size_t j = 0; j < l.tl.size(); ++j) if (l.tl[j].t == ty) { l.tl.erase(l.tl.begin() + j); break; }      // first occurrence, as documented
        note("remove tcp option " + N(ty)); return true;
    }
    bool m_swap_l4() {
        int i = find_last({IP4, IP6K}); if (i < 0 || (size_t)i + 1 >= s.ls.size()) return false; Kind ck = s.ls[i + 1].k; if (ck != TCPK && ck != UDPK) return false;
        if (frozen()) return false;
        s.ls.resize(i + 1); std::vector<L> add; add.push_back(ck == TCPK ? g_udp(r) : g_tcp(r, r.chance(1, 2))); if (r.chance(3, 4)) add.push_back(raw(r, g_len(r)));
        PDU* top = build_layer(add[0]); if (add.size() > 1) top->inner_pdu(build_layer(add[1]));
        nth(p.get(), i)->inner_pdu(top); for (auto& a : add) s.ls.push_back(a); note(std::string("replace L4 by ") + KN[add[0].k]); return true;
    }
    bool m_insert_vlan() {
        if (s.ls[0].k != ETH || s.ls.size() < 2 || s.ls[1].k == PPPOEK) return false; int nv = 0; for (auto& l : s.ls) nv += l.k == VLAN; if (nv >= 3) return false;
        L v = g_vlan(r); PDU* eth = p.get(); PDU* in = eth->release_inner_pdu(); PDU* q = build_layer(v); q->inner_pdu(in); eth->inner_pdu(q); s.ls.insert(s.ls.begin() + 1, v); note("insert vlan " + N(v.v[0])); return true;
    }
    bool m_clone() { p.reset(p->clone()); note("clone"); return true; }
    // choose the first payload word so that the one's-complement sum becomes 0xffff (checksum 0x0000; UDP must send 0xffff)
    bool m_zero_sum(int force = -1) {
        size_t n = s.ls.size(); if (!last_ok || n < 2 || s.ls[n - 1].k != RAWK || s.ls[n - 1].raw.size() < 2) return false; const L& q = s.ls[n - 2]; size_t f;
        if (q.k == TCPK) f = q.off + 16; else if (q.k == UDPK) f = q.off + 6; else if ((q.k == ICMP4 && !icmp4_ext_ok(q.v[0])) || (q.k == ICMP6K && q.v[0] >= 128)) f = q.off + 2; else return false;
        if (n < 3 || (s.ls[n - 3].k != IP4 && s.ls[n - 3].k != IP6K)) return false;
        u32 c = be16(y, f); if (q.k == UDPK && c == 0xffff) return false; Bytes& b = s.ls[n - 1].raw; u32 w = (b[0] << 8) | b[1];
        u32 t = force == 0 ? 0xffff : (force == 1 || r.chance(1, 2)) ? (1 + r.below(3)) << (r.chance(1, 2) ? 8 : 0) : 0xffff;   // 0xffff (checksum 0) or tiny in either byte order (the unfolded sum then needs a second end-around carry)
        u16 nw = fold((u64)w + c + t); b[0] = nw >> 8; b[1] = nw & 0xff; set_raw(n - 1); note("steer sum to " + N(t)); return true;
    }
    // scramble the derived fields on the wire, parse, serialize again: everything derived must be recomputed
    bool m_reparse() {
        if (!last_ok) return false; Bytes z = y; bool padded = false; for (auto& l : s.ls) if ((l.k == ETH || l.k == VLAN) && l.trl) padded = true;
        bool pad_ok = s.ls[0].k == ETH; if (pad_ok) { size_t i = 1; while (i < s.ls.size() && s.ls[i].k == VLAN) ++i; pad_ok = i < s.ls.size() && (s.ls[i].k == IP4 || s.ls[i].k == IP6K) && i == 1; }
        u32 scr = 0;
        for (auto& d : df) {
            if (d.scr == 1) { for (u32 k = 0; k < d.len; ++k) z[d.pos + k] = r.byte(); ++scr; }
            else if (d.scr == 2 && !padded && d.name != "ip-totlen") { z[d.pos] = 0xff; z[d.pos + 1] = 0xff; ++scr; }
            else if (d.scr == 2 && !padded && d.name == "ip-totlen" && s.dlt != DLT_IEEE802_11_RADIO) { u32 v = r.chance(1, 2) ? 0 : 0xffff; z[d.pos] = z[d.pos + 1] = (u8)v; ++scr; }
            else if (d.scr == 3 && pad_ok) { for (u32 k = 0; k < d.len; ++k) z[d.pos + k] = 0xcc; ++scr; }
        }
        if (!scr) return false;
        ExactBuf eb(z); std::unique_ptr<PDU> q;
        try {
            switch (s.ls[0].k) { case ETH: q.reset(new EthernetII(eb.data(), (u32)eb.n)); break; case DOT3: q.reset(new Dot3(eb.data(), (u32)eb.n)); break; case SLLK: q.reset(new SLL(eb.data(), (u32)eb.n)); break; case LOOPK: q.reset(new Loopback(eb.data(), (u32)eb.n)); break;
                case IP4: q.reset(new IP(eb.data(), (u32)eb.n)); break; case IP6K: q.reset(new IPv6(eb.data(), (u32)eb.n)); break; case RTAP: q.reset(new RadioTap(eb.data(), (u32)eb.n)); break; default: return false; }
        } catch (std::exception&) { cnt("reparse_threw"); note("reparse threw"); return false; }
        Bytes y2; try { y2 = q->serialize(); } catch (std::exception&) { cnt("reparse_serialize_threw"); return false; }
        note("reparse (" + N(scr) + " derived fields scrambled)"); cnt("reparsed");
        bool same = chain_len(q.get()) == chain_len(p.get()); { size_t li = 0; for (PDU *a = q.get(), *b = p.get(); same && a && b; a = a->inner_pdu(), b = b->inner_pdu(), ++li) same = a->pdu_type() == b->pdu_type() && a->header_size() == s.ls[li].hlen; }   // bookkeeping only: did the parser rebuild the same layers?
        if (y2 == y) {
            cnt("reparse_identical"); cnt("reparse_fields_recomputed", scr);
            if (same) { p = std::move(q); cnt("reparse_adopted"); note("continue with the parsed object");
                // state a parsed object carries instead of what the builder was told
                for (auto& l : s.ls) { if (l.k == VLAN) l.v[3] = 0; if (l.k == PPPOEK) { l.v[3] = 1; l.v[2] = l.end - l.off - 6; }
                                      if ((l.k == TCPK || l.k == IP4) && !l.tl.empty() && l.tl.back().t == 0) l.tl.pop_back(); } }   // the parsers stop at the end-of-list option and do not keep it
            return true;
        }
        if (!same || y2.size() != y.size()) { cnt("reparse_structure_changed"); return true; }   // the parser built other layers: round-trip fidelity is not this property
        size_t first = y.size();
        for (size_t pos = 0; pos < y.size(); ++pos) if (y2[pos] != y[pos]) { bool in = false; for (auto& d : df) if (pos >= d.pos && pos < d.pos + d.len) in = true; if (!in) { cnt("reparse_structure_changed"); return true; } if (first == y.size()) first = pos; }
        size_t pos = first;
        for (auto& d : df) if (pos >= d.pos && pos < d.pos + d.len) {
            violation("reparse-stale/" + d.name, "after parsing the packet back (derived fields scrambled on the wire) and serializing again, the derived field '" + d.name + "' at offset " + N(d.pos) + " is 0x" + hex(&y2[d.pos], d.len) +
                      " but must be 0x" + hex(&y[d.pos], d.len) + " :: " + show(s) + " :: parsed wire=" + hex(z, 120)); return true; }
        cnt("reparse_structure_changed"); return true;
    }
    void mutate() {
        for (int tries = 0; tries < 6; ++tries) {
            bool done = false;
            switch (r.below(12)) { case 0: case 1: case 2: done = m_payload(); break; case 3: done = m_addr(); break; case 4: done = m_option(); break; case 5: done = m_swap_l4(); break; case 6: done = m_insert_vlan(); break;
                case 7: done = m_clone(); break; case 8: done = m_zero_sum(); break; case 9: done = m_remove_option(); break; case 10: done = m_drop_payload(); break; default: note("serialize again"); done = true; }
            if (done) return;
        }
        note("serialize again");
    }
};

static void run_history(Hist& h, int nsteps, bool reparse) {
    try {
        describe_case(show(h.s)); sig(shape_sig(h.s));
        h.p = build(h.s, h.r.below(2));
        if (!h.check("built", 14)) return;
        if (want_sample() && h.s.ls.size() >= 3) sample(show(h.s) + " -> " + hex(h.y, 80));
        for (int k = 0; k < nsteps; ++k) {
            if (reparse && k == nsteps / 2) { if (h.m_reparse()) { if (!h.check("reparsed", 0)) return; } continue; }
            h.mutate(); if (!h.check("mutated:" + N(k), h.r.chance(1, 2) ? 8 : 0)) return;
        }
        cnt_max("max_steps", h.steps); cnt_max("max_size", h.y.size());
    } catch (std::exception& e) {
        violation("exception/history/" + current_exception_type() + (h.s.kf.empty() ? "" : "/kf:" + h.s.kf), std::string("unexpected exception: ") + e.what() + " :: " + show(h.s) + h.log);
    }
}

static L eth_hdr(Rng& r) { L e(ETH); e.a1 = g_mac(r); e.a2 = g_mac(r); e.v[0] = 0x9000 + r.below(16); e.v[1] = r.chance(1, 2); return e; }
static Spec sweep_spec(Rng& r, u32 stack, size_t len, u32 variant) {
    Spec s; bool v6 = stack >= 3; u32 l4 = stack % 3;
    if (variant == 0 || r.chance(2, 3)) { s.dlt = DLT_EN10MB; s.ls.push_back(eth_hdr(r)); if (variant && r.chance(1, 3)) s.ls.push_back(g_vlan(r)); } else s.dlt = DLT_RAW;
    L ip(v6 ? IP6K : IP4); if (v6) { do { s.kf.clear(); ip.tl.clear(); g_ip6_fields(r, ip, variant > 0 && r.chance(1, 2), s); } while (!s.kf.empty()); } else g_ip4_fields(r, ip, variant > 0 && r.chance(1, 2));
    s.ls.push_back(ip);
    if (l4 == 0) s.ls.push_back(g_tcp(r, variant > 0 && r.chance(1, 2))); else if (l4 == 1) s.ls.push_back(g_udp(r));
    else { L l(v6 ? ICMP6K : ICMP4); l.v[0] = v6 ? 128 + r.below(2) : (r.chance(1, 2) ? 8 : 0); l.v[2] = (u32)r.edgy(16); l.v[3] = (u32)r.edgy(16); s.ls.push_back(l); }
    s.ls.push_back(raw(r, len));
    return s;
}
static Spec pad_spec(Rng& r, u32 shape, size_t len) {
    Spec s; s.dlt = DLT_EN10MB; s.ls.push_back(eth_hdr(r)); L v = g_vlan(r), v2 = g_vlan(r);
    switch (shape) {
        case 0: s.ls.push_back(raw(r, len)); break;
        case 1: v.v[3] = 1; s.ls.push_back(v); s.ls.push_back(raw(r, len)); break;
        case 2: v.v[3] = 0; s.ls.push_back(v); s.ls.push_back(raw(r, len)); break;
        case 3: s.ls.push_back(v); s.ls.push_back(v2); s.ls.push_back(raw(r, len)); break;
        case 4: { L ip(IP4); g_ip4_fields(r, ip, false); s.ls.push_back(ip); s.ls.push_back(g_udp(r)); if (len) s.ls.push_back(raw(r, len)); break; }
        case 5: { L ip(IP6K); g_ip6_fields(r, ip, false, s); s.ls.push_back(ip); s.ls.push_back(g_udp(r)); if (len) s.ls.push_back(raw(r, len)); break; }
        case 6: s.ls.push_back(g_arp(r)); break;
        default: { L ip(IP4); g_ip4_fields(r, ip, r.chance(1, 2)); s.ls.push_back(ip); s.ls.push_back(g_tcp(r, r.chance(1, 2))); if (len) s.ls.push_back(raw(r, len)); }
    }
    return s;
}
static Spec big_spec(Rng& r) {
    Spec s; bool v6 = r.chance(1, 3); bool eth = r.chance(1, 3); u32 l4 = r.below(3); u32 total = 65535 - r.below(3) - (r.chance(1, 4) ? r.below(3000) : 0);
    if (eth) { s.dlt = DLT_EN10MB; s.ls.push_back(eth_hdr(r)); total -= 14; } else s.dlt = DLT_RAW;
    L ip(v6 ? IP6K : IP4); if (v6) g_ip6_fields(r, ip, false, s); else g_ip4_fields(r, ip, false); s.ls.push_back(ip); u32 hl = v6 ? 40 : 20;
    if (l4 == 0) { s.ls.push_back(g_tcp(r, false)); hl += 20; } else if (l4 == 1) { s.ls.push_back(g_udp(r)); hl += 8; } else { L l(v6 ? ICMP6K : ICMP4); l.v[0] = v6 ? 128 : 8; l.v[2] = 7; l.v[3] = 9; s.ls.push_back(l); hl += 8; }
    s.ls.push_back(raw(r, total - hl)); return s;
}

int main(int argc, char** argv) {
    return vf::run(argc, argv, "C05", [&](long idx, Rng& rng) {
        const Args& a = st().a; Hist h(rng);
        if (a.mode == "sweep") {
            const long PADN = 61 * 8 * 4;
            if (idx < PADN) { h.s = pad_spec(rng, (u32)(idx % 8), (size_t)((idx / 8) % 61)); cnt("sweep:pad"); run_history(h, 2, true); return; }
            long j = idx - PADN; u32 stack = (u32)(j % 6); size_t len = (size_t)((j / 6) % 1601); u32 variant = (u32)(j / 9606);
            h.s = sweep_spec(rng, stack, len, variant); cnt(std::string("sweep:") + (stack >= 3 ? "ip6/" : "ip/") + KN[h.s.ls[h.s.ls.size() - 2].k]);
            describe_case(show(h.s)); sig(mix(shape_sig(h.s), j));
            try {
                h.p = build(h.s, (int)(variant & 1)); if (!h.check("built", variant == 0 ? 6 : 10)) return;
                if (h.m_zero_sum((int)(variant & 1))) { if (!h.check("zero-sum", 0)) return; }
                if (variant) { h.mutate(); h.check("mutated:0", 0); if (h.m_reparse()) h.check("reparsed", 0); }
            } catch (std::exception& e) { violation("exception/history/" + current_exception_type(), std::string("unexpected exception: ") + e.what() + " :: " + show(h.s) + h.log); }
            return;
        }
        if (rng.chance(1, 250)) { h.s = big_spec(rng); cnt("big_packets"); run_history(h, 2, false); return; }
        h.s = gen_random(rng); cnt(std::string("link:") + KN[h.s.ls[0].k]); if (!h.s.kf.empty()) cnt("kf-shape:" + h.s.kf);
        run_history(h, 2 + (int)rng.below(4), rng.chance(2, 3));
    });
}
