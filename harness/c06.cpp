// C06 — TCP stream reassembly delivers exactly the sent byte stream.
// History + executable reference model: a byte map of what has arrived; after EVERY packet the
// public state of the real engine (DataTracker directly, Flow::process_packet with real IP/TCP/RawPDU
// packets, and the legacy TCPStreamFollower) is compared with the model.
#include "verif.h"
#include <tins/tins.h>
#include <tins/tcp_ip/data_tracker.h>
#include <tins/tcp_ip/flow.h>
#include <algorithm>
using namespace Tins;
using namespace Tins::TCPIP;
using namespace vf;

struct Seg { long off; u32 len; };          // off may be negative (stale data before the ISN)
struct History { Bytes s; u32 isn; std::vector<Seg> segs; };

static std::string show(const History& h, size_t upto = (size_t)-1) {
    std::string d = "len=" + std::to_string(h.s.size()) + " isn=" + std::to_string(h.isn) + " segs=";
    for (size_t i = 0; i < h.segs.size() && i < 400; ++i) { if (i == upto) d += " <HERE> "; d += "(" + std::to_string(h.segs[i].off) + "," + std::to_string(h.segs[i].len) + ")"; }
    if (h.segs.size() > 400) d += "...";
    return d;
}

// bytes of segment: inside the stream they are the stream's bytes; before the ISN arbitrary (0xEE)
static Bytes seg_bytes(const History& h, const Seg& g) {
    Bytes b(g.len);
    for (u32 i = 0; i < g.len; ++i) { long p = g.off + (long)i; b[i] = (p >= 0 && (size_t)p < h.s.size()) ? h.s[(size_t)p] : 0xEE; }
    return b;
}

struct Model {
    std::vector<char> arrived; size_t k = 0;
    explicit Model(size_t n) : arrived(n, 0) {}
    void add(const Seg& g) { for (u32 i = 0; i < g.len; ++i) { long p = g.off + (long)i; if (p >= 0 && (size_t)p < arrived.size()) arrived[(size_t)p] = 1; } while (k < arrived.size() && arrived[k]) ++k; }
};

// Check the engine's public state against the model. `delivered` is everything handed over so far.
template <class BufMap>
static bool check_state(const char* drv, const History& h, size_t step, const Model& m, const Bytes& delivered, bool have_seq, u32 seq,
                        const BufMap* buffered, bool have_total, u32 total) {
    auto fail = [&](const std::string& clause, const std::string& msg) {
        violation(std::string(clause) + "/" + drv, msg + " :: after packet #" + std::to_string(step) + " of " + show(h, step + 1)); return false; };
    if (delivered.size() != m.k) return fail("delivered-length", "delivered " + std::to_string(delivered.size()) + " bytes, contiguous prefix arrived is " + std::to_string(m.k));
    if (m.k && memcmp(delivered.data(), h.s.data(), m.k) != 0) return fail("delivered-bytes", "delivered data is not a prefix of the stream");
    if (have_seq && seq != (u32)(h.isn + (u32)m.k)) return fail("sequence-number", "sequence_number()=" + std::to_string(seq) + " expected " + std::to_string((u32)(h.isn + m.k)));
    if (buffered) {
        u64 sum = 0;
        for (auto& kv : *buffered) {
            sum += kv.second.size();
            u32 rel = kv.first - h.isn;                  // offset in the stream (mod 2^32)
            if ((int32_t)(rel - (u32)m.k) <= 0) return fail("stale-buffered-chunk", "a buffered chunk starts at offset " + std::to_string((int32_t)rel) + " <= delivery point " + std::to_string(m.k));
            for (size_t i = 0; i < kv.second.size(); ++i) { size_t p = (size_t)rel + i; if (p < h.s.size() && kv.second[i] != h.s[p]) return fail("buffered-bytes", "buffered chunk content differs from the stream"); }
        }
        if (have_total && sum != total) return fail("total-buffered-bytes", "total_buffered_bytes()=" + std::to_string(total) + " but chunks hold " + std::to_string(sum));
    }
    return true;
}

// classify which branches of the engine this packet exercises, from the model's point of view
template <class BufMap> static void classify(const History& h, const Seg& g, const Model& m, const BufMap& buffered) {
    long k = (long)m.k; long end = g.off + (long)g.len;
    if (end < k) cnt("br:ignored-old"); else if (g.off < k && end > k) cnt("br:slice-on-entry"); else if (g.off > k) cnt("br:buffered-out-of-order"); else if (g.off == k && g.len) cnt("br:in-order");
    if (g.len == 0) cnt("br:zero-length");
    if (g.off < 0) cnt("br:before-isn");
    u32 key = h.isn + (u32)(g.off < k ? k : g.off);
    auto it = buffered.find(key);
    if (it != buffered.end()) { size_t nl = g.off < k ? (size_t)(end - k) : g.len; if (nl > it->second.size()) cnt("br:replace-longer"); else cnt("br:keep-longer-or-equal"); }
    for (auto& kv : buffered) { long o = (long)(int32_t)(kv.first - h.isn); long e = o + (long)kv.second.size(); if (g.off <= k && end >= o && o > k) { if (e > end) cnt("br:slice-buffered"); else cnt("br:erase-seen"); } }
    if ((u64)h.isn + h.s.size() > 0xffffffffULL) cnt("br:history-wraps-2^32");
}

static void run_direct(const History& h) {
    DataTracker t(h.isn); Model m(h.s.size());
    for (size_t i = 0; i < h.segs.size(); ++i) {
        classify(h, h.segs[i], m, t.buffered_payload());
        size_t before = m.k; m.add(h.segs[i]);
        bool r = t.process_payload(h.isn + (u32)h.segs[i].off, seg_bytes(h, h.segs[i]));
        if (!r && m.k != before) { violation("return-value/DataTracker", "process_payload returned false although new in-order data became available :: " + show(h, i + 1)); return; }
        if (!check_state("DataTracker", h, i, m, t.payload(), true, t.sequence_number(), &t.buffered_payload(), true, t.total_buffered_bytes())) return;
        cnt("packets");
    }
}

static void run_flow(const History& h, Rng& rng) {
    bool v6 = rng.chance(1, 4);
    Flow f = v6 ? Flow(IPv6Address("2001:db8::2"), 80, h.isn) : Flow(IPv4Address("10.0.0.2"), 80, h.isn);
    Bytes delivered; u64 announced = 0; bool consume = rng.chance(1, 2);
    f.data_callback([&](Flow& fl) { announced += fl.payload().size(); if (consume) { delivered.insert(delivered.end(), fl.payload().begin(), fl.payload().end()); fl.payload().clear(); } });
    Model m(h.s.size());
    for (size_t i = 0; i < h.segs.size(); ++i) {
        m.add(h.segs[i]);
        TCP tcp(80, 40000); tcp.seq(h.isn + (u32)h.segs[i].off); tcp.flags(TCP::ACK | (rng.chance(1, 8) ? TCP::PSH : 0));
        Bytes pl = seg_bytes(h, h.segs[i]);
        PDU* pkt;
        if (v6) pkt = new IPv6(IPv6(IPv6Address("2001:db8::2"), IPv6Address("2001:db8::1")) / tcp / RawPDU(pl.data(), (u32)pl.size()));
        else pkt = new EthernetII(EthernetII() / IP("10.0.0.2", "10.0.0.1") / tcp / RawPDU(pl.data(), (u32)pl.size()));
        if (pl.empty() && pkt->find_pdu<RawPDU>() == nullptr) { /* zero-length segment without payload layer: ignored by Flow */ }
        f.process_packet(*pkt); delete pkt;
        const Bytes& got = consume ? delivered : f.payload();
        if (!check_state("Flow", h, i, m, got, true, f.sequence_number(), &f.buffered_payload(), true, f.total_buffered_bytes())) return;
        cnt("packets");
    }
    (void)announced;
}

static void run_legacy(const History& h, Rng& rng) {
    // client -> server data direction through the legacy follower (IPv4 only)
    bool server_side = rng.chance(1, 3);     // which direction carries the data
    std::vector<EthernetII> pkts;
    u32 other_isn = (u32)rng.next();
    IPv4Address c("10.1.0.1"), s("10.1.0.2"); u16 cp = 40001, sp = 8080;
    u32 cisn = server_side ? other_isn : h.isn, sisn = server_side ? h.isn : other_isn;
    { TCP t(sp, cp); t.flags(TCP::SYN); t.seq(cisn - 1); pkts.push_back(EthernetII() / IP(s, c) / t); }
    { TCP t(cp, sp); t.flags(TCP::SYN | TCP::ACK); t.seq(sisn - 1); t.ack_seq(cisn); pkts.push_back(EthernetII() / IP(c, s) / t); }
    for (auto& g : h.segs) {
        Bytes pl = seg_bytes(h, g);
        TCP t(server_side ? cp : sp, server_side ? sp : cp); t.flags(TCP::ACK); t.seq(h.isn + (u32)g.off);
        IP ip(server_side ? c : s, server_side ? s : c);
        if (pl.empty()) pkts.push_back(EthernetII() / ip / t); else pkts.push_back(EthernetII() / ip / t / RawPDU(pl.data(), (u32)pl.size()));
    }
    TCPStreamFollower fol; Model m(h.s.size()); size_t idx = 0; bool bad = false; Bytes last; bool have = false;
    struct Cb { const History* h; Model* m; size_t* idx; bool* bad; bool server_side; Bytes* last; bool* have;
        bool operator()(TCPStream& st) const { *last = server_side ? st.server_payload() : st.client_payload(); *have = true; return true; } };
    // feed one packet at a time so the state can be checked after each
    for (size_t i = 0; i < pkts.size() && !bad; ++i) {
        std::vector<EthernetII> one(1, pkts[i]);
        if (i >= 2) m.add(h.segs[i - 2]);
        have = false;
        fol.follow_streams(one.begin(), one.end(), Cb{&h, &m, &idx, &bad, server_side, &last, &have});
        if (i >= 2) {
            // the legacy follower only exposes the payload through the data callback: it must fire whenever k grew
            if (last.size() != m.k && !have) { violation("delivered-length/TCPStreamFollower", "no data callback although the contiguous prefix grew to " + std::to_string(m.k) + " (last seen " + std::to_string(last.size()) + ") :: after packet #" + std::to_string(i - 2) + " of " + show(h, i - 1)); return; }
            if (!check_state<DataTracker::buffered_payload_type>("TCPStreamFollower", h, i - 2, m, last, false, 0, nullptr, false, 0)) return;
            cnt("packets");
        }
    }
}

static u32 pick_isn(Rng& r, size_t len);
// ---- the application skips a hole: DataTracker::advance_sequence / Flow::advance_sequence ---------------------------
// Documented use (data_tracker.h): skip forward to a segment boundary, "cleans the buffer from all no longer needed fragments", after
// which data flows again. Histories: whole segments only, segments [L, M) never arrive (the hole), the others arrive in a random order,
// then the application advances to the start of segment M BEFORE that segment has arrived (as from an out-of-order callback), then M
// arrives. Model: chunks that start below the target are dropped (they also end at or below it: boundaries), chunks above stay untouched,
// the position is the target, nothing is delivered by the call itself, and afterwards delivery continues: s[0:off L] ++ s[off M:...].
static void run_skip(Rng& r, bool thorough) {
    // (the per-packet comparison is linear in the stream: longer streams only cost time, the thorough tier runs more histories instead)
    (void)thorough; size_t n = 40 + r.below(4000); Bytes s = r.bytes(n); u32 isn = pick_isn(r, n); if (r.chance(1, 2)) isn = (u32)(0u - (u32)r.below((u32)n));      // half of the streams cross 2^32
    std::vector<size_t> cut = {0}; u32 mss = 1 + r.below(r.chance(1, 2) ? 40 : 700); while (cut.back() < n) cut.push_back(std::min(n, cut.back() + 1 + r.below(mss)));
    size_t S = cut.size() - 1; if (S < 4) return;
    size_t L = 1 + r.below((u32)S - 2), M = L + 1 + r.below((u32)std::min<size_t>(3, S - 1 - L));      // hole = segments [L, M), M <= S-1
    std::vector<size_t> order; for (size_t i = 0; i < S; ++i) if (i < L || i > M) order.push_back(i);
    // some segments inside the hole region DO arrive (and are buffered): they become unnecessary when the application skips past them
    for (size_t i = L + 1; i < M; ++i) if (r.chance(1, 2)) order.push_back(i);
    for (size_t i = order.size(); i > 1; --i) std::swap(order[i - 1], order[r.below((u32)i)]);
    std::string d = "skip: n=" + std::to_string(n) + " isn=" + std::to_string(isn) + " segments=" + std::to_string(S) + " hole=[" + std::to_string(L) + "," + std::to_string(M) + ") order:"; for (size_t i : order) d += " " + std::to_string(i); describe_case(d);
    sig(mix(fnv(d), isn));
    const bool via_flow = r.chance(1, 3);
    DataTracker t(isn); Flow f(IPv4Address("10.0.0.2"), 80, isn); Bytes flow_got; f.data_callback([&](Flow& fl) { flow_got.insert(flow_got.end(), fl.payload().begin(), fl.payload().end()); fl.payload().clear(); });
    std::map<size_t, size_t> buf; size_t k = 0; Bytes want;      // model: buffered segments (start offset -> index), delivery offset, delivered bytes
    auto feed = [&](size_t i) {
        Bytes pl(s.begin() + cut[i], s.begin() + cut[i + 1]);
        if (via_flow) { TCP tcp(80, 40000); tcp.seq(isn + (u32)cut[i]); tcp.flags(TCP::ACK); EthernetII pkt = EthernetII() / IP("10.0.0.2", "10.0.0.1") / tcp / RawPDU(pl.data(), (u32)pl.size()); f.process_packet(pkt); }
        else t.process_payload(isn + (u32)cut[i], pl);
        if (cut[i] == k) { want.insert(want.end(), pl.begin(), pl.end()); k = cut[i + 1]; for (auto it = buf.begin(); it != buf.end() && it->first == k;) { want.insert(want.end(), s.begin() + cut[it->second], s.begin() + cut[it->second + 1]); k = cut[it->second + 1]; it = buf.erase(it); } }
        else if (cut[i] > k) buf[cut[i]] = i;
    };
    auto check = [&](const std::string& when) {
        const Bytes& got = via_flow ? flow_got : t.payload(); u32 seqn = via_flow ? f.sequence_number() : t.sequence_number(); const DataTracker::buffered_payload_type& bp = via_flow ? f.buffered_payload() : t.buffered_payload(); u32 tb = via_flow ? f.total_buffered_bytes() : t.total_buffered_bytes();
        const char* who = via_flow ? "Flow" : "DataTracker";
        if (got != want) { violation(std::string("skip/delivered/") + who, "delivered " + std::to_string(got.size()) + " bytes, expected " + std::to_string(want.size()) + " " + when + " :: " + d); return false; }
        if (seqn != isn + (u32)k) { violation(std::string("skip/sequence-number/") + who, "sequence_number()=" + std::to_string(seqn) + " expected " + std::to_string(isn + (u32)k) + " " + when + " :: " + d); return false; }
        u64 held = 0; for (auto& kv : buf) held += cut[kv.second + 1] - cut[kv.second];
        if (bp.size() != buf.size() || tb != held) { violation(std::string("skip/buffered/") + who, "buffered chunks " + std::to_string(bp.size()) + " / bytes " + std::to_string(tb) + ", expected " + std::to_string(buf.size()) + " / " + std::to_string(held) + " " + when + " :: " + d); return false; }
        for (auto& kv : buf) { auto it = bp.find(isn + (u32)kv.first); if (it == bp.end() || it->second != Bytes(s.begin() + kv.first, s.begin() + cut[kv.second + 1])) { violation(std::string("skip/buffered-content/") + who, "chunk at offset " + std::to_string(kv.first) + " missing or changed " + when + " :: " + d); return false; } }
        return true;
    };
    for (size_t i : order) { feed(i); if (!check("after segment " + std::to_string(i))) return; cnt("skip:packets"); }
    // the application skips the hole
    u32 target = isn + (u32)cut[M];
    if (via_flow) f.advance_sequence(target); else t.advance_sequence(target);
    for (auto it = buf.begin(); it != buf.end();) if (it->first < cut[M]) { it = buf.erase(it); cnt("skip:chunk-in-hole-dropped"); } else ++it;
    k = cut[M];
    if (!check("after advance_sequence to segment " + std::to_string(M))) return;
    if ((u64)isn + cut[M] > 0xffffffffULL && (u64)isn + k - (cut[M] - cut[L]) <= 0xffffffffULL) cnt("skip:hole-straddles-2^32");
    if ((u64)isn + n > 0xffffffffULL) cnt("skip:stream-wraps-2^32");
    if (!buf.empty()) cnt("skip:chunks-beyond-target-kept");
    feed(M); if (!check("after the segment skipped to")) return;
    // an advance to a position at or below the delivery point changes nothing
    if (via_flow) f.advance_sequence(isn + (u32)cut[L]); else t.advance_sequence(isn + (u32)cut[L]);
    if (!check("after a backwards advance_sequence")) return;
    cnt(via_flow ? "skip:histories:Flow" : "skip:histories:DataTracker");
}

// ---- generators -----------------------------------------------------------------------------
static u32 pick_isn(Rng& r, size_t len) {
    switch (r.below(8)) { case 0: return 0; case 1: return 1; case 2: return 0x7fffffffu; case 3: return 0x80000000u; case 4: return (u32)(0u - (u32)(len / 2)); case 5: return 0xffffffffu; case 6: return (u32)(0u - (u32)len); default: return (u32)r.next(); }
}
static History gen_random(Rng& r, bool thorough) {
    History h; size_t n;
    switch (r.below(10)) { case 0: n = 1 + r.below(8); break; case 1: n = thorough ? 1 + r.below(65536) : 1 + r.below(16384); break; default: n = 1 + r.below(4096); }
    h.s = r.bytes(n); h.isn = pick_isn(r, n);
    u32 mss = 1 + r.below(r.chance(1, 3) ? 64 : 1460);
    if (n / mss > 600) mss = (u32)(n / 600 + 1);
    for (size_t o = 0; o < n;) { u32 l = 1 + r.below(mss); if (o + l > n) l = (u32)(n - o); h.segs.push_back({(long)o, l}); o += l; }
    size_t base = h.segs.size(); size_t extra = r.below((u32)base + 4);
    for (size_t i = 0; i < extra; ++i) {
        switch (r.below(7)) {
            case 0: { h.segs.push_back(h.segs[r.below((u32)base)]); break; }                                  // exact duplicate
            case 1: { long o = r.below((u32)n); u32 l = 1 + r.below((u32)std::min<size_t>(n - o, 3 * mss)); h.segs.push_back({o, l}); break; }   // different boundaries
            case 2: { Seg g = h.segs[r.below((u32)base)]; u32 mx = (u32)(n - g.off); g.len = 1 + r.below(mx); h.segs.push_back(g); break; }      // same start, other length
            case 3: { long o = -(long)(1 + r.below(3000)); u32 l = r.below(4000); if (o + (long)l > (long)n) l = (u32)(n - o); h.segs.push_back({o, l}); break; }  // stale / straddling the ISN
            case 4: { h.segs.push_back({(long)r.below((u32)n + 1), 0}); break; }                              // zero length
            case 5: { size_t a = r.below((u32)base), b = std::min(base - 1, a + 1 + r.below(4)); h.segs.push_back({h.segs[a].off, (u32)(h.segs[b].off + h.segs[b].len - h.segs[a].off)}); break; }   // covers several
            default: { long o = r.below((u32)n); u32 l = 1 + r.below((u32)std::min<size_t>(n - o, 20)); h.segs.push_back({o, l}); }
        }
    }
    // arrival order: key = position + noise (tunable locality), or a full shuffle, or reversed
    u32 style = r.below(5); std::vector<std::pair<double, Seg>> keyed;
    double noise = style == 0 ? 0.0 : style == 1 ? 1e9 : (double)(1 + r.below((u32)n * 2 + 1));
    for (auto& g : h.segs) keyed.push_back({(double)g.off + noise * ((double)(r.next() >> 11) / 9007199254740992.0), g});
    if (style == 4) for (auto& kv : keyed) kv.first = -kv.first;
    std::stable_sort(keyed.begin(), keyed.end(), [](const std::pair<double, Seg>& a, const std::pair<double, Seg>& b) { return a.first < b.first; });
    for (size_t i = 0; i < keyed.size(); ++i) h.segs[i] = keyed[i].second;
    return h;
}

// exhaustive small scope: |s| = 6, every set of <= 4 distinct segments (off,len>=1), every order, 6 ISNs, direct + flow drivers
static std::vector<Seg> all_pairs(size_t n) { std::vector<Seg> v; for (size_t o = 0; o < n; ++o) for (size_t l = 1; o + l <= n; ++l) v.push_back({(long)o, (u32)l}); return v; }
static u64 exh_histories = 0;
static void run_exhaustive_set(const std::vector<Seg>& set, Rng& rng) {
    static const u32 isns[] = {0, 0x7ffffffeu, 0xfffffffdu, 0xfffffffau, 0xffffffffu, 0x12345678u};
    std::vector<int> perm(set.size()); for (size_t i = 0; i < perm.size(); ++i) perm[i] = (int)i;
    do {
        for (u32 isn : isns) {
            History h; h.s = {0x10, 0x21, 0x32, 0x43, 0x54, 0x65}; h.isn = isn;
            for (int p : perm) h.segs.push_back(set[p]);
            run_direct(h); ++exh_histories;
            u64 sg = fnv(&isn, 4); for (auto& g : h.segs) { sg = mix(sg, (u64)g.off * 131 + g.len); } sig(sg);
        }
        // the packet-level drivers on one ISN per order (they share the engine; this covers seq decoding)
        History h; h.s = {0x10, 0x21, 0x32, 0x43, 0x54, 0x65}; h.isn = isns[rng.below(6)];
        for (int p : perm) h.segs.push_back(set[p]);
        if (rng.chance(1, 6)) run_flow(h, rng);
        if (rng.chance(1, 6)) run_legacy(h, rng);
    } while (std::next_permutation(perm.begin(), perm.end()));
}

int main(int argc, char** argv) {
    std::vector<Seg> P = all_pairs(6);
    std::vector<std::vector<Seg>> sets;
    for (size_t a = 0; a < P.size(); ++a) { sets.push_back({P[a]}); for (size_t b = a + 1; b < P.size(); ++b) { sets.push_back({P[a], P[b]}); for (size_t c = b + 1; c < P.size(); ++c) { sets.push_back({P[a], P[b], P[c]}); for (size_t d = c + 1; d < P.size(); ++d) sets.push_back({P[a], P[b], P[c], P[d]}); } } }
    return vf::run(argc, argv, "C06", [&](long idx, Rng& rng) {
        const Args& a = st().a;
        if (a.mode == "exhaustive") {
            if ((size_t)idx >= sets.size()) return;
            std::string d = "exhaustive set:"; for (auto& g : sets[idx]) d += "(" + std::to_string(g.off) + "," + std::to_string(g.len) + ")"; describe_case(d);
            run_exhaustive_set(sets[idx], rng);
            cnt("exhaustive_sets"); cnt("exhaustive_histories", exh_histories); exh_histories = 0;
            if (idx == 0) cnt("exhaustive_sets_total", sets.size());
            return;
        }
        if (idx % 6 == 5) { run_skip(rng, a.tier == "thorough"); return; }
        History h = gen_random(rng, a.tier == "thorough");
        describe_case(show(h));
        u64 sg = 0; for (auto& g : h.segs) sg = mix(sg, (u64)(g.off + 5000) * 70001 + g.len); sig(mix(sg, h.isn));
        u32 drv = rng.below(10);
        if (drv < 5) { run_direct(h); cnt("histories:DataTracker"); }
        else if (drv < 8) { run_flow(h, rng); cnt("histories:Flow"); }
        else { run_legacy(h, rng); cnt("histories:TCPStreamFollower"); }
        if (want_sample() && h.segs.size() < 12) sample(show(h));
    });
}
