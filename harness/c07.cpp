// C07 — Stream follower tracks connections, directions and lifetimes correctly.
// Packet-driven reference connection table (keyed by family + unordered 4-tuple, per-direction
// interval/byte-function model, FIN/RST lifetime, buffer/SACK limits, lazy keep-alive) predicts the
// callback trace of the real Tins::TCPIP::StreamFollower; compared after EVERY packet, together
// with find_stream() and the public state of the touched stream.
// Every announced connection additionally gets a generated "application behaviour" (struct App): the per-stream user
// controls of stream.h (ignore_*_data, auto_cleanup_*, out-of-order callbacks, ack tracking, recovery mode,
// Flow::advance_sequence, callbacks replacing/unregistering themselves) are used from inside the callbacks the way
// examples/http_requests.cpp does, and the reference table is told the same behaviour (a pure function of case salt,
// 4-tuple and incarnation number), so that the lifetime clauses are checked whatever the application does.
#include "verif.h"
#include <tins/tins.h>
#include <tins/tcp_ip/stream_follower.h>
#include <algorithm>
#include <chrono>
using namespace Tins;
using namespace Tins::TCPIP;
using namespace vf;
typedef long long i64;

// ---- vocabulary -------------------------------------------------------------------------------
enum { F_FIN = 1, F_SYN = 2, F_RST = 4, F_PSH = 8, F_ACK = 16 };
struct Ep { bool v6 = false; u8 a[16] = {0}; u16 port = 0; };
static bool same(const Ep& x, const Ep& y) { return x.v6 == y.v6 && x.port == y.port && memcmp(x.a, y.a, 16) == 0; }
static std::string ep_bytes(const Ep& e, bool padded) { std::string s((const char*)e.a, padded ? 16 : (e.v6 ? 16 : 4)); s += (char)(e.port >> 8); s += (char)(e.port & 255); return s; }
static std::string mk_key(const Ep& x, const Ep& y, bool family = true) {
    std::string a = ep_bytes(x, !family), b = ep_bytes(y, !family); if (b < a) std::swap(a, b);
    return (family ? std::string(1, x.v6 ? '6' : '4') : std::string()) + a + b;
}
static std::string show(const Ep& e) {
    char b[80]; std::string s;
    if (!e.v6) { snprintf(b, sizeof b, "%u.%u.%u.%u", e.a[0], e.a[1], e.a[2], e.a[3]); s = b; }
    else { s = "["; for (int i = 0; i < 16; i += 2) { snprintf(b, sizeof b, "%s%x", i ? ":" : "", (e.a[i] << 8) | e.a[i + 1]); s += b; } s += "]"; }
    return s + ":" + std::to_string(e.port);
}
static u32 dir_salt(const Ep& src, const Ep& dst) { std::string s = ep_bytes(src, false) + "|" + ep_bytes(dst, false) + (src.v6 ? "6" : "4"); return (u32)fnv(s); }
// the byte every packet of direction `salt` carries at absolute sequence number `seq`
static inline u8 H(u32 salt, u32 seq) { u32 x = (seq ^ salt) * 0x9E3779B1u; x ^= x >> 15; x *= 0x85EBCA77u; return (u8)(x >> 24); }
static inline int seqcmp(u32 a, u32 b) { int32_t d = (int32_t)(a - b); return d < 0 ? -1 : d > 0 ? 1 : 0; }

struct Pkt {
    int script = -1; Ep src, dst; u8 flags = 0; u8 xflags = 0; u32 seq = 0, ack = 0, len = 0; bool raw = false;      // xflags: URG/ECE/CWR, bits no clause of C07 depends on (ECN-setup SYNs carry ECE|CWR)
    std::vector<u32> sack; bool mss = false; u16 mssv = 1460; bool sackp = false; u64 ts = 0; u8 link = 0; bool bytes_enc = false;
};
static std::string show(const Pkt& p) {
    std::string f; if (p.flags & F_SYN) f += "S"; if (p.flags & F_FIN) f += "F"; if (p.flags & F_RST) f += "R"; if (p.flags & F_ACK) f += "."; if (p.flags & F_PSH) f += "P"; if (p.xflags & 0x20) f += "U"; if (p.xflags & 0x40) f += "E"; if (p.xflags & 0x80) f += "C";
    std::string s = "t=" + std::to_string(p.ts) + " #" + std::to_string(p.script) + " " + show(p.src) + ">" + show(p.dst) + " [" + f + "] seq=" + std::to_string(p.seq) + " ack=" + std::to_string(p.ack) + " len=" + std::to_string(p.len) + (p.raw ? "" : " (no payload layer)");
    if (p.mss) s += " mss=" + std::to_string(p.mssv); if (p.sackp) s += " sackOK";
    if (!p.sack.empty()) { s += " sack="; for (size_t i = 0; i + 1 < p.sack.size(); i += 2) s += "(" + std::to_string(p.sack[i]) + "," + std::to_string(p.sack[i + 1]) + ")"; }
    return s;
}

// ---- interval set (half open, touching intervals are joined) --------------------------------------
struct Ivs {
    std::map<i64, i64> m;
    void add(i64 a, i64 b) {
        if (a >= b) return; auto it = m.upper_bound(a);
        if (it != m.begin()) { auto p = std::prev(it); if (p->second >= a) { a = p->first; b = std::max(b, p->second); it = m.erase(p); } }
        while (it != m.end() && it->first <= b) { b = std::max(b, it->second); it = m.erase(it); }
        m[a] = b;
    }
    void cut(i64 a, i64 b) {   // remove [a,b)
        if (a >= b) return; auto it = m.lower_bound(a);
        if (it != m.begin()) { auto p = std::prev(it); if (p->second > a) { i64 pe = p->second; p->second = a; if (pe > b) m[b] = pe; } }
        it = m.lower_bound(a);
        while (it != m.end() && it->first < b) { i64 e = it->second; it = m.erase(it); if (e > b) { m[b] = e; break; } }
    }
};

// ---- application behaviour: what the user code does with the per-stream controls of stream.h ---------------------
// Chosen when the stream is announced, as a pure function of (case salt, 4-tuple, incarnation number, partial?), so the
// callbacks of the real follower and the reference table derive the same behaviour independently of each other.
struct App {
    u8 ign_new = 0;                                   // bit 0 client / bit 1 server: ignore_*_data() called in the new-stream callback
    int ign_trig = -1; u32 ign_thr = 0; u8 ign_what = 0;   // data callback of direction ign_trig, once it has seen >= ign_thr bytes, ignores ign_what (http_requests.cpp)
    bool keep[2] = {false, false}; u8 keep_api = 0; u32 clear_thr[2] = {0, 0};   // automatic cleanup off; the application clears payload() itself at >= clear_thr (0: never)
    bool ooo[2] = {false, false}; u32 ooo_unreg[2] = {0, 0}; bool ooo_skip[2] = {false, false};   // out-of-order callback; unregisters itself after n reports; skips forward (Flow::advance_sequence)
    bool track = false; bool rec = false; u32 rec_win = 0; // enable_ack_tracking(); enable_recovery_mode(rec_win) (only right after attaching to a running flow)
    u32 swap_after[2] = {0, 0};                       // data callback replaces itself by a second std::function after n invocations
    bool plain() const { return !ign_new && ign_trig < 0 && !keep[0] && !keep[1] && !ooo[0] && !ooo[1] && !rec && !swap_after[0] && !swap_after[1]; }
};
static App app_of(u64 salt, const std::string& key, int gen, bool partial, bool cfg_tracking) {
    Rng r(mix(mix(salt, fnv(key)), (u64)gen * 2 + (partial ? 1 : 0))); App a;
#ifdef TINS_HAVE_ACK_TRACKER
    a.track = cfg_tracking || r.chance(1, 5);
#else
    (void)cfg_tracking;
#endif
    if (r.chance(1, 3)) return a;                                                       // an application that only listens
    u32 x = r.below(100);
    if (x < 10) a.ign_new = 1; else if (x < 20) a.ign_new = 2; else if (x < 26) a.ign_new = 3;
    else if (x < 50) { a.ign_trig = (int)r.below(2); a.ign_thr = 1 + r.below(r.chance(1, 2) ? 64 : 3000); a.ign_what = (u8)(1 + r.below(3)); }
    if (r.chance(2, 5)) { u32 w = r.below(4); a.keep[0] = w != 1; a.keep[1] = w != 0; a.keep_api = (u8)r.below(2); for (int d = 0; d < 2; ++d) if (a.keep[d] && r.chance(1, 3)) a.clear_thr[d] = 1 + r.below(2000); }
    if (partial && r.chance(3, 5)) { a.rec = true; static const u32 wins[] = {0, 1, 20, 1u << 20, 1u << 29}; u32 k = r.below(12); a.rec_win = k < 5 ? wins[k] : k < 8 ? 1 + r.below(64) : 1 + r.below(4000); }
    if (r.chance(1, 2)) {
        u32 w = r.below(4); a.ooo[0] = w != 1; a.ooo[1] = w != 0;
        for (int d = 0; d < 2; ++d) if (a.ooo[d]) { if (!a.rec && r.chance(1, 6)) a.ooo_unreg[d] = 1 + r.below(6); else if (r.chance(1, 8)) a.ooo_skip[d] = true; }
    }
    for (int d = 0; d < 2; ++d) if (r.chance(1, 4)) a.swap_after[d] = 1 + r.below(5);
    return a;
}

static std::string show(const App& a) {
    std::string s = "app{";
    if (a.ign_new) s += std::string(" ignore-from-start=") + (a.ign_new == 1 ? "client" : a.ign_new == 2 ? "server" : "both");
    if (a.ign_trig >= 0) s += std::string(" ignore-") + (a.ign_what == 1 ? "client" : a.ign_what == 2 ? "server" : "both") + "-from-" + (a.ign_trig ? "server" : "client") + "-data-callback-at>=" + std::to_string(a.ign_thr);
    for (int d = 0; d < 2; ++d) { const char* dn = d ? "server" : "client"; if (a.keep[d]) s += std::string(" no-auto-cleanup-") + dn + (a.clear_thr[d] ? "(app clears at>=" + std::to_string(a.clear_thr[d]) + ")" : std::string());
        if (a.ooo[d]) s += std::string(" ooo-callback-") + dn + (a.ooo_unreg[d] ? "(unregisters after " + std::to_string(a.ooo_unreg[d]) + ")" : a.ooo_skip[d] ? "(advance_sequence)" : "");
        if (a.swap_after[d]) s += std::string(" ") + dn + "-data-callback-replaced-after-" + std::to_string(a.swap_after[d]); }
    if (a.track) s += " ack-tracking"; if (a.rec) s += " recovery-window=" + std::to_string(a.rec_win);
    return s + " }";
}

// ---- reference model ---------------------------------------------------------------------------
enum { ST_UNKNOWN, ST_SYN, ST_EST, ST_FIN, ST_RST };
enum { OOO_NO, OOO_MUST, OOO_MAY };
static const size_t LIM_CHUNKS = 512, LIM_SACK = 1024; static const u64 LIM_BYTES = 3ull * 1024 * 1024;
struct Side {
    // k = number of bytes delivered so far; the delivery point is start + k (start is re-based when the application skips forward)
    Ep ep; int st = ST_UNKNOWN; u32 start = 0; u64 k = 0; Ivs arrived; u32 salt = 0;
    std::map<i64, u32> chunks; u64 chunk_bytes = 0; bool disciplined = true; u64 nsegs = 0, nbytes = 0;
    bool trk_sack = false; u32 ackno = 0; Ivs sacked; bool sack_amb = false;
    int mss = -1; bool sackp = false;                                                   // taken from the SYN that started this direction
    bool ign = false;                                                                   // the application called ignore_*_data() for this direction
    bool skip_all = false;                                                              // the application's out-of-order callback skips forward to every non-empty segment beyond the delivery point
    bool rec = false, rec_may_clear = false, wrap_exposed = false; u32 rec_x = 0, rec_win = 0, rec_end = 0;   // recovery mode (stream.h): window (X, X+Y]
    int ooo_expect = OOO_NO; u64 nskips = 0;
    std::vector<std::pair<u64, u32>> pieces;                                            // (delivered-byte index, sequence number of that byte): piecewise map index -> sequence number
    void rebase() { pieces.push_back({k, start + (u32)k}); }
    u32 seq_at(u64 i) const { for (size_t q = pieces.size(); q-- > 0;) if (pieces[q].first <= i) return pieces[q].second + (u32)(i - pieces[q].first); return start + (u32)i; }
    void reset_tracker(u32 a) { ackno = a; trk_sack = true; sacked.m.clear(); }
    void on_flags(const Pkt& p) {       // runs whether or not the direction's data is ignored ("the flow will just be followed to keep track of its state")
        const u8 f = p.flags;
        if (f & F_FIN) st = ST_FIN;
        else if (f & F_RST) st = ST_RST;
        else if (st == ST_SYN && (f & F_ACK)) { st = ST_EST; reset_tracker(p.ack); }
        else if (st == ST_UNKNOWN && (f & F_SYN)) { st = ST_SYN; start = p.seq + 1 - (u32)k; rebase(); if (k || !arrived.m.empty()) disciplined = false; reset_tracker(p.ack); mss = p.mss ? (int)p.mssv : -1; sackp = p.sackp; }
    }
    void on_ack(u32 ack, const std::vector<u32>& sk) {      // only when ack tracking is enabled for the stream
        if ((u32)(ack - ackno) == 0x80000000u) sack_amb = true;                         // exactly half the number space apart: order undefined (RFC 1982)
        if (seqcmp(ack, ackno) > 0) {
            if (ackno <= ack) sacked.cut(ackno, (i64)ack + 1); else { sacked.cut(ackno, 1ll << 32); sacked.cut(0, (i64)ack + 1); }
            ackno = ack;
        }
        if (!trk_sack) { if (!sk.empty()) cnt("sack:ignored-no-syn-seen"); return; }
        for (size_t i = 1; i < sk.size(); i += 2) {
            u32 l = sk[i - 1], r = sk[i]; if (seqcmp(l, r) >= 0) continue; u32 last = r - 1;
            if (seqcmp(last, ackno) <= 0) continue;
            if (l > last || l == 0 || last == 0xffffffffu || seqcmp(l, ackno + 1) <= 0) { sack_amb = true; continue; }   // outside what the generator promises
            sacked.add(l, (i64)last + 1);
        }
    }
    // The application (or recovery mode on its behalf) moves the delivery point forward by rel > 0 bytes: Flow::advance_sequence.
    // Segments buffered at or before the target are obsolete. flow.h does not say what happens to a buffered segment that
    // STRADDLES the target (the engine drops it whole); with the applications generated here the buffer of the direction is
    // empty at every skip, so this is followed and counted, not asserted.
    void skip_to(i64 rel) {
        std::map<i64, u32> nc; u64 nb = 0; Ivs na;
        for (auto& c : chunks) { i64 o = c.first - (i64)k; if (o <= rel) { if (o + (i64)c.second > rel) cnt("obs:skip-dropped-buffered-bytes-beyond-target"); continue; } nc[c.first - rel] = c.second; nb += c.second; na.add(c.first - rel, c.first - rel + (i64)c.second); }
        chunks.swap(nc); chunk_bytes = nb; arrived = na; start += (u32)rel; rebase(); ++nskips;
    }
    // one payload-carrying segment of a direction that is not ignored; returns number of newly deliverable bytes
    u64 on_data(u32 seq, u32 len) {
        ++nsegs; nbytes += len;
        u32 cur = start + (u32)k; i64 rel = (int32_t)(seq - cur), end = rel + (i64)len;
        // Out-of-order callback: a non-empty segment that starts beyond the delivery point must be reported (once, with its
        // sequence number and bytes); one that starts at or before it and reaches it must not. For segments that end before
        // the delivery point (the engine reports them as well) and for empty segments the headers promise nothing: observed only.
        ooo_expect = end < 0 ? OOO_MAY : rel > 0 ? (len ? OOO_MUST : OOO_MAY) : OOO_NO;
        const bool reported = rel > 0 || end < 0;                                        // what the engine hands to the out-of-order callback (and so to the recovery handler chained behind it)
        if (skip_all && rel > 0 && len) { cnt("skip:application-advanced-sequence"); skip_to(rel); cur += (u32)rel; rel = 0; end = len; }
        if (rec && reported) {
            // stream.h: while recovery mode is on, an out of order packet with a sequence number in (X, X+Y] (X = sequence number
            // when the mode was enabled, Y = window) makes the flow continue at that packet; the mode ends with an out of order
            // packet outside the window. Sequence numbers are compared as TCP compares them (modulo 2^32).
            const bool in_win = (u32)(seq - rec_x) - 1u < rec_win, doc_skip = rel > 0 && in_win, doc_keep = seqcmp(rec_end, seq) > 0;
            const bool eng_skip = rel > 0 && seq > cur && seq <= rec_end, eng_keep = rec_end > seq;      // the same decisions with plain unsigned comparisons
            if (doc_skip != eng_skip || doc_keep != eng_keep) wrap_exposed = true;
            if (!(in_win && seq != rec_end)) rec_may_clear = true;
            if (doc_skip) { cnt("rec:skipped-to-segment-in-window"); skip_to(rel); rel = 0; end = len; } else if (rel > 0) cnt("rec:segment-beyond-window-buffered");
            if (!doc_keep) { rec = false; cnt("rec:window-left"); }
        }
        if (end < 0) { cnt("br:ignored-old"); return 0; }
        i64 a = std::max<i64>(rel, 0), A = (i64)k + a, B = (i64)k + end;
        if (rel < 0 && end > 0) cnt("br:slice-on-entry"); else if (rel > 0) cnt("br:out-of-order"); else if (rel == 0 && len) cnt("br:in-order");
        if (B == A && A != (i64)k) disciplined = false;                                   // empty out-of-order chunk: counting not defined by the statement
        if (B > A) {
            auto it = chunks.lower_bound(A);
            if (it != chunks.end() && it->first == A) { if (it->second != (u32)(B - A)) disciplined = false; if (it->second < (u32)(B - A)) { chunk_bytes += (u32)(B - A) - it->second; it->second = (u32)(B - A); } }
            else {
                if (it != chunks.end() && it->first < B) disciplined = false;
                if (it != chunks.begin()) { auto p = std::prev(it); if (p->first + (i64)p->second > A) disciplined = false; }
                chunks[A] = (u32)(B - A); chunk_bytes += (u32)(B - A);
            }
            arrived.add(A, B);
        }
        u64 before = k;
        if (!arrived.m.empty() && arrived.m.begin()->first == (i64)k) { k = (u64)arrived.m.begin()->second; arrived.m.erase(arrived.m.begin()); }
        while (!chunks.empty() && chunks.begin()->first < (i64)k) { if (chunks.begin()->first + (i64)chunks.begin()->second > (i64)k) disciplined = false; chunk_bytes -= chunks.begin()->second; chunks.erase(chunks.begin()); }
        return k - before;
    }
};
struct Inc {   // one incarnation of a connection in the reference table
    int ann = -1; bool v6 = false, partial = false, tracking = false; Side c, s; u64 created = 0, last_seen = 0; std::string key;
    bool dead = false; App app; int gen = 0; bool ign_fired = false, wrap_seen = false, quar = false;
    bool finished() const { return c.st == ST_RST || s.st == ST_RST || (c.st == ST_FIN && s.st == ST_FIN); }
    size_t chunks() const { return c.chunks.size() + s.chunks.size(); }
    u64 bytes() const { return c.chunk_bytes + s.chunk_bytes; }
    size_t sacked() const { return c.sacked.m.size() + s.sacked.m.size(); }
};

// ---- what the callbacks of the real follower record -------------------------------------------------
struct Ann {   // one announcement by the follower
    Stream* handle = nullptr; std::string key; Ep c, s; bool partial = false; i64 create_time = 0; u8 chw[6], shw[6];
    Bytes fresh[2]; u64 verified[2] = {0, 0}; u64 seen_total[2] = {0, 0}; bool shrink[2] = {false, false};
    int closed = 0, terminated = 0;
    // the application living in the callbacks
    App app; int gen = 0; u64 held[2] = {0, 0}, cleared[2] = {0, 0}, chk_size[2] = {~0ull, ~0ull}; bool ign_fired = false;
    bool ooo_live[2] = {false, false}, ooo_live0[2] = {false, false}; u32 ooo_n[2] = {0, 0}, data_calls[2] = {0, 0};
    bool rec_flag_before = false, trk_flag_before = false, trk_flag_after = false, rec_flag_after = false;
};
enum { EV_NEW, EV_CDATA, EV_SDATA, EV_CLOSED, EV_TERM };
struct Ev { int type; int ann; int reason; };
struct OooRep { int ann; int dir; u32 seq; Bytes data; };   // one invocation of an out-of-order callback

static Ep ep_of(const Stream& s, bool client) {
    Ep e; e.v6 = s.is_v6(); e.port = client ? s.client_port() : s.server_port();
    if (e.v6) { IPv6Address a = client ? s.client_addr_v6() : s.server_addr_v6(); std::copy(a.begin(), a.end(), e.a); }
    else { u32 v = (u32)(client ? s.client_addr_v4() : s.server_addr_v4()); memcpy(e.a, &v, 4); }
    return e;
}
static IPv4Address v4(const Ep& e) { u32 v; memcpy(&v, e.a, 4); return IPv4Address(v); }
static IPv6Address v6(const Ep& e) { return IPv6Address(e.a); }
static void mac_of(const Ep& e, u8* m) { u64 h = fnv(ep_bytes(e, false).substr(0, e.v6 ? 16 : 4)); m[0] = 2; for (int i = 1; i < 6; ++i) m[i] = (u8)(h >> (8 * i)); }

// ---- own wire encoder (used for a share of the packets so that parsed packets are in the loop too) ------
static void put16(Bytes& b, u16 v) { b.push_back((u8)(v >> 8)); b.push_back((u8)v); }
static void put32(Bytes& b, u32 v) { put16(b, (u16)(v >> 16)); put16(b, (u16)v); }
static Bytes encode(const Pkt& p, const u8* payload) {
    Bytes tcp; put16(tcp, p.src.port); put16(tcp, p.dst.port); put32(tcp, p.seq); put32(tcp, p.ack);
    Bytes opt; if (p.mss) { opt.push_back(2); opt.push_back(4); put16(opt, p.mssv); } if (p.sackp) { opt.push_back(4); opt.push_back(2); }
    if (!p.sack.empty()) { opt.push_back(5); opt.push_back((u8)(2 + 4 * p.sack.size())); for (u32 e : p.sack) put32(opt, e); }
    while (opt.size() % 4) opt.push_back(1);
    tcp.push_back((u8)(((20 + opt.size()) / 4) << 4)); tcp.push_back((u8)(p.flags | p.xflags)); put16(tcp, 65535); put16(tcp, 0); put16(tcp, 0);
    tcp.insert(tcp.end(), opt.begin(), opt.end()); tcp.insert(tcp.end(), payload, payload + p.len);
    Bytes out;
    if (p.link == 0) { u8 m[6]; mac_of(p.dst, m); out.insert(out.end(), m, m + 6); mac_of(p.src, m); out.insert(out.end(), m, m + 6); put16(out, p.src.v6 ? 0x86dd : 0x0800); }
    if (p.src.v6) { put32(out, 0x60000000u); put16(out, (u16)tcp.size()); out.push_back(6); out.push_back(64); out.insert(out.end(), p.src.a, p.src.a + 16); out.insert(out.end(), p.dst.a, p.dst.a + 16); }
    else {
        size_t h = out.size(); out.push_back(0x45); out.push_back(0); put16(out, (u16)(20 + tcp.size())); put16(out, (u16)(p.seq >> 3)); put16(out, 0x4000); out.push_back(64); out.push_back(6); put16(out, 0);
        out.insert(out.end(), p.src.a, p.src.a + 4); out.insert(out.end(), p.dst.a, p.dst.a + 4);
        u32 sum = 0; for (size_t i = h; i < h + 20; i += 2) sum += (out[i] << 8) | out[i + 1]; while (sum >> 16) sum = (sum & 0xffff) + (sum >> 16); sum = ~sum & 0xffff; out[h + 10] = (u8)(sum >> 8); out[h + 11] = (u8)sum;
    }
    out.insert(out.end(), tcp.begin(), tcp.end());
    return out;
}
static PDU* build(const Pkt& p) {
    Bytes pl(p.len); u32 salt = dir_salt(p.src, p.dst); for (u32 i = 0; i < p.len; ++i) pl[i] = H(salt, p.seq + i);
    if (p.bytes_enc) {
        Bytes w = encode(p, pl.data()); ExactBuf eb(w); cnt("pkt:parsed-from-own-bytes");
        if (p.link == 0) return new EthernetII(eb.data(), (u32)eb.n);
        if (p.src.v6) return new IPv6(eb.data(), (u32)eb.n);
        return new IP(eb.data(), (u32)eb.n);
    }
    cnt("pkt:built-as-objects");
    TCP* t = new TCP(p.dst.port, p.src.port); t->seq(p.seq); t->ack_seq(p.ack); t->flags((u8)(p.flags | p.xflags));
    if (p.mss) t->mss(p.mssv); if (p.sackp) t->sack_permitted();
    if (!p.sack.empty()) t->sack(p.sack);
    if (p.raw) t->inner_pdu(new RawPDU(pl.data(), (u32)pl.size()));
    PDU* l3;
    if (p.src.v6) { IPv6* ip = new IPv6(v6(p.dst), v6(p.src)); ip->inner_pdu(t); l3 = ip; } else { IP* ip = new IP(v4(p.dst), v4(p.src)); ip->inner_pdu(t); l3 = ip; }
    if (p.link != 0) return l3;
    u8 d[6], s[6]; mac_of(p.dst, d); mac_of(p.src, s);
    EthernetII* e = new EthernetII(EthernetII::address_type(d), EthernetII::address_type(s)); e->inner_pdu(l3); return e;
}

// ---- generator --------------------------------------------------------------------------------------
enum { K_NORMAL, K_CHUNKS, K_BYTES, K_SACK };
struct Script { Ep c, s; int kind = K_NORMAL; std::string what; std::vector<Pkt> pk; bool ends_with_rst = false; u64 t_end = 0; };
struct Cfg { bool attach = false, tracking = false, set_ka = true; u64 ka = 300000000ull; int ka_unit = 0; u64 t0 = 0; bool alias = false; int bytes_share = 3; };

struct SegG { i64 off; u32 len; };
// C06-style segment multiset for a stream of n bytes (offsets relative to ISN+1), in a perturbed arrival order
static std::vector<SegG> gen_segs(Rng& r, size_t n, size_t cap) {
    std::vector<SegG> v; if (!n) return v;
    u32 mss = 1 + r.below(r.chance(1, 3) ? 64 : 1460); if (n / mss > cap / 2) mss = (u32)(n / (cap / 2) + 1);
    for (size_t o = 0; o < n;) { u32 l = 1 + r.below(mss); if (o + l > n) l = (u32)(n - o); v.push_back({(i64)o, l}); o += l; }
    size_t base = v.size(), extra = r.below((u32)std::min(base, cap / 2) + 3);
    for (size_t i = 0; i < extra; ++i) switch (r.below(7)) {
        case 0: v.push_back(v[r.below((u32)base)]); break;
        case 1: { i64 o = r.below((u32)n); u32 l = 1 + r.below((u32)std::min<size_t>(n - o, 3 * mss)); v.push_back({o, l}); break; }
        case 2: { SegG g = v[r.below((u32)base)]; g.len = 1 + r.below((u32)(n - g.off)); if (g.len > 4000) g.len = 4000; v.push_back(g); break; }
        case 3: { i64 o = -(i64)(1 + r.below(3000)); u32 l = 1 + r.below((u32)(-o) + (u32)std::min<size_t>(n, r.chance(1, 8) ? 4000 : 200)); v.push_back({o, l}); break; }   // stale, mostly reaching only a little into the stream
        case 4: v.push_back({(i64)r.below((u32)n + 1), 0}); break;
        case 5: { size_t a = r.below((u32)base), b = std::min(base - 1, a + 1 + r.below(4)); v.push_back({v[a].off, (u32)(v[b].off + v[b].len - v[a].off)}); break; }
        default: { i64 o = r.below((u32)n); v.push_back({o, 1 + r.below((u32)std::min<size_t>(n - o, 20))}); }
    }
    u32 style = r.below(5); std::vector<std::pair<double, SegG>> keyed; double noise = style == 0 ? 0.0 : style == 1 ? 1e9 : (double)(1 + r.below((u32)n * 2 + 1));
    for (auto& g : v) keyed.push_back({(double)g.off + noise * ((double)(r.next() >> 11) / 9007199254740992.0), g});
    if (style == 4) for (auto& kv : keyed) kv.first = -kv.first;
    std::stable_sort(keyed.begin(), keyed.end(), [](const std::pair<double, SegG>& a, const std::pair<double, SegG>& b) { return a.first < b.first; });
    for (size_t i = 0; i < keyed.size(); ++i) v[i] = keyed[i].second;
    return v;
}
static u32 pick_isn(Rng& r) { switch (r.below(8)) { case 0: return 0; case 1: return 0xffffffffu; case 2: return 0x7fffffffu; case 3: return 0xfffffffeu - r.below(3000); case 4: return 0x80000000u - r.below(2000); case 5: return 0xffffffffu - r.below(70000); default: return (u32)r.next(); } }

static u64 gap(Rng& r, u64 ka, int quiet) {
    u32 x = r.below(1000);
    if (x < (u32)(1000 - quiet)) return r.below(4) ? r.below64(ka / 64 + 1) : 0;
    switch (r.below(9)) { case 0: return ka - 1; case 1: return ka; case 2: return ka + 1; case 3: return ka + r.below64(ka); case 4: return 2 * ka - 1; case 5: return 2 * ka; case 6: return 2 * ka + 1; case 7: return ka / 2 + r.below64(ka / 2); default: return 3 * ka + r.below64(ka); }
}

struct Gen {
    Rng& r; Cfg& cfg; std::vector<Script> scripts; std::set<std::string> keys, padkeys4, padkeys6; std::vector<Ep> hosts;
    Gen(Rng& rr, Cfg& c) : r(rr), cfg(c) {}
    Ep rand_host(bool six) { Ep e; e.v6 = six; for (int i = 0; i < (six ? 16 : 4); ++i) e.a[i] = r.byte(); if (!six && e.a[0] == 0) e.a[0] = 10; if (six) { e.a[0] = 0x20; e.a[1] = 0x01; } return e; }
    Ep embed(const Ep& v4e, int how) { Ep e; e.v6 = true; e.port = v4e.port; if (how == 0) { e.a[10] = e.a[11] = 0xff; memcpy(e.a + 12, v4e.a, 4); } else if (how == 1) memcpy(e.a + 12, v4e.a, 4); else memcpy(e.a, v4e.a, 4); return e; }
    u16 rand_port() { static const u16 common[] = {80, 443, 22, 8080, 1, 65535, 0}; return r.chance(1, 4) ? common[r.below(7)] : (u16)r.range(1024, 65535); }
    bool pick_tuple(Ep& c, Ep& s) {
        for (int tries = 0; tries < 50; ++tries) {
            u32 how = scripts.empty() ? 0 : r.below(12);
            if (how <= 3) {
                bool six = r.chance(1, 3);
                auto host = [&]() { std::vector<Ep> same_f; for (auto& h : hosts) if (h.v6 == six) same_f.push_back(h); if (!same_f.empty() && r.chance(2, 3)) return r.pick(same_f); Ep h = rand_host(six); hosts.push_back(h); return h; };
                c = host(); s = host(); c.port = rand_port(); s.port = rand_port(); cnt("tuple:fresh");
            } else {
                const Script& b = scripts[r.below((u32)scripts.size())]; c = b.c; s = b.s;
                switch (how) {
                    case 4: c.port = (u16)(c.port + 1); cnt("tuple:client-port+1"); break;
                    case 5: s.port = (u16)(s.port + (r.chance(1, 2) ? 1 : 0xffff)); cnt("tuple:server-port+-1"); break;
                    case 6: std::swap(c.port, s.port); cnt("tuple:ports-swapped-between-hosts"); break;
                    case 7: { Ep t = c; c = s; s = t; std::swap(c.port, s.port); cnt("tuple:roles-swapped-same-ports"); break; }
                    case 8: if (c.v6 || !r.chance(1, 3)) continue; { int h = r.below(3); if (h == 2 && r.chance(1, 2)) h = r.below(2); c = embed(c, h); s = embed(s, h); cnt(h == 2 ? "tuple:v4-embedded-leading" : h == 1 ? "tuple:v4-compatible" : "tuple:v4-mapped"); } break;
                    case 9: memcpy(s.a, c.a, 16); if (s.port == c.port) s.port = (u16)(c.port + 1); cnt("tuple:same-address-both-sides"); break;
                    case 10: { int i = c.v6 ? 15 : 3; c.a[i] = (u8)(c.a[i] + 1); cnt("tuple:neighbour-address"); break; }
                    default: { Ep t = c; c = s; s = t; c.port = (u16)(c.port ^ 1); cnt("tuple:reversed-one-port-bit"); }
                }
            }
            if (same(c, s)) continue;
            std::string k = mk_key(c, s); if (keys.count(k)) continue;
            keys.insert(k); (c.v6 ? padkeys6 : padkeys4).insert(mk_key(c, s, false));
            return true;
        }
        return false;
    }
    Pkt mk(const Script& sc, int idx, bool from_c, u8 flags, u32 seq, u32 ack, u32 len) {
        Pkt p; p.script = idx; p.src = from_c ? sc.c : sc.s; p.dst = from_c ? sc.s : sc.c; p.flags = flags; p.seq = seq; p.ack = ack; p.len = len; p.raw = len > 0;
        p.bytes_enc = r.below(10) < (u32)cfg.bytes_share && len < 60000; p.link = r.chance(3, 4) ? 0 : 1;
        if (r.chance(1, 5)) { p.xflags = (flags & F_SYN) ? (u8)((flags & F_ACK) ? 0x40 : 0xc0) : (u8)((r.below(8)) << 5); if (p.xflags) cnt((flags & F_SYN) ? "pkt:ecn-setup-syn" : "pkt:urg-ece-cwr-bits"); }
        return p;
    }
    void handshake(Script& sc, int idx, u32 ic, u32 is, bool third = true) {
        static const u16 mv[] = {1460, 536, 1, 65535, 0, 9000};
        Pkt a = mk(sc, idx, true, F_SYN, ic, 0, 0); a.mss = r.chance(1, 2); a.mssv = mv[r.below(6)]; a.sackp = r.chance(1, 2); sc.pk.push_back(a);
        Pkt b = mk(sc, idx, false, F_SYN | F_ACK, is, ic + 1, 0); b.mss = r.chance(1, 2); b.mssv = mv[r.below(6)]; b.sackp = r.chance(1, 2); sc.pk.push_back(b);
        if (third) sc.pk.push_back(mk(sc, idx, true, F_ACK, ic + 1, is + 1, 0));
    }
    void stamp(Script& sc, u64 t, int quiet, u64 small_div = 1) {
        for (auto& p : sc.pk) { u64 g = small_div > 1 ? r.below64(cfg.ka / small_div + 1) : gap(r, cfg.ka, quiet); t += g; p.ts = t; }
        sc.t_end = t;
    }
    // a normal connection script
    void normal(int idx, u64 t0, const Ep* reuse_c = nullptr, const Ep* reuse_s = nullptr) {
        Script sc; if (reuse_c) { sc.c = *reuse_c; sc.s = *reuse_s; } else if (!pick_tuple(sc.c, sc.s)) return;
        u32 ic = pick_isn(r), is = pick_isn(r);
        bool hs = cfg.attach ? r.chance(1, 2) : !r.chance(1, 16);
        size_t big = r.chance(1, 12) ? 16384 : r.chance(1, 3) ? 64 : 2500;
        size_t nc = r.chance(1, 8) ? 0 : 1 + r.below((u32)big), ns = r.chance(1, 8) ? 0 : 1 + r.below((u32)big);
        std::vector<SegG> gc = gen_segs(r, nc, 140), gs = gen_segs(r, ns, 140);
        if (hs) handshake(sc, idx, ic, is, !r.chance(1, 5));
        bool lossy = false;
        if (!hs && cfg.attach && r.chance(1, 3)) {     // the capture started after, and lost, the beginning: nothing below offset L of a direction is ever seen
            u32 which = 1 + r.below(3);
            for (int d = 0; d < 2; ++d) if (which & (1 << d)) { std::vector<SegG>& g = d ? gs : gc; size_t n = d ? ns : nc; if (n < 2) continue; i64 L = 1 + (i64)r.below((u32)std::min<size_t>(n - 1, r.chance(1, 2) ? 40 : 3000)); std::vector<SegG> kept; for (auto& x : g) if (x.off >= L) kept.push_back(x); if (!kept.empty() && kept.size() < g.size()) { g.swap(kept); lossy = true; } }
            if (lossy) cnt("gen:mid-stream-with-lost-beginning");
        }
        size_t first_data = sc.pk.size();
        Ivs sentc, sents; size_t i = 0, j = 0; bool sackful = cfg.tracking && r.chance(1, 3);
        auto contig = [](Ivs& v) { return (!v.m.empty() && v.m.begin()->first <= 0) ? (u32)v.m.begin()->second : 0u; };
        while (i < gc.size() || j < gs.size()) {
            bool fc = j >= gs.size() || (i < gc.size() && r.chance((u32)(gc.size() - i), (u32)(gc.size() - i + gs.size() - j)));
            const SegG& g = fc ? gc[i++] : gs[j++]; (fc ? sentc : sents).add(std::max<i64>(g.off, 0), g.off + (i64)g.len);
            u32 other_isn = fc ? is : ic; u32 ackv = other_isn + 1 + contig(fc ? sents : sentc);
            Pkt p = mk(sc, idx, fc, F_ACK | (r.chance(1, 6) ? F_PSH : 0), (fc ? ic : is) + 1 + (u32)g.off, ackv, g.len);
            if (g.len == 0 && !cfg.attach && r.chance(1, 2)) { p.raw = true; p.bytes_enc = false; }       // empty payload layer
            if (sackful && r.chance(1, 4)) { u32 n = 1 + r.below(3); u32 l = ackv + 5 + r.below(50); for (u32 q = 0; q < n; ++q) { u32 w = 2 + r.below(30); p.sack.push_back(l); p.sack.push_back(l + w); l += w + 2 + r.below(40); } }
            sc.pk.push_back(p);
        }
        // close
        u32 fin_c = ic + 1 + (u32)nc, fin_s = is + 1 + (u32)ns; int close = r.below(10); size_t before_close = sc.pk.size();
        auto fin = [&](bool c) { return mk(sc, idx, c, F_FIN | F_ACK, c ? fin_c : fin_s, c ? fin_s : fin_c, 0); };
        auto rst = [&](bool c, bool after_own_fin) { return mk(sc, idx, c, F_RST | (r.chance(1, 2) ? F_ACK : 0), (c ? fin_c : fin_s) + (after_own_fin ? 1 : 0), c ? fin_s : fin_c, 0); };
        switch (close) {
            case 0: case 1: { bool cf = r.chance(1, 2); sc.pk.push_back(fin(cf)); if (r.chance(1, 2)) sc.pk.push_back(mk(sc, idx, !cf, F_ACK, cf ? fin_s : fin_c, (cf ? fin_c : fin_s) + 1, 0)); sc.pk.push_back(fin(!cf)); if (r.chance(1, 2)) sc.pk.push_back(mk(sc, idx, cf, F_ACK, (cf ? fin_c : fin_s) + 1, (cf ? fin_s : fin_c) + 1, 0)); sc.what = cf ? "fin-fin(client first)" : "fin-fin(server first)"; break; }
            case 2: sc.pk.push_back(rst(true, false)); sc.what = "rst-by-client"; sc.ends_with_rst = true; break;
            case 3: sc.pk.push_back(rst(false, false)); sc.what = "rst-by-server"; sc.ends_with_rst = true; break;
            case 4: { bool c = r.chance(1, 2); sc.pk.push_back(fin(c)); if (r.chance(1, 2)) sc.pk.push_back(mk(sc, idx, !c, F_ACK, c ? fin_s : fin_c, (c ? fin_c : fin_s) + 1, 0)); sc.pk.push_back(rst(c, true)); sc.what = "fin-then-rst-same-side"; sc.ends_with_rst = true; break; }
            case 5: { bool c = r.chance(1, 2); sc.pk.push_back(fin(c)); sc.pk.push_back(rst(!c, false)); sc.what = "fin-then-rst-other-side"; sc.ends_with_rst = true; break; }
            case 6: { bool c = r.chance(1, 2); sc.pk.push_back(fin(c)); int more = r.below(4); for (int q = 0; q < more; ++q) sc.pk.push_back(mk(sc, idx, !c, F_ACK, c ? fin_s : fin_c, (c ? fin_c : fin_s) + 1, 0)); if (r.chance(1, 2)) sc.pk.push_back(fin(c)); sc.what = "half-close-only"; break; }
            case 7: { bool cf = r.chance(1, 2); size_t a = sc.pk.size(); sc.pk.push_back(fin(cf)); sc.pk.push_back(fin(!cf));     // FINs piggybacked / moved before late data
                      for (size_t q = a; q < sc.pk.size(); ++q) if (q > first_data + 1 && r.chance(1, 2)) { size_t to = q - 1 - r.below((u32)std::min<size_t>(q - first_data - 1, 5)); Pkt t = sc.pk[q]; sc.pk.erase(sc.pk.begin() + q); sc.pk.insert(sc.pk.begin() + to, t); }
                      sc.what = "fin-fin(reordered with data)"; break; }
            default: sc.what = "left-open";
        }
        // duplicates of data-phase packets inside the data phase, and strays after the close
        if (before_close > first_data) {
            u32 dups = r.below(4); for (u32 q = 0; q < dups; ++q) { size_t from = first_data + r.below((u32)(before_close - first_data)); Pkt d = sc.pk[from]; size_t lim = sc.ends_with_rst ? sc.pk.size() - 1 : sc.pk.size(); size_t to = from + r.below((u32)(lim - from + 1)); sc.pk.insert(sc.pk.begin() + to, d); if (to >= before_close) cnt("gen:stray-after-close"); }
        }
        if (!hs) sc.what += cfg.attach ? (lossy ? ",mid-stream,beginning-lost" : ",mid-stream") : ",mid-stream(must stay unannounced)";
        sc.what += " isn=" + std::to_string(ic) + "/" + std::to_string(is) + " bytes=" + std::to_string(nc) + "/" + std::to_string(ns);
        stamp(sc, t0, r.chance(1, 4) ? 60 : 8);
        bool rst_end = sc.ends_with_rst; u64 te = sc.t_end; Ep c = sc.c, s = sc.s; scripts.push_back(sc);
        if (rst_end && !reuse_c && r.chance(1, 3)) { cnt("gen:tuple-reused-after-rst"); bool sw = r.chance(1, 2); normal(idx + 1000, te + r.below64(cfg.ka / 8 + 1), sw ? &s : &c, sw ? &c : &s); }
    }
    // limit scripts: every buffered segment is disjoint from every other (or an exact duplicate), so the chunk count is unambiguous
    void limit_chunks(int idx, u64 t0) {
        Script sc; sc.kind = K_CHUNKS; if (!pick_tuple(sc.c, sc.s)) return; u32 ic = pick_isn(r), is = pick_isn(r); handshake(sc, idx, ic, is);
        int variant = r.below(4); u32 nC = r.below(513), nS = 512 - nC; if (r.chance(1, 4)) { nC = r.chance(1, 2) ? 512 : 0; nS = 512 - nC; }
        u32 w = 1 + r.below(3), stride = w + (r.chance(1, 3) ? 0 : 1 + r.below(3));     // stride == w: touching, still separate chunks
        std::vector<Pkt> ps; auto chunk = [&](bool c, u32 n) { return mk(sc, idx, c, F_ACK, (c ? ic : is) + 1 + 1 + n * stride, (c ? is : ic) + 1, w); };
        for (u32 n = 0; n < nC; ++n) ps.push_back(chunk(true, n)); for (u32 n = 0; n < nS; ++n) ps.push_back(chunk(false, n));
        for (size_t q = ps.size(); q > 1; --q) std::swap(ps[q - 1], ps[r.below((u32)q)]);
        u32 dups = r.below(6); for (u32 q = 0; q < dups && !ps.empty(); ++q) ps.insert(ps.begin() + r.below((u32)ps.size()), ps[r.below((u32)ps.size())]);   // exact duplicates: may come before or after the original
        sc.pk.insert(sc.pk.end(), ps.begin(), ps.end());
        bool cside = nC ? (nS ? r.chance(1, 2) : true) : false; u32 next = cside ? nC : nS;
        if (variant == 0) { sc.pk.push_back(chunk(cside, next)); sc.what = "chunks:512 then one more"; }
        else if (variant == 1) {   // fill the hole at offset 0: delivers the first chunk when it starts at offset 1, so the count drops, then cross again
            sc.pk.push_back(mk(sc, idx, cside, F_ACK, (cside ? ic : is) + 1, (cside ? is : ic) + 1, 1)); u32 more = 1 + r.below(3);
            for (u32 q = 0; q < more; ++q) sc.pk.push_back(chunk(cside, next + q)); sc.what = "chunks:512, hole filled, " + std::to_string(more) + " more";
        }
        else if (variant == 2) { sc.pk.push_back(mk(sc, idx, true, F_FIN | F_ACK, ic + 1 + 5000, is + 1, 0)); sc.pk.push_back(mk(sc, idx, false, F_FIN | F_ACK, is + 1 + 5000, ic + 1, 0)); sc.what = "chunks:exactly 512 then fin-fin"; }
        else { sc.what = "chunks:exactly 512 then idle"; }
        u32 tail = r.below(3); for (u32 q = 0; q < tail; ++q) sc.pk.push_back(chunk(cside, next + 10 + q));
        sc.what += " split=" + std::to_string(nC) + "/" + std::to_string(nS) + " w=" + std::to_string(w) + " stride=" + std::to_string(stride) + " isn=" + std::to_string(ic) + "/" + std::to_string(is);
        stamp(sc, t0, 0, 4096); scripts.push_back(sc);
    }
    void limit_bytes(int idx, u64 t0) {
        Script sc; sc.kind = K_BYTES; if (!pick_tuple(sc.c, sc.s)) return; u32 ic = pick_isn(r), is = pick_isn(r); handshake(sc, idx, ic, is);
        u32 maxseg = sc.c.v6 ? 65515 : 65495; u64 left = LIM_BYTES; u32 offc = 1, offs = 1; int variant = r.below(3); std::vector<Pkt> ps;
        bool both = r.chance(1, 2);
        while (left) { u32 l = (u32)std::min<u64>(left, r.chance(1, 5) ? 20000 + r.below(maxseg - 20000 + 1) : maxseg); bool c = both ? r.chance(1, 2) : true; u32& off = c ? offc : offs; ps.push_back(mk(sc, idx, c, F_ACK, (c ? ic : is) + 1 + off, (c ? is : ic) + 1, l)); off += l; left -= l; }
        for (size_t q = ps.size(); q > 1; --q) if (r.chance(1, 3)) std::swap(ps[q - 1], ps[r.below((u32)q)]);
        sc.pk.insert(sc.pk.end(), ps.begin(), ps.end());
        bool c = both ? r.chance(1, 2) : true; u32 off = c ? offc : offs;
        if (variant == 0) { sc.pk.push_back(mk(sc, idx, c, F_ACK, (c ? ic : is) + 1 + off, (c ? is : ic) + 1, 1)); sc.what = "bytes:3MiB then one more byte"; }
        else if (variant == 1) { sc.pk.push_back(mk(sc, idx, true, F_RST, ic + 1, 0, 0)); sc.what = "bytes:exactly 3MiB then rst"; }
        else { sc.pk.push_back(mk(sc, idx, c, F_ACK, (c ? ic : is) + 1, (c ? is : ic) + 1, 1)); sc.pk.push_back(mk(sc, idx, !c, F_ACK, (!c ? ic : is) + 1 + 70000000u, (!c ? is : ic) + 1, 1)); sc.what = "bytes:exactly 3MiB, one hole filled (delivery), then 1 byte elsewhere"; }
        sc.what += std::string(both ? " both-directions" : " client-only") + " isn=" + std::to_string(ic) + "/" + std::to_string(is);
        stamp(sc, t0, 0, 4096); scripts.push_back(sc);
    }
    void limit_sack(int idx, u64 t0) {
        Script sc; sc.kind = K_SACK; if (!pick_tuple(sc.c, sc.s)) return; u32 ic = r.below(0xfff00000u) + 16, is = r.below(0xfff00000u) + 16; handshake(sc, idx, ic, is);
        sc.pk.push_back(mk(sc, idx, false, F_ACK, is + 1, ic + 1, 0));        // both sides have acknowledged: established
        int variant = r.below(4); u32 nC = r.below(1025), nS = 1024 - nC; if (r.chance(1, 4)) { nC = r.chance(1, 2) ? 1024 : 0; nS = 1024 - nC; }
        u32 posc = is + 1 + 10 + r.below(100), poss = ic + 1 + 10 + r.below(100), firstc = posc; std::vector<Pkt> ps;
        auto blocks = [&](bool c, u32 n) { Pkt p = mk(sc, idx, c, F_ACK, (c ? ic : is) + 1, (c ? is : ic) + 1, 0); u32& pos = c ? posc : poss; for (u32 q = 0; q < n; ++q) { u32 w = 1 + r.below(6); p.sack.push_back(pos); p.sack.push_back(pos + w); pos += w + 1 + r.below(8); } return p; };
        for (u32 n = nC; n;) { u32 q = std::min<u32>(n, 1 + r.below(4)); ps.push_back(blocks(true, q)); n -= q; }
        size_t csz = ps.size();
        for (u32 n = nS; n;) { u32 q = std::min<u32>(n, 1 + r.below(4)); ps.push_back(blocks(false, q)); n -= q; }
        // interleave the two directions keeping each side's order, and repeat some packets (re-sent SACKs do not add intervals)
        std::vector<Pkt> mixed; size_t i = 0, j = csz; while (i < csz || j < ps.size()) { bool fc = j >= ps.size() || (i < csz && r.chance(1, 2)); mixed.push_back(fc ? ps[i++] : ps[j++]); if (r.chance(1, 40)) mixed.push_back(mixed[r.below((u32)mixed.size())]); }
        sc.pk.insert(sc.pk.end(), mixed.begin(), mixed.end());
        bool c = nC ? (nS ? r.chance(1, 2) : true) : false;
        if (variant == 0) { sc.pk.push_back(blocks(c, 1)); sc.what = "sack:1024 then one more"; }
        else if (variant == 1 && nC >= 3) {   // cumulative ack moves into the gap after the first client-side interval: one interval fewer, then cross again
            Pkt a = mk(sc, idx, true, F_ACK, ic + 1, 0, 0); const Pkt& firstp = ps[0]; a.ack = firstp.sack[1]; (void)firstc; sc.pk.push_back(a);
            sc.pk.push_back(blocks(c, 1)); sc.pk.push_back(blocks(c, 1)); sc.what = "sack:1024, ack passes first interval, two more";
        }
        else if (variant == 2) { sc.pk.push_back(mk(sc, idx, true, F_FIN | F_ACK, ic + 1, is + 1, 0)); sc.pk.push_back(mk(sc, idx, false, F_FIN | F_ACK, is + 1, ic + 2, 0)); sc.what = "sack:exactly 1024 then fin-fin"; }
        else { sc.pk.push_back(blocks(c, 2)); sc.what = "sack:1024 then two more in one packet"; }
        sc.what += " split=" + std::to_string(nC) + "/" + std::to_string(nS) + " isn=" + std::to_string(ic) + "/" + std::to_string(is);
        stamp(sc, t0, 0, 8192); scripts.push_back(sc);
    }
};

// ---- one case ---------------------------------------------------------------------------------------
struct Case {
    Rng& rng; Cfg cfg; StreamFollower fol; std::map<std::string, Inc> table; std::vector<Ann> anns; std::vector<Ev> evs; std::map<std::string, int> last_ann;
    std::vector<Pkt> pkts; size_t step_no = 0; bool failed = false; std::string sfx; std::vector<std::string> all_keys;
    std::map<int, std::vector<u32>> recent;   // per script: indices of its last packets (for the violation text)
    std::vector<OooRep> ooos; std::map<std::string, int> gen_cb, gen_model; u64 app_salt = 0; Inc* soft_inc = nullptr; bool soft_failed = false; std::string cur_app;
    explicit Case(Rng& r) : rng(r) {}

    // A connection in recovery mode whose window test straddled the 2^32 wrap (Side::wrap_exposed, fixes/C07-2.md) gets its
    // data-dependent checks run "softly": the first failure is reported once with the discriminator /recovery-seq-wrap, the
    // connection is then no longer data-checked (quarantined) and the case goes on; its lifetime checks stay hard.
    bool fail(const std::string& key, const std::string& msg) {
        if (failed) return false;
        std::string ctx = " :: at packet #" + std::to_string(step_no) + " of " + std::to_string(pkts.size());
        if (!cur_app.empty()) ctx += " " + cur_app;
        if (step_no < pkts.size()) { ctx += " {" + show(pkts[step_no]) + "} recent packets of this tuple:"; for (u32 i : recent[pkts[step_no].script % 1000]) ctx += " | #" + std::to_string(i) + " " + show(pkts[i]).substr(0, 160); }
        if (soft_inc) { soft_failed = true; if (!soft_inc->quar) { soft_inc->quar = true; cnt("rec:seq-wrap-finding-reported(connection-quarantined)"); violation(key + sfx + "/recovery-seq-wrap", msg + ctx); } return false; }
        failed = true; violation(key + sfx, msg + ctx); return false;
    }
    // runs one data-dependent check of connection `inc`; false = the case must stop
    template <class F> bool soft(Inc* inc, F check) {
        if (inc && inc->quar) return true;
        soft_inc = (inc && inc->wrap_seen) ? inc : nullptr; soft_failed = false; bool ok = check(); soft_inc = nullptr;
        if (ok) return true; bool was_soft = soft_failed; soft_failed = false; return was_soft;
    }
    void set_data_cb(Stream& st, int id, int dir) {
        if (dir) st.server_data_callback([this, id](Stream& s) { on_data(s, id, 1); }); else st.client_data_callback([this, id](Stream& s) { on_data(s, id, 0); });
    }
    void install() {
        fol.new_stream_callback([this](Stream& st) {
            Ann a; a.handle = &st; a.c = ep_of(st, true); a.s = ep_of(st, false); a.key = mk_key(a.c, a.s); a.partial = st.is_partial_stream();
            a.create_time = std::chrono::duration_cast<std::chrono::microseconds>(st.create_time()).count();
            std::copy(st.client_hw_addr().begin(), st.client_hw_addr().end(), a.chw); std::copy(st.server_hw_addr().begin(), st.server_hw_addr().end(), a.shw);
            a.gen = gen_cb[a.key]++; a.app = app_of(app_salt, a.key, a.gen, a.partial, cfg.tracking); const App ap = a.app;
            a.rec_flag_before = st.is_recovery_mode_enabled(); a.trk_flag_before = st.ack_tracking_enabled();
            for (int d = 0; d < 2; ++d) a.ooo_live[d] = a.ooo_live0[d] = ap.ooo[d];
            int id = (int)anns.size(); anns.push_back(a); last_ann[a.key] = id; evs.push_back({EV_NEW, id, 0});
            // --- the application configures its stream (what on_new_connection of examples/http_requests.cpp does, and more)
            if (ap.keep[0] && ap.keep[1] && ap.keep_api == 0) st.auto_cleanup_payloads(false);
            else if (ap.keep_api == 0) { if (ap.keep[0]) st.auto_cleanup_client_data(false); if (ap.keep[1]) st.auto_cleanup_server_data(false); }
            else if (ap.keep[0] || ap.keep[1]) { st.auto_cleanup_payloads(false); if (!ap.keep[0]) st.auto_cleanup_client_data(true); if (!ap.keep[1]) st.auto_cleanup_server_data(true); }
            if (ap.track) st.enable_ack_tracking();
            if (ap.ooo[0]) st.client_out_of_order_callback([this, id](Stream& s, uint32_t seq, const Stream::payload_type& pl) { on_ooo(s, id, 0, seq, pl); });
            if (ap.ooo[1]) st.server_out_of_order_callback([this, id](Stream& s, uint32_t seq, const Stream::payload_type& pl) { on_ooo(s, id, 1, seq, pl); });
            if (ap.rec) st.enable_recovery_mode(ap.rec_win);        // after the out-of-order callbacks: the recovery handler chains to what is registered at this point
            if (ap.ign_new & 1) st.ignore_client_data();
            if (ap.ign_new & 2) st.ignore_server_data();
            anns[id].trk_flag_after = st.ack_tracking_enabled(); anns[id].rec_flag_after = st.is_recovery_mode_enabled();
            set_data_cb(st, id, 0); set_data_cb(st, id, 1);
            st.stream_closed_callback([this, id](Stream& s) { if (&s != anns[id].handle) evs.push_back({EV_CLOSED, -2, 0}); else { anns[id].closed++; evs.push_back({EV_CLOSED, id, 0}); } });
        });
        fol.stream_termination_callback([this](Stream& s, StreamFollower::TerminationReason why) {
            std::string k = mk_key(ep_of(s, true), ep_of(s, false)); auto it = last_ann.find(k);
            int id = (it == last_ann.end() || anns[it->second].handle != &s) ? -2 : it->second;
            if (id >= 0) anns[id].terminated++;
            evs.push_back({EV_TERM, id, (int)why});
        });
    }
    void on_data(Stream& s, int id, int dir) {
        Ann& a = anns[id]; if (&s != a.handle) { evs.push_back({dir ? EV_SDATA : EV_CDATA, -2, 0}); return; }
        const Stream& cs = s; const Stream::payload_type& pl = dir ? cs.server_payload() : cs.client_payload();
        if (a.app.keep[dir]) {      // automatic cleanup is off: payload() keeps everything since the application last cleared it
            if (pl.size() < a.held[dir]) a.shrink[dir] = true; else { a.fresh[dir].insert(a.fresh[dir].end(), pl.begin() + a.held[dir], pl.end()); a.seen_total[dir] += pl.size() - a.held[dir]; }
            a.held[dir] = pl.size();
            if (a.app.clear_thr[dir] && pl.size() >= a.app.clear_thr[dir]) { a.cleared[dir] += pl.size(); a.held[dir] = 0; (dir ? s.server_payload() : s.client_payload()).clear(); cnt("app:payload-cleared-by-application"); }
        }
        else { a.fresh[dir].insert(a.fresh[dir].end(), pl.begin(), pl.end()); a.seen_total[dir] += pl.size(); }
        evs.push_back({dir ? EV_SDATA : EV_CDATA, id, 0}); ++a.data_calls[dir];
        // once enough of this direction has been seen, stop listening (http_requests.cpp: ignore_client_data()/ignore_server_data() from a data callback)
        if (a.app.ign_trig == dir && !a.ign_fired && a.seen_total[dir] >= a.app.ign_thr) { a.ign_fired = true; if (a.app.ign_what & 1) s.ignore_client_data(); if (a.app.ign_what & 2) s.ignore_server_data(); }
        // last action (nothing of the running std::function is touched afterwards): the callback replaces itself
        if (a.app.swap_after[dir] && a.data_calls[dir] == a.app.swap_after[dir]) { cnt("app:data-callback-replaced-itself"); set_data_cb(s, id, dir); }
    }
    void on_ooo(Stream& s, int id, int dir, u32 seq, const Stream::payload_type& pl) {
        Ann& a = anns[id]; if (&s != a.handle) { ooos.push_back({-2, dir, seq, Bytes()}); return; }
        ooos.push_back({id, dir, seq, Bytes(pl.begin(), pl.end())}); ++a.ooo_n[dir];
        Flow& fl = dir ? s.server_flow() : s.client_flow();
        // flow.h: "particularly useful to call from an out of order callback, if the application wants to skip forward to this out of order block"
        if (a.app.ooo_skip[dir] && !pl.empty() && seqcmp(seq, fl.sequence_number()) > 0) fl.advance_sequence(seq);
        // last action: the callback unregisters itself
        if (a.app.ooo_unreg[dir] && a.ooo_n[dir] == a.app.ooo_unreg[dir]) {
            a.ooo_live[dir] = false; cnt("app:ooo-callback-unregistered-itself");
            if (dir) s.server_out_of_order_callback(Stream::stream_packet_callback_type()); else s.client_out_of_order_callback(Stream::stream_packet_callback_type());
        }
    }
    // compare what was delivered for announcement `id` with the model's prefix lengths
    bool check_data(int id, const Inc& inc) {
        Ann& a = anns[id];
        for (int d = 0; d < 2; ++d) {
            const Side& sd = d ? inc.s : inc.c; const char* dn = d ? "server" : "client";
            if (a.shrink[d]) return fail(std::string("data/accumulated-payload-shrank/") + dn, "payload() got shorter although automatic cleanup is off");
            u64 total = a.verified[d] + a.fresh[d].size();
            if (sd.ign && total > sd.k) return fail(std::string("ignore/delivered-although-ignored/") + dn, std::string(dn) + " data callback delivered " + std::to_string(total - sd.k) + " bytes after the application called ignore_" + dn + "_data()");
            if (total != sd.k) return fail(std::string(total > sd.k ? "data/delivered-too-much/" : "data/delivered-too-little/") + dn, std::string(dn) + " direction delivered " + std::to_string(total) + " bytes in total, contiguous prefix that has arrived is " + std::to_string(sd.k) + " (stream " + show(inc.c.ep) + ">" + show(inc.s.ep) + ")");
            for (size_t i = 0; i < a.fresh[d].size(); ++i) if (a.fresh[d][i] != H(sd.salt, sd.seq_at(a.verified[d] + i))) return fail(std::string("data/wrong-bytes/") + dn, std::string(dn) + " direction: delivered byte at stream offset " + std::to_string(a.verified[d] + i) + " is not the byte that was sent in this connection and direction at that sequence number");
            cnt("chk:delivered-bytes", a.fresh[d].size()); a.verified[d] = total; a.fresh[d].clear();
        }
        return true;
    }
    Stream* lookup(const Ep& c, const Ep& s, bool& threw_other) {
        threw_other = false;
        try { bool sw = rng.chance(1, 2); const Ep& x = sw ? s : c; const Ep& y = sw ? c : s; return c.v6 ? &fol.find_stream(v6(x), x.port, v6(y), y.port) : &fol.find_stream(v4(x), x.port, v4(y), y.port); }
        catch (stream_not_found&) { return nullptr; } catch (...) { threw_other = true; return nullptr; }
    }
    bool check_presence(const std::string& key, const Ep& x, const Ep& y, bool ident = false) {
        auto it = table.find(key); bool other; Stream* st = lookup(x, y, other); cnt("chk:find_stream");
        if (other) return fail("find_stream/unexpected-exception", "find_stream threw something else than stream_not_found");
        if (it == table.end()) { if (st) return fail("forget/still-tracked", "find_stream still finds " + show(x) + "<>" + show(y) + " although the connection is closed/terminated/never announced in the reference table"); return true; }
        const Inc& inc = it->second;
        if (!st) return fail("forget/too-early", "find_stream does not find live connection " + show(inc.c.ep) + ">" + show(inc.s.ep) + " (client state " + std::to_string(inc.c.st) + ", server state " + std::to_string(inc.s.st) + "; 3=FIN 4=RST)");
        if (st != anns[inc.ann].handle) return fail("find_stream/other-object", "find_stream returns a different Stream object than the one announced for this connection");
        if (!same(ep_of(*st, true), inc.c.ep) || !same(ep_of(*st, false), inc.s.ep)) return fail("find_stream/wrong-endpoints", "stream found for " + show(inc.c.ep) + ">" + show(inc.s.ep) + " reports " + show(ep_of(*st, true)) + ">" + show(ep_of(*st, false)));
        if (st->is_finished()) return fail("forget/finished-but-kept", "a tracked stream reports is_finished()");
        if (ident) {        // StreamIdentifier built from the Stream object: equal to one built from the 4-tuple in either role order, different from a neighbour's
            typedef StreamIdentifier::address_type AT; auto ser = [](const Ep& e) { AT a; a.fill(0); std::copy(e.a, e.a + (e.v6 ? 16 : 4), a.begin()); return a; };
            const Stream& cs = *st; StreamIdentifier id = StreamIdentifier::make_identifier(cs);
            StreamIdentifier cs_order(ser(inc.c.ep), inc.c.ep.port, ser(inc.s.ep), inc.s.ep.port, inc.v6), sc_order(ser(inc.s.ep), inc.s.ep.port, ser(inc.c.ep), inc.c.ep.port, inc.v6);
            if (!(id == cs_order) || !(id == sc_order) || !(cs_order == sc_order)) return fail("identifier/equality", "identifier made from the Stream differs from the identifier of its own 4-tuple " + show(inc.c.ep) + "<>" + show(inc.s.ep));
            Ep o = inc.s.ep; o.port = (u16)(o.port + 1); StreamIdentifier nb(ser(inc.c.ep), inc.c.ep.port, ser(o), o.port, inc.v6), fam(ser(inc.c.ep), inc.c.ep.port, ser(inc.s.ep), inc.s.ep.port, !inc.v6);
            if (id == nb || id == fam) return fail("identifier/equality-too-wide", "identifier of " + show(inc.c.ep) + "<>" + show(inc.s.ep) + " compares equal to the identifier of another port / address family");
            cnt("chk:stream-identifier");
        }
        return true;
    }
    // state that does not depend on which bytes were delivered
    bool check_state(const Inc& inc, u64 ts) {
        Stream* st = anns[inc.ann].handle; const Stream& cs = *st;    // presence was verified just before
        for (int d = 0; d < 2; ++d) {
            const Side& sd = d ? inc.s : inc.c; const Flow& fl = d ? cs.server_flow() : cs.client_flow(); const std::string dn = d ? "server" : "client";
            // options of the SYN that started this direction (flow.h: -1 when the peer sent no MSS option)
            if (fl.mss() != sd.mss) return fail("state/mss/" + dn, dn + " flow reports mss()=" + std::to_string(fl.mss()) + ", its SYN carried " + (sd.mss < 0 ? std::string("no MSS option") : std::to_string(sd.mss)));
            if (fl.sack_permitted() != sd.sackp) return fail("state/sack-permitted/" + dn, dn + " flow reports sack_permitted()=" + std::to_string(fl.sack_permitted()) + ", SACK-permitted option on its SYN: " + std::to_string(sd.sackp));
            if (sd.mss >= 0) cnt("chk:mss-of-syn"); if (sd.sackp) cnt("chk:sack-permitted-of-syn");
#ifdef TINS_HAVE_ACK_TRACKER
            // the tracker of a direction follows the acknowledgement numbers that direction's sender puts on its packets (also while its data is ignored)
            if (inc.tracking && !sd.sack_amb) {
                if (fl.ack_tracker().ack_number() != sd.ackno) return fail("ack-tracking/ack-number/" + dn, dn + " flow's ack_tracker().ack_number()=" + std::to_string(fl.ack_tracker().ack_number()) + ", highest acknowledgement sent by the " + dn + ": " + std::to_string(sd.ackno));
                cnt("chk:ack-number"); if (sd.ign) cnt("chk:ack-number-of-ignored-direction");
            }
#endif
        }
        if (cs.ack_tracking_enabled() != inc.tracking) return fail("ack-tracking/enabled-flag", "ack_tracking_enabled()=" + std::to_string(cs.ack_tracking_enabled()) + " although the application " + (inc.tracking ? "enabled" : "never enabled") + " it");
        if (!inc.app.rec && cs.is_recovery_mode_enabled()) return fail("recovery/flag-set-without-enable", "is_recovery_mode_enabled() on a stream whose application never enabled it");
        i64 ls = std::chrono::duration_cast<std::chrono::microseconds>(st->last_seen()).count();
        if ((u64)ls != ts) return fail("state/last-seen", "last_seen()=" + std::to_string(ls) + " after a packet of this connection at " + std::to_string(ts));
        return true;
    }

    // state that follows from the bytes delivered/buffered so far
    bool check_data_state(const Inc& inc) {
        Stream* st = anns[inc.ann].handle; const Stream& cs = *st; Ann& a = anns[inc.ann];    // presence was verified just before
        for (int d = 0; d < 2; ++d) {
            const Side& sd = d ? inc.s : inc.c; const Flow& fl = d ? cs.server_flow() : cs.client_flow(); const std::string dn = d ? "server" : "client";
            if (sd.ign) {
                // An ignored direction must not buffer: whatever was buffered when ignoring began stays, nothing is added. (Whether
                // sequence_number() of an ignored flow moves is not documented: observed.)
                cnt(fl.sequence_number() == sd.start + (u32)sd.k ? "obs:ignored-direction-sequence-number-stays" : "obs:ignored-direction-sequence-number-moves");
                if (sd.disciplined) {
                    if (fl.buffered_payload().size() != sd.chunks.size()) return fail("ignore/buffered-chunks/" + dn, dn + " flow holds " + std::to_string(fl.buffered_payload().size()) + " out-of-order chunks although its data is ignored (" + std::to_string(sd.chunks.size()) + " were buffered when ignoring began)");
                    if (fl.total_buffered_bytes() != sd.chunk_bytes) return fail("ignore/buffered-bytes/" + dn, dn + " flow reports " + std::to_string(fl.total_buffered_bytes()) + " buffered bytes although its data is ignored (" + std::to_string(sd.chunk_bytes) + " when ignoring began)");
                    cnt("chk:ignored-direction-not-buffered");
                }
            }
            else {
                if (fl.sequence_number() != sd.start + (u32)sd.k) return fail("state/sequence-number/" + dn, dn + " flow expects sequence " + std::to_string(fl.sequence_number()) + ", reference " + std::to_string(sd.start + (u32)sd.k) + (sd.nskips ? " (after " + std::to_string(sd.nskips) + " skips forward)" : std::string()));
                if (sd.disciplined) {
                    if (fl.buffered_payload().size() != sd.chunks.size()) return fail("state/buffered-chunks/" + dn, dn + " flow holds " + std::to_string(fl.buffered_payload().size()) + " out-of-order chunks, reference " + std::to_string(sd.chunks.size()));
                    if (fl.total_buffered_bytes() != sd.chunk_bytes) return fail("state/buffered-bytes/" + dn, dn + " flow reports " + std::to_string(fl.total_buffered_bytes()) + " buffered bytes, reference " + std::to_string(sd.chunk_bytes));
                    cnt("chk:buffer-accounting");
                }
            }
            // payload(): empty once the callback has returned when automatic cleanup is on; everything delivered since the application last cleared it when off
            const Stream::payload_type& pl = d ? cs.server_payload() : cs.client_payload();
            if (!a.app.keep[d]) { if (!pl.empty()) return fail("cleanup/payload-not-erased/" + dn, dn + "_payload() still holds " + std::to_string(pl.size()) + " bytes after the data callback returned although automatic cleanup is on"); if (sd.k) cnt("chk:payload-erased-after-callback"); }
            else {
                if (pl.size() + a.cleared[d] != sd.k) return fail("cleanup/kept-payload-length/" + dn, dn + "_payload() holds " + std::to_string(pl.size()) + " bytes with automatic cleanup off, delivered so far " + std::to_string(sd.k) + ", cleared by the application " + std::to_string(a.cleared[d]));
                const u64 base = sd.k - pl.size(); const bool full = a.chk_size[d] != pl.size() || pl.size() <= 512; a.chk_size[d] = pl.size();
                for (size_t i = 0, n = full ? pl.size() : std::min<size_t>(pl.size(), 6); i < n; ++i) { size_t j = full ? i : (size_t)rng.below((u32)pl.size()); if (pl[j] != H(sd.salt, sd.seq_at(base + j))) return fail("cleanup/kept-payload-bytes/" + dn, dn + "_payload() (automatic cleanup off) byte " + std::to_string(j) + " is not the byte delivered at that position"); }
                cnt("chk:kept-payload-is-delivered-prefix"); if (full) cnt("chk:kept-payload-bytes", pl.size());
            }
        }
        // recovery mode flag: stays set at least until an out of order packet outside the window was seen in both directions
        // (stream.h: "cleaned only after capturing an out of order packet that is outside of the recovery window"); when it is cleaned is observed
        if (inc.app.rec) {
            if (!cs.is_recovery_mode_enabled() && (!inc.c.rec_may_clear || !inc.s.rec_may_clear)) return fail("recovery/flag-cleared-early", "is_recovery_mode_enabled()=false although the " + std::string(!inc.c.rec_may_clear ? "client" : "server") + " direction has not seen an out of order packet outside its recovery window");
            cnt(cs.is_recovery_mode_enabled() ? "obs:recovery-flag-set" : "obs:recovery-flag-cleared");
        }
        return true;
    }

    bool step(const Pkt& p) {
        evs.clear(); ooos.clear(); cur_app.clear(); const u64 ts = p.ts; std::string key = mk_key(p.src, p.dst);
        { std::vector<u32>& rc = recent[p.script % 1000]; if (rc.size() >= 10) rc.erase(rc.begin()); rc.push_back((u32)step_no); }
        // ---- prediction by the reference table
        auto it = table.find(key); bool expect_new = false, expect_closed = false; int expect_term = -1; bool term_amb = false, from_c = true; Inc* inc = nullptr;
        const bool is_syn = (p.flags & F_SYN) && !(p.flags & F_ACK); int prev_c = 0, prev_s = 0; bool seg_ignored = false;
        if (it == table.end() && (is_syn || (cfg.attach && p.raw))) {
            Inc n; n.key = key; n.v6 = p.src.v6; n.partial = !is_syn; n.tracking = cfg.tracking; n.created = ts; n.c.ep = p.src; n.s.ep = p.dst;
            n.c.salt = dir_salt(p.src, p.dst); n.s.salt = dir_salt(p.dst, p.src); n.c.start = p.seq; n.s.start = p.ack;
            if (!is_syn) n.c.st = n.s.st = ST_EST;
            n.c.rebase(); n.s.rebase();
            // the application that will live in this connection's callbacks
            n.gen = gen_model[key]++; n.app = app_of(app_salt, key, n.gen, n.partial, cfg.tracking); const App& ap = n.app; n.tracking = ap.track;
            n.c.ign = ap.ign_new & 1; n.s.ign = (ap.ign_new & 2) != 0; n.c.skip_all = ap.ooo[0] && ap.ooo_skip[0]; n.s.skip_all = ap.ooo[1] && ap.ooo_skip[1];
            if (ap.rec) for (Side* sd : {&n.c, &n.s}) { sd->rec = true; sd->rec_x = sd->start; sd->rec_win = ap.rec_win; sd->rec_end = sd->start + ap.rec_win; }
            count_app(ap);
            it = table.insert({key, n}).first; expect_new = true; cnt(is_syn ? "model:announce-on-syn" : "model:announce-on-data(partial)");
        }
        if (it != table.end()) {
            inc = &it->second; from_c = same(p.src, inc->c.ep); Side& sd = from_c ? inc->c : inc->s; prev_c = inc->c.st; prev_s = inc->s.st;
            inc->last_seen = ts; sd.on_flags(p);
            if (inc->tracking) sd.on_ack(p.ack, p.sack);
            sd.ooo_expect = OOO_NO;
            seg_ignored = p.raw && sd.ign;
            if (seg_ignored) cnt(from_c ? "ignore:client-segment-dropped" : "ignore:server-segment-dropped");
            else if (p.raw) {
                u64 fresh_bytes = sd.on_data(p.seq, p.len); const int dir = from_c ? 0 : 1;
                // the data callback of this direction runs (once) and may switch ignoring on for the packets that follow
                if (fresh_bytes && inc->app.ign_trig == dir && !inc->ign_fired && sd.k >= inc->app.ign_thr) {
                    inc->ign_fired = true; if (inc->app.ign_what & 1) inc->c.ign = true; if (inc->app.ign_what & 2) inc->s.ign = true; cnt("app:ignore-switched-on-from-data-callback");
                    if ((inc->app.ign_what & 1) && !inc->c.chunks.empty()) cnt("ignore:began-with-buffered-chunks"); if ((inc->app.ign_what & 2) && !inc->s.chunks.empty()) cnt("ignore:began-with-buffered-chunks");
                }
                if (sd.wrap_exposed && !inc->wrap_seen) { inc->wrap_seen = true; cnt("rec:window-test-straddles-seq-wrap(connections)"); }
            }
            cur_app = show(inc->app);
            if (!expect_new && (p.flags & F_SYN)) cnt("model:syn-flag-on-tracked-connection");
            expect_closed = inc->finished();
            const bool amb = !inc->c.disciplined || !inc->s.disciplined;
            if (!amb) { if (inc->chunks() > LIM_CHUNKS || inc->bytes() > LIM_BYTES) expect_term = StreamFollower::BUFFERED_DATA; }
            else if (inc->c.nsegs + inc->s.nsegs > LIM_CHUNKS || inc->c.nbytes + inc->s.nbytes > LIM_BYTES) { term_amb = true; cnt("model:buffer-limit-undecidable"); }
            if (expect_term < 0 && !term_amb) {
                if (inc->c.sack_amb || inc->s.sack_amb) { if (inc->sacked() + 8 > LIM_SACK) { term_amb = true; cnt("model:sack-limit-undecidable"); } }
                else if (inc->sacked() > LIM_SACK) expect_term = StreamFollower::SACKED_SEGMENTS;
            }
            cnt_max("max-buffered-chunks-in-model", inc->chunks()); cnt_max("max-sacked-intervals-in-model", inc->sacked());
            if (expect_closed || expect_term >= 0) inc->dead = true;
        } else cnt("model:packet-of-untracked-connection");
        if (inc && !expect_new && inc->ann >= 0) { Ann& a0 = anns[inc->ann]; a0.ooo_live0[0] = a0.ooo_live[0]; a0.ooo_live0[1] = a0.ooo_live[1]; }
        // ---- the real follower
        try { Packet pk(build(p), Timestamp(std::chrono::microseconds(ts)), Packet::own_pdu()); fol.process_packet(pk); }
        catch (...) { return fail("exception/process_packet/" + current_exception_type(), "process_packet threw " + current_exception_type()); }
        if (st().a.verbose) { std::string e; static const char* en[] = {"new-stream", "client-data", "server-data", "closed", "terminated"}; for (auto& ev : evs) e += std::string(" ") + en[ev.type] + "(conn#" + std::to_string(ev.ann) + (ev.type == EV_TERM ? std::string(",reason=") + (ev.reason == 0 ? "TIMEOUT" : ev.reason == 1 ? "BUFFERED_DATA" : "SACKED_SEGMENTS") : std::string()) + ")"; for (auto& o : ooos) e += std::string(" ") + (o.dir ? "server" : "client") + "-out-of-order(conn#" + std::to_string(o.ann) + ",seq=" + std::to_string(o.seq) + ",len=" + std::to_string(o.data.size()) + ")"; if (expect_new && inc) e += " " + show(inc->app); fprintf(stderr, "#%zu %s =>%s%s\n", step_no, show(p).c_str(), e.c_str(), inc ? "" : " [untracked]"); }
        // ---- compare the callback trace
        int got_new = 0, got_closed = 0, got_term = 0; int tid = inc && !expect_new ? inc->ann : -1;
        auto limits = [&]() { return inc ? std::to_string(inc->chunks()) + " chunks / " + std::to_string(inc->bytes()) + " bytes buffered, " + std::to_string(inc->sacked()) + " SACKed intervals" : std::string(); };
        auto states = [&]() { return inc ? "(client state " + std::to_string(inc->c.st) + ", server state " + std::to_string(inc->s.st) + "; 0=none 1=SYN 2=established 3=FIN 4=RST)" : std::string(); };
        for (auto& ev : evs) {
            if (ev.ann == -2) return fail("callback/unknown-stream-object", "a callback was invoked with a Stream object that was never announced (or is not the announced one for its endpoints)");
            Ann& a = anns[ev.ann];
            switch (ev.type) {
                case EV_NEW: {
                    if (!expect_new || got_new) return fail(a.partial ? "announce/unexpected/partial" : "announce/unexpected/syn", "connection " + show(a.c) + ">" + show(a.s) + " announced, but the reference table " + (inc ? "already tracks this connection" : "does not start a connection on this packet (attach=" + std::to_string(cfg.attach) + ")"));
                    ++got_new; tid = ev.ann; inc->ann = ev.ann;
                    if (&ev != &evs[0]) return fail("announce/not-first", "other callbacks ran before the announcement");
                    if (a.key != key || !same(a.c, p.src) || !same(a.s, p.dst)) return fail("announce/wrong-endpoints", "announced as " + show(a.c) + ">" + show(a.s) + " (v6=" + std::to_string(a.c.v6) + ") for a first packet " + show(p.src) + ">" + show(p.dst));
                    if (a.partial != inc->partial) return fail("announce/partial-flag", "is_partial_stream()=" + std::to_string(a.partial) + " for a connection that started " + (inc->partial ? "on data" : "on SYN"));
                    if ((u64)a.create_time != ts) return fail("announce/create-time", "create_time()=" + std::to_string(a.create_time) + " expected " + std::to_string(ts));
                    u8 m[6]; bool eth = p.link == 0; mac_of(p.src, m); if (!eth) memset(m, 0, 6); if (memcmp(m, a.chw, 6)) return fail("announce/client-hw-addr", "client_hw_addr() is not the source MAC of the first packet");
                    mac_of(p.dst, m); if (!eth) memset(m, 0, 6); if (memcmp(m, a.shw, 6)) return fail("announce/server-hw-addr", "server_hw_addr() is not the destination MAC of the first packet");
                    cnt("chk:announcement");
                    break; }
                case EV_CDATA: case EV_SDATA: {
                    bool cd = ev.type == EV_CDATA;
                    if (ev.ann != tid) return fail("route/data-callback-on-other-connection", "data callback of " + show(a.c) + ">" + show(a.s) + " ran for a packet of another connection");
                    if (cd != from_c) return fail("route/data-callback-on-other-direction", std::string(cd ? "client" : "server") + " data callback ran for a segment sent by the " + (from_c ? "client" : "server"));
                    break; }
                case EV_CLOSED:
                    if (ev.ann != tid) return fail("closed/other-connection", "stream_closed callback of " + show(a.c) + ">" + show(a.s) + " ran for a packet of another connection");
                    if (!expect_closed || got_closed) return fail("closed/unexpected", "stream_closed callback although the reference connection is not finished " + states() + " or reported twice");
                    ++got_closed; break;
                case EV_TERM:
                    if (ev.reason == StreamFollower::TIMEOUT) {
                        auto ti = table.find(a.key);
                        if (ti == table.end() || ti->second.ann != ev.ann || ti->second.dead) return fail("timeout/not-a-live-connection", "TIMEOUT reported for " + show(a.c) + ">" + show(a.s) + " which the reference table does not hold (closed, already terminated, or reported twice)");
                        u64 idle = ts - ti->second.last_seen;
                        if (idle < cfg.ka) return fail("timeout/premature", "TIMEOUT reported for " + show(a.c) + ">" + show(a.s) + " idle for " + std::to_string(idle) + "us, keep-alive " + std::to_string(cfg.ka) + "us");
                        cnt(idle == cfg.ka ? "timeout:reported-at-idle==keepalive" : "timeout:reported-idle>keepalive"); if (ti->second.c.st == ST_FIN || ti->second.s.st == ST_FIN) cnt("timeout:of-half-closed");
                        table.erase(ti);
                    } else {
                        if (ev.ann != tid) return fail("limit/other-connection", "termination (reason " + std::to_string(ev.reason) + ") reported for " + show(a.c) + ">" + show(a.s) + " on a packet of another connection");
                        if (got_term) return fail("limit/reported-twice", "termination reported twice");
                        ++got_term;
                        if (term_amb) { inc->dead = true; cnt("model:followed-engine-on-undecidable-limit"); break; }
                        if (expect_term < 0) return fail(ev.reason == StreamFollower::BUFFERED_DATA ? "limit/unexpected/buffered-data" : "limit/unexpected/sacked-segments", "terminated (reason " + std::to_string(ev.reason) + ") with " + limits() + ": no limit is exceeded");
                        if (ev.reason != expect_term) return fail("limit/wrong-reason", "terminated with reason " + std::to_string(ev.reason) + ", expected " + std::to_string(expect_term) + " (0=TIMEOUT 1=BUFFERED_DATA 2=SACKED_SEGMENTS) with " + limits());
                    }
                    break;
            }
        }
        // ---- out-of-order callbacks: exactly the segments that arrive beyond the delivery point, with their sequence number and bytes
        {
            int n_rep = 0;
            for (auto& o : ooos) {
                if (o.ann == -2) return fail("callback/unknown-stream-object", "an out-of-order callback was invoked with a Stream object that is not the announced one");
                const char* dn = o.dir ? "server" : "client";
                if (o.ann != tid) return fail("ooo/other-connection", "out-of-order callback of " + show(anns[o.ann].c) + ">" + show(anns[o.ann].s) + " ran for a packet of another connection");
                if ((o.dir == 0) != from_c) return fail("ooo/other-direction", std::string(dn) + " out-of-order callback ran for a segment sent by the " + (from_c ? "client" : "server"));
                if (o.seq != p.seq) return fail(std::string("ooo/wrong-sequence-number/") + dn, "out-of-order callback reports sequence number " + std::to_string(o.seq) + " for a segment with " + std::to_string(p.seq));
                bool okb = o.data.size() == p.len; u32 salt = dir_salt(p.src, p.dst); for (u32 i = 0; okb && i < p.len; ++i) okb = o.data[i] == H(salt, p.seq + i);
                if (!okb) return fail(std::string("ooo/wrong-bytes/") + dn, "out-of-order callback reports " + std::to_string(o.data.size()) + " bytes that are not the " + std::to_string(p.len) + " bytes of the segment");
                ++n_rep;
            }
            if (inc && tid >= 0 && !soft(inc, [&]() -> bool {
                const Side& sd = from_c ? inc->c : inc->s; const int d = from_c ? 0 : 1; const char* dn = d ? "server" : "client"; const Ann& a = anns[tid];
                if (n_rep > 1) return fail(std::string("ooo/reported-twice/") + dn, "one segment was handed to the out-of-order callback " + std::to_string(n_rep) + " times");
                if (seg_ignored && n_rep) return fail(std::string("ignore/ooo-callback-although-ignored/") + dn, "out-of-order callback ran for a segment of a direction whose data the application ignores");
                if (a.ooo_live0[d] && p.raw && !seg_ignored) {
                    if (sd.ooo_expect == OOO_MUST && !n_rep) return fail(std::string("ooo/missing/") + dn, "segment seq=" + std::to_string(p.seq) + " len=" + std::to_string(p.len) + " starts beyond the delivery point but was not handed to the " + dn + " out-of-order callback");
                    if (sd.ooo_expect == OOO_NO && n_rep) return fail(std::string("ooo/unexpected/") + dn, "segment seq=" + std::to_string(p.seq) + " len=" + std::to_string(p.len) + " starts at or before the delivery point and reaches it, but was handed to the " + dn + " out-of-order callback");
                    if (sd.ooo_expect == OOO_MUST) cnt("chk:ooo-segment-reported"); else if (sd.ooo_expect == OOO_NO) cnt("chk:in-order-segment-not-reported-as-ooo");
                    else cnt(n_rep ? (p.len ? "obs:stale-segment-reported-as-ooo" : "obs:empty-segment-reported-as-ooo") : "obs:stale-or-empty-segment-not-reported");
                }
                return true; })) return false;
        }
        if (expect_new && !got_new) return fail(is_syn ? "announce/missing/syn" : "announce/missing/partial", "connection " + show(p.src) + ">" + show(p.dst) + " was not announced on its " + (is_syn ? "initial SYN" : "first data segment (attach enabled)"));
        if (expect_closed && !got_closed) return fail("closed/missing", "reference connection finished " + states() + " but stream_closed was not called");
        if (expect_term >= 0 && !got_term) return fail(expect_term == StreamFollower::BUFFERED_DATA ? (inc->chunks() > LIM_CHUNKS ? "limit/missed/chunks" : "limit/missed/bytes") : "limit/missed/sacked", "no termination although " + limits());
        if (expect_closed) {
            if (!(p.flags & F_RST)) cnt("close:fin-fin");
            else if (prev_c == ST_FIN || prev_s == ST_FIN) cnt((from_c ? prev_c : prev_s) == ST_FIN ? "close:fin-then-rst-same-side" : "close:fin-then-rst-other-side");
            else cnt(from_c ? "close:rst-by-client" : "close:rst-by-server");
        }
        if (inc && !expect_closed && (p.flags & F_FIN) && (from_c ? prev_c : prev_s) != ST_FIN) cnt("close:first-fin-keeps-connection");
        if (inc && (p.flags & (F_FIN | F_RST)) && (from_c ? inc->c : inc->s).ign && (from_c ? prev_c : prev_s) < ST_FIN) cnt((p.flags & F_FIN) ? "ignore:fin-of-ignored-direction" : "ignore:rst-of-ignored-direction");
        if (expect_closed && (inc->c.ign || inc->s.ign)) { cnt("closed-after-ignore"); if (inc->c.ign && inc->s.ign) cnt("closed-after-ignore:both-directions"); if (!inc->app.ign_new) cnt("closed-after-ignore:switched-on-later"); }
        if (expect_new && gen_model[key] > 1) { cnt("announce:tuple-reused"); if (prev_apps.count(key) && (prev_apps[key].ign_new || prev_apps[key].ign_trig >= 0)) cnt("announce:tuple-reused-after-ignoring-application"); }
        if (expect_closed || expect_term >= 0) prev_apps[key] = inc->app;
        if (expect_term >= 0 && (inc->c.ign || inc->s.ign)) cnt("limit-after-ignore");
        if (expect_term == StreamFollower::BUFFERED_DATA) cnt(inc->chunks() > LIM_CHUNKS ? "limit:chunks-crossed" : "limit:bytes-crossed");
        if (expect_term == StreamFollower::SACKED_SEGMENTS) cnt("limit:sack-crossed");
        if (inc && expect_term < 0 && !term_amb && !expect_closed) {
            if (inc->c.disciplined && inc->s.disciplined && inc->chunks() == LIM_CHUNKS) cnt("limit:at-exactly-512-chunks-kept");
            if (inc->c.disciplined && inc->s.disciplined && inc->bytes() == LIM_BYTES) cnt("limit:at-exactly-3MiB-kept");
            if (!inc->c.sack_amb && !inc->s.sack_amb && inc->sacked() == LIM_SACK) cnt("limit:at-exactly-1024-sacked-kept");
        }
        // ---- data, presence, public state
        if (inc && tid >= 0 && !soft(inc, [&]() { return check_data(tid, *inc); })) return false;
        if (inc && inc->quar && tid >= 0) { anns[tid].fresh[0].clear(); anns[tid].fresh[1].clear(); }
        if (inc) { cnt("chk:packets-routed"); if (p.raw && p.len) cnt(from_c ? "chk:client-segments" : "chk:server-segments"); if (inc->partial) cnt("chk:packets-of-partial-streams"); }
        if (inc && tid >= 0 && expect_new) {
            const Ann& a = anns[tid];
            if (a.rec_flag_before) return fail("recovery/flag-set-without-enable", "is_recovery_mode_enabled() on a stream that was just announced");
            if (a.trk_flag_before) return fail("ack-tracking/enabled-flag", "ack_tracking_enabled() on a stream that was just announced");
            if (a.trk_flag_after != a.app.track) return fail("ack-tracking/enabled-flag", "ack_tracking_enabled()=" + std::to_string(a.trk_flag_after) + " right after the application " + (a.app.track ? "called" : "did not call") + " enable_ack_tracking()");
            if (a.rec_flag_after != a.app.rec) return fail("recovery/flag-after-enable", "is_recovery_mode_enabled()=" + std::to_string(a.rec_flag_after) + " right after the application " + (a.app.rec ? "called" : "did not call") + " enable_recovery_mode()");
        }
        if (inc && inc->dead) { table.erase(key); inc = nullptr; }
        if (!check_presence(key, p.src, p.dst, true)) return false;
        { auto ti = table.find(key); if (ti != table.end() && (!check_state(ti->second, ts) || !soft(&ti->second, [&]() { return check_data_state(ti->second); }))) return false; }
        for (int q = 0; q < 2 && !all_keys.empty(); ++q) { size_t i = rng.below((u32)all_keys.size()); if (!check_presence(all_keys[i], key_eps[i].first, key_eps[i].second)) return false; }
        // ---- lazy keep-alive: nothing may stay unreported for two keep-alive periods
        for (auto& kv : table) { u64 idle = ts - kv.second.last_seen; if (idle >= 2 * cfg.ka) return fail("timeout/overdue", "connection " + show(kv.second.c.ep) + ">" + show(kv.second.s.ep) + " idle for " + std::to_string(idle) + "us (keep-alive " + std::to_string(cfg.ka) + "us) has still not been terminated"); if (idle > cfg.ka) cnt("timeout:idle>keepalive-not-yet-swept"); }
        cnt("packets"); return true;
    }
    std::vector<std::pair<Ep, Ep>> key_eps; std::map<std::string, App> prev_apps;
    void count_app(const App& ap) {
        if (ap.plain()) cnt("app:only-listens");
        if (ap.ign_new == 1) cnt("app:ignore-client"); if (ap.ign_new == 2) cnt("app:ignore-server"); if (ap.ign_new == 3) cnt("app:ignore-both"); if (ap.ign_trig >= 0) cnt("app:ignore-later-armed");
        if (ap.keep[0] || ap.keep[1]) cnt("app:no-auto-cleanup"); if (ap.keep[0] != ap.keep[1]) cnt("app:no-auto-cleanup-one-direction"); if (ap.clear_thr[0] || ap.clear_thr[1]) cnt("app:clears-payload-itself");
        if (ap.ooo[0] || ap.ooo[1]) cnt("app:ooo-callback"); if ((ap.ooo[0] && ap.ooo_skip[0]) || (ap.ooo[1] && ap.ooo_skip[1])) cnt("app:ooo-callback-advances-sequence");
        if (ap.track) cnt("app:ack-tracking"); if (ap.rec) { cnt("app:recovery-mode"); if (ap.rec_win == 0) cnt("app:recovery-mode-window-0"); }
        if (ap.swap_after[0] || ap.swap_after[1]) cnt("app:data-callback-swaps");
    }

    void run(long idx) {
        (void)idx;
        static const u64 kas[] = {1000ull, 250000ull, 1000000ull, 30000000ull, 300000000ull, 3600000000ull};
        int kai = rng.below(7); cfg.set_ka = kai < 6; cfg.ka = cfg.set_ka ? kas[kai] : 300000000ull;
        cfg.attach = rng.chance(35, 100); cfg.tracking = rng.chance(1, 2); cfg.bytes_share = rng.below(3) == 0 ? 0 : rng.below(8);
        switch (rng.below(5)) { case 0: cfg.t0 = 0; break; case 1: cfg.t0 = cfg.ka - 1; break; case 2: cfg.t0 = cfg.ka; break; case 3: cfg.t0 = 1ull + rng.below(1000); break; default: cfg.t0 = 1700000000000000ull + rng.below64(1000000000ull); }
        app_salt = rng.next();
        Gen g(rng, cfg); u32 kind = rng.below(100); int nconn;
        u32 sz = rng.below(10); nconn = sz < 4 ? 1 + rng.below(4) : sz < 8 ? 5 + rng.below(11) : 16 + rng.below(25);
        u64 span = cfg.ka * (1 + rng.below(4));
        if (kind < 8) { cfg.tracking = rng.chance(1, 2); g.limit_chunks(0, cfg.t0 + rng.below64(span)); nconn = rng.below(6); }
        else if (kind < 12) { g.limit_bytes(0, cfg.t0 + rng.below64(span)); nconn = rng.below(3); }
        else if (kind < 19) { cfg.tracking = !rng.chance(1, 6); g.limit_sack(0, cfg.t0 + rng.below64(span)); nconn = rng.below(6); }
        for (int i = 0; i < nconn; ++i) g.normal(1 + i, cfg.t0 + (rng.chance(1, 3) ? 0 : rng.below64(span)));
        for (auto& k : g.padkeys4) if (g.padkeys6.count(k)) cfg.alias = true;
        if (cfg.alias) { sfx = "/v4v6-alias"; cnt("cases:v4-and-v6-tuple-with-identical-leading-bytes"); }
        // merge by time (stable: script order, then packet order)
        for (size_t s = 0; s < g.scripts.size(); ++s) for (auto& p : g.scripts[s].pk) pkts.push_back(p);
        std::stable_sort(pkts.begin(), pkts.end(), [](const Pkt& a, const Pkt& b) { return a.ts < b.ts; });
        std::set<std::string> seenk; for (auto& sc : g.scripts) { std::string k = mk_key(sc.c, sc.s); if (seenk.insert(k).second) { all_keys.push_back(k); key_eps.push_back({sc.c, sc.s}); } }
        { Ep a = g.rand_host(false), b = g.rand_host(false); a.port = 9; b.port = 9; all_keys.push_back(mk_key(a, b)); key_eps.push_back({a, b}); }     // a tuple that never carries traffic
        std::string d = std::string(cfg.alias ? "kf=v4v6-alias " : "") + "attach=" + std::to_string(cfg.attach) + " ack_tracking=" + std::to_string(cfg.tracking) + " keep_alive_us=" + std::to_string(cfg.ka) + (cfg.set_ka ? "" : "(default)") + " t0=" + std::to_string(cfg.t0) + " packets=" + std::to_string(pkts.size()) + " scripts:";
        for (size_t s = 0; s < g.scripts.size() && d.size() < 12000; ++s) d += " {" + show(g.scripts[s].c) + ">" + show(g.scripts[s].s) + " " + g.scripts[s].what + " n=" + std::to_string(g.scripts[s].pk.size()) + "}";
        describe_case(d);
        u64 sg = mix(cfg.ka, cfg.attach); for (auto& p : pkts) sg = mix(sg, mix(fnv(ep_bytes(p.src, false)), ((u64)p.seq << 20) ^ ((u64)p.len << 8) ^ p.flags)); sig(sg);
        if (pkts.empty()) { cnt("cases:empty"); return; }
        if (want_sample() && pkts.size() < 14) { std::string s2 = d + " ::"; for (auto& p : pkts) s2 += " | " + show(p); sample(s2); }
        // configure the follower
        install(); fol.follow_partial_streams(cfg.attach);
        if (cfg.set_ka) { if (cfg.ka % 1000000 == 0 && rng.chance(1, 2)) fol.stream_keep_alive(std::chrono::seconds(cfg.ka / 1000000)); else if (cfg.ka % 1000 == 0 && rng.chance(1, 2)) fol.stream_keep_alive(std::chrono::milliseconds(cfg.ka / 1000)); else fol.stream_keep_alive(std::chrono::microseconds(cfg.ka)); }
        size_t maxlive = 0;
        for (step_no = 0; step_no < pkts.size(); ++step_no) { if (!step(pkts[step_no])) return; maxlive = std::max(maxlive, table.size()); }
        // ---- final sweep: a late packet must flush everything that has been idle for longer than the keep-alive
        Pkt last; { Ep a = g.rand_host(rng.chance(1, 3)), b = g.rand_host(a.v6); a.port = 7; b.port = 77; last.src = a; last.dst = b; last.script = 999; last.seq = (u32)rng.next(); last.ack = (u32)rng.next(); last.ts = pkts.back().ts + 2 * cfg.ka + rng.below(3);
          bool fresh_conn = rng.chance(1, 2); last.flags = fresh_conn ? F_SYN : F_ACK; last.link = 0; all_keys.push_back(mk_key(a, b)); key_eps.push_back({a, b}); cnt(fresh_conn ? "final-sweep:by-new-connection" : "final-sweep:by-untracked-packet"); }
        size_t live_before = table.size(); pkts.push_back(last);
        if (!step(last)) return;
        for (auto& kv : table) if (kv.second.last_seen != last.ts) { fail("timeout/final-missing", "after a packet two keep-alive periods later, connection " + show(kv.second.c.ep) + ">" + show(kv.second.s.ep) + " is still tracked"); return; }
        for (size_t i = 0; i < all_keys.size(); ++i) if (!check_presence(all_keys[i], key_eps[i].first, key_eps[i].second)) return;
        for (auto& a : anns) if (a.closed + a.terminated != 1 && !(same(a.c, last.src))) { fail("lifetime/not-ended-exactly-once", "connection " + show(a.c) + ">" + show(a.s) + " got " + std::to_string(a.closed) + " closed and " + std::to_string(a.terminated) + " termination callbacks in total"); return; }
        cnt("final-sweep:connections-flushed", live_before); cnt("announcements", anns.size());
        for (auto& sc : g.scripts) cnt("script:" + sc.what.substr(0, sc.what.find_first_of(" ,")));
        if (maxlive >= 10) cnt("histories:>=10-concurrently-tracked"); if (g.scripts.size() >= 10) cnt("histories:>=10-connections");
        if (cfg.attach) cnt("histories:attach-enabled"); cnt_max("max-concurrently-tracked", maxlive);
        bool has6 = false, has4 = false; for (auto& sc : g.scripts) (sc.c.v6 ? has6 : has4) = true; if (has6 && has4) cnt("histories:v4-and-v6-mixed");
    }
};

int main(int argc, char** argv) {
    return vf::run(argc, argv, "C07", [&](long idx, Rng& rng) { Case c(rng); c.run(idx); });
}
