// C07 — Stream follower tracks connections, directions and lifetimes correctly.
// Packet-driven reference connection table (keyed by family + unordered 4-tuple, per-direction
// interval/byte-function model, FIN/RST lifetime, buffer/SACK limits, lazy keep-alive) predicts the
// callback trace of the real Tins::TCPIP::StreamFollower; compared after EVERY packet, together
// with find_stream() and the public state of the touched stream.
#include "verif.h"
#include <tins/tins.h>
#include <tins/tcp_ip/stream_follower.h>
#include <algorithm>
#include <chrono>
using namespace Tins;
using namespace Tins::TCPIP;
using namespace vf;
typedef long long i64;

// ---- vocabulary -------------------------------------------------------------------------------
enum { F_FIN = 1, F_SYN = 2, F_RST = 4, F_PSH = 8, F_ACK = 16 };
struct Ep { bool v6 = false; u8 a[16] = {0}; u16 port = 0; };
static bool same(const Ep& x, const Ep& y) { return x.v6 == y.v6 && x.port == y.port && memcmp(x.a, y.a, 16) == 0; }
static std::string ep_bytes(const Ep& e, bool padded) { std::string s((const char*)e.a, padded ? 16 : (e.v6 ? 16 : 4)); s += (char)(e.port >> 8); s += (char)(e.port & 255); return s; }
static std::string mk_key(const Ep& x, const Ep& y, bool family = true) {
    std::string a = ep_bytes(x, !family), b = ep_bytes(y, !family); if (b < a) std::swap(a, b);
    return (family ? std::string(1, x.v6 ? '6' : '4') : std::string()) + a + b;
}
static std::string show(const Ep& e) {
    char b[80]; std::string s;
    if (!e.v6) { snprintf(b, sizeof b, "%u.%u.%u.%u", e.a[0], e.a[1], e.a[2], e.a[3]); s = b; }
    else { s = "["; for (int i = 0; i < 16; i += 2) { snprintf(b, sizeof b, "%s%x", i ? ":" : "", (e.a[i] << 8) | e.a[i + 1]); s += b; } s += "]"; }
    return s + ":" + std::to_string(e.port);
}
static u32 dir_salt(const Ep& src, const Ep& dst) { std::string s = ep_bytes(src, false) + "|" + ep_bytes(dst, false) + (src.v6 ? "6" : "4"); return (u32)fnv(s); }
// the byte every packet of direction `salt` carries at absolute sequence number `seq`
static inline u8 H(u32 salt, u32 seq) { u32 x = (seq ^ salt) * 0x9E3779B1u; x ^= x >> 15; x *= 0x85EBCA77u; return (u8)(x >> 24); }
static inline int seqcmp(u32 a, u32 b) { int32_t d = (int32_t)(a - b); return d < 0 ? -1 : d > 0 ? 1 : 0; }

struct Pkt {
    int script = -1; Ep src, dst; u8 flags = 0; u32 seq = 0, ack = 0, len = 0; bool raw = false;
    std::vector<u32> sack; bool mss = false; u64 ts = 0; u8 link = 0; bool bytes_enc = false;
};
static std::string show(const Pkt& p) {
    std::string f; if (p.flags & F_SYN) f += "S"; if (p.flags & F_FIN) f += "F"; if (p.flags & F_RST) f += "R"; if (p.flags & F_ACK) f += "."; if (p.flags & F_PSH) f += "P";
    std::string s = "t=" + std::to_string(p.ts) + " #" + std::to_string(p.script) + " " + show(p.src) + ">" + show(p.dst) + " [" + f + "] seq=" + std::to_string(p.seq) + " ack=" + std::to_string(p.ack) + " len=" + std::to_string(p.len) + (p.raw ? "" : " (no payload layer)");
    if (!p.sack.empty()) { s += " sack="; for (size_t i = 0; i + 1 < p.sack.size(); i += 2) s += "(" + std::to_string(p.sack[i]) + "," + std::to_string(p.sack[i + 1]) + ")"; }
    return s;
}

// ---- interval set (half open, touching intervals are joined) --------------------------------------
struct Ivs {
    std::map<i64, i64> m;
    void add(i64 a, i64 b) {
        if (a >= b) return; auto it = m.upper_bound(a);
        if (it != m.begin()) { auto p = std::prev(it); if (p->second >= a) { a = p->first; b = std::max(b, p->second); it = m.erase(p); } }
        while (it != m.end() && it->first <= b) { b = std::max(b, it->second); it = m.erase(it); }
        m[a] = b;
    }
    void cut(i64 a, i64 b) {   // remove [a,b)
        if (a >= b) return; auto it = m.lower_bound(a);
        if (it != m.begin()) { auto p = std::prev(it); if (p->second > a) { i64 pe = p->second; p->second = a; if (pe > b) m[b] = pe; } }
        it = m.lower_bound(a);
        while (it != m.end() && it->first < b) { i64 e = it->second; it = m.erase(it); if (e > b) { m[b] = e; break; } }
    }
};

// ---- reference model ---------------------------------------------------------------------------
enum { ST_UNKNOWN, ST_SYN, ST_EST, ST_FIN, ST_RST };
static const size_t LIM_CHUNKS = 512, LIM_SACK = 1024; static const u64 LIM_BYTES = 3ull * 1024 * 1024;
struct Side {
    Ep ep; int st = ST_UNKNOWN; u32 start = 0; u64 k = 0; Ivs arrived; u32 salt = 0;
    std::map<i64, u32> chunks; u64 chunk_bytes = 0; bool disciplined = true; u64 nsegs = 0, nbytes = 0;
    bool trk_sack = false; u32 ackno = 0; Ivs sacked; bool sack_amb = false;
    void reset_tracker(u32 a) { ackno = a; trk_sack = true; sacked.m.clear(); }
    void on_flags(u8 f, u32 seq, u32 ack) {
        if (f & F_FIN) st = ST_FIN;
        else if (f & F_RST) st = ST_RST;
        else if (st == ST_SYN && (f & F_ACK)) { st = ST_EST; reset_tracker(ack); }
        else if (st == ST_UNKNOWN && (f & F_SYN)) { st = ST_SYN; start = seq + 1; if (k || !arrived.m.empty()) disciplined = false; reset_tracker(ack); }
    }
    void on_ack(u32 ack, const std::vector<u32>& sk) {      // only when ack tracking is enabled for the stream
        if (seqcmp(ack, ackno) > 0) {
            if (ackno <= ack) sacked.cut(ackno, (i64)ack + 1); else { sacked.cut(ackno, 1ll << 32); sacked.cut(0, (i64)ack + 1); }
            ackno = ack;
        }
        if (!trk_sack) { if (!sk.empty()) cnt("sack:ignored-no-syn-seen"); return; }
        for (size_t i = 1; i < sk.size(); i += 2) {
            u32 l = sk[i - 1], r = sk[i]; if (seqcmp(l, r) >= 0) continue; u32 last = r - 1;
            if (seqcmp(last, ackno) <= 0) continue;
            if (l > last || l == 0 || last == 0xffffffffu || seqcmp(l, ackno + 1) <= 0) { sack_amb = true; continue; }   // outside what the generator promises
            sacked.add(l, (i64)last + 1);
        }
    }
    // one payload-carrying segment; returns number of newly deliverable bytes
    u64 on_data(u32 seq, u32 len) {
        ++nsegs; nbytes += len;
        u32 cur = start + (u32)k; i64 rel = (int32_t)(seq - cur), end = rel + (i64)len;
        if (end < 0) { cnt("br:ignored-old"); return 0; }
        i64 a = std::max<i64>(rel, 0), A = (i64)k + a, B = (i64)k + end;
        if (rel < 0 && end > 0) cnt("br:slice-on-entry"); else if (rel > 0) cnt("br:out-of-order"); else if (rel == 0 && len) cnt("br:in-order");
        if (B == A && A != (i64)k) disciplined = false;                                   // empty out-of-order chunk: counting not defined by the statement
        if (B > A) {
            auto it = chunks.lower_bound(A);
            if (it != chunks.end() && it->first == A) { if (it->second != (u32)(B - A)) disciplined = false; if (it->second < (u32)(B - A)) { chunk_bytes += (u32)(B - A) - it->second; it->second = (u32)(B - A); } }
            else {
                if (it != chunks.end() && it->first < B) disciplined = false;
                if (it != chunks.begin()) { auto p = std::prev(it); if (p->first + (i64)p->second > A) disciplined = false; }
                chunks[A] = (u32)(B - A); chunk_bytes += (u32)(B - A);
            }
            arrived.add(A, B);
        }
        u64 before = k;
        if (!arrived.m.empty() && arrived.m.begin()->first == (i64)k) { k = (u64)arrived.m.begin()->second; arrived.m.erase(arrived.m.begin()); }
        while (!chunks.empty() && chunks.begin()->first < (i64)k) { if (chunks.begin()->first + (i64)chunks.begin()->second > (i64)k) disciplined = false; chunk_bytes -= chunks.begin()->second; chunks.erase(chunks.begin()); }
        return k - before;
    }
};
struct Inc {   // one incarnation of a connection in the reference table
    int ann = -1; bool v6 = false, partial = false, tracking = false; Side c, s; u64 created = 0, last_seen = 0; std::string key;
    bool dead = false;
    bool finished() const { return c.st == ST_RST || s.st == ST_RST || (c.st == ST_FIN && s.st == ST_FIN); }
    size_t chunks() const { return c.chunks.size() + s.chunks.size(); }
    u64 bytes() const { return c.chunk_bytes + s.chunk_bytes; }
    size_t sacked() const { return c.sacked.m.size() + s.sacked.m.size(); }
};

// ---- what the callbacks of the real follower record -------------------------------------------------
struct Ann {   // one announcement by the follower
    Stream* handle = nullptr; std::string key; Ep c, s; bool partial = false; i64 create_time = 0; u8 chw[6], shw[6];
    Bytes fresh[2]; u64 verified[2] = {0, 0}; u64 seen_total[2] = {0, 0}; bool accumulate = false; bool shrink[2] = {false, false};
    int closed = 0, terminated = 0;
};
enum { EV_NEW, EV_CDATA, EV_SDATA, EV_CLOSED, EV_TERM };
struct Ev { int type; int ann; int reason; };

static Ep ep_of(const Stream& s, bool client) {
    Ep e; e.v6 = s.is_v6(); e.port = client ? s.client_port() : s.server_port();
    if (e.v6) { IPv6Address a = client ? s.client_addr_v6() : s.server_addr_v6(); std::copy(a.begin(), a.end(), e.a); }
    else { u32 v = (u32)(client ? s.client_addr_v4() : s.server_addr_v4()); memcpy(e.a, &v, 4); }
    return e;
}
static IPv4Address v4(const Ep& e) { u32 v; memcpy(&v, e.a, 4); return IPv4Address(v); }
static IPv6Address v6(const Ep& e) { return IPv6Address(e.a); }
static void mac_of(const Ep& e, u8* m) { u64 h = fnv(ep_bytes(e, false).substr(0, e.v6 ? 16 : 4)); m[0] = 2; for (int i = 1; i < 6; ++i) m[i] = (u8)(h >> (8 * i)); }

// ---- own wire encoder (used for a share of the packets so that parsed packets are in the loop too) ------
static void put16(Bytes& b, u16 v) { b.push_back((u8)(v >> 8)); b.push_back((u8)v); }
static void put32(Bytes& b, u32 v) { put16(b, (u16)(v >> 16)); put16(b, (u16)v); }
static Bytes encode(const Pkt& p, const u8* payload) {
    Bytes tcp; put16(tcp, p.src.port); put16(tcp, p.dst.port); put32(tcp, p.seq); put32(tcp, p.ack);
    Bytes opt; if (p.mss) { opt.push_back(2); opt.push_back(4); put16(opt, 1460); opt.push_back(4); opt.push_back(2); }
    if (!p.sack.empty()) { opt.push_back(5); opt.push_back((u8)(2 + 4 * p.sack.size())); for (u32 e : p.sack) put32(opt, e); }
    while (opt.size() % 4) opt.push_back(1);
    tcp.push_back((u8)(((20 + opt.size()) / 4) << 4)); tcp.push_back(p.flags); put16(tcp, 65535); put16(tcp, 0); put16(tcp, 0);
    tcp.insert(tcp.end(), opt.begin(), opt.end()); tcp.insert(tcp.end(), payload, payload + p.len);
    Bytes out;
    if (p.link == 0) { u8 m[6]; mac_of(p.dst, m); out.insert(out.end(), m, m + 6); mac_of(p.src, m); out.insert(out.end(), m, m + 6); put16(out, p.src.v6 ? 0x86dd : 0x0800); }
    if (p.src.v6) { put32(out, 0x60000000u); put16(out, (u16)tcp.size()); out.push_back(6); out.push_back(64); out.insert(out.end(), p.src.a, p.src.a + 16); out.insert(out.end(), p.dst.a, p.dst.a + 16); }
    else {
        size_t h = out.size(); out.push_back(0x45); out.push_back(0); put16(out, (u16)(20 + tcp.size())); put16(out, (u16)(p.seq >> 3)); put16(out, 0x4000); out.push_back(64); out.push_back(6); put16(out, 0);
        out.insert(out.end(), p.src.a, p.src.a + 4); out.insert(out.end(), p.dst.a, p.dst.a + 4);
        u32 sum = 0; for (size_t i = h; i < h + 20; i += 2) sum += (out[i] << 8) | out[i + 1]; while (sum >> 16) sum = (sum & 0xffff) + (sum >> 16); sum = ~sum & 0xffff; out[h + 10] = (u8)(sum >> 8); out[h + 11] = (u8)sum;
    }
    out.insert(out.end(), tcp.begin(), tcp.end());
    return out;
}
static PDU* build(const Pkt& p) {
    Bytes pl(p.len); u32 salt = dir_salt(p.src, p.dst); for (u32 i = 0; i < p.len; ++i) pl[i] = H(salt, p.seq + i);
    if (p.bytes_enc) {
        Bytes w = encode(p, pl.data()); ExactBuf eb(w); cnt("pkt:parsed-from-own-bytes");
        if (p.link == 0) return new EthernetII(eb.data(), (u32)eb.n);
        if (p.src.v6) return new IPv6(eb.data(), (u32)eb.n);
        return new IP(eb.data(), (u32)eb.n);
    }
    cnt("pkt:built-as-objects");
    TCP* t = new TCP(p.dst.port, p.src.port); t->seq(p.seq); t->ack_seq(p.ack); t->flags(p.flags);
    if (p.mss) { t->mss(1460); t->sack_permitted(); }
    if (!p.sack.empty()) t->sack(p.sack);
    if (p.raw) t->inner_pdu(new RawPDU(pl.data(), (u32)pl.size()));
    PDU* l3;
    if (p.src.v6) { IPv6* ip = new IPv6(v6(p.dst), v6(p.src)); ip->inner_pdu(t); l3 = ip; } else { IP* ip = new IP(v4(p.dst), v4(p.src)); ip->inner_pdu(t); l3 = ip; }
    if (p.link != 0) return l3;
    u8 d[6], s[6]; mac_of(p.dst, d); mac_of(p.src, s);
    EthernetII* e = new EthernetII(EthernetII::address_type(d), EthernetII::address_type(s)); e->inner_pdu(l3); return e;
}

// ---- generator --------------------------------------------------------------------------------------
enum { K_NORMAL, K_CHUNKS, K_BYTES, K_SACK };
struct Script { Ep c, s; int kind = K_NORMAL; std::string what; std::vector<Pkt> pk; bool ends_with_rst = false; u64 t_end = 0; };
struct Cfg { bool attach = false, tracking = false, set_ka = true; u64 ka = 300000000ull; int ka_unit = 0; u64 t0 = 0; bool alias = false; int bytes_share = 3; };

struct SegG { i64 off; u32 len; };
// C06-style segment multiset for a stream of n bytes (offsets relative to ISN+1), in a perturbed arrival order
static std::vector<SegG> gen_segs(Rng& r, size_t n, size_t cap) {
    std::vector<SegG> v; if (!n) return v;
    u32 mss = 1 + r.below(r.chance(1, 3) ? 64 : 1460); if (n / mss > cap / 2) mss = (u32)(n / (cap / 2) + 1);
    for (size_t o = 0; o < n;) { u32 l = 1 + r.below(mss); if (o + l > n) l = (u32)(n - o); v.push_back({(i64)o, l}); o += l; }
    size_t base = v.size(), extra = r.below((u32)std::min(base, cap / 2) + 3);
    for (size_t i = 0; i < extra; ++i) switch (r.below(7)) {
        case 0: v.push_back(v[r.below((u32)base)]); break;
        case 1: { i64 o = r.below((u32)n); u32 l = 1 + r.below((u32)std::min<size_t>(n - o, 3 * mss)); v.push_back({o, l}); break; }
        case 2: { SegG g = v[r.below((u32)base)]; g.len = 1 + r.below((u32)(n - g.off)); if (g.len > 4000) g.len = 4000; v.push_back(g); break; }
        case 3: { i64 o = -(i64)(1 + r.below(3000)); u32 l = 1 + r.below((u32)(-o) + (u32)std::min<size_t>(n, r.chance(1, 8) ? 4000 : 200)); v.push_back({o, l}); break; }   // stale, mostly reaching only a little into the stream
        case 4: v.push_back({(i64)r.below((u32)n + 1), 0}); break;
        case 5: { size_t a = r.below((u32)base), b = std::min(base - 1, a + 1 + r.below(4)); v.push_back({v[a].off, (u32)(v[b].off + v[b].len - v[a].off)}); break; }
        default: { i64 o = r.below((u32)n); v.push_back({o, 1 + r.below((u32)std::min<size_t>(n - o, 20))}); }
    }
    u32 style = r.below(5); std::vector<std::pair<double, SegG>> keyed; double noise = style == 0 ? 0.0 : style == 1 ? 1e9 : (double)(1 + r.below((u32)n * 2 + 1));
    for (auto& g : v) keyed.push_back({(double)g.off + noise * ((double)(r.next() >> 11) / 9007199254740992.0), g});
    if (style == 4) for (auto& kv : keyed) kv.first = -kv.first;
    std::stable_sort(keyed.begin(), keyed.end(), [](const std::pair<double, SegG>& a, const std::pair<double, SegG>& b) { return a.first < b.first; });
    for (size_t i = 0; i < keyed.size(); ++i) v[i] = keyed[i].second;
    return v;
}
static u32 pick_isn(Rng& r) { switch (r.below(8)) { case 0: return 0; case 1: return 0xffffffffu; case 2: return 0x7fffffffu; case 3: return 0xfffffffeu - r.below(3000); case 4: return 0x80000000u - r.below(2000); case 5: return 0xffffffffu - r.below(70000); default: return (u32)r.next(); } }

static u64 gap(Rng& r, u64 ka, int quiet) {
    u32 x = r.below(1000);
    if (x < (u32)(1000 - quiet)) return r.below(4) ? r.below64(ka / 64 + 1) : 0;
    switch (r.below(9)) { case 0: return ka - 1; case 1: return ka; case 2: return ka + 1; case 3: return ka + r.below64(ka); case 4: return 2 * ka - 1; case 5: return 2 * ka; case 6: return 2 * ka + 1; case 7: return ka / 2 + r.below64(ka / 2); default: return 3 * ka + r.below64(ka); }
}

struct Gen {
    Rng& r; Cfg& cfg; std::vector<Script> scripts; std::set<std::string> keys, padkeys4, padkeys6; std::vector<Ep> hosts;
    Gen(Rng& rr, Cfg& c) : r(rr), cfg(c) {}
    Ep rand_host(bool six) { Ep e; e.v6 = six; for (int i = 0; i < (six ? 16 : 4); ++i) e.a[i] = r.byte(); if (!six && e.a[0] == 0) e.a[0] = 10; if (six) { e.a[0] = 0x20; e.a[1] = 0x01; } return e; }
    Ep embed(const Ep& v4e, int how) { Ep e; e.v6 = true; e.port = v4e.port; if (how == 0) { e.a[10] = e.a[11] = 0xff; memcpy(e.a + 12, v4e.a, 4); } else if (how == 1) memcpy(e.a + 12, v4e.a, 4); else memcpy(e.a, v4e.a, 4); return e; }
    u16 rand_port() { static const u16 common[] = {80, 443, 22, 8080, 1, 65535, 0}; return r.chance(1, 4) ? common[r.below(7)] : (u16)r.range(1024, 65535); }
    bool pick_tuple(Ep& c, Ep& s) {
        for (int tries = 0; tries < 50; ++tries) {
            u32 how = scripts.empty() ? 0 : r.below(12);
            if (how <= 3) {
                bool six = r.chance(1, 3);
                auto host = [&]() { std::vector<Ep> same_f; for (auto& h : hosts) if (h.v6 == six) same_f.push_back(h); if (!same_f.empty() && r.chance(2, 3)) return r.pick(same_f); Ep h = rand_host(six); hosts.push_back(h); return h; };
                c = host(); s = host(); c.port = rand_port(); s.port = rand_port(); cnt("tuple:fresh");
            } else {
                const Script& b = scripts[r.below((u32)scripts.size())]; c = b.c; s = b.s;
                switch (how) {
                    case 4: c.port = (u16)(c.port + 1); cnt("tuple:client-port+1"); break;
                    case 5: s.port = (u16)(s.port + (r.chance(1, 2) ? 1 : 0xffff)); cnt("tuple:server-port+-1"); break;
                    case 6: std::swap(c.port, s.port); cnt("tuple:ports-swapped-between-hosts"); break;
                    case 7: { Ep t = c; c = s; s = t; std::swap(c.port, s.port); cnt("tuple:roles-swapped-same-ports"); break; }
                    case 8: if (c.v6 || !r.chance(1, 3)) continue; { int h = r.below(3); if (h == 2 && r.chance(1, 2)) h = r.below(2); c = embed(c, h); s = embed(s, h); cnt(h == 2 ? "tuple:v4-embedded-leading" : h == 1 ? "tuple:v4-compatible" : "tuple:v4-mapped"); } break;
                    case 9: memcpy(s.a, c.a, 16); if (s.port == c.port) s.port = (u16)(c.port + 1); cnt("tuple:same-address-both-sides"); break;
                    case 10: { int i = c.v6 ? 15 : 3; c.a[i] = (u8)(c.a[i] + 1); cnt("tuple:neighbour-address"); break; }
                    default: { Ep t = c; c = s; s = t; c.port = (u16)(c.port ^ 1); cnt("tuple:reversed-one-port-bit"); }
                }
            }
            if (same(c, s)) continue;
            std::string k = mk_key(c, s); if (keys.count(k)) continue;
            keys.insert(k); (c.v6 ? padkeys6 : padkeys4).insert(mk_key(c, s, false));
            return true;
        }
        return false;
    }
    Pkt mk(const Script& sc, int idx, bool from_c, u8 flags, u32 seq, u32 ack, u32 len) {
        Pkt p; p.script = idx; p.src = from_c ? sc.c : sc.s; p.dst = from_c ? sc.s : sc.c; p.flags = flags; p.seq = seq; p.ack = ack; p.len = len; p.raw = len > 0;
        p.bytes_enc = r.below(10) < (u32)cfg.bytes_share && len < 60000; p.link = r.chance(3, 4) ? 0 : 1; return p;
    }
    void handshake(Script& sc, int idx, u32 ic, u32 is, bool third = true) {
        Pkt a = mk(sc, idx, true, F_SYN, ic, 0, 0); a.mss = r.chance(1, 2); sc.pk.push_back(a);
        Pkt b = mk(sc, idx, false, F_SYN | F_ACK, is, ic + 1, 0); b.mss = a.mss; sc.pk.push_back(b);
        if (third) sc.pk.push_back(mk(sc, idx, true, F_ACK, ic + 1, is + 1, 0));
    }
    void stamp(Script& sc, u64 t, int quiet, u64 small_div = 1) {
        for (auto& p : sc.pk) { u64 g = small_div > 1 ? r.below64(cfg.ka / small_div + 1) : gap(r, cfg.ka, quiet); t += g; p.ts = t; }
        sc.t_end = t;
    }
    // a normal connection script
    void normal(int idx, u64 t0, const Ep* reuse_c = nullptr, const Ep* reuse_s = nullptr) {
        Script sc; if (reuse_c) { sc.c = *reuse_c; sc.s = *reuse_s; } else if (!pick_tuple(sc.c, sc.s)) return;
        u32 ic = pick_isn(r), is = pick_isn(r);
        bool hs = cfg.attach ? r.chance(1, 2) : !r.chance(1, 16);
        size_t big = r.chance(1, 12) ? 16384 : r.chance(1, 3) ? 64 : 2500;
        size_t nc = r.chance(1, 8) ? 0 : 1 + r.below((u32)big), ns = r.chance(1, 8) ? 0 : 1 + r.below((u32)big);
        std::vector<SegG> gc = gen_segs(r, nc, 140), gs = gen_segs(r, ns, 140);
        if (hs) handshake(sc, idx, ic, is, !r.chance(1, 5));
        size_t first_data = sc.pk.size();
        Ivs sentc, sents; size_t i = 0, j = 0; bool sackful = cfg.tracking && r.chance(1, 3);
        auto contig = [](Ivs& v) { return (!v.m.empty() && v.m.begin()->first <= 0) ? (u32)v.m.begin()->second : 0u; };
        while (i < gc.size() || j < gs.size()) {
            bool fc = j >= gs.size() || (i < gc.size() && r.chance((u32)(gc.size() - i), (u32)(gc.size() - i + gs.size() - j)));
            const SegG& g = fc ? gc[i++] : gs[j++]; (fc ? sentc : sents).add(std::max<i64>(g.off, 0), g.off + (i64)g.len);
            u32 other_isn = fc ? is : ic; u32 ackv = other_isn + 1 + contig(fc ? sents : sentc);
            Pkt p = mk(sc, idx, fc, F_ACK | (r.chance(1, 6) ? F_PSH : 0), (fc ? ic : is) + 1 + (u32)g.off, ackv, g.len);
            if (g.len == 0 && !cfg.attach && r.chance(1, 2)) { p.raw = true; p.bytes_enc = false; }       // empty payload layer
            if (sackful && r.chance(1, 4)) { u32 n = 1 + r.below(3); u32 l = ackv + 5 + r.below(50); for (u32 q = 0; q < n; ++q) { u32 w = 2 + r.below(30); p.sack.push_back(l); p.sack.push_back(l + w); l += w + 2 + r.below(40); } }
            sc.pk.push_back(p);
        }
        // close
        u32 fin_c = ic + 1 + (u32)nc, fin_s = is + 1 + (u32)ns; int close = r.below(10); size_t before_close = sc.pk.size();
        auto fin = [&](bool c) { return mk(sc, idx, c, F_FIN | F_ACK, c ? fin_c : fin_s, c ? fin_s : fin_c, 0); };
        auto rst = [&](bool c, bool after_own_fin) { return mk(sc, idx, c, F_RST | (r.chance(1, 2) ? F_ACK : 0), (c ? fin_c : fin_s) + (after_own_fin ? 1 : 0), c ? fin_s : fin_c, 0); };
        switch (close) {
            case 0: case 1: { bool cf = r.chance(1, 2); sc.pk.push_back(fin(cf)); if (r.chance(1, 2)) sc.pk.push_back(mk(sc, idx, !cf, F_ACK, cf ? fin_s : fin_c, (cf ? fin_c : fin_s) + 1, 0)); sc.pk.push_back(fin(!cf)); if (r.chance(1, 2)) sc.pk.push_back(mk(sc, idx, cf, F_ACK, (cf ? fin_c : fin_s) + 1, (cf ? fin_s : fin_c) + 1, 0)); sc.what = cf ? "fin-fin(client first)" : "fin-fin(server first)"; break; }
            case 2: sc.pk.push_back(rst(true, false)); sc.what = "rst-by-client"; sc.ends_with_rst = true; break;
            case 3: sc.pk.push_back(rst(false, false)); sc.what = "rst-by-server"; sc.ends_with_rst = true; break;
            case 4: { bool c = r.chance(1, 2); sc.pk.push_back(fin(c)); if (r.chance(1, 2)) sc.pk.push_back(mk(sc, idx, !c, F_ACK, c ? fin_s : fin_c, (c ? fin_c : fin_s) + 1, 0)); sc.pk.push_back(rst(c, true)); sc.what = "fin-then-rst-same-side"; sc.ends_with_rst = true; break; }
            case 5: { bool c = r.chance(1, 2); sc.pk.push_back(fin(c)); sc.pk.push_back(rst(!c, false)); sc.what = "fin-then-rst-other-side"; sc.ends_with_rst = true; break; }
            case 6: { bool c = r.chance(1, 2); sc.pk.push_back(fin(c)); int more = r.below(4); for (int q = 0; q < more; ++q) sc.pk.push_back(mk(sc, idx, !c, F_ACK, c ? fin_s : fin_c, (c ? fin_c : fin_s) + 1, 0)); if (r.chance(1, 2)) sc.pk.push_back(fin(c)); sc.what = "half-close-only"; break; }
            case 7: { bool cf = r.chance(1, 2); size_t a = sc.pk.size(); sc.pk.push_back(fin(cf)); sc.pk.push_back(fin(!cf));     // FINs piggybacked / moved before late data
                      for (size_t q = a; q < sc.pk.size(); ++q) if (q > first_data + 1 && r.chance(1, 2)) { size_t to = q - 1 - r.below((u32)std::min<size_t>(q - first_data - 1, 5)); Pkt t = sc.pk[q]; sc.pk.erase(sc.pk.begin() + q); sc.pk.insert(sc.pk.begin() + to, t); }
                      sc.what = "fin-fin(reordered with data)"; break; }
            default: sc.what = "left-open";
        }
        // duplicates of data-phase packets inside the data phase, and strays after the close
        if (before_close > first_data) {
            u32 dups = r.below(4); for (u32 q = 0; q < dups; ++q) { size_t from = first_data + r.below((u32)(before_close - first_data)); Pkt d = sc.pk[from]; size_t lim = sc.ends_with_rst ? sc.pk.size() - 1 : sc.pk.size(); size_t to = from + r.below((u32)(lim - from + 1)); sc.pk.insert(sc.pk.begin() + to, d); if (to >= before_close) cnt("gen:stray-after-close"); }
        }
        if (!hs) sc.what += cfg.attach ? ",mid-stream" : ",mid-stream(must stay unannounced)";
        sc.what += " isn=" + std::to_string(ic) + "/" + std::to_string(is) + " bytes=" + std::to_string(nc) + "/" + std::to_string(ns);
        stamp(sc, t0, r.chance(1, 4) ? 60 : 8);
        bool rst_end = sc.ends_with_rst; u64 te = sc.t_end; Ep c = sc.c, s = sc.s; scripts.push_back(sc);
        if (rst_end && !reuse_c && r.chance(1, 3)) { cnt("gen:tuple-reused-after-rst"); bool sw = r.chance(1, 2); normal(idx + 1000, te + r.below64(cfg.ka / 8 + 1), sw ? &s : &c, sw ? &c : &s); }
    }
    // limit scripts: every buffered segment is disjoint from every other (or an exact duplicate), so the chunk count is unambiguous
    void limit_chunks(int idx, u64 t0) {
        Script sc; sc.kind = K_CHUNKS; if (!pick_tuple(sc.c, sc.s)) return; u32 ic = pick_isn(r), is = pick_isn(r); handshake(sc, idx, ic, is);
        int variant = r.below(4); u32 nC = r.below(513), nS = 512 - nC; if (r.chance(1, 4)) { nC = r.chance(1, 2) ? 512 : 0; nS = 512 - nC; }
        u32 w = 1 + r.below(3), stride = w + (r.chance(1, 3) ? 0 : 1 + r.below(3));     // stride == w: touching, still separate chunks
        std::vector<Pkt> ps; auto chunk = [&](bool c, u32 n) { return mk(sc, idx, c, F_ACK, (c ? ic : is) + 1 + 1 + n * stride, (c ? is : ic) + 1, w); };
        for (u32 n = 0; n < nC; ++n) ps.push_back(chunk(true, n)); for (u32 n = 0; n < nS; ++n) ps.push_back(chunk(false, n));
        for (size_t q = ps.size(); q > 1; --q) std::swap(ps[q - 1], ps[r.below((u32)q)]);
        u32 dups = r.below(6); for (u32 q = 0; q < dups && !ps.empty(); ++q) ps.insert(ps.begin() + r.below((u32)ps.size()), ps[r.below((u32)ps.size())]);   // exact duplicates: may come before or after the original
        sc.pk.insert(sc.pk.end(), ps.begin(), ps.end());
        bool cside = nC ? (nS ? r.chance(1, 2) : true) : false; u32 next = cside ? nC : nS;
        if (variant == 0) { sc.pk.push_back(chunk(cside, next)); sc.what = "chunks:512 then one more"; }
        else if (variant == 1) {   // fill the hole at offset 0: delivers the first chunk when it starts at offset 1, so the count drops, then cross again
            sc.pk.push_back(mk(sc, idx, cside, F_ACK, (cside ? ic : is) + 1, (cside ? is : ic) + 1, 1)); u32 more = 1 + r.below(3);
            for (u32 q = 0; q < more; ++q) sc.pk.push_back(chunk(cside, next + q)); sc.what = "chunks:512, hole filled, " + std::to_string(more) + " more";
        }
        else if (variant == 2) { sc.pk.push_back(mk(sc, idx, true, F_FIN | F_ACK, ic + 1 + 5000, is + 1, 0)); sc.pk.push_back(mk(sc, idx, false, F_FIN | F_ACK, is + 1 + 5000, ic + 1, 0)); sc.what = "chunks:exactly 512 then fin-fin"; }
        else { sc.what = "chunks:exactly 512 then idle"; }
        u32 tail = r.below(3); for (u32 q = 0; q < tail; ++q) sc.pk.push_back(chunk(cside, next + 10 + q));
        sc.what += " split=" + std::to_string(nC) + "/" + std::to_string(nS) + " w=" + std::to_string(w) + " stride=" + std::to_string(stride) + " isn=" + std::to_string(ic) + "/" + std::to_string(is);
        stamp(sc, t0, 0, 4096); scripts.push_back(sc);
    }
    void limit_bytes(int idx, u64 t0) {
        Script sc; sc.kind = K_BYTES; if (!pick_tuple(sc.c, sc.s)) return; u32 ic = pick_isn(r), is = pick_isn(r); handshake(sc, idx, ic, is);
        u32 maxseg = sc.c.v6 ? 65515 : 65495; u64 left = LIM_BYTES; u32 offc = 1, offs = 1; int variant = r.below(3); std::vector<Pkt> ps;
        bool both = r.chance(1, 2);
        while (left) { u32 l = (u32)std::min<u64>(left, r.chance(1, 5) ? 20000 + r.below(maxseg - 20000 + 1) : maxseg); bool c = both ? r.chance(1, 2) : true; u32& off = c ? offc : offs; ps.push_back(mk(sc, idx, c, F_ACK, (c ? ic : is) + 1 + off, (c ? is : ic) + 1, l)); off += l; left -= l; }
        for (size_t q = ps.size(); q > 1; --q) if (r.chance(1, 3)) std::swap(ps[q - 1], ps[r.below((u32)q)]);
        sc.pk.insert(sc.pk.end(), ps.begin(), ps.end());
        bool c = both ? r.chance(1, 2) : true; u32 off = c ? offc : offs;
        if (variant == 0) { sc.pk.push_back(mk(sc, idx, c, F_ACK, (c ? ic : is) + 1 + off, (c ? is : ic) + 1, 1)); sc.what = "bytes:3MiB then one more byte"; }
        else if (variant == 1) { sc.pk.push_back(mk(sc, idx, true, F_RST, ic + 1, 0, 0)); sc.what = "bytes:exactly 3MiB then rst"; }
        else { sc.pk.push_back(mk(sc, idx, c, F_ACK, (c ? ic : is) + 1, (c ? is : ic) + 1, 1)); sc.pk.push_back(mk(sc, idx, !c, F_ACK, (!c ? ic : is) + 1 + 70000000u, (!c ? is : ic) + 1, 1)); sc.what = "bytes:exactly 3MiB, one hole filled (delivery), then 1 byte elsewhere"; }
        sc.what += std::string(both ? " both-directions" : " client-only") + " isn=" + std::to_string(ic) + "/" + std::to_string(is);
        stamp(sc, t0, 0, 4096); scripts.push_back(sc);
    }
    void limit_sack(int idx, u64 t0) {
        Script sc; sc.kind = K_SACK; if (!pick_tuple(sc.c, sc.s)) return; u32 ic = r.below(0xfff00000u) + 16, is = r.below(0xfff00000u) + 16; handshake(sc, idx, ic, is);
        sc.pk.push_back(mk(sc, idx, false, F_ACK, is + 1, ic + 1, 0));        // both sides have acknowledged: established
        int variant = r.below(4); u32 nC = r.below(1025), nS = 1024 - nC; if (r.chance(1, 4)) { nC = r.chance(1, 2) ? 1024 : 0; nS = 1024 - nC; }
        u32 posc = is + 1 + 10 + r.below(100), poss = ic + 1 + 10 + r.below(100), firstc = posc; std::vector<Pkt> ps;
        auto blocks = [&](bool c, u32 n) { Pkt p = mk(sc, idx, c, F_ACK, (c ? ic : is) + 1, (c ? is : ic) + 1, 0); u32& pos = c ? posc : poss; for (u32 q = 0; q < n; ++q) { u32 w = 1 + r.below(6); p.sack.push_back(pos); p.sack.push_back(pos + w); pos += w + 1 + r.below(8); } return p; };
        for (u32 n = nC; n;) { u32 q = std::min<u32>(n, 1 + r.below(4)); ps.push_back(blocks(true, q)); n -= q; }
        size_t csz = ps.size();
        for (u32 n = nS; n;) { u32 q = std::min<u32>(n, 1 + r.below(4)); ps.push_back(blocks(false, q)); n -= q; }
        // interleave the two directions keeping each side's order, and repeat some packets (re-sent SACKs do not add intervals)
        std::vector<Pkt> mixed; size_t i = 0, j = csz; while (i < csz || j < ps.size()) { bool fc = j >= ps.size() || (i < csz && r.chance(1, 2)); mixed.push_back(fc ? ps[i++] : ps[j++]); if (r.chance(1, 40)) mixed.push_back(mixed[r.below((u32)mixed.size())]); }
        sc.pk.insert(sc.pk.end(), mixed.begin(), mixed.end());
        bool c = nC ? (nS ? r.chance(1, 2) : true) : false;
        if (variant == 0) { sc.pk.push_back(blocks(c, 1)); sc.what = "sack:1024 then one more"; }
        else if (variant == 1 && nC >= 3) {   // cumulative ack moves into the gap after the first client-side interval: one interval fewer, then cross again
            Pkt a = mk(sc, idx, true, F_ACK, ic + 1, 0, 0); const Pkt& firstp = ps[0]; a.ack = firstp.sack[1]; (void)firstc; sc.pk.push_back(a);
            sc.pk.push_back(blocks(c, 1)); sc.pk.push_back(blocks(c, 1)); sc.what = "sack:1024, ack passes first interval, two more";
        }
        else if (variant == 2) { sc.pk.push_back(mk(sc, idx, true, F_FIN | F_ACK, ic + 1, is + 1, 0)); sc.pk.push_back(mk(sc, idx, false, F_FIN | F_ACK, is + 1, ic + 2, 0)); sc.what = "sack:exactly 1024 then fin-fin"; }
        else { sc.pk.push_back(blocks(c, 2)); sc.what = "sack:1024 then two more in one packet"; }
        sc.what += " split=" + std::to_string(nC) + "/" + std::to_string(nS) + " isn=" + std::to_string(ic) + "/" + std::to_string(is);
        stamp(sc, t0, 0, 8192); scripts.push_back(sc);
    }
};

// ---- one case ---------------------------------------------------------------------------------------
struct Case {
    Rng& rng; Cfg cfg; StreamFollower fol; std::map<std::string, Inc> table; std::vector<Ann> anns; std::vector<Ev> evs; std::map<std::string, int> last_ann;
    std::vector<Pkt> pkts; size_t step_no = 0; bool failed = false; std::string sfx; u64 acc_salt = 0; std::vector<std::string> all_keys;
    std::map<int, std::vector<u32>> recent;   // per script: indices of its last packets (for the violation text)
    explicit Case(Rng& r) : rng(r) {}

    bool fail(const std::string& key, const std::string& msg) {
        if (failed) return false; failed = true;
        std::string ctx = " :: at packet #" + std::to_string(step_no) + " of " + std::to_string(pkts.size());
        if (step_no < pkts.size()) { ctx += " {" + show(pkts[step_no]) + "} recent packets of this tuple:"; for (u32 i : recent[pkts[step_no].script % 1000]) ctx += " | #" + std::to_string(i) + " " + show(pkts[i]).substr(0, 160); }
        violation(key + sfx, msg + ctx); return false;
    }
    void install() {
        fol.new_stream_callback([this](Stream& st) {
            Ann a; a.handle = &st; a.c = ep_of(st, true); a.s = ep_of(st, false); a.key = mk_key(a.c, a.s); a.partial = st.is_partial_stream();
            a.create_time = std::chrono::duration_cast<std::chrono::microseconds>(st.create_time()).count();
            std::copy(st.client_hw_addr().begin(), st.client_hw_addr().end(), a.chw); std::copy(st.server_hw_addr().begin(), st.server_hw_addr().end(), a.shw);
            a.accumulate = (mix(acc_salt, fnv(a.key)) % 5) == 0;
            int id = (int)anns.size(); anns.push_back(a); last_ann[a.key] = id; evs.push_back({EV_NEW, id, 0});
            if (a.accumulate) st.auto_cleanup_payloads(false);
            if (cfg.tracking) st.enable_ack_tracking();
            st.client_data_callback([this, id](Stream& s) { on_data(s, id, 0); });
            st.server_data_callback([this, id](Stream& s) { on_data(s, id, 1); });
            st.stream_closed_callback([this, id](Stream& s) { if (&s != anns[id].handle) evs.push_back({EV_CLOSED, -2, 0}); else { anns[id].closed++; evs.push_back({EV_CLOSED, id, 0}); } });
        });
        fol.stream_termination_callback([this](Stream& s, StreamFollower::TerminationReason why) {
            std::string k = mk_key(ep_of(s, true), ep_of(s, false)); auto it = last_ann.find(k);
            int id = (it == last_ann.end() || anns[it->second].handle != &s) ? -2 : it->second;
            if (id >= 0) anns[id].terminated++;
            evs.push_back({EV_TERM, id, (int)why});
        });
    }
    void on_data(Stream& s, int id, int dir) {
        Ann& a = anns[id]; if (&s != a.handle) { evs.push_back({dir ? EV_SDATA : EV_CDATA, -2, 0}); return; }
        const Stream::payload_type& pl = dir ? s.server_payload() : s.client_payload();
        if (a.accumulate) { if (pl.size() < a.seen_total[dir]) a.shrink[dir] = true; else a.fresh[dir].insert(a.fresh[dir].end(), pl.begin() + a.seen_total[dir], pl.end()); a.seen_total[dir] = pl.size(); }
        else { a.fresh[dir].insert(a.fresh[dir].end(), pl.begin(), pl.end()); a.seen_total[dir] += pl.size(); }
        evs.push_back({dir ? EV_SDATA : EV_CDATA, id, 0});
    }
    // compare what was delivered for announcement `id` with the model's prefix lengths
    bool check_data(int id, const Inc& inc) {
        Ann& a = anns[id];
        for (int d = 0; d < 2; ++d) {
            const Side& sd = d ? inc.s : inc.c; const char* dn = d ? "server" : "client";
            if (a.shrink[d]) return fail(std::string("data/accumulated-payload-shrank/") + dn, "payload() got shorter although automatic cleanup is off");
            u64 total = a.verified[d] + a.fresh[d].size();
            if (total != sd.k) return fail(std::string(total > sd.k ? "data/delivered-too-much/" : "data/delivered-too-little/") + dn, std::string(dn) + " direction delivered " + std::to_string(total) + " bytes in total, contiguous prefix that has arrived is " + std::to_string(sd.k) + " (stream " + show(inc.c.ep) + ">" + show(inc.s.ep) + ")");
            for (size_t i = 0; i < a.fresh[d].size(); ++i) if (a.fresh[d][i] != H(sd.salt, sd.start + (u32)(a.verified[d] + i))) return fail(std::string("data/wrong-bytes/") + dn, std::string(dn) + " direction: delivered byte at stream offset " + std::to_string(a.verified[d] + i) + " is not the byte that was sent in this connection and direction at that sequence number");
            cnt("chk:delivered-bytes", a.fresh[d].size()); a.verified[d] = total; a.fresh[d].clear();
        }
        return true;
    }
    Stream* lookup(const Ep& c, const Ep& s, bool& threw_other) {
        threw_other = false;
        try { bool sw = rng.chance(1, 2); const Ep& x = sw ? s : c; const Ep& y = sw ? c : s; return c.v6 ? &fol.find_stream(v6(x), x.port, v6(y), y.port) : &fol.find_stream(v4(x), x.port, v4(y), y.port); }
        catch (stream_not_found&) { return nullptr; } catch (...) { threw_other = true; return nullptr; }
    }
    bool check_presence(const std::string& key, const Ep& x, const Ep& y) {
        auto it = table.find(key); bool other; Stream* st = lookup(x, y, other); cnt("chk:find_stream");
        if (other) return fail("find_stream/unexpected-exception", "find_stream threw something else than stream_not_found");
        if (it == table.end()) { if (st) return fail("forget/still-tracked", "find_stream still finds " + show(x) + "<>" + show(y) + " although the connection is closed/terminated/never announced in the reference table"); return true; }
        const Inc& inc = it->second;
        if (!st) return fail("forget/too-early", "find_stream does not find live connection " + show(inc.c.ep) + ">" + show(inc.s.ep) + " (client state " + std::to_string(inc.c.st) + ", server state " + std::to_string(inc.s.st) + "; 3=FIN 4=RST)");
        if (st != anns[inc.ann].handle) return fail("find_stream/other-object", "find_stream returns a different Stream object than the one announced for this connection");
        if (!same(ep_of(*st, true), inc.c.ep) || !same(ep_of(*st, false), inc.s.ep)) return fail("find_stream/wrong-endpoints", "stream found for " + show(inc.c.ep) + ">" + show(inc.s.ep) + " reports " + show(ep_of(*st, true)) + ">" + show(ep_of(*st, false)));
        if (st->is_finished()) return fail("forget/finished-but-kept", "a tracked stream reports is_finished()");
        return true;
    }
    bool check_state(const Inc& inc, u64 ts) {
        Stream* st = anns[inc.ann].handle;     // presence was verified just before
        for (int d = 0; d < 2; ++d) {
            const Side& sd = d ? inc.s : inc.c; const Flow& fl = d ? st->server_flow() : st->client_flow(); const char* dn = d ? "server" : "client";
            if (fl.sequence_number() != sd.start + (u32)sd.k) return fail(std::string("state/sequence-number/") + dn, std::string(dn) + " flow expects sequence " + std::to_string(fl.sequence_number()) + ", reference " + std::to_string(sd.start + (u32)sd.k));
            if (sd.disciplined) {
                if (fl.buffered_payload().size() != sd.chunks.size()) return fail(std::string("state/buffered-chunks/") + dn, std::string(dn) + " flow holds " + std::to_string(fl.buffered_payload().size()) + " out-of-order chunks, reference " + std::to_string(sd.chunks.size()));
                if (fl.total_buffered_bytes() != sd.chunk_bytes) return fail(std::string("state/buffered-bytes/") + dn, std::string(dn) + " flow reports " + std::to_string(fl.total_buffered_bytes()) + " buffered bytes, reference " + std::to_string(sd.chunk_bytes));
                cnt("chk:buffer-accounting");
            }
        }
        i64 ls = std::chrono::duration_cast<std::chrono::microseconds>(st->last_seen()).count();
        if ((u64)ls != ts) return fail("state/last-seen", "last_seen()=" + std::to_string(ls) + " after a packet of this connection at " + std::to_string(ts));
        return true;
    }

    bool step(const Pkt& p) {
        evs.clear(); const u64 ts = p.ts; std::string key = mk_key(p.src, p.dst);
        { std::vector<u32>& rc = recent[p.script % 1000]; if (rc.size() >= 10) rc.erase(rc.begin()); rc.push_back((u32)step_no); }
        // ---- prediction by the reference table
        auto it = table.find(key); bool expect_new = false, expect_closed = false; int expect_term = -1; bool term_amb = false, from_c = true; Inc* inc = nullptr;
        const bool is_syn = (p.flags & F_SYN) && !(p.flags & F_ACK); int prev_c = 0, prev_s = 0;
        if (it == table.end() && (is_syn || (cfg.attach && p.raw))) {
            Inc n; n.key = key; n.v6 = p.src.v6; n.partial = !is_syn; n.tracking = cfg.tracking; n.created = ts; n.c.ep = p.src; n.s.ep = p.dst;
            n.c.salt = dir_salt(p.src, p.dst); n.s.salt = dir_salt(p.dst, p.src); n.c.start = p.seq; n.s.start = p.ack;
            if (!is_syn) n.c.st = n.s.st = ST_EST;
            it = table.insert({key, n}).first; expect_new = true; cnt(is_syn ? "model:announce-on-syn" : "model:announce-on-data(partial)");
        }
        if (it != table.end()) {
            inc = &it->second; from_c = same(p.src, inc->c.ep); Side& sd = from_c ? inc->c : inc->s; prev_c = inc->c.st; prev_s = inc->s.st;
            inc->last_seen = ts; sd.on_flags(p.flags, p.seq, p.ack);
            if (inc->tracking) sd.on_ack(p.ack, p.sack);
            if (p.raw) sd.on_data(p.seq, p.len);
            if (!expect_new && (p.flags & F_SYN)) cnt("model:syn-flag-on-tracked-connection");
            expect_closed = inc->finished();
            const bool amb = !inc->c.disciplined || !inc->s.disciplined;
            if (!amb) { if (inc->chunks() > LIM_CHUNKS || inc->bytes() > LIM_BYTES) expect_term = StreamFollower::BUFFERED_DATA; }
            else if (inc->c.nsegs + inc->s.nsegs > LIM_CHUNKS || inc->c.nbytes + inc->s.nbytes > LIM_BYTES) { term_amb = true; cnt("model:buffer-limit-undecidable"); }
            if (expect_term < 0 && !term_amb) {
                if (inc->c.sack_amb || inc->s.sack_amb) { if (inc->sacked() + 8 > LIM_SACK) { term_amb = true; cnt("model:sack-limit-undecidable"); } }
                else if (inc->sacked() > LIM_SACK) expect_term = StreamFollower::SACKED_SEGMENTS;
            }
            cnt_max("max-buffered-chunks-in-model", inc->chunks()); cnt_max("max-sacked-intervals-in-model", inc->sacked());
            if (expect_closed || expect_term >= 0) inc->dead = true;
        } else cnt("model:packet-of-untracked-connection");
        // ---- the real follower
        try { Packet pk(build(p), Timestamp(std::chrono::microseconds(ts)), Packet::own_pdu()); fol.process_packet(pk); }
        catch (...) { return fail("exception/process_packet/" + current_exception_type(), "process_packet threw " + current_exception_type()); }
        if (st().a.verbose) { std::string e; static const char* en[] = {"new-stream", "client-data", "server-data", "closed", "terminated"}; for (auto& ev : evs) e += std::string(" ") + en[ev.type] + "(conn#" + std::to_string(ev.ann) + (ev.type == EV_TERM ? std::string(",reason=") + (ev.reason == 0 ? "TIMEOUT" : ev.reason == 1 ? "BUFFERED_DATA" : "SACKED_SEGMENTS") : std::string()) + ")"; fprintf(stderr, "#%zu %s =>%s%s\n", step_no, show(p).c_str(), e.c_str(), inc ? "" : " [untracked]"); }
        // ---- compare the callback trace
        int got_new = 0, got_closed = 0, got_term = 0; int tid = inc && !expect_new ? inc->ann : -1;
        auto limits = [&]() { return inc ? std::to_string(inc->chunks()) + " chunks / " + std::to_string(inc->bytes()) + " bytes buffered, " + std::to_string(inc->sacked()) + " SACKed intervals" : std::string(); };
        auto states = [&]() { return inc ? "(client state " + std::to_string(inc->c.st) + ", server state " + std::to_string(inc->s.st) + "; 0=none 1=SYN 2=established 3=FIN 4=RST)" : std::string(); };
        for (auto& ev : evs) {
            if (ev.ann == -2) return fail("callback/unknown-stream-object", "a callback was invoked with a Stream object that was never announced (or is not the announced one for its endpoints)");
            Ann& a = anns[ev.ann];
            switch (ev.type) {
                case EV_NEW: {
                    if (!expect_new || got_new) return fail(a.partial ? "announce/unexpected/partial" : "announce/unexpected/syn", "connection " + show(a.c) + ">" + show(a.s) + " announced, but the reference table " + (inc ? "already tracks this connection" : "does not start a connection on this packet (attach=" + std::to_string(cfg.attach) + ")"));
                    ++got_new; tid = ev.ann; inc->ann = ev.ann;
                    if (&ev != &evs[0]) return fail("announce/not-first", "other callbacks ran before the announcement");
                    if (a.key != key || !same(a.c, p.src) || !same(a.s, p.dst)) return fail("announce/wrong-endpoints", "announced as " + show(a.c) + ">" + show(a.s) + " (v6=" + std::to_string(a.c.v6) + ") for a first packet " + show(p.src) + ">" + show(p.dst));
                    if (a.partial != inc->partial) return fail("announce/partial-flag", "is_partial_stream()=" + std::to_string(a.partial) + " for a connection that started " + (inc->partial ? "on data" : "on SYN"));
                    if ((u64)a.create_time != ts) return fail("announce/create-time", "create_time()=" + std::to_string(a.create_time) + " expected " + std::to_string(ts));
                    u8 m[6]; bool eth = p.link == 0; mac_of(p.src, m); if (!eth) memset(m, 0, 6); if (memcmp(m, a.chw, 6)) return fail("announce/client-hw-addr", "client_hw_addr() is not the source MAC of the first packet");
                    mac_of(p.dst, m); if (!eth) memset(m, 0, 6); if (memcmp(m, a.shw, 6)) return fail("announce/server-hw-addr", "server_hw_addr() is not the destination MAC of the first packet");
                    cnt("chk:announcement");
                    break; }
                case EV_CDATA: case EV_SDATA: {
                    bool cd = ev.type == EV_CDATA;
                    if (ev.ann != tid) return fail("route/data-callback-on-other-connection", "data callback of " + show(a.c) + ">" + show(a.s) + " ran for a packet of another connection");
                    if (cd != from_c) return fail("route/data-callback-on-other-direction", std::string(cd ? "client" : "server") + " data callback ran for a segment sent by the " + (from_c ? "client" : "server"));
                    break; }
                case EV_CLOSED:
                    if (ev.ann != tid) return fail("closed/other-connection", "stream_closed callback of " + show(a.c) + ">" + show(a.s) + " ran for a packet of another connection");
                    if (!expect_closed || got_closed) return fail("closed/unexpected", "stream_closed callback although the reference connection is not finished " + states() + " or reported twice");
                    ++got_closed; break;
                case EV_TERM:
                    if (ev.reason == StreamFollower::TIMEOUT) {
                        auto ti = table.find(a.key);
                        if (ti == table.end() || ti->second.ann != ev.ann || ti->second.dead) return fail("timeout/not-a-live-connection", "TIMEOUT reported for " + show(a.c) + ">" + show(a.s) + " which the reference table does not hold (closed, already terminated, or reported twice)");
                        u64 idle = ts - ti->second.last_seen;
                        if (idle < cfg.ka) return fail("timeout/premature", "TIMEOUT reported for " + show(a.c) + ">" + show(a.s) + " idle for " + std::to_string(idle) + "us, keep-alive " + std::to_string(cfg.ka) + "us");
                        cnt(idle == cfg.ka ? "timeout:reported-at-idle==keepalive" : "timeout:reported-idle>keepalive"); if (ti->second.c.st == ST_FIN || ti->second.s.st == ST_FIN) cnt("timeout:of-half-closed");
                        table.erase(ti);
                    } else {
                        if (ev.ann != tid) return fail("limit/other-connection", "termination (reason " + std::to_string(ev.reason) + ") reported for " + show(a.c) + ">" + show(a.s) + " on a packet of another connection");
                        if (got_term) return fail("limit/reported-twice", "termination reported twice");
                        ++got_term;
                        if (term_amb) { inc->dead = true; cnt("model:followed-engine-on-undecidable-limit"); break; }
                        if (expect_term < 0) return fail(ev.reason == StreamFollower::BUFFERED_DATA ? "limit/unexpected/buffered-data" : "limit/unexpected/sacked-segments", "terminated (reason " + std::to_string(ev.reason) + ") with " + limits() + ": no limit is exceeded");
                        if (ev.reason != expect_term) return fail("limit/wrong-reason", "terminated with reason " + std::to_string(ev.reason) + ", expected " + std::to_string(expect_term) + " (0=TIMEOUT 1=BUFFERED_DATA 2=SACKED_SEGMENTS) with " + limits());
                    }
                    break;
            }
        }
        if (expect_new && !got_new) return fail(is_syn ? "announce/missing/syn" : "announce/missing/partial", "connection " + show(p.src) + ">" + show(p.dst) + " was not announced on its " + (is_syn ? "initial SYN" : "first data segment (attach enabled)"));
        if (expect_closed && !got_closed) return fail("closed/missing", "reference connection finished " + states() + " but stream_closed was not called");
        if (expect_term >= 0 && !got_term) return fail(expect_term == StreamFollower::BUFFERED_DATA ? (inc->chunks() > LIM_CHUNKS ? "limit/missed/chunks" : "limit/missed/bytes") : "limit/missed/sacked", "no termination although " + limits());
        if (expect_closed) {
            if (!(p.flags & F_RST)) cnt("close:fin-fin");
            else if (prev_c == ST_FIN || prev_s == ST_FIN) cnt((from_c ? prev_c : prev_s) == ST_FIN ? "close:fin-then-rst-same-side" : "close:fin-then-rst-other-side");
            else cnt(from_c ? "close:rst-by-client" : "close:rst-by-server");
        }
        if (inc && !expect_closed && (p.flags & F_FIN) && (from_c ? prev_c : prev_s) != ST_FIN) cnt("close:first-fin-keeps-connection");
        if (expect_term == StreamFollower::BUFFERED_DATA) cnt(inc->chunks() > LIM_CHUNKS ? "limit:chunks-crossed" : "limit:bytes-crossed");
        if (expect_term == StreamFollower::SACKED_SEGMENTS) cnt("limit:sack-crossed");
        if (inc && expect_term < 0 && !term_amb && !expect_closed) {
            if (inc->c.disciplined && inc->s.disciplined && inc->chunks() == LIM_CHUNKS) cnt("limit:at-exactly-512-chunks-kept");
            if (inc->c.disciplined && inc->s.disciplined && inc->bytes() == LIM_BYTES) cnt("limit:at-exactly-3MiB-kept");
            if (!inc->c.sack_amb && !inc->s.sack_amb && inc->sacked() == LIM_SACK) cnt("limit:at-exactly-1024-sacked-kept");
        }
        // ---- data, presence, public state
        if (inc && tid >= 0 && !check_data(tid, *inc)) return false;
        if (inc) { cnt("chk:packets-routed"); if (p.raw && p.len) cnt(from_c ? "chk:client-segments" : "chk:server-segments"); if (inc->partial) cnt("chk:packets-of-partial-streams"); }
        if (inc && inc->dead) { table.erase(key); inc = nullptr; }
        if (!check_presence(key, p.src, p.dst)) return false;
        { auto ti = table.find(key); if (ti != table.end() && !check_state(ti->second, ts)) return false; }
        for (int q = 0; q < 2 && !all_keys.empty(); ++q) { size_t i = rng.below((u32)all_keys.size()); if (!check_presence(all_keys[i], key_eps[i].first, key_eps[i].second)) return false; }
        // ---- lazy keep-alive: nothing may stay unreported for two keep-alive periods
        for (auto& kv : table) { u64 idle = ts - kv.second.last_seen; if (idle >= 2 * cfg.ka) return fail("timeout/overdue", "connection " + show(kv.second.c.ep) + ">" + show(kv.second.s.ep) + " idle for " + std::to_string(idle) + "us (keep-alive " + std::to_string(cfg.ka) + "us) has still not been terminated"); if (idle > cfg.ka) cnt("timeout:idle>keepalive-not-yet-swept"); }
        cnt("packets"); return true;
    }
    std::vector<std::pair<Ep, Ep>> key_eps;

    void run(long idx) {
        (void)idx;
        static const u64 kas[] = {1000ull, 250000ull, 1000000ull, 30000000ull, 300000000ull, 3600000000ull};
        int kai = rng.below(7); cfg.set_ka = kai < 6; cfg.ka = cfg.set_ka ? kas[kai] : 300000000ull;
        cfg.attach = rng.chance(35, 100); cfg.tracking = rng.chance(1, 2); cfg.bytes_share = rng.below(3) == 0 ? 0 : rng.below(8);
        switch (rng.below(5)) { case 0: cfg.t0 = 0; break; case 1: cfg.t0 = cfg.ka - 1; break; case 2: cfg.t0 = cfg.ka; break; case 3: cfg.t0 = 1ull + rng.below(1000); break; default: cfg.t0 = 1700000000000000ull + rng.below64(1000000000ull); }
        acc_salt = rng.next();
        Gen g(rng, cfg); u32 kind = rng.below(100); int nconn;
        u32 sz = rng.below(10); nconn = sz < 4 ? 1 + rng.below(4) : sz < 8 ? 5 + rng.below(11) : 16 + rng.below(25);
        u64 span = cfg.ka * (1 + rng.below(4));
        if (kind < 8) { cfg.tracking = rng.chance(1, 2); g.limit_chunks(0, cfg.t0 + rng.below64(span)); nconn = rng.below(6); }
        else if (kind < 12) { g.limit_bytes(0, cfg.t0 + rng.below64(span)); nconn = rng.below(3); }
        else if (kind < 19) { cfg.tracking = !rng.chance(1, 6); g.limit_sack(0, cfg.t0 + rng.below64(span)); nconn = rng.below(6); }
        for (int i = 0; i < nconn; ++i) g.normal(1 + i, cfg.t0 + (rng.chance(1, 3) ? 0 : rng.below64(span)));
        for (auto& k : g.padkeys4) if (g.padkeys6.count(k)) cfg.alias = true;
        if (cfg.alias) { sfx = "/v4v6-alias"; cnt("cases:v4-and-v6-tuple-with-identical-leading-bytes"); }
        // merge by time (stable: script order, then packet order)
        for (size_t s = 0; s < g.scripts.size(); ++s) for (auto& p : g.scripts[s].pk) pkts.push_back(p);
        std::stable_sort(pkts.begin(), pkts.end(), [](const Pkt& a, const Pkt& b) { return a.ts < b.ts; });
        std::set<std::string> seenk; for (auto& sc : g.scripts) { std::string k = mk_key(sc.c, sc.s); if (seenk.insert(k).second) { all_keys.push_back(k); key_eps.push_back({sc.c, sc.s}); } }
        { Ep a = g.rand_host(false), b = g.rand_host(false); a.port = 9; b.port = 9; all_keys.push_back(mk_key(a, b)); key_eps.push_back({a, b}); }     // a tuple that never carries traffic
        std::string d = std::string(cfg.alias ? "kf=v4v6-alias " : "") + "attach=" + std::to_string(cfg.attach) + " ack_tracking=" + std::to_string(cfg.tracking) + " keep_alive_us=" + std::to_string(cfg.ka) + (cfg.set_ka ? "" : "(default)") + " t0=" + std::to_string(cfg.t0) + " packets=" + std::to_string(pkts.size()) + " scripts:";
        for (size_t s = 0; s < g.scripts.size() && d.size() < 12000; ++s) d += " {" + show(g.scripts[s].c) + ">" + show(g.scripts[s].s) + " " + g.scripts[s].what + " n=" + std::to_string(g.scripts[s].pk.size()) + "}";
        describe_case(d);
        u64 sg = mix(cfg.ka, cfg.attach); for (auto& p : pkts) sg = mix(sg, mix(fnv(ep_bytes(p.src, false)), ((u64)p.seq << 20) ^ ((u64)p.len << 8) ^ p.flags)); sig(sg);
        if (pkts.empty()) { cnt("cases:empty"); return; }
        if (want_sample() && pkts.size() < 14) { std::string s2 = d + " ::"; for (auto& p : pkts) s2 += " | " + show(p); sample(s2); }
        // configure the follower
        install(); fol.follow_partial_streams(cfg.attach);
        if (cfg.set_ka) { if (cfg.ka % 1000000 == 0 && rng.chance(1, 2)) fol.stream_keep_alive(std::chrono::seconds(cfg.ka / 1000000)); else if (cfg.ka % 1000 == 0 && rng.chance(1, 2)) fol.stream_keep_alive(std::chrono::milliseconds(cfg.ka / 1000)); else fol.stream_keep_alive(std::chrono::microseconds(cfg.ka)); }
        size_t maxlive = 0;
        for (step_no = 0; step_no < pkts.size(); ++step_no) { if (!step(pkts[step_no])) return; maxlive = std::max(maxlive, table.size()); }
        // ---- final sweep: a late packet must flush everything that has been idle for longer than the keep-alive
        Pkt last; { Ep a = g.rand_host(rng.chance(1, 3)), b = g.rand_host(a.v6); a.port = 7; b.port = 77; last.src = a; last.dst = b; last.script = 999; last.seq = (u32)rng.next(); last.ack = (u32)rng.next(); last.ts = pkts.back().ts + 2 * cfg.ka + rng.below(3);
          bool fresh_conn = rng.chance(1, 2); last.flags = fresh_conn ? F_SYN : F_ACK; last.link = 0; all_keys.push_back(mk_key(a, b)); key_eps.push_back({a, b}); cnt(fresh_conn ? "final-sweep:by-new-connection" : "final-sweep:by-untracked-packet"); }
        size_t live_before = table.size(); pkts.push_back(last);
        if (!step(last)) return;
        for (auto& kv : table) if (kv.second.last_seen != last.ts) { fail("timeout/final-missing", "after a packet two keep-alive periods later, connection " + show(kv.second.c.ep) + ">" + show(kv.second.s.ep) + " is still tracked"); return; }
        for (size_t i = 0; i < all_keys.size(); ++i) if (!check_presence(all_keys[i], key_eps[i].first, key_eps[i].second)) return;
        for (auto& a : anns) if (a.closed + a.terminated != 1 && !(same(a.c, last.src))) { fail("lifetime/not-ended-exactly-once", "connection " + show(a.c) + ">" + show(a.s) + " got " + std::to_string(a.closed) + " closed and " + std::to_string(a.terminated) + " termination callbacks in total"); return; }
        cnt("final-sweep:connections-flushed", live_before); cnt("announcements", anns.size());
        for (auto& sc : g.scripts) cnt("script:" + sc.what.substr(0, sc.what.find_first_of(" ,")));
        if (maxlive >= 10) cnt("histories:>=10-concurrently-tracked"); if (g.scripts.size() >= 10) cnt("histories:>=10-connections");
        if (cfg.attach) cnt("histories:attach-enabled"); cnt_max("max-concurrently-tracked", maxlive);
        bool has6 = false, has4 = false; for (auto& sc : g.scripts) (sc.c.v6 ? has6 : has4) = true; if (has6 && has4) cnt("histories:v4-and-v6-mixed");
    }
};

int main(int argc, char** argv) {
    return vf::run(argc, argv, "C07", [&](long idx, Rng& rng) { Case c(rng); c.run(idx); });
}
