// C08 — IPv4 fragment reassembly reconstructs the original datagram.
// Datagrams are built by this file's own IPv4/UDP/TCP/ICMP encoder (own checksum arithmetic), fragmented at
// multiples of 8, scheduled (orders, duplicates, k concurrent datagrams, unfragmented / non-IP packets in
// between), each frame is parsed by libtins and handed to the real IPv4Reassembler::process(). A reference
// reassembler (coverage bitmap of 8-byte units per (id, src, dst); FORGETS a datagram when it completes)
// predicts the status of EVERY step; on REASSEMBLED the packet is compared with the expected datagram
// (first fragment's header, offset/MF cleared, payload bytes, lengths); on NOT_FRAGMENTED it must be untouched.
// Histories also contain the management operations remove_stream(id, src, dst) (of the datagram itself, of the mirrored
// address pair, of other / non-existent keys) and clear_streams(); the reference forgets exactly what the documentation of
// these calls says (ordered (id, source, destination) / everything) and keeps predicting every later status. Entry points:
// both constructors, process(), remove_stream(), clear_streams(), IPv4ReassemblerProxy::operator() / make_ipv4_reassembler_proxy.
// Frames: raw IP, EthernetII (padded to 60), 802.1Q, 802.1ad+802.1Q, SLL, Loopback roots parsed from bytes (optionally with
// trailing bytes after the IP datagram) and fragments built as IP objects through the API.
#include "verif.h"
#include <tins/tins.h>
#include <tins/ip_reassembler.h>
#include <tins/loopback.h>
#include <algorithm>
#include <memory>
using namespace Tins;
using namespace vf;

enum { L_RAW = 0, L_ETH, L_VLAN, L_SLL, L_QINQ, L_LOOP, L_API, L_N };
static const char* LN[] = {"raw", "eth", "vlan", "sll", "qinq", "loopback", "api"};
static bool is_eth(int link) { return link == L_ETH || link == L_VLAN || link == L_QINQ; }
enum { S_NOTFRAG = 0, S_FRAG = 1, S_REASM = 2 };
static const char* SN[] = {"NOT_FRAGMENTED", "FRAGMENTED", "REASSEMBLED", "?"};

struct Frag { u32 off, len; bool mf; u8 ttl, tos; };             // off/len in bytes
struct Dgram {
    u16 id = 0; u32 src = 0, dst = 0; u8 proto = 253; bool df = false; bool rsv = false; int link = L_RAW;      // rsv: the reserved flag bit (RFC 3514), only on unfragmented packets: it is neither MF nor an offset
    Bytes linkhdr, opts_first, opts_rest, payload, trail; std::vector<Frag> fr;   // trail: bytes on the wire after the IP datagram (before Ethernet minimum-size padding)
    // fr sorted by offset; 1 entry without mf = unfragmented
};

// ---- own encoder ------------------------------------------------------------------------------
static u32 sum16(const u8* p, size_t n, u32 s = 0) { size_t i = 0; for (; i + 1 < n; i += 2) s += ((u32)p[i] << 8) | p[i + 1]; if (n & 1) s += (u32)p[n - 1] << 8; return s; }
static u16 fold(u32 s) { while (s >> 16) s = (s & 0xffff) + (s >> 16); return (u16)s; }
static void put16(u8* p, u16 v) { p[0] = (u8)(v >> 8); p[1] = (u8)v; }
static void put32(u8* p, u32 v) { p[0] = (u8)(v >> 24); p[1] = (u8)(v >> 16); p[2] = (u8)(v >> 8); p[3] = (u8)v; }
static std::string ipstr(u32 a) { return std::to_string(a >> 24) + "." + std::to_string((a >> 16) & 255) + "." + std::to_string((a >> 8) & 255) + "." + std::to_string(a & 255); }
static void fill_random(Rng& r, u8* p, size_t n) { size_t i = 0; for (; i + 8 <= n; i += 8) { u64 v = r.next(); memcpy(p + i, &v, 8); } if (i < n) { u64 v = r.next(); memcpy(p + i, &v, n - i); } }

static void append_ip_header(Bytes& out, const Dgram& d, const Bytes& opts, u8 ttl, u8 tos, u16 fragfield, size_t paylen) {
    size_t o = out.size(), hl = 20 + opts.size(); out.resize(o + hl);
    u8* h = &out[o]; h[0] = (u8)(0x40 | (hl >> 2)); h[1] = tos; put16(h + 2, (u16)(hl + paylen)); put16(h + 4, d.id); put16(h + 6, fragfield);
    h[8] = ttl; h[9] = d.proto; h[10] = h[11] = 0; put32(h + 12, d.src); put32(h + 16, d.dst);
    if (!opts.empty()) memcpy(h + 20, opts.data(), opts.size());
    put16(h + 10, (u16)~fold(sum16(h, hl)));
}
static void pad_link(int link, Bytes& f) { if (is_eth(link) && f.size() < 60) f.resize(60, 0); }
// the wire frame of fragment i (with_trail = false: what the parsed packet has to serialize to)
static Bytes frame_of(const Dgram& d, size_t i, bool with_trail = true) {
    const Frag& f = d.fr[i]; Bytes out = d.linkhdr;
    u16 ff = (u16)((f.mf ? 0x2000 : 0) | (d.df ? 0x4000 : 0) | (d.rsv ? 0x8000 : 0) | (f.off >> 3));
    append_ip_header(out, d, f.off == 0 ? d.opts_first : d.opts_rest, f.ttl, f.tos, ff, f.len);
    out.insert(out.end(), d.payload.begin() + f.off, d.payload.begin() + f.off + f.len);
    if (with_trail) out.insert(out.end(), d.trail.begin(), d.trail.end());
    pad_link(d.link, out); return out;
}
// the datagram the fragments came from: first fragment's header, offset 0, MF clear, whole payload
static Bytes frame_whole(const Dgram& d) {
    Bytes out = d.linkhdr;
    append_ip_header(out, d, d.opts_first, d.fr[0].ttl, d.fr[0].tos, (u16)((d.df ? 0x4000 : 0) | (d.rsv ? 0x8000 : 0)), d.payload.size());
    out.insert(out.end(), d.payload.begin(), d.payload.end());
    pad_link(d.link, out); return out;
}

static Bytes make_linkhdr(Rng& r, int link) {
    Bytes h;
    if (is_eth(link)) {
        h = r.bytes(12); h[0] &= 0xfe; h[6] &= 0xfe;
        if (link == L_QINQ) { h.push_back(0x88); h.push_back(0xa8); u16 tci = (u16)r.next(); h.push_back((u8)(tci >> 8)); h.push_back((u8)tci); }
        if (link == L_VLAN || link == L_QINQ) { h.push_back(0x81); h.push_back(0x00); u16 tci = (u16)r.next(); h.push_back((u8)(tci >> 8)); h.push_back((u8)tci); }
        h.push_back(0x08); h.push_back(0x00);
    } else if (link == L_SLL) {
        h = {0, (u8)r.below(5), 0, 1, 0, 6}; Bytes a = r.bytes(6); h.insert(h.end(), a.begin(), a.end()); h.push_back(0); h.push_back(0); h.push_back(0x08); h.push_back(0x00);
    } else if (link == L_LOOP) { uint32_t fam = 2 /* PF_INET, host byte order */; h.resize(4); memcpy(h.data(), &fam, 4); }
    return h;
}

// IP options: first fragment carries all, later fragments only the "copied" ones (RFC 791). Well-formed, 4-byte padded.
static void pad_opts(Rng& r, Bytes& o) { while (o.size() % 4) { if (o.size() % 4 == 3 && r.chance(1, 2)) o.push_back(0); else o.push_back(1); } }
static void gen_ip_options(Rng& r, Bytes& first, Bytes& rest) {
    first.clear(); rest.clear(); u32 n = 1 + r.below(4);
    for (u32 i = 0; i < n; ++i) {
        Bytes o; bool copied = false;
        switch (r.below(8)) {
            case 0: o = {1}; break;
            case 1: { u32 k = 1 + r.below(3); o = {7, (u8)(3 + 4 * k), 4}; o.resize(3 + 4 * k, 0); break; }
            case 2: { u32 k = 1 + r.below(2); o = {0x44, (u8)(4 + 4 * k), 5, 0}; Bytes t = r.bytes(4 * k); o.insert(o.end(), t.begin(), t.end()); break; }
            case 3: o = {0x94, 4, 0, 0}; copied = true; break;
            case 4: o = {0x88, 4, r.byte(), r.byte()}; copied = true; break;
            case 5: { o = {0x82, 11}; Bytes t = r.bytes(9); o.insert(o.end(), t.begin(), t.end()); copied = true; break; }
            case 6: { o = {0x83, 7, 4}; Bytes t = r.bytes(4); o.insert(o.end(), t.begin(), t.end()); copied = true; break; }
            default: { o = {0x89, 11, 4}; Bytes t = r.bytes(8); o.insert(o.end(), t.begin(), t.end()); copied = true; break; }
        }
        if (first.size() + o.size() > 40) break;
        first.insert(first.end(), o.begin(), o.end()); if (copied) rest.insert(rest.end(), o.begin(), o.end());
    }
    pad_opts(r, first); pad_opts(r, rest);
}

// upper-layer message of exactly P bytes with correct checksum
static Bytes make_upper(Rng& r, u8& proto, size_t P, u32 src, u32 dst) {
    if ((proto == 6 && P < 20) || ((proto == 17 || proto == 1) && P < 8)) proto = P >= 8 ? 17 : 253;
    Bytes b(P);
    switch (r.below(8)) { case 0: break; case 1: std::fill(b.begin(), b.end(), 0xff); break; case 2: for (size_t i = 0; i < P; ++i) b[i] = (u8)(i / 8 + 1); break; default: fill_random(r, b.data(), P); }
    u8 ph[12]; put32(ph, src); put32(ph + 4, dst); ph[8] = 0; ph[9] = proto; put16(ph + 10, (u16)P);
    if (proto == 17) {
        put16(&b[4], (u16)P); b[6] = b[7] = 0;
        if (P >= 10 && r.chance(1, 12)) { b[8] = b[9] = 0; u16 s = fold(sum16(b.data(), P, sum16(ph, 12))); put16(&b[8], (u16)(0xffff - s)); cnt("shape:udp-checksum-computes-to-zero"); }
        u16 c = (u16)~fold(sum16(b.data(), P, sum16(ph, 12))); if (c == 0) c = 0xffff; put16(&b[6], c);
    } else if (proto == 6) {
        Bytes o; u32 room = (u32)std::min<size_t>(40, P - 20) & ~3u;
        if (room && r.chance(2, 3)) {
            for (u32 i = 0, n = 1 + r.below(4); i < n; ++i) {
                Bytes x;
                switch (r.below(6)) { case 0: x = {2, 4, r.byte(), r.byte()}; break; case 1: x = {3, 3, (u8)r.below(15)}; break; case 2: x = {4, 2}; break; case 3: { x = {8, 10}; Bytes t = r.bytes(8); x.insert(x.end(), t.begin(), t.end()); break; }
                                      case 4: { x = {5, 10}; Bytes t = r.bytes(8); x.insert(x.end(), t.begin(), t.end()); break; } default: x = {1}; }
                if (o.size() + x.size() > room) break;
                o.insert(o.end(), x.begin(), x.end());
            }
            bool zeros = r.chance(1, 3); while (o.size() % 4) o.push_back(zeros ? 0 : 1);
        }
        b[12] = (u8)(((20 + o.size()) / 4) << 4); b[16] = b[17] = 0;
        if (!o.empty()) memcpy(&b[20], o.data(), o.size());
        put16(&b[16], (u16)~fold(sum16(b.data(), P, sum16(ph, 12))));
    } else if (proto == 1) {
        std::vector<u8> types = {0, 8, 8, 0, 4, 5, 9, 10, 15, 16}; if (P >= 12) { types.push_back(17); types.push_back(18); } if (P >= 20) { types.push_back(13); types.push_back(14); }
        b[0] = r.pick(types); b[1] = (b[0] == 8 || b[0] == 0) ? 0 : (u8)r.below(4); b[2] = b[3] = 0;
        put16(&b[2], (u16)~fold(sum16(b.data(), P)));
    }
    return b;
}

// cut the payload into fragments at multiples of 8. style: 0 random m, 1 every 8 bytes, 2 huge+tiny, 3 MTU-like equal chunks, 4 two fragments
static void fragment(Rng& r, Dgram& d, int style, u32 maxfr) {
    size_t P = d.payload.size(); u32 U = (u32)((P + 7) / 8);
    u8 ttl = (u8)(1 + r.below(255)), tos = r.chance(1, 2) ? 0 : r.byte(); bool vary_ttl = r.chance(1, 2), vary_tos = r.chance(1, 8);
    d.fr.clear();
    if (U < 2) { d.fr.push_back({0, (u32)P, false, ttl, tos}); return; }
    std::vector<u32> cuts;
    if (style == 1 && U > maxfr) style = 3;
    if (style == 1) { for (u32 c = 1; c < U; ++c) cuts.push_back(c); }
    else if (style == 2) { cuts.push_back(r.chance(1, 2) ? 1 : U - 1); }
    else if (style == 3) {
        static const u32 chunks[] = {1, 2, 3, 5, 16, 69, 128, 185, 186, 1024};
        u32 c = chunks[r.below(10)]; if ((U + c - 1) / c > maxfr) c = (U + maxfr - 1) / maxfr; if (c >= U) c = U - 1;
        for (u32 x = c; x < U; x += c) cuts.push_back(x);
    } else {
        u32 m = style == 4 ? 2 : 2 + r.below(std::min(maxfr, U) - 1);
        std::vector<u32> pos(U - 1); for (u32 i = 0; i < U - 1; ++i) pos[i] = i + 1;
        for (u32 i = 0; i < m - 1; ++i) { u32 j = i + r.below(U - 1 - i); std::swap(pos[i], pos[j]); cuts.push_back(pos[i]); }
        std::sort(cuts.begin(), cuts.end());
    }
    u32 prev = 0; cuts.push_back(U);
    for (u32 c : cuts) {
        u32 off = prev * 8, end = (u32)std::min<size_t>((size_t)c * 8, P);
        d.fr.push_back({off, end - off, c != U, (u8)(vary_ttl ? 1 + r.below(255) : ttl), (u8)(vary_tos ? r.byte() : tos)});
        prev = c;
    }
}

// ---- reference reassembler ---------------------------------------------------------------------
// remove_stream(id, source, destination) forgets the pending fragments of exactly that ordered triple, clear_streams()
// forgets everything pending (ip_reassembler.h); nothing else changes. The flags only feed counters and violation keys.
struct MKey { u16 id; u32 src, dst; bool operator<(const MKey& o) const { return id != o.id ? id < o.id : src != o.src ? src < o.src : dst < o.dst; }
              bool operator==(const MKey& o) const { return id == o.id && src == o.src && dst == o.dst; } MKey mirror() const { return MKey{id, dst, src}; } };
enum { F_RESTART_REMOVE = 1, F_RESTART_CLEAR = 2, F_SURV_MIRROR = 4, F_SURV_OTHER = 8, F_SURV_ANY = 12 };
struct MState { std::vector<u8> cov; u32 prefix = 0; long total_units = -1; u32 nseen = 0; u8 flags = 0, latest = 0; };   // latest: the most recent operation that concerned this datagram (one F_* bit)
struct Model {
    std::map<MKey, MState> st; std::set<MKey> done; std::map<MKey, u8> killed;   // killed: keys whose pending fragments an operation discarded
    bool was_dup = false, after_completion = false, last_first = false, restarted = false; u8 last_flags = 0, last_latest = 0;
    int feed(const MKey& k, u32 off, u32 len, bool mf) {
        after_completion = done.count(k) != 0;
        bool fresh = st.find(k) == st.end();
        MState& s = st[k]; u32 u0 = off / 8, n = (len + 7) / 8;
        restarted = false;
        if (fresh && !killed.empty()) { auto it = killed.find(k); if (it != killed.end()) { s.flags |= it->second; s.latest = it->second; killed.erase(it); restarted = true; } }
        if (s.cov.size() < u0 + n) s.cov.resize(u0 + n, 0);
        was_dup = s.cov[u0] != 0; last_first = fresh && !mf; last_flags = s.flags; last_latest = s.latest;
        for (u32 i = 0; i < n; ++i) s.cov[u0 + i] = 1;
        if (!mf) s.total_units = (long)(u0 + n);
        while (s.prefix < s.cov.size() && s.cov[s.prefix]) ++s.prefix;
        ++s.nseen;
        if (s.total_units >= 0 && (long)s.prefix >= s.total_units) { st.erase(k); done.insert(k); return S_REASM; }   // complete: hand over and FORGET
        return S_FRAG;
    }
    // returns bit 0: k was pending (now forgotten), bit 1: the mirrored triple is pending, bit 2: other datagrams are pending
    int remove(const MKey& k) {
        int cls = 0; MKey m = k.mirror();
        for (auto& e : st) { if (e.first == k) continue; if (e.first == m) { e.second.flags |= F_SURV_MIRROR; e.second.latest = F_SURV_MIRROR; cls |= 2; } else { e.second.flags |= F_SURV_OTHER; e.second.latest = F_SURV_OTHER; cls |= 4; } }
        auto it = st.find(k); if (it != st.end()) { st.erase(it); killed[k] = F_RESTART_REMOVE; cls |= 1; }
        return cls;
    }
    size_t clear() { size_t n = st.size(); for (auto& e : st) killed[e.first] = F_RESTART_CLEAR; st.clear(); return n; }
};

// ---- one step against the real engine --------------------------------------------------------------
enum { EV_FRAG = 0, EV_UNFRAG = 1, EV_NONIP = 2, EV_REMOVE = 3, EV_CLEAR = 4 };
struct Ev { int kind; int dg; int fr; };          // EV_REMOVE: dg = the datagram the triple is derived from, fr = OPV_*
enum { OPV_SELF = 0, OPV_MIRROR, OPV_OTHER_ID, OPV_OTHER_DST, OPV_OTHER_SRC, OPV_SRC_TWICE, OPV_UNRELATED, OPV_N };
static const char* OPN[] = {"self", "mirror", "id+1", "dst+1", "src+1", "src-twice", "unrelated"};
static MKey op_key(const Dgram& d, int v) {
    switch (v) {
        case OPV_SELF: return MKey{d.id, d.src, d.dst}; case OPV_MIRROR: return MKey{d.id, d.dst, d.src}; case OPV_OTHER_ID: return MKey{(u16)(d.id + 1), d.src, d.dst};
        case OPV_OTHER_DST: return MKey{d.id, d.src, d.dst + 1}; case OPV_OTHER_SRC: return MKey{d.id, d.src + 1, d.dst}; case OPV_SRC_TWICE: return MKey{d.id, d.src, d.src};
        default: return MKey{(u16)(d.id ^ 0x8000), d.dst + 7, d.src + 13};
    }
}
// the functor behind IPv4ReassemblerProxy: records what was forwarded
struct Fwd { PDU* seen = nullptr; int calls = 0; bool ret = false; };
struct Functor { Fwd* f; bool operator()(PDU& p) { f->seen = &p; ++f->calls; return f->ret; } };
typedef IPv4ReassemblerProxy<Functor> Proxy;
struct World {
    const std::vector<Dgram>* dgs = nullptr; IPv4Reassembler reasm; std::unique_ptr<Proxy> proxy; Fwd fwd; Model model, shadow; bool reversed = false, has_ops = false; u64 steps = 0, ops_done = 0;
    const std::string* ctx = nullptr; const std::vector<Ev>* order = nullptr; const char* note = "";      // rendered only when a violation is reported
    explicit World(bool technique = false) : reasm(technique ? IPv4Reassembler(IPv4Reassembler::NONE) : IPv4Reassembler()) {}
    void use_proxy() { proxy.reset(new Proxy(make_ipv4_reassembler_proxy(Functor{&fwd}))); }   // packets go through IPv4ReassemblerProxy::operator() instead of process()
    std::string sfx() const { return reversed ? "/reversed-pair" : ""; }
};
// hot counters are kept in an array and flushed into vf::cnt once per case
enum { C_STEPS, C_STATUS, C_UNTOUCHED, C_REASM, C_FRAGSER, C_LASTFIRST, C_BYFIRST, C_BYLAST, C_BYMID, C_COMPL_PENDING, C_FRAG_PENDING, C_UNFRAG, C_NONIP, C_UNFRAG_PENDINGKEY, C_SEQ,
       C_RM, C_RM_SELF, C_RM_SELF_OTHERS, C_RM_MIRRORED, C_RM_OTHER, C_RM_NOTHING, C_CLR, C_CLR_PENDING, C_CLR_MANY, C_STATUS_AFTER_OP, C_RESTART_RM, C_RESTART_CLR,
       C_COMPL_AFTER_SELF, C_COMPL_AFTER_CLEAR, C_COMPL_AFTER_MIRROR, C_COMPL_AFTER_UNREL, C_FRAG_SURVIVOR, C_PREVENTED, C_OPSEQ, C_PROXY_FWD, C_PROXY_HELD, C_PADDED, C_PADDED_LAST, C_TRAIL, C_CTOR_TECH,
       C_CLS0, C_N = C_CLS0 + 8 };
static u64 ctr[C_N];
static const char* ctr_name[C_N] = {"steps", "checks:status", "checks:untouched", "checks:reassembled-content", "checks:fragment-still-serializable", "ev:last-fragment-arrives-first",
    "ev:completed-by-first-fragment", "ev:completed-by-last-fragment", "ev:completed-by-middle-fragment", "ev:completion-while-others-pending", "ev:fragment-while-others-pending",
    "ev:unfragmented", "ev:non-ip", "ev:unfragmented-with-key-of-pending-datagram", "exhaustive_sequences",
    "op:remove_stream", "op:remove_stream:self", "op:remove_stream:self/others-pending", "op:remove_stream:mirrored", "op:remove_stream:other", "op:remove_stream:nothing-pending",
    "op:clear_streams", "op:clear_streams/something-pending", "op:clear_streams/several-pending", "checks:status-after-management-operation",
    "ev:fragment-restarts-datagram-after-remove_stream", "ev:fragment-restarts-datagram-after-clear_streams",
    "completed-after-self-remove", "completed-after-clear_streams", "completed-after-mirrored-remove", "completed-after-unrelated-remove", "ev:fragment-of-datagram-that-survived-a-remove",
    "ev:completion-prevented-by-operation", "exhaustive_op_sequences", "proxy:forwarded", "proxy:held-back", "shape:fragment-frame-padded-to-60", "shape:last-fragment-frame-padded-to-60", "shape:fragment-frame-with-trailing-bytes", "ctor:technique",
    "ev:new-fragment", "ev:new-fragment/completes", "ev:duplicate", "ev:duplicate/completes", "ev:new-fragment-after-completion", "ev:new-fragment-after-completion/completes",
    "ev:duplicate-after-completion", "ev:duplicate-after-completion/completes"};
static const char* cls_name[4] = {"new-fragment", "duplicate", "new-fragment-after-completion", "duplicate-after-completion"};
static void flush_ctr() { for (int i = 0; i < C_N; ++i) if (ctr[i]) { cnt(ctr_name[i], ctr[i]); ctr[i] = 0; } }

static Bytes nonip_frame(int which) {
    Bytes f = {0xff, 0xff, 0xff, 0xff, 0xff, 0xff, 2, 0, 0, 0, 0, (u8)which};
    if (which % 3 == 0) { Bytes a = {0x08, 0x06, 0, 1, 8, 0, 6, 4, 0, 1, 2, 0, 0, 0, 0, 1, 10, 0, 0, 1, 0, 0, 0, 0, 0, 0, 10, 0, 0, 2}; f.insert(f.end(), a.begin(), a.end()); }
    else if (which % 3 == 1) { f.push_back(0x88); f.push_back(0xb5); for (int i = 0; i < 50; ++i) f.push_back((u8)(i * 7 + which)); }
    else { Bytes a = {0x86, 0xdd, 0x60, 0, 0, 0, 0, 12, 59, 64}; f.insert(f.end(), a.begin(), a.end()); for (int i = 0; i < 32; ++i) f.push_back((u8)(i + 1)); for (int i = 0; i < 12; ++i) f.push_back((u8)(0xa0 + i)); }
    if (f.size() < 60) f.resize(60, 0);
    return f;
}
static PDU* parse(int link, const ExactBuf& b) {
    switch (link) { case L_RAW: return new IP(b.data(), (uint32_t)b.n); case L_SLL: return new SLL(b.data(), (uint32_t)b.n); case L_LOOP: return new Loopback(b.data(), (uint32_t)b.n); default: return new EthernetII(b.data(), (uint32_t)b.n); }
}
// fragment i as an IP object made through the API (no wire bytes involved); the payload is a RawPDU, as the parser would make it
static PDU* build_api(const Dgram& d, size_t i) {
    const Frag& f = d.fr[i]; std::unique_ptr<IP> ip(new IP(IPv4Address(ipstr(d.dst)), IPv4Address(ipstr(d.src))));
    ip->id(d.id); ip->ttl(f.ttl); ip->tos(f.tos); ip->protocol(d.proto); ip->flags((IP::Flags)((f.mf ? IP::MORE_FRAGMENTS : 0) | (d.df ? IP::DONT_FRAGMENT : 0) | (d.rsv ? IP::FLAG_RESERVED : 0))); ip->fragment_offset((u16)(f.off / 8));
    ip->inner_pdu(new RawPDU(d.payload.data() + f.off, f.len));
    return ip.release();
}
static int tins_status(IPv4Reassembler::PacketStatus s) { return s == IPv4Reassembler::NOT_FRAGMENTED ? S_NOTFRAG : s == IPv4Reassembler::FRAGMENTED ? S_FRAG : s == IPv4Reassembler::REASSEMBLED ? S_REASM : 3; }
static std::string show_order(const std::vector<Ev>& evs, size_t cap);
static std::string evstr(const Ev& e) { return e.kind == EV_CLEAR ? std::string("CLEAR") : e.kind == EV_REMOVE ? "RM(" + std::to_string(e.dg) + ":" + OPN[e.fr] + ")" : e.kind == EV_NONIP ? "N" + std::to_string(e.fr) : e.kind == EV_UNFRAG ? "U" + std::to_string(e.dg) : std::to_string(e.dg) + "." + std::to_string(e.fr); }

static std::string where_of(const World& w, const Ev& e) {
    return "step #" + std::to_string(w.steps - 1) + " event " + evstr(e) + " of " + (w.ctx ? w.ctx->substr(0, 3000) : std::string()) + (w.order ? " order=" + show_order(*w.order, 600) : std::string()) + w.note;
}
static bool check_reassembled(World& w, PDU& pdu, const Dgram& d, const Ev& ev) {
    bool ok = true;
    auto fail = [&](const std::string& key, const std::string& msg) { violation("reassembled/" + key + w.sfx(), msg + " :: " + where_of(w, ev)); ok = false; };
    IP* ip = pdu.find_pdu<IP>();
    if (!ip) { fail("no-ip-layer", "packet has no IP layer after REASSEMBLED"); return false; }
    if (ip->fragment_offset() != 0) fail("fragment-offset-not-cleared", "fragment_offset()=" + std::to_string(ip->fragment_offset()));
    if (ip->flags() & IP::MORE_FRAGMENTS) fail("more-fragments-not-cleared", "flags()=" + std::to_string((int)ip->flags()));
    else if (ip->flags() != 0) fail("flags", "flags()=" + std::to_string((int)ip->flags()) + " although no fragment carried DF");
    const Frag& f0 = d.fr[0];
    if (ip->id() != d.id) fail("header/id", "id()=" + std::to_string(ip->id()) + " expected " + std::to_string(d.id));
    if (ip->ttl() != f0.ttl) fail("header/ttl", "ttl()=" + std::to_string(ip->ttl()) + " but the first fragment had " + std::to_string(f0.ttl));
    if (ip->tos() != f0.tos) fail("header/tos", "tos()=" + std::to_string(ip->tos()) + " but the first fragment had " + std::to_string(f0.tos));
    if (ip->protocol() != d.proto) fail("header/protocol", "protocol()=" + std::to_string(ip->protocol()) + " expected " + std::to_string(d.proto));
    if (ip->src_addr().to_string() != ipstr(d.src)) fail("header/src", "src_addr()=" + ip->src_addr().to_string() + " expected " + ipstr(d.src));
    if (ip->dst_addr().to_string() != ipstr(d.dst)) fail("header/dst", "dst_addr()=" + ip->dst_addr().to_string() + " expected " + ipstr(d.dst));
    PDU* in = ip->inner_pdu();
    if (!in) { fail("no-payload", "IP layer has no inner PDU after REASSEMBLED"); return false; }
    PDU::PDUType want = d.proto == 17 ? PDU::UDP : d.proto == 6 ? PDU::TCP : d.proto == 1 ? PDU::ICMP : PDU::RAW;
    if (in->pdu_type() != want) fail("upper-layer-type", "inner pdu_type()=" + std::to_string((int)in->pdu_type()) + " expected " + std::to_string((int)want) + " for protocol " + std::to_string(d.proto));
    if (!ok) return false;
    Bytes pay = in->serialize();
    if (pay != d.payload) {
        size_t i = 0; while (i < pay.size() && i < d.payload.size() && pay[i] == d.payload[i]) ++i;
        fail(pay.size() != d.payload.size() ? "payload-length" : "payload-bytes", "payload is " + std::to_string(pay.size()) + " bytes, original " + std::to_string(d.payload.size()) + ", first difference at " + std::to_string(i));
        return false;
    }
    Bytes exp = frame_whole(d), got = pdu.serialize(); size_t lh = d.linkhdr.size(), hl = 20 + d.opts_first.size();
    if (got != exp) {
        size_t i = 0; while (i < got.size() && i < exp.size() && got[i] == exp[i]) ++i;
        std::string region = got.size() != exp.size() ? "length" : i < lh ? "link-layer" : i < lh + hl ? (i - lh == 2 || i - lh == 3 ? "ip-total-length" : i - lh >= 20 ? "ip-options" : "ip-header") : "payload";
        fail("bytes/" + region, "serialized packet (" + std::to_string(got.size()) + " bytes) differs from the original datagram (" + std::to_string(exp.size()) + " bytes) at byte " + std::to_string(i) +
             " got " + hex(got.data() + std::min(i, got.size()), std::min<size_t>(8, got.size() - std::min(i, got.size()))) + " expected " + hex(exp.data() + std::min(i, exp.size()), std::min<size_t>(8, exp.size() - std::min(i, exp.size()))));
        return false;
    }
    if (ip->size() != hl + d.payload.size()) fail("size", "IP size()=" + std::to_string(ip->size()) + " expected " + std::to_string(hl + d.payload.size()));
    if (pdu.size() != exp.size()) fail("size", "size()=" + std::to_string(pdu.size()) + " expected " + std::to_string(exp.size()));
    ++ctr[C_REASM]; cnt_max("max:reassembled-payload", d.payload.size());
    return ok;
}

// a management operation: applied to the reference and to the real reassembler; its effect is only observable through later packets
static bool step_op(World& w, const Ev& e) {
    ++w.steps; const char* what = e.kind == EV_CLEAR ? "clear_streams" : "remove_stream";
    try {
        if (e.kind == EV_CLEAR) {
            size_t n = w.model.clear(); ++ctr[C_CLR]; if (n) ++ctr[C_CLR_PENDING]; if (n >= 2) ++ctr[C_CLR_MANY];
            w.reasm.clear_streams();
        } else {
            MKey k = op_key((*w.dgs)[e.dg], e.fr); int cls = w.model.remove(k);
            ++ctr[C_RM]; if (cls & 1) { ++ctr[C_RM_SELF]; if (cls & 6) ++ctr[C_RM_SELF_OTHERS]; } if (cls & 2) ++ctr[C_RM_MIRRORED]; if (!(cls & 1) && (cls & 4)) ++ctr[C_RM_OTHER]; if (!cls) ++ctr[C_RM_NOTHING];
            w.reasm.remove_stream(k.id, IPv4Address(ipstr(k.src)), IPv4Address(ipstr(k.dst)));
        }
    } catch (...) {
        violation(std::string("exception/") + what + "/" + current_exception_type() + w.sfx(), std::string("libtins threw during ") + what + "() :: " + where_of(w, e));
        return false;
    }
    ++w.ops_done; return true;
}
static const char* opctx_of(u8 fl) {
    return fl & F_RESTART_REMOVE ? "/after-remove_stream-of-this-datagram" : fl & F_RESTART_CLEAR ? "/after-clear_streams" : fl & F_SURV_MIRROR ? "/after-remove_stream-of-mirrored-pair" : fl & F_SURV_OTHER ? "/after-remove_stream-of-other-datagram" : "";
}

// returns false when the case must stop (a violation was reported; states may have diverged)
static bool step(World& w, const Ev& e) {
    if (e.kind == EV_REMOVE || e.kind == EV_CLEAR) return step_op(w, e);
    const Dgram* d = e.kind == EV_NONIP ? nullptr : &(*w.dgs)[e.dg];
    int link = d ? d->link : L_ETH;
    Bytes frame; if (link != L_API) frame = d ? frame_of(*d, e.fr) : nonip_frame(e.fr);
    ++w.steps; ++ctr[C_STEPS];
    ExactBuf eb(frame); std::unique_ptr<PDU> pdu; const char* phase = "parse";
    try {
        pdu.reset(link == L_API ? build_api(*d, e.fr) : parse(link, eb));
        int exp = S_NOTFRAG; const char* cls = e.kind == EV_NONIP ? "non-ip" : "unfragmented"; const char* opctx = "";
        if (e.kind == EV_FRAG) {
            const Frag& f = d->fr[e.fr]; MKey mk{d->id, d->src, d->dst};
            exp = w.model.feed(mk, f.off, f.len, f.mf);
            int ci = (w.model.was_dup ? 1 : 0) + (w.model.after_completion ? 2 : 0); cls = cls_name[ci];
            ++ctr[C_CLS0 + ci * 2 + (exp == S_REASM ? 1 : 0)];
            if (w.model.last_first) ++ctr[C_LASTFIRST];
            if (exp == S_REASM) { ++ctr[f.off == 0 ? C_BYFIRST : !f.mf ? C_BYLAST : C_BYMID]; if (!w.model.st.empty()) ++ctr[C_COMPL_PENDING]; }
            else if (w.model.st.size() >= 2) ++ctr[C_FRAG_PENDING];
            if (w.has_ops) {
                u8 fl = w.model.last_flags; opctx = opctx_of(w.model.last_latest);
                if (w.model.restarted) ++ctr[fl & F_RESTART_REMOVE ? C_RESTART_RM : C_RESTART_CLR];
                if (exp == S_REASM) { if (fl & F_RESTART_REMOVE) ++ctr[C_COMPL_AFTER_SELF]; if (fl & F_RESTART_CLEAR) ++ctr[C_COMPL_AFTER_CLEAR]; if (fl & F_SURV_MIRROR) ++ctr[C_COMPL_AFTER_MIRROR]; if (fl & F_SURV_OTHER) ++ctr[C_COMPL_AFTER_UNREL]; }
                else if (fl & F_SURV_ANY) ++ctr[C_FRAG_SURVIVOR];
                if (w.shadow.feed(mk, f.off, f.len, f.mf) == S_REASM && exp == S_FRAG) ++ctr[C_PREVENTED];   // the same history without the operations would complete here
            }
            if (is_eth(link) && d->linkhdr.size() + 20 + (f.off == 0 ? d->opts_first : d->opts_rest).size() + f.len + d->trail.size() < 60) { ++ctr[C_PADDED]; if (!f.mf) ++ctr[C_PADDED_LAST]; }
            if (!d->trail.empty()) ++ctr[C_TRAIL];
        } else { ++ctr[d ? C_UNFRAG : C_NONIP]; if (d && !w.model.st.empty() && w.model.st.count(MKey{d->id, d->src, d->dst})) ++ctr[C_UNFRAG_PENDINGKEY]; }
        Bytes before; if (exp == S_NOTFRAG) { phase = "serialize"; before = pdu->serialize(); }
        phase = "process";
        int got; const char* gotname = nullptr;
        if (w.proxy) {   // documented: returns true when the packet was not forwarded, otherwise what the functor returned
            w.fwd.calls = 0; w.fwd.seen = nullptr; w.fwd.ret = (mix(w.steps, 77) & 1) != 0;
            bool rv = (*w.proxy)(*pdu);
            if (w.fwd.calls == 0) { got = S_FRAG; ++ctr[C_PROXY_HELD]; if (!rv) { violation("proxy/held-back-but-returned-false", "IPv4ReassemblerProxy did not forward the packet and returned false :: " + where_of(w, e)); return false; } }
            else {
                ++ctr[C_PROXY_FWD];
                if (w.fwd.calls != 1 || w.fwd.seen != pdu.get()) { violation("proxy/forwarded-differently", "functor called " + std::to_string(w.fwd.calls) + " times / with another object :: " + where_of(w, e)); return false; }
                if (rv != w.fwd.ret) { violation("proxy/return-value", "IPv4ReassemblerProxy returned " + std::to_string(rv) + ", the functor returned " + std::to_string(w.fwd.ret) + " :: " + where_of(w, e)); return false; }
                got = exp == S_FRAG ? 3 : exp; gotname = "FORWARDED";      // NOT_FRAGMENTED and REASSEMBLED are told apart by the content checks below
            }
        } else got = tins_status(w.reasm.process(*pdu));
        ++ctr[C_STATUS]; if (w.ops_done) ++ctr[C_STATUS_AFTER_OP];
        if (got != exp) {
            if (!gotname || got != 3) gotname = SN[got];
            violation(std::string("status/expected-") + SN[exp] + "/got-" + gotname + "/" + cls + opctx + w.sfx(), std::string(w.proxy ? "the proxy reported " : "process() returned ") + gotname + ", the reference reassembler says " + SN[exp] + " (" + cls + opctx + ") :: " + where_of(w, e));
            return false;
        }
        phase = "serialize";
        if (exp == S_NOTFRAG) {
            Bytes after = pdu->serialize();
            if (after != before) { violation(std::string("unfragmented/altered/") + cls, "serialization before and after process() differ (" + std::to_string(before.size()) + " vs " + std::to_string(after.size()) + " bytes) :: " + where_of(w, e)); return false; }
            if (d) { Bytes wire = link == L_API || !d->trail.empty() ? frame_of(*d, e.fr, false) : frame;
                     if (after != wire) { violation("unfragmented/differs-from-wire/" + std::string(LN[link]), "unfragmented packet does not serialize to its wire bytes: " + hex(after, 80) + " vs " + hex(wire, 80) + " :: " + where_of(w, e)); return false; } }
            ++ctr[C_UNTOUCHED];
        } else if (exp == S_REASM) {
            if (!check_reassembled(w, *pdu, *d, e)) return false;
        } else if ((w.steps & 3) == 0) { Bytes x = pdu->serialize(); if (!x.empty()) ++ctr[C_FRAGSER]; }
    } catch (...) {
        violation(std::string("exception/") + phase + "/" + current_exception_type() + w.sfx(), std::string("libtins threw during ") + phase + " :: " + where_of(w, e));
        return false;
    }
    return true;
}

static std::string show_dgram(const Dgram& d, size_t i) {
    std::string s = "D" + std::to_string(i) + "{id=" + std::to_string(d.id) + " " + ipstr(d.src) + ">" + ipstr(d.dst) + " p=" + std::to_string(d.proto) + " " + LN[d.link] + " P=" + std::to_string(d.payload.size()) +
                    " opt=" + std::to_string(d.opts_first.size()) + "/" + std::to_string(d.opts_rest.size()) + (d.df ? " DF" : "") + " fr=";
    for (size_t k = 0; k < d.fr.size() && k < 24; ++k) s += (k ? "," : "") + std::to_string(d.fr[k].off) + "+" + std::to_string(d.fr[k].len);
    if (d.fr.size() > 24) s += ",..(" + std::to_string(d.fr.size()) + ")";
    return s + "}";
}
static std::string show_order(const std::vector<Ev>& evs, size_t cap) { std::string s; for (size_t i = 0; i < evs.size() && i < cap; ++i) { s += evstr(evs[i]); s += ' '; } if (evs.size() > cap) s += "..(" + std::to_string(evs.size()) + ")"; return s; }

// ---- random histories ---------------------------------------------------------------------------------
static Dgram make_dgram(Rng& r, u16 id, u32 src, u32 dst, int link, size_t P, bool opts) {
    static const u8 protos[] = {17, 17, 6, 6, 1, 1, 253, 253, 47, 89, 132, 255, 0, 254};
    Dgram d; d.id = id; d.src = src; d.dst = dst; d.link = link; d.linkhdr = make_linkhdr(r, link); d.proto = protos[r.below(sizeof protos)];
    if (opts && link != L_API) gen_ip_options(r, d.opts_first, d.opts_rest);
    if (link != L_API && r.chance(1, 6)) { d.trail = r.bytes(1 + r.below(12)); if (r.chance(1, 4)) std::fill(d.trail.begin(), d.trail.end(), 0); }   // e.g. a captured FCS / a trailer / padding of a smaller minimum size
    size_t maxP = 65535 - 20 - d.opts_first.size(); if (P > maxP) P = maxP;
    d.payload = make_upper(r, d.proto, P, src, dst);
    return d;
}
static size_t pick_size(Rng& r, bool allow_big, bool thorough) {
    switch (r.below(16)) {
        case 0: return 9 + r.below(8); case 1: case 2: case 3: return 9 + r.below(56); case 4: case 5: case 6: case 7: return 65 + r.below(600);
        case 8: case 9: return 8 * (2 + r.below(80)) + (r.chance(1, 2) ? 0 : 1); case 10: case 11: return 600 + r.below(3000);
        case 12: return allow_big ? 3000 + r.below(thorough ? 62000 : 20000) : 100 + r.below(900);
        case 13: return allow_big ? 65515 - r.below(r.chance(1, 2) ? 2 : 64) : 17;
        case 14: return allow_big ? 65515 - 8 * r.below(4) : 24;
        default: return 16 + r.below(16);
    }
}
// arrival order of one datagram's fragments (indices), with duplicates before and after completion
static std::vector<int> arrival(Rng& r, size_t m) {
    std::vector<int> o(m); for (size_t i = 0; i < m; ++i) o[i] = (int)i;
    switch (r.below(8)) {
        case 0: break; case 1: std::reverse(o.begin(), o.end()); break;
        case 2: std::rotate(o.begin(), o.begin() + 1, o.end()); break;                 // first fragment arrives last
        case 3: std::rotate(o.begin(), o.end() - 1, o.end()); break;                   // last fragment arrives first
        case 4: { size_t k = r.below((u32)m); std::rotate(o.begin(), o.begin() + k, o.end()); break; }
        default: for (size_t i = m; i > 1; --i) std::swap(o[i - 1], o[r.below((u32)i)]);
    }
    u32 nd; switch (r.below(10)) { case 0: case 1: case 2: nd = 0; break; case 3: case 4: case 5: nd = 1; break; case 6: case 7: nd = 2 + r.below(2); break; case 8: nd = (u32)m; break; default: nd = 1 + r.below((u32)std::min<size_t>(m, 12)); }
    if (nd == m && r.chance(1, 2)) { std::vector<int> again(o); if (r.chance(1, 2)) std::reverse(again.begin(), again.end()); o.insert(o.end(), again.begin(), again.end()); return o; }   // a complete retransmission afterwards
    for (u32 i = 0; i < nd; ++i) {
        int f = r.chance(1, 4) ? 0 : r.chance(1, 3) ? (int)m - 1 : (int)r.below((u32)m);
        size_t pos = r.chance(1, 3) ? o.size() : r.below((u32)o.size() + 1);
        o.insert(o.begin() + pos, f);
    }
    return o;
}

static int pick_link(Rng& r) { static const int L[] = {L_RAW, L_ETH, L_ETH, L_VLAN, L_SLL, L_QINQ, L_LOOP, L_API}; return L[r.below(8)]; }
static void run_random(Rng& r, bool thorough, bool allow_reversed) {
    bool technique = r.chance(1, 3), use_proxy = r.chance(1, 12), with_ops = !use_proxy && r.chance(2, 5);
    World w(technique); std::vector<Dgram> dgs; w.dgs = &dgs; w.reversed = allow_reversed && r.chance(1, 25); w.has_ops = with_ops; if (use_proxy) w.use_proxy();
    u32 kl; switch (r.below(10)) { case 0: case 1: kl = 1; break; case 2: case 3: case 4: kl = 2; break; case 5: case 6: kl = 3; break; case 7: kl = 4; break; default: kl = 2 + r.below(7); }
    if (w.reversed && kl < 2) kl = 2;
    // address and id pools: few values so that lanes share ids and addresses
    std::vector<u32> addrs; u32 base = r.chance(1, 3) ? ((u32)r.next() | 0x80000000u) : r.chance(1, 2) ? 0x0a000000u : (u32)r.next();
    for (u32 i = 0, n = 2 + r.below(4); i < n; ++i) { u32 a = r.chance(1, 5) ? (u32)r.edgy(32) : (base & 0xffffff00u) + 1 + r.below(250) + (r.chance(1, 4) ? (r.below(3) << 8) : 0); if (a == 0) a = 1; addrs.push_back(a); }
    std::vector<u16> ids; for (u32 i = 0, n = 1 + r.below(3); i < n; ++i) ids.push_back((u16)r.edgy(16));
    struct LaneKey { u16 id; u32 src, dst; };
    std::vector<LaneKey> keys;
    auto same_unordered = [](const LaneKey& a, const LaneKey& b) { return a.id == b.id && ((a.src == b.src && a.dst == b.dst) || (a.src == b.dst && a.dst == b.src)); };
    for (u32 l = 0; l < kl; ++l) {
        if (w.reversed && l == 1) { if (keys[0].src != keys[0].dst) { keys.push_back(LaneKey{keys[0].id, keys[0].dst, keys[0].src}); continue; } w.reversed = false; }
        LaneKey k{}; bool ok = false;
        for (int tries = 0; tries < 60 && !ok; ++tries) {
            k.id = tries < 30 ? r.pick(ids) : (u16)r.next(); k.src = r.pick(addrs); k.dst = tries < 40 ? r.pick(addrs) : (u32)r.next() | 1;
            if (k.src == k.dst && !r.chance(1, 8)) continue;
            ok = true; for (auto& o : keys) if (same_unordered(o, k)) ok = false;
        }
        if (!ok) break;
        keys.push_back(k);
    }
    if (w.reversed && keys.size() < 2) w.reversed = false;
    for (size_t a = 0; a < keys.size(); ++a) for (size_t b = a + 1; b < keys.size(); ++b) {
        const LaneKey &x = keys[a], &y = keys[b]; bool sameid = x.id == y.id;
        if (x.src == y.dst && x.dst == y.src) cnt(sameid ? "rel:same-id-reversed-pair" : "rel:reversed-pair-different-id");
        else if (x.src == y.src && x.dst == y.dst) cnt("rel:same-pair-different-id");
        else if (x.src == y.src || x.dst == y.dst) cnt(sameid ? "rel:same-id-pairs-share-one-address-same-role" : "rel:share-one-address-same-role");
        else if (x.src == y.dst || x.dst == y.src) cnt(sameid ? "rel:same-id-pairs-share-one-address-opposite-role" : "rel:share-one-address-opposite-role");
        else if (sameid) cnt("rel:same-id-disjoint-pairs");
    }
    // lanes: chains of datagrams re-using the lane's key one after the other
    u32 big_left = thorough ? 3 : 2; bool tiny_storm = r.chance(1, thorough ? 150 : 400);
    std::vector<std::vector<Ev>> lanes; std::vector<int> last_of_lane;   // last_of_lane: datagrams whose key is not used again afterwards (may be retransmitted at the end)
    for (auto& k : keys) {
        std::vector<Ev> lane; u32 chain = r.chance(7, 10) ? 1 : 2 + r.below(2);
        for (u32 c = 0; c < chain; ++c) {
            bool big = big_left && r.chance(1, 6); size_t P = pick_size(r, big, thorough); if (P > 3000 && big_left) --big_left;
            int link = pick_link(r);
            Dgram d = make_dgram(r, k.id, k.src, k.dst, link, P, r.chance(1, 4));
            int style = (int)r.below(6); if (style == 5) style = 0;
            u32 maxfr = 64;
            if (tiny_storm && lanes.empty() && c == 0) { style = 1; maxfr = thorough ? 8192 : 1500; tiny_storm = false; cnt("shape:storm-of-8-byte-fragments"); }
            fragment(r, d, style, maxfr);
            size_t m = d.fr.size();
            if (m < 2) continue;
            cnt("shape:fragments", m); cnt_max("max:fragments", m); cnt_max("max:payload", d.payload.size());
            cnt(m == 2 ? "shape:2-fragments" : m <= 8 ? "shape:3-8-fragments" : m <= 64 ? "shape:9-64-fragments" : "shape:more-than-64-fragments");
            if (style == 1) cnt("shape:all-8-byte-fragments"); if (style == 2) cnt("shape:huge-plus-tiny");
            if (!d.opts_first.empty()) cnt(d.opts_first.size() != d.opts_rest.size() ? "shape:options-first-fragment-differs" : "shape:options-all-copied");
            { bool tv = false; for (auto& f : d.fr) if (f.ttl != d.fr[0].ttl) tv = true; if (tv) cnt("shape:ttl-differs-between-fragments"); }
            if (d.payload.size() % 8) cnt("shape:last-fragment-not-multiple-of-8");
            if (d.payload.size() + 20 + d.opts_first.size() >= 65528) cnt("shape:total-length-near-65535");
            cnt(std::string("proto:") + (d.proto == 17 ? "UDP" : d.proto == 6 ? "TCP" : d.proto == 1 ? "ICMP" : "other")); cnt(std::string("link:") + LN[d.link]);
            std::vector<int> ord = arrival(r, m);
            if (c + 1 < chain) {   // the key is re-used afterwards: stop right after this datagram's last completion so that nothing stale is left
                Model tmp; MKey mk{d.id, d.src, d.dst}; size_t lastc = 0;
                for (size_t i = 0; i < ord.size(); ++i) if (tmp.feed(mk, d.fr[ord[i]].off, d.fr[ord[i]].len, d.fr[ord[i]].mf) == S_REASM) lastc = i;
                ord.resize(lastc + 1); cnt("shape:key-reused-after-completion");
            }
            int di = (int)dgs.size(); dgs.push_back(std::move(d)); size_t lane0 = lane.size();
            for (int f : ord) lane.push_back(Ev{EV_FRAG, di, f});
            if (with_ops && r.chance(1, 4)) {   // the application gives up on this datagram somewhere in between; often the sender then transmits everything again
                lane.insert(lane.begin() + lane0 + r.below((u32)(lane.size() - lane0) + 1), Ev{EV_REMOVE, di, OPV_SELF});
                if (r.chance(2, 3) && m <= 200) for (int f : arrival(r, m)) lane.push_back(Ev{EV_FRAG, di, f});
            }
            if (with_ops && c + 1 < chain) lane.push_back(Ev{EV_REMOVE, di, OPV_SELF});   // whatever is still pending under this key is dropped before the key is used again
            if (c + 1 == chain) last_of_lane.push_back(di);
        }
        if (!lane.empty()) lanes.push_back(std::move(lane));
    }
    if (lanes.empty()) return;
    cnt_max("max:concurrent-datagrams", lanes.size()); cnt("lanes:" + std::to_string(lanes.size()));
    // merge
    std::vector<Ev> evs; std::vector<size_t> pos(lanes.size(), 0); u32 mstyle = r.below(4); size_t cur = 0, left = 0; for (auto& l : lanes) left += l.size();
    while (left) {
        if (mstyle == 0) { while (pos[cur] >= lanes[cur].size()) cur = (cur + 1) % lanes.size(); }                                            // one lane after the other
        else if (mstyle == 1) { do cur = (cur + 1) % lanes.size(); while (pos[cur] >= lanes[cur].size()); }                                   // round robin
        else if (mstyle == 2) { size_t x = r.below64(left); for (cur = 0;; ++cur) { size_t rem = lanes[cur].size() - pos[cur]; if (x < rem) break; x -= rem; } }   // uniform merge
        else { if (pos[cur] >= lanes[cur].size() || r.chance(1, 4)) { do cur = r.below((u32)lanes.size()); while (pos[cur] >= lanes[cur].size()); } }            // bursts
        evs.push_back(lanes[cur][pos[cur]++]); --left;
    }
    // management operations anywhere in between
    if (with_ops) {
        std::vector<int> fragd; for (size_t i = 0; i < dgs.size(); ++i) fragd.push_back((int)i);
        std::vector<int> again;
        for (u32 i = 0, n = 1 + r.below(4); i < n; ++i) {
            Ev e; int target = -1;
            if (r.chance(1, 4)) { e = Ev{EV_CLEAR, -1, 0}; for (int di : last_of_lane) if (r.chance(1, 2)) again.push_back(di); }
            else {
                int v; switch (r.below(8)) { case 0: case 1: v = OPV_SELF; break; case 2: case 3: case 4: v = OPV_MIRROR; break; default: v = OPV_OTHER_ID + (int)r.below(OPV_N - OPV_OTHER_ID); }
                target = r.pick(fragd); e = Ev{EV_REMOVE, target, v};
                if (v == OPV_SELF && r.chance(1, 2) && std::find(last_of_lane.begin(), last_of_lane.end(), target) != last_of_lane.end()) again.push_back(target);
            }
            // mostly while the target still has fragments to come
            size_t lo = 0, hi = evs.size();
            if (target >= 0 && r.chance(3, 4)) { size_t first = evs.size(), last = 0; for (size_t j = 0; j < evs.size(); ++j) if (evs[j].kind == EV_FRAG && evs[j].dg == target) { if (first == evs.size()) first = j; last = j; } if (first < last) { lo = first + 1; hi = last; } }
            evs.insert(evs.begin() + lo + r.below((u32)(hi - lo) + 1), e);
        }
        // a complete retransmission of some datagrams whose fragments were dropped (their key is not in use by a later datagram)
        std::sort(again.begin(), again.end()); again.erase(std::unique(again.begin(), again.end()), again.end());
        std::vector<std::vector<int>> re; size_t total = 0; for (int di : again) if (dgs[di].fr.size() <= 200) { re.push_back(arrival(r, dgs[di].fr.size())); total += re.back().size(); } else re.push_back({});
        std::vector<size_t> rp(re.size(), 0);
        while (total) { size_t x = r.below64(total), c = 0; for (;; ++c) { size_t rem = re[c].size() - rp[c]; if (x < rem) break; x -= rem; } evs.push_back(Ev{EV_FRAG, again[c], re[c][rp[c]++]}); --total; }
        if (!again.empty()) cnt("shape:retransmission-after-operation", again.size());
    }
    // unfragmented and non-IP packets in between
    for (u32 i = 0, n = r.below(5); i < n; ++i) {
        Ev e;
        if (r.chance(1, 4)) e = Ev{EV_NONIP, -1, (int)r.below(9)};
        else {
            bool share = r.chance(1, 2); const LaneKey& k = keys[r.below((u32)keys.size())];
            size_t P = r.chance(1, 12) ? 1 + r.below(8) : r.chance(1, 10) ? 1400 + r.below(2000) : 8 + r.below(200);
            Dgram d = make_dgram(r, share ? k.id : (u16)r.next(), share || r.chance(1, 2) ? k.src : (u32)r.next() | 1, share || r.chance(1, 2) ? k.dst : (u32)r.next() | 1, pick_link(r), P, r.chance(1, 5));
            d.df = r.chance(1, 2); d.fr.push_back({0, (u32)d.payload.size(), false, (u8)(1 + r.below(255)), r.byte()});
            if (d.df) cnt("shape:unfragmented-with-DF"); d.rsv = r.chance(1, 4); if (d.rsv) cnt("shape:unfragmented-with-reserved-flag-bit");
            e = Ev{EV_UNFRAG, (int)dgs.size(), 0}; dgs.push_back(std::move(d));
        }
        evs.insert(evs.begin() + r.below((u32)evs.size() + 1), e);
    }
    std::string desc = w.reversed ? "kf=reversed-pair " : ""; u64 sg = (technique ? 1 : 0) + (use_proxy ? 2 : 0);
    if (technique) desc += "ctor=IPv4Reassembler(NONE) "; if (use_proxy) desc += "entry=IPv4ReassemblerProxy ";
    for (size_t i = 0; i < dgs.size(); ++i) { if (desc.size() < 30000) desc += show_dgram(dgs[i], i) + " "; const Dgram& d = dgs[i]; sg = mix(sg, mix(((u64)d.id << 40) ^ ((u64)d.proto << 32) ^ d.payload.size(), ((u64)d.src << 32) | d.dst)); for (auto& f : d.fr) sg = mix(sg, ((u64)f.off << 20) | f.len); }
    for (auto& e : evs) sg = mix(sg, ((u64)(e.kind + 1) << 40) ^ ((u64)(e.dg + 1) << 20) ^ (u64)e.fr);
    std::string full = desc + "order=" + show_order(evs, 600);
    describe_case(full); sig(sg); w.ctx = &desc; w.order = &evs;
    if (want_sample() && evs.size() <= 14) sample(full);
    cnt("histories"); if (w.reversed) cnt("histories:reversed-pair");
    cnt(technique ? "ctor:technique" : "ctor:default"); if (use_proxy) cnt("histories:through-proxy"); if (with_ops) cnt("histories:with-management-operations");
    for (auto& e : evs) if (!step(w, e)) return;
    if (!w.model.st.empty()) cnt("end:datagrams-left-incomplete-by-stale-duplicates", w.model.st.size());
}

// ---- exhaustive small scopes ---------------------------------------------------------------------------
static std::vector<std::vector<int>> compositions(int n) {
    std::vector<std::vector<int>> out;
    for (int mask = 0; mask < (1 << (n - 1)); ++mask) { std::vector<int> c; int run = 1; for (int i = 0; i < n - 1; ++i) { if (mask >> i & 1) { c.push_back(run); run = 1; } else ++run; } c.push_back(run); out.push_back(c); }
    return out;
}
// quick: payloads of 2..5 units, two duplicates up to 4 fragments; thorough: 2..6 units, two duplicates up to 5 fragments
static bool exh_deep() { return st().a.tier == "thorough"; }
struct ExhTable { std::vector<std::pair<int, std::vector<int>>> single; ExhTable() { for (int n = 2; n <= (exh_deep() ? 6 : 5); ++n) for (auto& c : compositions(n)) single.push_back({n, c}); } };
static const ExhTable& exh_table() { static ExhTable t; return t; }
static const int EXH_COMBOS = 32, EXH_PAIR_CASES = 7 * 4 * 2, EXH_OP_CASES = 7 * 4;
static long exh_total() { return (long)exh_table().single.size() * EXH_COMBOS + EXH_PAIR_CASES + EXH_OP_CASES; }

// every distinct order of the multiset `items`; the `shared` world persists over every second sequence
static bool run_all_orders(std::vector<int> items, const std::vector<Dgram>& dgs, World& shared, const std::string& ctx, bool reversed, u64& seqno) {
    std::sort(items.begin(), items.end()); u64 base = fnv(ctx); std::vector<Ev> evs(items.size());
    do {
        u64 sg = base; for (size_t i = 0; i < items.size(); ++i) { evs[i] = Ev{EV_FRAG, items[i] >> 8, items[i] & 255}; sg = mix(sg, (u64)items[i] + 1); }
        bool use_shared = (seqno++ & 1) != 0; sig(sg); ++ctr[C_SEQ];
        if (use_shared) { shared.ctx = &ctx; shared.order = &evs; shared.note = " (reassembler shared with the preceding sequences of this case)"; for (auto& e : evs) if (!step(shared, e)) return false; }
        else { bool technique = (seqno & 2) != 0; if (technique) ++ctr[C_CTOR_TECH]; World w(technique); w.dgs = &dgs; w.reversed = reversed; w.ctx = &ctx; w.order = &evs; for (auto& e : evs) if (!step(w, e)) return false; }
    } while (std::next_permutation(items.begin(), items.end()));
    return true;
}


// two datagrams of mx / my 8-byte fragments in one of 7 id/address relations
static const u32 PA = 0x0a000001u, PB = 0x0a000002u, PC = 0x0a000003u, PD = 0xc0000201u;
static const struct { u16 idy; u32 sy, dy; const char* name; } PAIR_REL[7] = {{7, PA, PC, "same-id-share-src"}, {7, PC, PB, "same-id-share-dst"}, {7, PB, PC, "same-id-dst-is-other-src"}, {7, PC, PA, "same-id-src-is-other-dst"},
                                                                             {7, PC, PD, "same-id-disjoint"}, {8, PA, PB, "same-pair-different-id"}, {7, PB, PA, "same-id-reversed-pair"}};
static void make_pair_case(Rng& r, int rel, int mx, int my, int link, std::vector<Dgram>& dgs) {
    auto mk = [&](u16 id, u32 s, u32 t, int m, u8 proto) { Dgram d; d.id = id; d.src = s; d.dst = t; d.link = link; d.linkhdr = make_linkhdr(r, link); d.proto = proto; d.payload = make_upper(r, d.proto, (size_t)m * 8, s, t);
                                                            for (int i = 0; i < m; ++i) d.fr.push_back({(u32)i * 8, 8, i + 1 < m, (u8)(60 + i), 0}); return d; };
    dgs.push_back(mk(7, PA, PB, mx, 17)); dgs.push_back(mk(PAIR_REL[rel].idy, PAIR_REL[rel].sy, PAIR_REL[rel].dy, my, mx == my ? 17 : 1));
}
// every interleaving of the two datagrams x one management operation at every position; when the operation left something
// forgotten or pending, every fragment is sent once more afterwards (the forgotten datagram completes only from a whole new set)
static void run_exh_ops(long p, Rng& r, bool allow_reversed) {
    if (p >= EXH_OP_CASES) return;
    int rel = (int)(p % 7), mx = 2 + (int)((p / 7) & 1), my = 2 + (int)((p / 14) & 1); static const int links[7] = {L_RAW, L_ETH, L_LOOP, L_API, L_SLL, L_VLAN, L_QINQ}; int link = links[(p / 7 + rel) % 7];
    if (rel == 6 && !allow_reversed) return;
    std::vector<Dgram> dgs; make_pair_case(r, rel, mx, my, link, dgs); bool reversed = rel == 6;
    std::string ctx = std::string(reversed ? "kf=reversed-pair " : "") + "exhaustive operations " + PAIR_REL[rel].name + " " + show_dgram(dgs[0], 0) + " " + show_dgram(dgs[1], 1); describe_case(ctx);
    cnt(std::string("rel:exhaustive-operations/") + PAIR_REL[rel].name);
    const Ev ops[7] = {{EV_REMOVE, 0, OPV_SELF}, {EV_REMOVE, 1, OPV_SELF}, {EV_REMOVE, 0, OPV_MIRROR}, {EV_REMOVE, 1, OPV_MIRROR}, {EV_REMOVE, 0, OPV_OTHER_ID}, {EV_REMOVE, 1, OPV_UNRELATED}, {EV_CLEAR, -1, 0}};
    std::vector<int> items; for (int i = 0; i < mx; ++i) items.push_back(i); for (int i = 0; i < my; ++i) items.push_back(256 + i);
    std::vector<Ev> tail; for (int i = 0; i < std::max(mx, my); ++i) { if (i < mx) tail.push_back(Ev{EV_FRAG, 0, i}); if (i < my) tail.push_back(Ev{EV_FRAG, 1, i}); }
    World shared(true); shared.dgs = &dgs; shared.reversed = reversed; shared.has_ops = true; shared.ctx = &ctx; shared.note = " (reassembler shared with the preceding sequences of this case, clear_streams() before each)";
    u64 base = fnv(ctx), seqno = 0; std::vector<Ev> evs; size_t n = items.size();
    do {
        for (size_t pos = 0; pos <= n; ++pos) for (int o = 0; o < 7; ++o) {
            evs.clear(); u64 sg = mix(base, pos * 8 + o);
            for (size_t i = 0; i < n; ++i) { if (i == pos) evs.push_back(ops[o]); evs.push_back(Ev{EV_FRAG, items[i] >> 8, items[i] & 255}); sg = mix(sg, (u64)items[i] + 1); }
            if (pos == n) evs.push_back(ops[o]);
            sig(sg); ++ctr[C_OPSEQ];
            bool use_shared = (seqno++ & 1) != 0, technique = (seqno & 2) != 0; World fresh(technique); if (!use_shared && technique) ++ctr[C_CTOR_TECH];
            World& w = use_shared ? shared : fresh;
            if (use_shared) { shared.order = nullptr; if (!step(shared, Ev{EV_CLEAR, -1, 0})) return; }
            else { fresh.dgs = &dgs; fresh.reversed = reversed; fresh.has_ops = true; fresh.ctx = &ctx; }
            w.order = &evs;
            for (size_t i = 0; i < evs.size(); ++i) if (!step(w, evs[i])) return;
            if (!w.model.killed.empty() || !w.model.st.empty()) { size_t from = evs.size(); evs.insert(evs.end(), tail.begin(), tail.end()); for (size_t i = from; i < evs.size(); ++i) if (!step(w, evs[i])) return; }
        }
    } while (std::next_permutation(items.begin(), items.end()));
    cnt("exhaustive_cases_completed"); cnt("exhaustive_op_cases_completed");
}

static void run_exhaustive(long idx, Rng& r, bool allow_reversed) {
    const ExhTable& T = exh_table(); long nsingle = (long)T.single.size() * EXH_COMBOS;
    if (idx == 0) cnt("exhaustive_cases_total", (u64)exh_total());
    cnt("exhaustive_cases");
    if (idx < nsingle) {
        const auto& ent = T.single[idx / EXH_COMBOS]; int combo = (int)(idx % EXH_COMBOS); int n = ent.first; const std::vector<int>& comp = ent.second;
        static const u8 protos[] = {17, 6, 1, 253}; u8 proto = protos[combo & 3]; int link = (combo >> 2) & 3; bool short_tail = (combo >> 4) & 1;
        size_t P = (size_t)n * 8 - (short_tail ? 3 : 0);
        Dgram d; d.id = (u16)(0x1000 + idx); d.src = 0xc0a80001u + (u32)(idx % 7); d.dst = 0x0a000001u; d.link = link; d.linkhdr = make_linkhdr(r, link); d.proto = proto;
        if (((idx / EXH_COMBOS) + (combo >> 1)) & 1) gen_ip_options(r, d.opts_first, d.opts_rest);
        d.payload = make_upper(r, d.proto, P, d.src, d.dst);
        u32 off = 0; for (size_t i = 0; i < comp.size(); ++i) { u32 end = (u32)std::min<size_t>(off + comp[i] * 8, P); d.fr.push_back({off, end - off, i + 1 < comp.size(), (u8)(64 - i), 0}); off = end; }
        std::string ctx = "exhaustive single " + show_dgram(d, 0); describe_case(ctx);
        size_t m = d.fr.size(); std::vector<Dgram> dgs(1, d); World shared; shared.dgs = &dgs; u64 seqno = 0;
        if (m == 1) {   // not fragmented at all
            World w; w.dgs = &dgs; w.ctx = &ctx; if (step(w, Ev{EV_UNFRAG, 0, 0})) cnt("exhaustive_cases_completed"); return;
        }
        std::vector<int> basev; for (size_t i = 0; i < m; ++i) basev.push_back((int)i);
        if (!run_all_orders(basev, dgs, shared, ctx, false, seqno)) return;
        for (size_t a = 0; a < m; ++a) {
            std::vector<int> v1 = basev; v1.push_back((int)a);
            if (!run_all_orders(v1, dgs, shared, ctx + " dup=" + std::to_string(a), false, seqno)) return;
            for (size_t b = a; b < m && m <= (exh_deep() ? 5u : 4u); ++b) { std::vector<int> v2 = v1; v2.push_back((int)b); if (!run_all_orders(v2, dgs, shared, ctx + " dup=" + std::to_string(a) + "," + std::to_string(b), false, seqno)) return; }
        }
        cnt("exhaustive_cases_completed"); cnt("exhaustive_partitions_x_variants");
        return;
    }
    long p = idx - nsingle; if (p >= EXH_PAIR_CASES) { run_exh_ops(p - EXH_PAIR_CASES, r, allow_reversed); return; }
    int rel = (int)(p % 7); int mx = 2 + (int)((p / 7) & 1), my = 2 + (int)((p / 14) & 1); int link = (p / 28) ? L_ETH : L_RAW;
    if (rel == 6 && !allow_reversed) return;
    std::vector<Dgram> dgs; make_pair_case(r, rel, mx, my, link, dgs);
    bool reversed = rel == 6;
    std::string ctx = std::string(reversed ? "kf=reversed-pair " : "") + "exhaustive pair " + PAIR_REL[rel].name + " " + show_dgram(dgs[0], 0) + " " + show_dgram(dgs[1], 1); describe_case(ctx);
    cnt(std::string("rel:exhaustive/") + PAIR_REL[rel].name);
    World shared; shared.dgs = &dgs; shared.reversed = reversed; u64 seqno = 0;
    std::vector<int> basev; for (int i = 0; i < mx; ++i) basev.push_back(i); for (int i = 0; i < my; ++i) basev.push_back(256 + i);
    if (!run_all_orders(basev, dgs, shared, ctx, reversed, seqno)) return;
    for (int it : std::vector<int>(basev)) { std::vector<int> v1 = basev; v1.push_back(it); if (!run_all_orders(v1, dgs, shared, ctx + " dup=" + std::to_string(it >> 8) + "." + std::to_string(it & 255), reversed, seqno)) return; }
    cnt("exhaustive_cases_completed");
}

int main(int argc, char** argv) {
    return vf::run(argc, argv, "C08", [&](long idx, Rng& rng) {
        const Args& a = st().a; bool allow_reversed = a.geti("reversed", 1) != 0;
        if (a.mode == "exhaustive") { if (idx < exh_total()) run_exhaustive(idx, rng, allow_reversed); }
        else run_random(rng, a.tier == "thorough", allow_reversed);
        flush_ctr();
    });
}
