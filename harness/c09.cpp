// C09 — WEP and WPA2 (CCMP/TKIP) decryption recovers exactly the plaintext, safely.
// The monitor owns an independent implementation of everything on the sender's side (RC4, CRC-32 ICV,
// TKIP phase-1/2 key mixing with an S-box derived from the AES S-box, Michael, CCMP through OpenSSL's
// EVP CCM mode, PBKDF2 / PRF-512 / EAPOL-Key MICs, 802.11 header encoder) and an independent *reference
// receiver* (own 802.11 header parser, key look-up by (RA,TA) / BSSID as the standard defines it, own
// decryptors). For EVERY frame handed to the real WEPDecrypter / WPA2Decrypter the reference decides
// MUST-DECRYPT / MUST-NOT / EITHER and the real engine's verdict and output are compared with it.
#include "verif.h"
#include <tins/tins.h>
#include <openssl/evp.h>
#include <openssl/hmac.h>
#include <array>
#include <memory>
#include <algorithm>
using namespace Tins;
using namespace vf;

typedef std::array<u8, 6> Mac;
static std::string macs(const Mac& m) { char b[24]; snprintf(b, sizeof b, "%02x:%02x:%02x:%02x:%02x:%02x", m[0], m[1], m[2], m[3], m[4], m[5]); return b; }
static HWAddress<6> hw(const Mac& m) { return HWAddress<6>(m.data()); }
static std::pair<Mac, Mac> mkpair(const Mac& a, const Mac& b) { return a < b ? std::make_pair(a, b) : std::make_pair(b, a); }

// =====================================================================================================
// Independent primitives
// =====================================================================================================
namespace rf {
static u32 crc_tab[256]; static u8 aes_s[256]; static u16 tk_s[256];
static u8 rotl8(u8 x, int s) { return (u8)((x << s) | (x >> (8 - s))); }
static void init_tables() {
    for (u32 i = 0; i < 256; ++i) { u32 c = i; for (int k = 0; k < 8; ++k) c = (c & 1) ? 0xEDB88320u ^ (c >> 1) : c >> 1; crc_tab[i] = c; }
    // AES S-box: multiplicative inverse in GF(2^8) followed by the affine map (generator 3 walk)
    u8 p = 1, q = 1;
    do {
        p = (u8)(p ^ (p << 1) ^ ((p & 0x80) ? 0x1b : 0));
        q ^= (u8)(q << 1); q ^= (u8)(q << 2); q ^= (u8)(q << 4); if (q & 0x80) q ^= 0x09;
        aes_s[p] = (u8)(q ^ rotl8(q, 1) ^ rotl8(q, 2) ^ rotl8(q, 3) ^ rotl8(q, 4) ^ 0x63);
    } while (p != 1);
    aes_s[0] = 0x63;
    // TKIP S-box (802.11i 8.3.2.5): 16-bit entries {02}.S(i) || {03}.S(i)
    for (u32 i = 0; i < 256; ++i) { u8 s = aes_s[i]; u8 x2 = (u8)((s << 1) ^ ((s & 0x80) ? 0x1b : 0)); tk_s[i] = (u16)((x2 << 8) | (u8)(x2 ^ s)); }
}
static u32 crc32(const u8* p, size_t n) { u32 c = ~0u; for (size_t i = 0; i < n; ++i) c = crc_tab[(c ^ p[i]) & 0xff] ^ (c >> 8); return ~c; }
static void rc4(const u8* key, size_t klen, const u8* in, size_t n, u8* out) {
    u8 S[256]; for (int i = 0; i < 256; ++i) S[i] = (u8)i;
    u8 j = 0; for (int i = 0; i < 256; ++i) { j = (u8)(j + S[i] + key[i % klen]); std::swap(S[i], S[j]); }
    u8 a = 0, b = 0; for (size_t k = 0; k < n; ++k) { a = (u8)(a + 1); b = (u8)(b + S[a]); std::swap(S[a], S[b]); out[k] = in[k] ^ S[(u8)(S[a] + S[b])]; }
}
// ---- TKIP key mixing -------------------------------------------------------------------------------
static inline u16 mk16(u8 hi, u8 lo) { return (u16)((hi << 8) | lo); }
static inline u16 tS(u16 v) { u16 a = tk_s[v & 0xff], b = tk_s[v >> 8]; return (u16)(a ^ (u16)((b << 8) | (b >> 8))); }
static inline u16 rotr1(u16 v) { return (u16)((v >> 1) | (v << 15)); }
static void tkip_p1(const u8* tk, const u8* ta, u32 iv32, u16 p1k[5]) {
    p1k[0] = (u16)(iv32 & 0xffff); p1k[1] = (u16)(iv32 >> 16); p1k[2] = mk16(ta[1], ta[0]); p1k[3] = mk16(ta[3], ta[2]); p1k[4] = mk16(ta[5], ta[4]);
    for (int i = 0; i < 8; ++i) {
        int j = 2 * (i & 1);
        p1k[0] = (u16)(p1k[0] + tS(p1k[4] ^ mk16(tk[1 + j], tk[0 + j])));
        p1k[1] = (u16)(p1k[1] + tS(p1k[0] ^ mk16(tk[5 + j], tk[4 + j])));
        p1k[2] = (u16)(p1k[2] + tS(p1k[1] ^ mk16(tk[9 + j], tk[8 + j])));
        p1k[3] = (u16)(p1k[3] + tS(p1k[2] ^ mk16(tk[13 + j], tk[12 + j])));
        p1k[4] = (u16)(p1k[4] + tS(p1k[3] ^ mk16(tk[1 + j], tk[0 + j])) + i);
    }
}
static void tkip_p2(const u8* tk, const u16 p1k[5], u16 iv16, u8 key[16]) {
    u16 ppk[6]; for (int i = 0; i < 5; ++i) ppk[i] = p1k[i]; ppk[5] = (u16)(p1k[4] + iv16);
    ppk[0] = (u16)(ppk[0] + tS(ppk[5] ^ mk16(tk[1], tk[0]))); ppk[1] = (u16)(ppk[1] + tS(ppk[0] ^ mk16(tk[3], tk[2])));
    ppk[2] = (u16)(ppk[2] + tS(ppk[1] ^ mk16(tk[5], tk[4]))); ppk[3] = (u16)(ppk[3] + tS(ppk[2] ^ mk16(tk[7], tk[6])));
    ppk[4] = (u16)(ppk[4] + tS(ppk[3] ^ mk16(tk[9], tk[8]))); ppk[5] = (u16)(ppk[5] + tS(ppk[4] ^ mk16(tk[11], tk[10])));
    ppk[0] = (u16)(ppk[0] + rotr1(ppk[5] ^ mk16(tk[13], tk[12]))); ppk[1] = (u16)(ppk[1] + rotr1(ppk[0] ^ mk16(tk[15], tk[14])));
    ppk[2] = (u16)(ppk[2] + rotr1(ppk[1])); ppk[3] = (u16)(ppk[3] + rotr1(ppk[2])); ppk[4] = (u16)(ppk[4] + rotr1(ppk[3])); ppk[5] = (u16)(ppk[5] + rotr1(ppk[4]));
    key[0] = (u8)(iv16 >> 8); key[1] = (u8)(((iv16 >> 8) | 0x20) & 0x7f); key[2] = (u8)(iv16 & 0xff);
    key[3] = (u8)(((ppk[5] ^ mk16(tk[1], tk[0])) >> 1) & 0xff);
    for (int i = 0; i < 6; ++i) { key[4 + 2 * i] = (u8)(ppk[i] & 0xff); key[5 + 2 * i] = (u8)(ppk[i] >> 8); }
}
// ---- Michael -----------------------------------------------------------------------------------------
static inline u32 rol32(u32 v, int s) { return (v << s) | (v >> (32 - s)); }
static inline u32 ror32(u32 v, int s) { return (v >> s) | (v << (32 - s)); }
static void michael(const u8 key[8], const Bytes& msg, u8 mic[8]) {
    auto le = [](const u8* p) { return (u32)p[0] | ((u32)p[1] << 8) | ((u32)p[2] << 16) | ((u32)p[3] << 24); };
    u32 l = le(key), r = le(key + 4);
    Bytes m = msg; m.push_back(0x5a); for (int i = 0; i < 4; ++i) m.push_back(0); while (m.size() % 4) m.push_back(0);
    for (size_t i = 0; i < m.size(); i += 4) {
        l ^= le(&m[i]);
        r ^= rol32(l, 17); l += r; r ^= ((l & 0xff00ff00u) >> 8) | ((l & 0x00ff00ffu) << 8); l += r; r ^= rol32(l, 3); l += r; r ^= ror32(l, 2); l += r;
    }
    for (int i = 0; i < 4; ++i) { mic[i] = (u8)(l >> (8 * i)); mic[4 + i] = (u8)(r >> (8 * i)); }
}
// ---- CCM (OpenSSL EVP; libtins composes CCM by hand from the raw AES block function) -----------------
// enc: out = ciphertext, tag written. dec: returns true iff the tag verifies, out = plaintext.
static bool ccm(bool enc, const u8* key, const u8* nonce13, const u8* aad, size_t aadlen, const u8* in, size_t n, u8* out, u8* tag8) {
    EVP_CIPHER_CTX* c = EVP_CIPHER_CTX_new(); bool ok = false; int len = 0; u8 dummy_in = 0, dummy_out[16];
    do {
        if (EVP_CipherInit_ex(c, EVP_aes_128_ccm(), 0, 0, 0, enc ? 1 : 0) != 1) break;
        if (EVP_CIPHER_CTX_ctrl(c, EVP_CTRL_CCM_SET_IVLEN, 13, 0) != 1) break;
        if (EVP_CIPHER_CTX_ctrl(c, EVP_CTRL_CCM_SET_TAG, 8, enc ? 0 : tag8) != 1) break;
        if (EVP_CipherInit_ex(c, 0, 0, key, nonce13, enc ? 1 : 0) != 1) break;
        if (EVP_CipherUpdate(c, 0, &len, 0, (int)n) != 1) break;
        if (aadlen && EVP_CipherUpdate(c, 0, &len, aad, (int)aadlen) != 1) break;
        int r = EVP_CipherUpdate(c, n ? out : dummy_out, &len, n ? in : &dummy_in, (int)n);
        if (r != 1) break;
        if (enc) { int l2 = 0; if (EVP_CipherFinal_ex(c, dummy_out, &l2) != 1) break; if (EVP_CIPHER_CTX_ctrl(c, EVP_CTRL_CCM_GET_TAG, 8, tag8) != 1) break; }
        ok = true;
    } while (0);
    EVP_CIPHER_CTX_free(c);
    return ok;
}
static Bytes hmac(const EVP_MD* md, const u8* key, size_t klen, const u8* d, size_t n) { Bytes o(EVP_MAX_MD_SIZE); unsigned l = 0; HMAC(md, key, (int)klen, d, n, o.data(), &l); o.resize(l); return o; }
static Bytes pbkdf2(const std::string& pass, const std::string& ssid) { Bytes o(32); PKCS5_PBKDF2_HMAC_SHA1(pass.data(), (int)pass.size(), (const u8*)ssid.data(), (int)ssid.size(), 4096, 32, o.data()); return o; }
// PRF-n of 802.11i 8.5.1.1 : HMAC-SHA1(K, A || 0 || B || i)
static Bytes prf(const Bytes& k, const std::string& label, const Bytes& b, size_t nbytes) {
    Bytes out; for (u8 i = 0; out.size() < nbytes; ++i) { Bytes in(label.begin(), label.end()); in.push_back(0); in.insert(in.end(), b.begin(), b.end()); in.push_back(i); Bytes h = hmac(EVP_sha1(), k.data(), k.size(), in.data(), in.size()); out.insert(out.end(), h.begin(), h.end()); }
    out.resize(nbytes); return out;
}
static Bytes ptk_of(const Bytes& pmk, const Mac& aa, const Mac& spa, const Bytes& anonce, const Bytes& snonce) {
    Bytes b; const Mac& lo = aa < spa ? aa : spa; const Mac& hi = aa < spa ? spa : aa;
    b.insert(b.end(), lo.begin(), lo.end()); b.insert(b.end(), hi.begin(), hi.end());
    bool al = std::lexicographical_compare(anonce.begin(), anonce.end(), snonce.begin(), snonce.end());
    const Bytes& n1 = al ? anonce : snonce; const Bytes& n2 = al ? snonce : anonce;
    b.insert(b.end(), n1.begin(), n1.end()); b.insert(b.end(), n2.begin(), n2.end());
    return prf(pmk, "Pairwise key expansion", b, 80);      // KCK 0..15 KEK 16..31 TK 32..47 MIC keys 48..63
}
} // namespace rf

// =====================================================================================================
// 802.11 data-frame header: own encoder and own parser
// =====================================================================================================
struct Hdr {
    u8 ver = 0, type = 2, subtype = 0;
    bool to_ds = false, from_ds = false, more_frag = false, retry = false, pwr = false, more_data = false, prot = true, order = false;
    u16 dur = 0; Mac a1{}, a2{}, a3{}, a4{}; u8 frag = 0; u16 seq = 0; u16 qc = 0;
    bool alt_qos = false;     // second reading of the no-data subtypes 5..7: a QoS-control field is assumed present (what a lenient parser may do)
    bool has_qos() const { return type == 2 && ((subtype & 8) || alt_qos); }
    bool four() const { return to_ds && from_ds; }
    bool carries_data() const { return type == 2 && !(subtype & 4); }
    size_t size() const { return 24 + (four() ? 6 : 0) + (has_qos() ? 2 : 0); }
    u8 tid() const { return has_qos() ? (u8)(qc & 0x0f) : 0; }
    const Mac& da() const { return to_ds ? a3 : a1; }
    const Mac& sa() const { return from_ds ? (to_ds ? a4 : a3) : a2; }
};
static Bytes enc_hdr(const Hdr& h) {
    Bytes b; b.push_back((u8)((h.ver & 3) | ((h.type & 3) << 2) | ((h.subtype & 15) << 4)));
    b.push_back((u8)((h.to_ds ? 1 : 0) | (h.from_ds ? 2 : 0) | (h.more_frag ? 4 : 0) | (h.retry ? 8 : 0) | (h.pwr ? 16 : 0) | (h.more_data ? 32 : 0) | (h.prot ? 64 : 0) | (h.order ? 128 : 0)));
    b.push_back((u8)(h.dur & 0xff)); b.push_back((u8)(h.dur >> 8));
    b.insert(b.end(), h.a1.begin(), h.a1.end()); b.insert(b.end(), h.a2.begin(), h.a2.end()); b.insert(b.end(), h.a3.begin(), h.a3.end());
    u16 sc = (u16)((h.frag & 15) | (h.seq << 4)); b.push_back((u8)(sc & 0xff)); b.push_back((u8)(sc >> 8));
    if (h.four()) b.insert(b.end(), h.a4.begin(), h.a4.end());
    if (h.has_qos()) { b.push_back((u8)(h.qc & 0xff)); b.push_back((u8)(h.qc >> 8)); }
    return b;
}
// returns false when the bytes are too short to hold the header the frame-control field announces
static bool parse_hdr(const Bytes& f, Hdr& h, size_t& off, bool alt = false) {
    if (f.size() < 24) return false;
    h.ver = f[0] & 3; h.type = (f[0] >> 2) & 3; h.subtype = f[0] >> 4; h.alt_qos = alt && h.type == 2 && h.subtype >= 5 && h.subtype <= 7;
    h.to_ds = f[1] & 1; h.from_ds = f[1] & 2; h.more_frag = f[1] & 4; h.retry = f[1] & 8; h.pwr = f[1] & 16; h.more_data = f[1] & 32; h.prot = f[1] & 64; h.order = f[1] & 128;
    h.dur = (u16)(f[2] | (f[3] << 8));
    std::copy(f.begin() + 4, f.begin() + 10, h.a1.begin()); std::copy(f.begin() + 10, f.begin() + 16, h.a2.begin()); std::copy(f.begin() + 16, f.begin() + 22, h.a3.begin());
    u16 sc = (u16)(f[22] | (f[23] << 8)); h.frag = sc & 15; h.seq = sc >> 4; off = 24;
    if (h.four()) { if (f.size() < off + 6) return false; std::copy(f.begin() + off, f.begin() + off + 6, h.a4.begin()); off += 6; }
    if (h.has_qos()) { if (f.size() < off + 2) return false; h.qc = (u16)(f[off] | (f[off + 1] << 8)); off += 2; }
    return true;
}
// CCMP AAD and nonce (IEEE 802.11-2007 8.3.3.3.2 / 8.3.3.3.3)
static Bytes ccmp_aad(const Hdr& h) {
    Bytes a; u8 fc0 = (u8)((h.ver & 3) | ((h.type & 3) << 2) | ((h.subtype & 15) << 4)); if (h.type == 2) fc0 &= (u8)~0x70;
    u8 fc1 = (u8)((h.to_ds ? 1 : 0) | (h.from_ds ? 2 : 0) | (h.more_frag ? 4 : 0) | 0x40 | ((h.order && !h.has_qos()) ? 0x80 : 0));
    a.push_back(fc0); a.push_back(fc1);
    a.insert(a.end(), h.a1.begin(), h.a1.end()); a.insert(a.end(), h.a2.begin(), h.a2.end()); a.insert(a.end(), h.a3.begin(), h.a3.end());
    a.push_back((u8)(h.frag & 15)); a.push_back(0);
    if (h.four()) a.insert(a.end(), h.a4.begin(), h.a4.end());
    if (h.has_qos()) { a.push_back((u8)(h.qc & 0x0f)); a.push_back(0); }
    return a;
}
static void ccmp_nonce(const Hdr& h, const u8* hdr8, u8 n[13]) { n[0] = h.tid(); std::copy(h.a2.begin(), h.a2.end(), n + 1); n[7] = hdr8[7]; n[8] = hdr8[6]; n[9] = hdr8[5]; n[10] = hdr8[4]; n[11] = hdr8[1]; n[12] = hdr8[0]; }

// ---- sender side: protected frame bodies ---------------------------------------------------------------
static Bytes wep_body(const Bytes& key, const u8 iv[3], u8 keyid, const Bytes& plain) {
    Bytes seed(iv, iv + 3); seed.insert(seed.end(), key.begin(), key.end());
    Bytes pt = plain; u32 c = rf::crc32(plain.data(), plain.size()); for (int i = 0; i < 4; ++i) pt.push_back((u8)(c >> (8 * i)));
    Bytes body(4 + pt.size()); body[0] = iv[0]; body[1] = iv[1]; body[2] = iv[2]; body[3] = (u8)(keyid << 6);
    rf::rc4(seed.data(), seed.size(), pt.data(), pt.size(), body.data() + 4);
    return body;
}
static Bytes michael_input(const Hdr& h, const Bytes& plain) {
    Bytes m(h.da().begin(), h.da().end()); m.insert(m.end(), h.sa().begin(), h.sa().end()); m.push_back(h.tid()); m.push_back(0); m.push_back(0); m.push_back(0);
    m.insert(m.end(), plain.begin(), plain.end()); return m;
}
static Bytes tkip_body(const Bytes& ptk, const Hdr& h, u64 tsc, u8 keyid, const Bytes& plain, bool from_ap) {
    const u8* tk = ptk.data() + 32; u16 p1k[5]; u8 rk[16];
    rf::tkip_p1(tk, h.a2.data(), (u32)(tsc >> 16), p1k); rf::tkip_p2(tk, p1k, (u16)(tsc & 0xffff), rk);
    u8 mic[8]; rf::michael(ptk.data() + (from_ap ? 48 : 56), michael_input(h, plain), mic);
    Bytes pt = plain; pt.insert(pt.end(), mic, mic + 8); u32 c = rf::crc32(pt.data(), pt.size()); for (int i = 0; i < 4; ++i) pt.push_back((u8)(c >> (8 * i)));
    Bytes body(8 + pt.size());
    body[0] = (u8)(tsc >> 8); body[1] = (u8)(((tsc >> 8) | 0x20) & 0x7f); body[2] = (u8)tsc; body[3] = (u8)((keyid << 6) | 0x20);
    body[4] = (u8)(tsc >> 16); body[5] = (u8)(tsc >> 24); body[6] = (u8)(tsc >> 32); body[7] = (u8)(tsc >> 40);
    rf::rc4(rk, 16, pt.data(), pt.size(), body.data() + 8);
    return body;
}
static Bytes ccmp_body(const Bytes& ptk, const Hdr& h, u64 pn, u8 keyid, const Bytes& plain) {
    Bytes body(8 + plain.size() + 8);
    body[0] = (u8)pn; body[1] = (u8)(pn >> 8); body[2] = 0; body[3] = (u8)((keyid << 6) | 0x20); body[4] = (u8)(pn >> 16); body[5] = (u8)(pn >> 24); body[6] = (u8)(pn >> 32); body[7] = (u8)(pn >> 40);
    u8 n[13]; ccmp_nonce(h, body.data(), n); Bytes aad = ccmp_aad(h);
    if (!rf::ccm(true, ptk.data() + 32, n, aad.data(), aad.size(), plain.data(), plain.size(), body.data() + 8, body.data() + 8 + plain.size())) body.clear();
    return body;
}

// ---- receiver side: reference decryptors ------------------------------------------------------------
struct RefOut { bool integrity = false; Bytes plain; bool michael_ok = true; };
static RefOut wep_open(const Bytes& key, const u8* body, size_t n) {
    RefOut o; if (n < 8) return o;
    Bytes seed(body, body + 3); seed.insert(seed.end(), key.begin(), key.end());
    Bytes pt(n - 4); rf::rc4(seed.data(), seed.size(), body + 4, n - 4, pt.data());
    u32 c = rf::crc32(pt.data(), pt.size() - 4); u32 got = (u32)pt[pt.size() - 4] | ((u32)pt[pt.size() - 3] << 8) | ((u32)pt[pt.size() - 2] << 16) | ((u32)pt[pt.size() - 1] << 24);
    o.integrity = c == got; pt.resize(pt.size() - 4); o.plain = pt; return o;
}
static RefOut tkip_open(const Bytes& ptk, const Hdr& h, const u8* body, size_t n) {
    RefOut o; if (n < 8 + 8 + 4) return o;
    const u8* tk = ptk.data() + 32; u16 p1k[5]; u8 rk[16];
    u32 iv32 = (u32)body[4] | ((u32)body[5] << 8) | ((u32)body[6] << 16) | ((u32)body[7] << 24); u16 iv16 = (u16)((body[0] << 8) | body[2]);
    rf::tkip_p1(tk, h.a2.data(), iv32, p1k); rf::tkip_p2(tk, p1k, iv16, rk);
    Bytes pt(n - 8); rf::rc4(rk, 16, body + 8, n - 8, pt.data());
    u32 c = rf::crc32(pt.data(), pt.size() - 4); u32 got = (u32)pt[pt.size() - 4] | ((u32)pt[pt.size() - 3] << 8) | ((u32)pt[pt.size() - 2] << 16) | ((u32)pt[pt.size() - 1] << 24);
    o.integrity = c == got; o.plain.assign(pt.begin(), pt.end() - 12);
    u8 m1[8], m2[8]; rf::michael(ptk.data() + 48, michael_input(h, o.plain), m1); rf::michael(ptk.data() + 56, michael_input(h, o.plain), m2);
    o.michael_ok = !memcmp(m1, &pt[pt.size() - 12], 8) || !memcmp(m2, &pt[pt.size() - 12], 8);
    return o;
}
static RefOut ccmp_open(const Bytes& ptk, const Hdr& h, const u8* body, size_t n) {
    RefOut o; if (n < 16) return o;
    u8 nn[13]; ccmp_nonce(h, body, nn); Bytes aad = ccmp_aad(h); o.plain.resize(n - 16); u8 tag[8]; memcpy(tag, body + n - 8, 8);
    o.integrity = rf::ccm(false, ptk.data() + 32, nn, aad.data(), aad.size(), body + 8, n - 16, o.plain.data(), tag);
    if (!o.integrity) o.plain.clear();
    return o;
}

// =====================================================================================================
// Reference receiver: which keys are known, what must happen to a frame
// =====================================================================================================
struct PairKey { Bytes ptk; bool ccmp; };
struct Model {
    std::map<Mac, Bytes> wep;                              // BSSID -> WEP key
    std::map<std::pair<Mac, Mac>, PairKey> wpa;            // unordered {AP, station} -> pairwise key
};
enum Verdict { MUST_FALSE, MUST_TRUE, EITHER };
static const char* vname(Verdict v) { return v == MUST_FALSE ? "must-not-decrypt" : v == MUST_TRUE ? "must-decrypt" : "either"; }
struct Expect { Verdict v = MUST_FALSE; Bytes plain; std::string why; std::string cipher = "none"; std::string shape = "plain"; bool parsed = false; Hdr h; size_t off = 0; };

// Is `plain` an LLC/SNAP payload the statement talks about?  8-byte LLC/SNAP header followed by bytes that the
// generator knows to be either opaque (unknown ethertype) or a well-formed inner packet.
static bool ethertype_dissected(u16 t) { switch (t) { case 0x0800: case 0x86dd: case 0x0806: case 0x8863: case 0x8864: case 0x888e: case 0x8100: case 0x88a8: case 0x9100: case 0x8847: return true; } return false; }
struct Plain { Bytes bytes; bool wellformed = true; int kind = 0; };   // kind 0 opaque, 1 IPv4/UDP, 2 dissected ethertype + garbage, 3 shorter than LLC/SNAP

// `orig`: the plaintext the sender encrypted (if the frame stems from one); a frame whose integrity holds but whose
// plaintext is not a well-formed LLC/SNAP payload is outside the statement's positive clause -> EITHER (but still "safely").
static void settle(Expect& e, const RefOut& o, const Plain* orig) {
    if (!o.integrity) { e.v = MUST_FALSE; e.why = "integrity check fails"; return; }
    e.plain = o.plain; bool ok;
    if (o.plain.size() < 8) ok = false;
    else if (orig && orig->bytes == o.plain) ok = orig->wellformed;
    else ok = !ethertype_dissected((u16)((o.plain[6] << 8) | o.plain[7]));
    if (!ok) { e.v = EITHER; e.why = "integrity valid, plaintext is not a well-formed LLC/SNAP payload"; e.shape = "inner-malformed"; return; }
    if (!o.michael_ok) { e.v = EITHER; e.why = "ICV valid, Michael MIC invalid"; return; }
    e.v = MUST_TRUE; e.why = "valid frame";
}
static Expect expect_wep1(const Model& m, const Bytes& f, const Plain* orig, bool alt) {
    Expect e; e.cipher = "wep";
    if (!parse_hdr(f, e.h, e.off, alt)) { e.why = "shorter than its header"; return e; }
    e.parsed = true; const Hdr& h = e.h;
    if (h.type != 2) { e.why = "not a data frame"; return e; }
    if (!h.prot) {      // an unprotected frame is not "decrypted"; the one excuse: behind an LLC/SNAP header it carries bytes that a known key opens (the statement is silent on that)
        e.why = "not protected"; if (f.size() >= e.off + 16) for (auto& kv : m.wep) if (wep_open(kv.second, &f[e.off + 8], f.size() - e.off - 8).integrity) { e.v = EITHER; e.why = "not protected, but the bytes behind the LLC/SNAP header open with a known key"; }
        return e; }
    if (f.size() == e.off) { e.why = "empty body"; return e; }
    const Bytes* key = nullptr; bool ambiguous = false;
    if (h.four()) { for (const Mac* a : {&h.a1, &h.a2, &h.a3, &h.a4}) { auto it = m.wep.find(*a); if (it == m.wep.end()) { ambiguous = true; continue; } if (key && *key != it->second) ambiguous = true; key = &it->second; } }
    else { auto it = m.wep.find(h.to_ds ? h.a1 : h.from_ds ? h.a2 : h.a3); if (it != m.wep.end()) key = &it->second; }
    if (key) { RefOut o = wep_open(*key, &f[e.off], f.size() - e.off); settle(e, o, orig); } else e.why = "no key for this BSSID";
    if (e.v == MUST_FALSE) for (auto& kv : m.wep) { if (key && kv.second == *key) continue; RefOut o = wep_open(kv.second, &f[e.off], f.size() - e.off); if (o.integrity) { settle(e, o, orig); if (e.v == MUST_TRUE) e.v = EITHER; e.why = "opens with the key registered for another address"; break; } }
    if (e.v == MUST_TRUE && (ambiguous || h.ver != 0 || !h.carries_data() || (h.has_qos() && h.order))) { e.v = EITHER; e.why += " (non-standard header)"; }
    return e;
}
static Expect expect_wpa1(const Model& m, const Bytes& f, const Plain* orig, bool alt) {
    Expect e;
    if (!parse_hdr(f, e.h, e.off, alt)) { e.why = "shorter than its header"; return e; }
    e.parsed = true; const Hdr& h = e.h;
    if (h.type != 2) { e.why = "not a data frame"; return e; }
    if (!h.prot) {
        e.why = "not protected"; if (f.size() >= e.off + 24) for (auto& kv : m.wpa) { const u8* b8 = &f[e.off + 8]; size_t n8 = f.size() - e.off - 8; if ((kv.second.ccmp ? ccmp_open(kv.second.ptk, h, b8, n8) : tkip_open(kv.second.ptk, h, b8, n8)).integrity) { e.v = EITHER; e.why = "not protected, but the bytes behind the LLC/SNAP header open with a known key"; } }
        return e; }
    if (f.size() == e.off) { e.why = "empty body"; return e; }
    auto it = m.wpa.find(mkpair(h.a1, h.a2));               // the pairwise key belongs to {RA, TA}
    size_t n = f.size() - e.off; const u8* body = &f[e.off]; const PairKey* k = it == m.wpa.end() ? nullptr : &it->second;
    if (n < 16) for (auto& kv : m.wpa) if (kv.second.ccmp) e.shape = "ccmp-short-body";      // any CCMP key + body below the CCMP minimum
    auto open = [&](const PairKey& pk) { return pk.ccmp ? ccmp_open(pk.ptk, h, body, n) : tkip_open(pk.ptk, h, body, n); };
    if (k) { e.cipher = k->ccmp ? "ccmp" : "tkip"; std::string sh = e.shape; settle(e, open(*k), orig); if (sh != "plain") e.shape = sh; } else e.why = "no key for {RA,TA}";
    if (e.v == MUST_FALSE) for (auto& kv : m.wpa) { if (&kv.second == k) continue; RefOut o = open(kv.second); if (o.integrity) { std::string sh = e.shape; settle(e, o, orig); if (sh != "plain") e.shape = sh; if (e.v == MUST_TRUE) e.v = EITHER; e.why = "opens with the key of another address pair"; e.cipher = kv.second.ccmp ? "ccmp" : "tkip"; return e; } }
    if (!k) return e;
    if (e.v == MUST_TRUE && (h.ver != 0 || !h.carries_data() || (h.has_qos() && h.order))) { e.v = EITHER; e.why += " (non-standard header)"; }
    if (e.v == MUST_TRUE) {
        // shapes on which the pinned tree is known to deviate; they only refine the violation key, never the verdict
        if (!k->ccmp && (body[4] != body[5] || body[6] != body[7])) e.shape = "tkip-iv32-bytes-differ";
        else if (h.four() && h.a3 != h.a1) e.shape = "4addr-da-not-ra";
        else if (h.from_ds && !h.to_ds && h.a3 != h.a1 && h.a3 != h.a2 && m.wpa.count(mkpair(h.a2, h.a3))) e.shape = "fromds-sa-has-own-key";
        else if (k->ccmp && h.has_qos() && h.subtype != 8) e.shape = "qos-cf-subtype";
    }
    return e;
}

// Data subtypes 5..7 carry no data and no QoS control by the standard; a body behind them has no defined layout, so both
// readings are evaluated and nothing is demanded beyond safety unless neither reading verifies.
template <class Fn> static Expect both_layouts(Fn one, const Model& m, const Bytes& f, const Plain* orig) {
    Expect e = one(m, f, orig, false);
    if (e.parsed && e.h.type == 2 && e.h.subtype >= 5 && e.h.subtype <= 7) { Expect e2 = one(m, f, orig, true); if (e.v == MUST_FALSE && e.shape == "plain" && (e2.v != MUST_FALSE || e2.shape != "plain")) e = e2; }
    return e;
}
static Expect expect_wep(const Model& m, const Bytes& f, const Plain* orig) { return both_layouts(expect_wep1, m, f, orig); }
static Expect expect_wpa(const Model& m, const Bytes& f, const Plain* orig) { return both_layouts(expect_wpa1, m, f, orig); }

// ---- plaintext generator ---------------------------------------------------------------------------
static Plain gen_plain(Rng& r, size_t L, int kind) {
    Plain p; p.kind = kind; Bytes& b = p.bytes;
    if (kind == 3) { b = r.bytes(L < 8 ? L : 7); p.wellformed = false; return p; }
    b = {0xaa, 0xaa, 0x03, 0, 0, 0}; if (r.chance(1, 8)) { b[3] = r.byte(); b[4] = r.byte(); b[5] = r.byte(); }
    if (kind == 1 && L >= 28) {
        b.push_back(0x08); b.push_back(0x00); size_t pl = L - 28;
        Bytes ip = {0x45, (u8)r.byte(), (u8)(L >> 8), (u8)L, r.byte(), r.byte(), 0x40, 0x00, (u8)(1 + r.below(255)), 17, 0, 0, 10, r.byte(), r.byte(), (u8)(1 + r.below(254)), 192, 168, r.byte(), (u8)(1 + r.below(254))};
        u32 s = 0; for (int i = 0; i < 20; i += 2) s += (u32)((ip[i] << 8) | ip[i + 1]); while (s >> 16) s = (s & 0xffff) + (s >> 16); s = ~s & 0xffff; ip[10] = (u8)(s >> 8); ip[11] = (u8)s;
        b.insert(b.end(), ip.begin(), ip.end());
        u16 sp = (u16)(1024 + r.below(60000)), dp = (u16)(1024 + r.below(60000)); u16 ul = (u16)(8 + pl);
        Bytes udp = {(u8)(sp >> 8), (u8)sp, (u8)(dp >> 8), (u8)dp, (u8)(ul >> 8), (u8)ul, 0, 0}; b.insert(b.end(), udp.begin(), udp.end());
        Bytes d = r.bytes(pl); b.insert(b.end(), d.begin(), d.end()); return p;
    }
    if (kind == 2) { static const u16 ds[] = {0x0800, 0x86dd, 0x0806, 0x8863, 0x888e, 0x8100, 0x8847}; u16 t = ds[r.below(7)]; b.push_back((u8)(t >> 8)); b.push_back((u8)t); Bytes d = r.bytes(L); b.insert(b.end(), d.begin(), d.end()); p.wellformed = false; return p; }
    p.kind = 0; u16 t; do { t = (u16)r.next(); if (r.chance(1, 4)) t = (u16)(0x0600 + r.below(0x200)); } while (ethertype_dissected(t));
    b.push_back((u8)(t >> 8)); b.push_back((u8)t); Bytes d = r.bytes(L); b.insert(b.end(), d.begin(), d.end()); return p;
}

// ---- comparing what the real engine produced with the plaintext -----------------------------------------
static std::string g_ctx;                       // description of the world of this case
static void set_frame_desc(const std::string& what, const Bytes& f) { describe_case(g_ctx + " || " + what + " frame[" + std::to_string(f.size()) + "]=" + hex(f, 160)); }
static void viol(const std::string& key, const std::string& msg) { violation(key, msg); }
static std::string slug(std::string s) { for (char& c : s) if (!isalnum((unsigned char)c)) c = '-'; return s; }

static void check_output(const std::string& eng, const Expect& e, PDU& pdu) {
    const std::string tail = eng + "/" + e.cipher + "/" + e.shape;
    Dot11Data* d = pdu.find_pdu<Dot11Data>();
    if (!d) { viol("output/no-dot11-layer/" + tail, "decrypt() returned true but there is no Dot11Data layer"); return; }
    if (d->wep()) viol("output/protected-flag-still-set/" + tail, "decrypt() returned true but the protected flag is still set");
    const Hdr& h = e.h; std::string diff;
    if (Mac(h.a1) != [&] { Mac m; d->addr1().copy(m.begin()); return m; }()) diff += " addr1";
    { Mac m; d->addr2().copy(m.begin()); if (m != h.a2) diff += " addr2"; d->addr3().copy(m.begin()); if (m != h.a3) diff += " addr3"; if (h.four()) { d->addr4().copy(m.begin()); if (m != h.a4) diff += " addr4"; } }
    if ((bool)d->to_ds() != h.to_ds || (bool)d->from_ds() != h.from_ds) diff += " ds-bits";
    if (d->subtype() != h.subtype || d->type() != h.type) diff += " type/subtype";
    if ((bool)d->more_frag() != h.more_frag || (bool)d->retry() != h.retry || (bool)d->power_mgmt() != h.pwr || (bool)d->order() != h.order) diff += " fc-flags";
    if (d->frag_num() != h.frag || d->seq_num() != h.seq) diff += " seq-ctl";
    if (h.has_qos()) { Dot11QoSData* q = dynamic_cast<Dot11QoSData*>(d); if (!q) diff += " qos-layer-missing"; else if (q->qos_control() != h.qc) diff += " qos-control"; }
    if (!diff.empty()) viol("output/header-changed/" + tail, "802.11 header differs after decryption:" + diff);
    SNAP* s = dynamic_cast<SNAP*>(d->inner_pdu());
    if (!s) { viol("output/inner-not-snap/" + tail, std::string("payload layer after decryption is ") + (d->inner_pdu() ? demangle(typeid(*d->inner_pdu()).name()) : "absent")); return; }
    const Bytes& p = e.plain;
    u32 org = ((u32)p[3] << 16) | ((u32)p[4] << 8) | p[5]; u16 et = (u16)((p[6] << 8) | p[7]);
    if (s->dsap() != p[0] || s->ssap() != p[1] || s->control() != p[2] || (u32)s->org_code() != org || s->eth_type() != et) {
        viol("output/snap-header-differs/" + tail, "LLC/SNAP header after decryption differs from the plaintext " + hex(p, 8)); return; }
    size_t L = p.size() - 8; PDU* in = s->inner_pdu();
    if (e.shape == "inner-malformed") return;                 // the payload's own dissection is outside the statement
    if (L == 0) { if (in) viol("output/payload-differs/" + tail, "empty payload expected, got a " + demangle(typeid(*in).name())); cnt("chk:payload-empty"); return; }
    if (!in) { viol("output/payload-differs/" + tail, "payload of " + std::to_string(L) + " bytes missing after decryption"); return; }
    if (!ethertype_dissected(et)) {
        RawPDU* raw = dynamic_cast<RawPDU*>(in);
        if (!raw) { viol("output/payload-differs/" + tail, "opaque payload decoded as " + demangle(typeid(*in).name())); return; }
        const Bytes& got = raw->payload();
        if (got.size() != L || memcmp(got.data(), p.data() + 8, L) != 0) {
            size_t i = 0; while (i < got.size() && i < L && got[i] == p[8 + i]) ++i;
            viol("output/payload-differs/" + tail, "decrypted payload has " + std::to_string(got.size()) + " bytes, expected " + std::to_string(L) + "; first difference at offset " + std::to_string(i)); return; }
        cnt("chk:payload-bytes-equal"); return;
    }
    if (et == 0x0800) {
        IP* ip = dynamic_cast<IP*>(in); UDP* udp = ip ? dynamic_cast<UDP*>(ip->inner_pdu()) : nullptr; RawPDU* raw = udp ? dynamic_cast<RawPDU*>(udp->inner_pdu()) : nullptr;
        const u8* q = p.data() + 8; bool ok = ip && udp && L >= 28;
        if (ok) {
            u32 src = ((u32)q[12] << 24) | (q[13] << 16) | (q[14] << 8) | q[15], dst = ((u32)q[16] << 24) | (q[17] << 16) | (q[18] << 8) | q[19];
            ok = Endian::be_to_host((u32)ip->src_addr()) == src && Endian::be_to_host((u32)ip->dst_addr()) == dst && ip->ttl() == q[8] && ip->protocol() == 17 && ip->id() == (u16)((q[4] << 8) | q[5]) && ip->tos() == q[1]
                 && udp->sport() == (u16)((q[20] << 8) | q[21]) && udp->dport() == (u16)((q[22] << 8) | q[23]);
            size_t pl = L - 28; if (ok && pl) ok = raw && raw->payload().size() == pl && memcmp(raw->payload().data(), q + 28, pl) == 0; else if (ok) ok = udp->inner_pdu() == nullptr;
        }
        if (!ok) { viol("output/payload-differs/" + tail, "decrypted IPv4/UDP packet does not carry the sent fields/payload"); return; }
        cnt("chk:payload-ipv4-udp-equal");
    }
}

// One frame through the real engine. Engines are templates only in the decrypt call.
struct Opt { bool via_api = false, radiotap = false; };
template <class Dec> static int run_frame(const std::string& eng, Dec& dec, const Expect& e, const Bytes& f, const std::string& what, const Opt& o = Opt()) {
    set_frame_desc(what + " expect=" + vname(e.v) + " (" + e.why + ") cipher=" + e.cipher + " shape=" + e.shape, f);
    std::unique_ptr<PDU> pdu;
    try {
        ExactBuf eb(f);
        if (o.via_api && e.parsed && e.h.type == 2 && e.h.prot && e.h.carries_data() && f.size() > e.off) {        // same frame assembled through the public classes
            const Hdr& h = e.h; Dot11Data* d = h.has_qos() ? new Dot11QoSData(hw(h.a1), hw(h.a2)) : new Dot11Data(hw(h.a1), hw(h.a2)); pdu.reset(d);
            d->protocol(h.ver); d->subtype(h.subtype); d->to_ds(h.to_ds); d->from_ds(h.from_ds); d->more_frag(h.more_frag); d->retry(h.retry); d->power_mgmt(h.pwr); d->wep(h.prot); d->order(h.order); d->more_data(h.more_data);
            d->duration_id(h.dur); d->addr3(hw(h.a3)); if (h.four()) d->addr4(hw(h.a4)); d->frag_num(h.frag); d->seq_num(h.seq);
            if (h.has_qos()) static_cast<Dot11QoSData*>(d)->qos_control(h.qc);
            d->inner_pdu(new RawPDU(eb.data() + e.off, (u32)(f.size() - e.off))); cnt("parse:built-through-api");
        } else pdu.reset(Dot11::from_bytes(eb.data(), (u32)f.size()));
    } catch (malformed_packet&) { cnt("parse:malformed"); return -1; }
    catch (...) { viol("parse/exception/" + current_exception_type(), "frame parser threw " + current_exception_type()); return -1; }
    if (o.radiotap) { RadioTap* rt = new RadioTap(); rt->inner_pdu(pdu.release()); pdu.reset(rt); cnt("parse:wrapped-in-radiotap"); }
    bool r = false;
    try { r = dec.decrypt(*pdu); }
    catch (...) {
        std::string t = current_exception_type();
        viol("exception-escapes/" + eng + "/" + t + "/" + e.cipher + "/" + e.shape, "decrypt() let " + t + " escape (" + what + ")"); cnt("escaped-exceptions"); return -2; }
    cnt(std::string("verdict:") + vname(e.v) + (r ? "/got-true" : "/got-false")); cnt("decrypt-calls:" + eng + "/" + e.cipher);
    if (e.v == MUST_TRUE && !r) viol("positive/not-decrypted/" + eng + "/" + e.cipher + "/" + e.shape, "decrypt() returned false for a frame with valid integrity and a known key (" + what + ")");
    if (e.v == MUST_FALSE && r) viol("negative/reported-decrypted/" + eng + "/" + e.cipher + "/" + slug(e.why), "decrypt() returned true although: " + e.why + " (" + what + ")");
    if (r && e.v != MUST_FALSE && e.plain.size() >= 8) check_output(eng, e, *pdu);
    return r ? 1 : 0;
}

// =====================================================================================================
// Worlds, frame generator, negatives
// =====================================================================================================
static Mac rnd_mac(Rng& r) { Mac m; for (auto& b : m) b = r.byte(); m[0] &= 0xfe; if (r.chance(1, 24)) { m = {0xfe, 0xff, 0xff, 0xff, 0xff, (u8)(0xf0 | r.below(16))}; } if (r.chance(1, 24)) { m = {0, 0, 0, 0, 0, (u8)r.below(16)}; } return m; }
struct Sta { Mac mac; int ap; PairKey key; };
struct World {
    Mac ap[2]; Bytes wep[2]; std::vector<Sta> sta;
    Model model() const { Model m; m.wep[ap[0]] = wep[0]; m.wep[ap[1]] = wep[1]; for (auto& s : sta) m.wpa[mkpair(ap[s.ap], s.mac)] = s.key; return m; }
    std::string show() const { std::string d = "ap0=" + macs(ap[0]) + " wep0=" + hex(wep[0]) + " ap1=" + macs(ap[1]) + " wep1=" + hex(wep[1]); for (auto& s : sta) d += " sta(" + macs(s.mac) + "@ap" + std::to_string(s.ap) + (s.key.ccmp ? ",ccmp" : ",tkip") + ",tk=" + hex(&s.key.ptk[32], 16) + ")"; return d; }
    bool used(const Mac& m) const { if (m == ap[0] || m == ap[1]) return true; for (auto& s : sta) if (s.mac == m) return true; return false; }
    Mac fresh(Rng& r) const { Mac m; do m = rnd_mac(r); while (used(m)); return m; }
};
static World gen_world(Rng& r) {
    World w; w.ap[0] = rnd_mac(r); do w.ap[1] = rnd_mac(r); while (w.ap[1] == w.ap[0]);
    w.wep[0] = r.bytes(r.chance(1, 2) ? 5 : 13); w.wep[1] = r.bytes(r.chance(3, 4) ? 18 - w.wep[0].size() : w.wep[0].size()); if (w.wep[1] == w.wep[0]) w.wep[1][0] ^= 1;
    if (r.chance(1, 8)) std::fill(w.wep[0].begin(), w.wep[0].end(), 0);
    for (int i = 0; i < 4; ++i) { Sta s; s.mac = w.fresh(r); s.ap = i < 3 ? 0 : 1; s.key.ccmp = i == 0 ? false : i == 1 ? true : r.chance(1, 2); s.key.ptk = r.bytes(80); w.sta.push_back(s); }
    return w;
}
static void load(Crypto::WEPDecrypter& d, const Model& m) { for (auto& kv : m.wep) d.add_password(hw(kv.first), std::string(kv.second.begin(), kv.second.end())); }
static void load(Crypto::WPA2Decrypter& d, const Model& m, Rng& r) {
    for (auto& kv : m.wpa) { auto a = hw(kv.first.first), b = hw(kv.first.second); d.add_decryption_keys(r.chance(1, 2) ? std::make_pair(a, b) : std::make_pair(b, a), Crypto::WPA2::SessionKeys(kv.second.ptk, kv.second.ccmp)); }
}

// variant: 0 to-DS, 1 from-DS, 2 four-address, 3 neither (WEP only)
static Hdr gen_hdr(Rng& r, int variant, const Mac& ap, const Mac& sta, const Mac& third, bool qos, bool cf) {
    Hdr h; h.subtype = (u8)((qos ? 8 : 0) + (cf ? 1 + r.below(3) : 0));
    h.retry = r.chance(1, 4); h.pwr = r.chance(1, 4); h.more_data = r.chance(1, 4); h.order = !qos && r.chance(1, 8); h.more_frag = r.chance(1, 8);
    h.frag = r.chance(1, 4) ? (u8)r.below(16) : 0; h.seq = (u16)r.edgy(12); h.dur = (u16)r.edgy(16);
    if (qos) h.qc = (u16)((r.next() & 0xff70) | r.edgy(4));
    switch (variant) {
        case 0: h.to_ds = true; h.a1 = ap; h.a2 = sta; h.a3 = third; break;
        case 1: h.from_ds = true; h.a1 = sta; h.a2 = ap; h.a3 = third; break;
        case 2: { h.to_ds = h.from_ds = true; bool up = r.chance(1, 2); h.a1 = up ? ap : sta; h.a2 = up ? sta : ap; h.a3 = h.a1; h.a4 = third; break; }
        default: { bool up = r.chance(1, 2); h.a1 = up ? third : sta; h.a2 = up ? sta : third; h.a3 = ap; }
    }
    return h;
}
static size_t pick_len(Rng& r) {
    switch (r.below(8)) {
        case 0: return r.below(10);
        case 1: return 8 + 16 * r.below(143) + (r.below(3)) - 1;            // plaintext length around a multiple of 16
        case 2: return 16 * r.below(144);
        case 3: return 2290 + r.below(11);
        case 4: return r.below(64);
        default: return r.below(2301);
    }
}
static u64 pick_pn(Rng& r, bool iv32_symmetric) {
    u64 lo = r.edgy(16), hi;
    if (iv32_symmetric) { u64 x = r.chance(1, 2) ? 0 : r.byte(), y = r.chance(1, 2) ? 0 : r.byte(); if (r.chance(1, 8)) x = y = 0xff; hi = x | (x << 8) | (y << 16) | (y << 24); }
    else hi = r.edgy(32);
    return lo | (hi << 16);
}
struct Gen { Bytes frame; Plain plain; Hdr h; std::string what; int cipher; };   // cipher 0 wep 1 tkip 2 ccmp
static Bytes assemble(const Hdr& h, const Bytes& body) { Bytes f = enc_hdr(h); f.insert(f.end(), body.begin(), body.end()); return f; }

static bool g_allow_ccmp_short = false;
template <class Dec> static int go(const std::string& eng, Dec& dec, const Expect& e, const Bytes& f, const std::string& what, const Opt& o = Opt()) {
    if (e.shape == "ccmp-short-body" && !g_allow_ccmp_short) { cnt("skipped:ccmp-short-body-outside-its-cases"); return -3; }
    return run_frame(eng, dec, e, f, what, o);
}
static Opt pick_opt(Rng& r) { Opt o; o.via_api = r.chance(1, 8); o.radiotap = r.chance(1, 8); return o; }

static Bytes mutate_frame(Rng& r, const Bytes& f, size_t off, std::string& how, bool keep16) {
    Bytes g = f; size_t n = f.size() - off;
    switch (r.below(7)) {
        case 0: { size_t i = off + r.below((u32)std::min<size_t>(n, 8)); g[i] ^= (u8)(1 << r.below(8)); how = "bitflip-iv@" + std::to_string(i - off); break; }
        case 1: { size_t i = f.size() - 1 - r.below((u32)std::min<size_t>(n, 12)); g[i] ^= (u8)(1 << r.below(8)); how = "bitflip-trailer@-" + std::to_string(f.size() - i); break; }
        case 2: { size_t i = off + r.below((u32)n); g[i] ^= (u8)(1 << r.below(8)); how = "bitflip-body@" + std::to_string(i - off); break; }
        case 3: { size_t i = 4 + r.below((u32)off - 4); if (i == 22 || i == 23) i = 10; g[i] ^= (u8)(1 << r.below(8)); how = "bitflip-header@" + std::to_string(i); break; }
        case 4: { size_t cut = 1 + r.below((u32)std::min<size_t>(n, r.chance(1, 2) ? 4 : 40)); if (keep16 && n - cut < 16) cut = n > 16 ? n - 16 : 0; g.resize(f.size() - cut); how = "truncate-" + std::to_string(cut); break; }
        case 5: { Bytes x = r.bytes(1 + r.below(16)); g.insert(g.end(), x.begin(), x.end()); how = "append-" + std::to_string(x.size()); break; }
        default: { size_t i = off + r.below((u32)n); g[i] = r.byte(); how = "overwrite-body@" + std::to_string(i - off); }
    }
    return g;
}

static std::string mut_class(const std::string& how) { std::string c = how.substr(0, how.find_first_of("@0123456789")); while (!c.empty() && c.back() == '-') c.pop_back(); return c; }

static void case_frames(long idx, Rng& r) {
    World w = gen_world(r); Model m = w.model(); g_ctx = "mode=frames " + w.show(); describe_case(g_ctx);
    Crypto::WEPDecrypter wep; Crypto::WPA2Decrypter wpa; load(wep, m); load(wpa, m, r);
    const int F = 10;
    for (int j = 0; j < F; ++j) {
        int cipher; size_t L;
        if (j < 5) { u64 t = (u64)idx * 5 + j; cipher = (int)(t % 3); L = (size_t)((t / 3) % 2301); } else { cipher = (int)r.below(3); L = pick_len(r); }
        int kind = r.chance(1, 25) ? 2 + (int)r.below(2) : (L >= 28 && r.chance(1, 5)) ? 1 : 0;
        Gen g; g.cipher = cipher; g.plain = gen_plain(r, L, kind);
        bool qos = r.chance(1, 2); int special = r.chance(1, 4) ? 1 + (int)r.below(4) : 0;          // known-deviation shapes get their own share
        // pick the station: the cipher decides for WPA2
        std::vector<int> cand; for (int i = 0; i < 4; ++i) if (cipher == 0 || w.sta[i].key.ccmp == (cipher == 2)) cand.push_back(i);
        const Sta& s = w.sta[cand[r.below((u32)cand.size())]]; const Mac& ap = w.ap[s.ap]; Mac third = r.chance(1, 6) ? ap : w.fresh(r);
        if (cipher == 0) while (m.wep.count(third) && m.wep[third] != w.wep[s.ap]) third = w.fresh(r);      // low-entropy addresses repeat within a case: not one that an earlier four-address frame registered with the other network's key
        int variant = cipher == 0 ? (int)r.below(4) : (int)r.below(3);
        Hdr h = gen_hdr(r, variant, ap, s.mac, third, qos, special == 4 && qos);
        if (special == 2 && variant == 2) h.a3 = w.fresh(r);                                          // four-address frame whose DA is not the receiver
        if (special == 3 && variant == 1) { for (auto& o : w.sta) if (o.ap == s.ap && o.mac != s.mac) { h.a3 = o.mac; break; } }   // station-to-station traffic relayed by the AP
        if (variant == 2 && cipher == 0) for (const Mac* a : {&h.a1, &h.a2, &h.a3, &h.a4}) if (!m.wep.count(*a)) { m.wep[*a] = w.wep[s.ap]; wep.add_password(hw(*a), std::string(w.wep[s.ap].begin(), w.wep[s.ap].end())); }
        g.h = h; Bytes body; u8 keyid = (u8)(r.chance(3, 4) ? 0 : r.below(4));
        if (cipher == 0) { u8 iv[3] = {(u8)r.edgy(8), (u8)r.edgy(8), (u8)r.edgy(8)}; body = wep_body(w.wep[s.ap], iv, keyid, g.plain.bytes); }
        else if (cipher == 1) body = tkip_body(s.key.ptk, h, pick_pn(r, special != 1), keyid, g.plain.bytes, h.a2 == ap);
        else body = ccmp_body(s.key.ptk, h, pick_pn(r, false), keyid, g.plain.bytes);
        g.frame = assemble(h, body);
        g.what = std::string(cipher == 0 ? "wep" : cipher == 1 ? "tkip" : "ccmp") + " variant=" + std::to_string(variant) + " subtype=" + std::to_string(h.subtype) + " L=" + std::to_string(L) + " kind=" + std::to_string(g.plain.kind);
        sig(mix(mix(fnv(g.frame.data(), std::min<size_t>(g.frame.size(), 64)), g.frame.size()), (u64)cipher));
        cnt(std::string("frames:") + (cipher == 0 ? (w.wep[s.ap].size() == 5 ? "wep40" : "wep104") : cipher == 1 ? "tkip" : "ccmp")); cnt("hdr:variant-" + std::to_string(variant) + (h.has_qos() ? "-qos" : "")); if ((g.plain.bytes.size() % 16) == 0) cnt("len:plaintext-multiple-of-16"); if (L == 0) cnt("len:empty-payload"); cnt_max("len:max-payload", L);
        if (want_sample() && L < 40) sample(g.what + " frame=" + hexfull(g.frame) + " plain=" + hexfull(g.plain.bytes));

        auto ex = [&](const Model& mm, const Bytes& f) { return cipher == 0 ? expect_wep(mm, f, &g.plain) : expect_wpa(mm, f, &g.plain); };
        Expect e = ex(m, g.frame);
        if (g.plain.wellformed && e.v != MUST_TRUE) { viol("harness/reference-rejects-own-frame", "reference receiver says '" + e.why + "' for a frame of the reference sender: " + g.what); continue; }
        if (e.v == MUST_TRUE) { cnt("positive:" + e.cipher + "/" + e.shape); if (e.plain != g.plain.bytes) { viol("harness/reference-plaintext", "reference round trip failed"); continue; } }
        Opt o = pick_opt(r);
        int res = cipher == 0 ? go("wep", wep, e, g.frame, "positive " + g.what, o) : go("wpa2", wpa, e, g.frame, "positive " + g.what, o);
        // keys supplied AFTER the decrypter has already seen (and could not open) traffic of the pair: the very next frame must open
        if (cipher != 0 && e.v == MUST_TRUE && r.chance(1, 4)) {
            Crypto::WPA2Decrypter late; Model m0; Expect e0 = expect_wpa(m0, g.frame, &g.plain);
            for (u32 k = 1 + r.below(3); k--;) go("wpa2", late, e0, g.frame, "late-key: before the key is supplied, " + g.what, o);
            late.add_decryption_keys(r.chance(1, 2) ? std::make_pair(hw(ap), hw(s.mac)) : std::make_pair(hw(s.mac), hw(ap)), Crypto::WPA2::SessionKeys(s.key.ptk, s.key.ccmp));
            Model m1; m1.wpa[mkpair(ap, s.mac)] = s.key; Expect e1 = expect_wpa(m1, g.frame, &g.plain);
            go("wpa2", late, e1, g.frame, "late-key: right after add_decryption_keys, " + g.what, o); cnt("late-key-scenarios");
        }
        if (res == 1 && r.chance(1, 4)) { cipher == 0 ? go("wep", wep, e, g.frame, "positive-again " + g.what) : go("wpa2", wpa, e, g.frame, "positive-again " + g.what); cnt("positive:repeated"); }
        // negatives derived from this frame
        int nneg = 3;
        for (int k = 0; k < nneg; ++k) {
            std::string how; u32 sel = r.below(8);
            if (sel < 4) {              // corrupted frame, same keys
                Bytes f2 = mutate_frame(r, g.frame, e.off, how, true); Expect e2 = ex(m, f2); cnt("neg:" + mut_class(how));
                cipher == 0 ? go("wep", wep, e2, f2, "negative " + how + " of " + g.what, pick_opt(r)) : go("wpa2", wpa, e2, f2, "negative " + how + " of " + g.what, pick_opt(r));
            } else {                    // intact frame, other key state
                Model m2 = m;
                if (sel == 4) { if (cipher == 0) m2.wep.clear(); else m2.wpa.clear(); how = "no-key"; }
                else if (sel == 5) { size_t bit = r.below(cipher == 0 ? (u32)w.wep[s.ap].size() * 8 : 128); if (cipher == 0) { for (auto& kv : m2.wep) if (kv.second == w.wep[s.ap]) kv.second[bit / 8] ^= (u8)(1 << (bit % 8)); } else m2.wpa[mkpair(h.a1, h.a2)].ptk[32 + bit / 8] ^= (u8)(1 << (bit % 8)); how = "key-bitflip"; }
                else if (sel == 6) { if (cipher == 0) { for (auto& kv : m2.wep) if (kv.second == w.wep[s.ap]) kv.second = w.wep[1 - s.ap]; } else { const Sta* o2 = &w.sta[0]; for (auto& x : w.sta) if (x.mac != s.mac) { o2 = &x; if (r.chance(1, 2)) break; } m2.wpa[mkpair(h.a1, h.a2)].ptk = o2->key.ptk; } how = "other-stations-key"; }
                else { if (cipher == 0) m2.wep.erase(h.to_ds && !h.from_ds ? h.a1 : h.from_ds && !h.to_ds ? h.a2 : h.a3); else m2.wpa.erase(mkpair(h.a1, h.a2)); if (cipher == 0 && h.four()) m2.wep.clear(); how = "key-of-this-station-removed"; }
                Expect e2 = ex(m2, g.frame); cnt("neg:" + how);
                // the second engine state is reached through the public API from the full state (overwrite / remove), or built afresh
                bool delta = r.chance(1, 2); cnt(delta ? "neg:state-reached-by-api-delta" : "neg:state-built-afresh");
                if (cipher == 0) {
                    Crypto::WEPDecrypter d2;
                    if (!delta) load(d2, m2);
                    else { load(d2, m); for (auto& kv : m.wep) { auto it = m2.wep.find(kv.first); if (it == m2.wep.end()) d2.remove_password(hw(kv.first)); else if (it->second != kv.second) d2.add_password(hw(kv.first), std::string(it->second.begin(), it->second.end())); } }
                    go("wep", d2, e2, g.frame, "negative " + how + " of " + g.what, pick_opt(r));
                } else {
                    Crypto::WPA2Decrypter d2;
                    if (!delta || m2.wpa.size() != m.wpa.size()) load(d2, m2, r);          // keys cannot be removed through the API
                    else { load(d2, m, r); for (auto& kv : m2.wpa) if (m.wpa[kv.first].ptk != kv.second.ptk) d2.add_decryption_keys(std::make_pair(hw(kv.first.second), hw(kv.first.first)), Crypto::WPA2::SessionKeys(kv.second.ptk, kv.second.ccmp)); }
                    go("wpa2", d2, e2, g.frame, "negative " + how + " of " + g.what, pick_opt(r));
                }
            }
        }
        // the other engine must not claim the frame either
        if (r.chance(1, 6)) {
            if (cipher == 0) { Expect e3 = expect_wpa(m, g.frame, nullptr); go("wpa2", wpa, e3, g.frame, "wep-frame-to-wpa2-engine " + g.what); }
            else { Expect e3 = expect_wep(m, g.frame, nullptr); go("wep", wep, e3, g.frame, "wpa2-frame-to-wep-engine " + g.what); }
            cnt("neg:other-engine");
        }
    }
}

static void case_handshake(long idx, Rng& r);
static void case_hostile(long idx, Rng& r);
// The reference primitives against published vectors (IEEE 802.11i Annex H, RFC-style RC4/CRC check values); a failure here
// means the monitor itself is broken on this platform and is reported as such.
static void self_test() {
    auto bad = [](const char* what) { violation(std::string("harness/selftest/") + what, std::string("reference primitive failed its published test vector: ") + what); };
    if (rf::crc32((const u8*)"123456789", 9) != 0xcbf43926u) bad("crc32");
    { u8 o[9]; rf::rc4((const u8*)"Key", 3, (const u8*)"Plaintext", 9, o); if (hex(o, 9) != "bbf316e8d940af0ad3") bad("rc4"); }
    { Bytes tk = unhex("63893b250840b8ae0bd0fa7e61d2783e"), ta = unhex("64f2eaeddc25"); u16 p1[5]; u8 k[16]; rf::tkip_p1(tk.data(), ta.data(), 0x20DCFD43u, p1); rf::tkip_p2(tk.data(), p1, 0xffff, k);
      if (p1[0] != 0x7c67 || p1[4] != 0xb4f1 || hex(k, 16) != "ff7fff93810fc6e58f5dd326251544ce") bad("tkip-key-mixing"); }
    { u8 key[8] = {0xd5, 0x5e, 0x10, 0x05, 0x10, 0x12, 0x89, 0x86}, mic[8]; Bytes m = {'M', 'i', 'c', 'h', 'a', 'e', 'l'}; rf::michael(key, m, mic); if (hex(mic, 8) != "0a942b124ecaa546") bad("michael"); }
    if (hex(rf::pbkdf2("password", "IEEE")) != "f42c6fc52df0ebef9ebb4b90b38a5f902e83fe1b135a70e23aed762e9710a12e") bad("pbkdf2");
    { u8 key[16] = {1, 2, 3}, n[13] = {9}, aad[22] = {7}, tag[8], pt[20] = {5, 6}, ct[20], back[20];
      bool ok = rf::ccm(true, key, n, aad, 22, pt, 20, ct, tag) && rf::ccm(false, key, n, aad, 22, ct, 20, back, tag) && !memcmp(pt, back, 20); tag[7] ^= 1; ok = ok && !rf::ccm(false, key, n, aad, 22, ct, 20, back, tag);
      if (!ok) bad("ccm-roundtrip"); }
}
#ifndef C09_NO_MAIN
int main(int argc, char** argv) {
    return vf::run(argc, argv, "C09", [&](long idx, Rng& rng) {
        const std::string& mode = st().a.mode;
        if (mode == "handshake") case_handshake(idx, rng); else if (mode == "hostile") case_hostile(idx, rng); else case_frames(idx, rng);
    }, [] { rf::init_tables(); self_test(); });
}
#endif

// =====================================================================================================
// Hostile protected frames: arbitrary short bodies (every length 0..64) and mutated real frames up to 2400 bytes,
// always for stations whose keys are known so that every cipher path is entered.
// =====================================================================================================
static Bytes valid_body(Rng& r, const World& w, int cipher, const Sta& s, const Hdr& h, const Bytes& plain) {
    u8 keyid = (u8)r.below(4);
    if (cipher == 0) { u8 iv[3] = {r.byte(), r.byte(), r.byte()}; return wep_body(w.wep[s.ap], iv, keyid, plain); }
    if (cipher == 1) return tkip_body(s.key.ptk, h, pick_pn(r, true), keyid, plain, h.a2 == w.ap[s.ap]);
    return ccmp_body(s.key.ptk, h, pick_pn(r, false), keyid, plain);
}
static Bytes hostile_mutation(Rng& r, const Bytes& f, std::string& how) {
    Bytes g = f; int rounds = 1 + (int)r.below(3);
    for (int k = 0; k < rounds; ++k) {
        if (g.empty()) break;
        switch (r.below(10)) {
            case 0: { size_t i = r.below((u32)g.size()); g[i] ^= (u8)(1 << r.below(8)); how += " flip@" + std::to_string(i); break; }
            case 1: { size_t i = r.below((u32)std::min<size_t>(g.size(), 34)); g[i] = r.byte(); how += " hdrbyte@" + std::to_string(i); break; }
            case 2: { size_t n = r.chance(1, 2) ? r.below((u32)std::min<size_t>(g.size(), 80)) : r.below((u32)g.size() + 1); g.resize(n); how += " cut-to-" + std::to_string(n); break; }
            case 3: { size_t room = g.size() < 2400 ? 2400 - g.size() : 0; Bytes x = r.bytes(r.below((u32)std::min<size_t>(room, r.chance(1, 2) ? 32 : 2400) + 1)); g.insert(g.end(), x.begin(), x.end()); how += " append-" + std::to_string(x.size()); break; }
            case 4: { size_t a = r.below((u32)g.size()), n = 1 + r.below((u32)std::min<size_t>(g.size() - a, 64)); for (size_t i = 0; i < n; ++i) g[a + i] = r.chance(1, 2) ? 0 : 0xff; how += " fill@" + std::to_string(a) + "+" + std::to_string(n); break; }
            case 5: { size_t a = r.below((u32)g.size()), n = 1 + r.below((u32)std::min<size_t>(g.size() - a, 64)); Bytes x = r.bytes(n); std::copy(x.begin(), x.end(), g.begin() + a); how += " rand@" + std::to_string(a) + "+" + std::to_string(n); break; }
            case 6: { size_t a = r.below((u32)g.size()), n = 1 + r.below((u32)std::min<size_t>(g.size() - a, 32)); g.erase(g.begin() + a, g.begin() + a + n); how += " erase@" + std::to_string(a) + "+" + std::to_string(n); break; }
            case 7: { if (g.size() > 1) g[1] ^= (u8)(1 << r.below(8)); how += " fcflag"; break; }
            case 8: { g[0] = (u8)((g[0] & 0x0f) | (r.below(16) << 4)); how += " subtype"; break; }
            default: { size_t n = r.below((u32)std::min<size_t>(g.size(), 12) + 1); g.resize(g.size() - n); how += " drop-tail-" + std::to_string(n); }
        }
    }
    if (g.size() > 2400) g.resize(2400);
    return g;
}
static void case_hostile(long idx, Rng& r) {
    World w = gen_world(r); Model m = w.model(); bool sweep = (idx & 1) == 0; size_t len = (size_t)((idx / 2) % 65);
    bool first_sweep = idx / 2 < 65;                          // the only cases in which a CCMP body below 16 bytes reaches the engine
    g_allow_ccmp_short = false;
    g_ctx = std::string("mode=hostile ") + (sweep ? "short-bodies len=" + std::to_string(len) : "mutated-real-frames") + (sweep && first_sweep && len > 0 && len < 16 ? " kf=ccmp-short-body " : " ") + w.show(); describe_case(g_ctx);
    Crypto::WEPDecrypter wep; Crypto::WPA2Decrypter wpa; load(wep, m); load(wpa, m, r);
    auto run = [&](int cipher, const Bytes& f, const Plain* orig, const std::string& what) {
        Expect e = cipher == 0 ? expect_wep(m, f, orig) : expect_wpa(m, f, orig);
        int res = cipher == 0 ? go("wep", wep, e, f, what, pick_opt(r)) : go("wpa2", wpa, e, f, what, pick_opt(r));
        if (res != -3) { cnt(std::string("hostile:") + (cipher == 0 ? "wep" : cipher == 1 ? "tkip" : "ccmp") + (sweep ? "-short-body" : "-mutated")); sig(mix(fnv(f.data(), std::min<size_t>(f.size(), 96)), f.size() * 4 + (u64)cipher)); }
        return res;
    };
    if (sweep) {
        Bytes last_ccmp;                                       // one CCMP frame below the minimum length runs last (it kills the worker on the pinned tree)
        for (int cipher = 0; cipher < 3; ++cipher) {
            const Sta& s = cipher == 0 ? w.sta[r.below(4)] : w.sta[cipher - 1]; const Mac& ap = w.ap[s.ap];
            for (int c = 0; c < 10; ++c) {
                int variant = (int)r.below(cipher == 0 ? 4 : 3); Hdr h = gen_hdr(r, variant, ap, s.mac, r.chance(1, 4) ? ap : w.fresh(r), r.chance(1, 2), false);
                if (variant == 2 && cipher == 0) for (const Mac* a : {&h.a1, &h.a2, &h.a3, &h.a4}) if (!m.wep.count(*a)) { m.wep[*a] = w.wep[s.ap]; wep.add_password(hw(*a), std::string(w.wep[s.ap].begin(), w.wep[s.ap].end())); }
                Bytes body; Plain pl; const Plain* orig = nullptr; std::string style; size_t ovh = cipher == 0 ? 8 : cipher == 1 ? 20 : 16;
                switch (c % 6) {
                    case 0: case 1: body = r.bytes(len); style = "random"; break;
                    case 2: body.assign(len, r.chance(1, 2) ? 0 : 0xff); style = "constant"; break;
                    case 3: { body = r.bytes(len); if (len > 3) body[3] = (u8)(0x20 | (r.below(4) << 6)); if (len > 1 && cipher == 1) body[1] = (u8)((body[0] | 0x20) & 0x7f); style = "plausible-iv"; break; }
                    case 4: { pl = gen_plain(r, 40 + r.below(40), 0); body = valid_body(r, w, cipher, s, h, pl.bytes); body.resize(std::min(len, body.size())); style = "prefix-of-valid-body"; break; }
                    default: { if (len >= ovh) { size_t pn = len - ovh; pl = pn >= 8 ? gen_plain(r, pn - 8, 0) : gen_plain(r, pn, 3); body = valid_body(r, w, cipher, s, h, pl.bytes); orig = &pl; style = "valid-body-of-this-length"; } else { body = r.bytes(len); style = "random"; } }
                }
                Bytes f = assemble(h, body); std::string what = std::string("short-body ") + (cipher == 0 ? "wep" : cipher == 1 ? "tkip" : "ccmp") + " len=" + std::to_string(len) + " " + style + " variant=" + std::to_string(variant);
                if (cipher == 2 && len > 0 && len < 16) { if (first_sweep) last_ccmp = f; else cnt("skipped:ccmp-short-body-outside-its-cases"); continue; }
                run(cipher, f, orig, what); cnt_max("hostile:max-short-len", len);
            }
        }
        cnt("hostile:short-body-lengths-swept");
        if (!last_ccmp.empty()) { g_allow_ccmp_short = true; cnt("hostile:ccmp-body-below-16-attempted"); run(2, last_ccmp, nullptr, "short-body ccmp len=" + std::to_string(len)); cnt("hostile:ccmp-body-below-16-survived"); g_allow_ccmp_short = false; }
        return;
    }
    for (int j = 0; j < 4; ++j) {
        int cipher = (int)((idx / 2 + j) % 3); std::vector<int> cand; for (int i = 0; i < 4; ++i) if (cipher == 0 || w.sta[i].key.ccmp == (cipher == 2)) cand.push_back(i);
        const Sta& s = w.sta[cand[r.below((u32)cand.size())]]; const Mac& ap = w.ap[s.ap];
        int variant = (int)r.below(cipher == 0 ? 4 : 3); Hdr h = gen_hdr(r, variant, ap, s.mac, w.fresh(r), r.chance(1, 2), false);
        if (variant == 2 && cipher == 0) for (const Mac* a : {&h.a1, &h.a2, &h.a3, &h.a4}) if (!m.wep.count(*a)) { m.wep[*a] = w.wep[s.ap]; wep.add_password(hw(*a), std::string(w.wep[s.ap].begin(), w.wep[s.ap].end())); }
        size_t L = r.chance(1, 3) ? 2200 + r.below(101) : r.chance(1, 2) ? r.below(100) : r.below(2301);
        Plain pl = gen_plain(r, L, r.chance(1, 10) ? 2 : (L >= 28 && r.chance(1, 4)) ? 1 : 0); Bytes base = assemble(h, valid_body(r, w, cipher, s, h, pl.bytes));
        for (int k = 0; k < 6; ++k) {
            std::string how; Bytes f = hostile_mutation(r, base, how); cnt_max("hostile:max-frame-bytes", f.size());
            run(cipher, f, &pl, std::string("mutated ") + (cipher == 0 ? "wep" : cipher == 1 ? "tkip" : "ccmp") + " L=" + std::to_string(L) + ":" + how);
        }
    }
}

// =====================================================================================================
// Handshake histories: passphrase + SSID + beacons + four-way handshakes (own EAPOL-Key encoder, own PMK/PTK/MIC
// arithmetic), interleaved stations, retransmissions, message-1 restarts, rekeying; checked after EVERY frame.
// =====================================================================================================
static Bytes eapol_key(u8 ver, u16 info, u16 keylen, u64 replay, const Bytes& nonce, const Bytes& iv, const Bytes& keydata, const u8* kck) {
    Bytes b = {ver, 3, 0, 0, 2, (u8)(info >> 8), (u8)info, (u8)(keylen >> 8), (u8)keylen};
    for (int i = 7; i >= 0; --i) b.push_back((u8)(replay >> (8 * i)));
    b.insert(b.end(), nonce.begin(), nonce.end()); b.insert(b.end(), iv.begin(), iv.end()); b.insert(b.end(), 8 + 8 + 16, 0);
    b.push_back((u8)(keydata.size() >> 8)); b.push_back((u8)keydata.size()); b.insert(b.end(), keydata.begin(), keydata.end());
    u16 len = (u16)(b.size() - 4); b[2] = (u8)(len >> 8); b[3] = (u8)len;
    if (kck) { Bytes mic = rf::hmac((info & 7) == 2 ? EVP_sha1() : EVP_md5(), kck, 16, b.data(), b.size()); std::copy(mic.begin(), mic.begin() + 16, b.begin() + 81); }
    return b;
}
static Bytes llc_frame(Rng& r, const Mac& bssid, const Mac& sta, bool from_ap, bool retry, u16 ethertype, const Bytes& payload) {
    Hdr h; h.prot = false; h.subtype = r.chance(1, 2) ? 8 : 0; if (h.has_qos()) h.qc = (u16)(r.below(8)); h.retry = retry; h.seq = (u16)r.below(4096); h.dur = (u16)r.below(400);
    if (from_ap) { h.from_ds = true; h.a1 = sta; h.a2 = bssid; h.a3 = bssid; } else { h.to_ds = true; h.a1 = bssid; h.a2 = sta; h.a3 = bssid; }
    Bytes body = {0xaa, 0xaa, 0x03, 0, 0, 0, (u8)(ethertype >> 8), (u8)ethertype}; body.insert(body.end(), payload.begin(), payload.end());
    return assemble(h, body);
}
static Bytes beacon_frame(Rng& r, const Mac& bssid, const std::string& ssid, bool rsn, bool ccmp) {
    Bytes b = {0x80, 0x00, 0, 0, 0xff, 0xff, 0xff, 0xff, 0xff, 0xff}; b.insert(b.end(), bssid.begin(), bssid.end()); b.insert(b.end(), bssid.begin(), bssid.end());
    u16 sc = (u16)(r.below(4096) << 4); b.push_back((u8)sc); b.push_back((u8)(sc >> 8));
    Bytes ts = r.bytes(8); b.insert(b.end(), ts.begin(), ts.end()); b.push_back(0x64); b.push_back(0); b.push_back(0x11); b.push_back(0x04);
    auto tag = [&](u8 id, const Bytes& v) { b.push_back(id); b.push_back((u8)v.size()); b.insert(b.end(), v.begin(), v.end()); };
    bool ssid_first = r.chance(3, 4);
    if (!ssid_first) tag(1, {0x82, 0x84, 0x8b, 0x96});
    tag(0, Bytes(ssid.begin(), ssid.end()));
    if (ssid_first) tag(1, {0x82, 0x84, 0x8b, 0x96, 0x24, 0x30, 0x48, 0x6c});
    tag(3, {(u8)(1 + r.below(13))});
    if (rsn) { u8 c = ccmp ? 4 : 2; tag(48, {1, 0, 0x00, 0x0f, 0xac, c, 1, 0, 0x00, 0x0f, 0xac, c, 1, 0, 0x00, 0x0f, 0xac, 2, 0, 0}); }
    return b;
}
struct Net { std::string ssid, psk, reg_psk; bool registered = true, by_addr = false; std::vector<Mac> bssid; Bytes pmk; bool ccmp = true; bool learnable() const { return registered && reg_psk == psk; } };
struct HSta { Mac mac; int net; Mac bssid; bool ccmp; u8 ever; u64 replay; std::vector<Bytes> ptk; /* per generation */ };
struct Ev { int kind = 0; /*0 beacon 1 eapol 2 data 3 noise*/ Bytes frame; std::string what; int sta = -1, gen = -1; bool completes = false; Plain plain; int net = -1; int bss = 0; };

static std::string rnd_text(Rng& r, size_t n, bool binary) { std::string t; for (size_t i = 0; i < n; ++i) t += binary ? (char)r.byte() : (char)(0x20 + r.below(95)); return t; }

// the messages of one four-way handshake for generation `gen` of station s (appended to `out`)
static void gen_handshake(Rng& r, const std::vector<Net>& nets, HSta& s, int sidx, std::vector<Ev>& out) {
    const Net& n = nets[s.net]; int gen = (int)s.ptk.size(); u16 v = s.ccmp ? 2 : 1; u16 klen = s.ccmp ? 16 : 32;
    auto push = [&](int msg, const Bytes& eapol, bool from_ap, int dups, bool completes) {
        for (int d = 0; d <= dups; ++d) { Ev e; e.kind = 1; e.sta = sidx; e.gen = gen; e.completes = completes && d == 0; e.frame = llc_frame(r, s.bssid, s.mac, from_ap, d > 0, 0x888e, eapol);
            e.what = "M" + std::to_string(msg) + (d ? "(retry)" : "") + " gen=" + std::to_string(gen) + " sta=" + macs(s.mac); out.push_back(e); }
    };
    auto dups = [&]() { return r.chance(1, 4) ? 1 + (int)r.below(2) : 0; };
    Bytes anonce = r.bytes(32), snonce = r.bytes(32);
    if (r.chance(1, 8)) snonce = anonce;                                    // equal nonces are legal input for the min/max ordering
    if (r.chance(1, 8)) { snonce = anonce; snonce[31] ^= 1; }
    Bytes zero16(16, 0), pmkid = {0xdd, 0x14, 0x00, 0x0f, 0xac, 0x04}; { Bytes x = r.bytes(16); pmkid.insert(pmkid.end(), x.begin(), x.end()); }
    Bytes rsnie = {0x30, 0x14, 1, 0, 0x00, 0x0f, 0xac, (u8)(s.ccmp ? 4 : 2), 1, 0, 0x00, 0x0f, 0xac, (u8)(s.ccmp ? 4 : 2), 1, 0, 0x00, 0x0f, 0xac, 2, 0, 0};
    // abandoned attempt(s): the authenticator starts over with message 1
    if (r.chance(1, 3)) {
        int upto = 1 + (int)r.below(3); Bytes an2 = r.chance(1, 2) ? anonce : r.bytes(32), sn2 = r.chance(1, 2) ? snonce : r.bytes(32);
        Bytes ptk2 = rf::ptk_of(n.pmk, s.bssid, s.mac, an2, sn2); cnt("hs:restart-after-M" + std::to_string(upto));
        push(1, eapol_key(s.ever, (u16)(0x0088 | v), klen, s.replay, an2, zero16, r.chance(1, 2) ? pmkid : Bytes(), nullptr), true, dups(), false);
        if (upto >= 2) push(2, eapol_key(s.ever, (u16)(0x0108 | v), 0, s.replay, sn2, zero16, rsnie, ptk2.data()), false, dups(), false);
        if (upto >= 3) { ++s.replay; push(3, eapol_key(s.ever, (u16)(0x13c8 | v), klen, s.replay, an2, r.bytes(16), r.bytes(56), ptk2.data()), true, dups(), false); }
        ++s.replay;
    }
    Bytes ptk = rf::ptk_of(n.pmk, s.bssid, s.mac, anonce, snonce); s.ptk.push_back(ptk);
    int d1 = dups(), d2 = dups(), d3 = dups(), d4 = dups(); if (d1) cnt("hs:dup-M1"); if (d2) cnt("hs:dup-M2"); if (d3) cnt("hs:dup-M3"); if (d4) cnt("hs:dup-M4");
    Bytes e1 = eapol_key(s.ever, (u16)(0x0088 | v), klen, s.replay, anonce, zero16, r.chance(1, 2) ? pmkid : Bytes(), nullptr);
    Bytes e2 = eapol_key(s.ever, (u16)(0x0108 | v), r.chance(1, 2) ? 0 : klen, s.replay, snonce, zero16, rsnie, ptk.data());
    push(1, e1, true, d1, false);
    push(2, e2, false, d2, false);
    ++s.replay;
    Bytes e3 = eapol_key(s.ever, (u16)(0x13c8 | v), klen, s.replay, anonce, r.bytes(16), r.bytes(8 * (3 + r.below(8))), ptk.data());
    push(3, e3, true, d3, false);
    if (r.chance(1, 6)) { ++s.replay; push(3, eapol_key(s.ever, (u16)(0x13c8 | v), klen, s.replay, anonce, r.bytes(16), r.bytes(56), ptk.data()), true, 0, false); cnt("hs:M3-retransmitted-with-new-replay-counter"); }
    Bytes m4 = eapol_key(s.ever, (u16)(0x0308 | v), r.chance(1, 2) ? 0 : klen, s.replay, r.chance(1, 2) ? Bytes(32, 0) : snonce, zero16, Bytes(), ptk.data());
    push(4, m4, false, d4, true);
    // the public key-derivation route, used directly on the four messages with the two addresses in either order (a hand-built RSNHandshake):
    // the PTK must be the reference PTK whichever address is named first (the derivation sorts them, IEEE 802.11 12.7.1.3)
    if (r.chance(1, 3)) {
        try { std::vector<RSNEAPOL> msgs; for (const Bytes* e : {&e1, &e2, &e3, &m4}) { ExactBuf eb(*e); msgs.push_back(RSNEAPOL(eb.data(), (u32)e->size())); }
            bool ap_first = r.chance(1, 2); RSNHandshake hs(ap_first ? hw(s.bssid) : hw(s.mac), ap_first ? hw(s.mac) : hw(s.bssid), msgs);
            Crypto::WPA2::SessionKeys::pmk_type pmk(n.pmk.begin(), n.pmk.end());
            Crypto::WPA2::SessionKeys k(hs, pmk); Bytes got(k.get_ptk().begin(), k.get_ptk().end());
            if (got != ptk || k.uses_ccmp() != s.ccmp) viol("session-keys/ptk-differs", std::string("SessionKeys(RSNHandshake(") + (ap_first ? "authenticator, supplicant" : "supplicant, authenticator") + "), pmk) derived another PTK than the reference (sta=" + macs(s.mac) + " bssid=" + macs(s.bssid) + ")");
            else cnt(ap_first ? "hs:session-keys-direct:authenticator-first" : "hs:session-keys-direct:supplicant-first");
            cnt(s.mac < s.bssid ? "hs:session-keys-direct:supplicant-address-lower" : "hs:session-keys-direct:authenticator-address-lower"); }
        catch (const Crypto::WPA2::invalid_handshake&) { viol("session-keys/valid-handshake-rejected", "SessionKeys(RSNHandshake, pmk) threw invalid_handshake for the four messages of a valid handshake (sta=" + macs(s.mac) + " bssid=" + macs(s.bssid) + ")"); }
        catch (const malformed_packet&) { viol("session-keys/eapol-rejected", "RSNEAPOL rejected a reference handshake message"); }
    }
    if (r.chance(1, 5)) {                                                   // message 4 was lost on the air towards the AP: M3/M4 once more after completion
        ++s.replay; push(3, eapol_key(s.ever, (u16)(0x13c8 | v), klen, s.replay, anonce, r.bytes(16), r.bytes(56), ptk.data()), true, 0, false);
        push(4, eapol_key(s.ever, (u16)(0x0308 | v), 0, s.replay, Bytes(32, 0), zero16, Bytes(), ptk.data()), false, 0, false); cnt("hs:M3-M4-again-after-completion");
    }
    ++s.replay;
}
static Ev gen_data(Rng& r, const HSta& s, int sidx, int gen, const std::vector<HSta>& all) {
    Ev e; e.kind = 2; e.sta = sidx; e.gen = gen; size_t L = r.chance(1, 2) ? r.below(64) : pick_len(r) % 600; e.plain = gen_plain(r, L, (L >= 28 && r.chance(1, 4)) ? 1 : 0);
    int variant = r.chance(1, 8) ? 2 : (int)r.below(2); Mac third = r.chance(1, 4) ? s.bssid : rnd_mac(r); for (auto& o : all) if (o.mac == third) third = s.bssid;
    Hdr h = gen_hdr(r, variant, s.bssid, s.mac, third, r.chance(1, 2), false);
    PairKey k{s.ptk[gen], s.ccmp}; Bytes body = s.ccmp ? ccmp_body(k.ptk, h, pick_pn(r, false), 0, e.plain.bytes) : tkip_body(k.ptk, h, pick_pn(r, true), 0, e.plain.bytes, h.a2 == s.bssid);
    e.frame = assemble(h, body); e.what = std::string("data ") + (s.ccmp ? "ccmp" : "tkip") + " gen=" + std::to_string(gen) + " sta=" + macs(s.mac) + " variant=" + std::to_string(variant) + " L=" + std::to_string(L);
    return e;
}

static void case_handshake(long idx, Rng& r) {
    // ---- world
    // (passphrase, SSID) mostly from a per-seed pool so that the reference side's PBKDF2 (23 ms under ASan) is cached per worker; the engine's runs every time
    static std::map<std::pair<std::string, std::string>, Bytes> pmk_cache;
    auto pmk_of = [&](const std::string& psk, const std::string& ssid, bool cache) { auto k = std::make_pair(psk, ssid); auto it = pmk_cache.find(k); if (it != pmk_cache.end()) return it->second; Bytes v = rf::pbkdf2(psk, ssid); if (cache) pmk_cache[k] = v; return v; };
    std::vector<Net> nets; u32 nsel = r.below(10); int nn = nsel < 6 ? 1 : nsel < 9 ? 2 : 3; std::set<Mac> used; auto fresh = [&]() { Mac m; do m = rnd_mac(r); while (used.count(m)); used.insert(m); return m; };
    for (int i = 0; i < nn; ++i) {
        Net n; bool pooled = !r.chance(1, 5);
        do {
            Rng pr(pooled ? mix(st().a.seed, 0xC0900 + r.below(32)) : r.next());
            n.ssid = rnd_text(pr, 1 + pr.below(pr.chance(1, 4) ? 32 : 12), pr.chance(1, 8)); n.psk = rnd_text(pr, 8 + pr.below(pr.chance(1, 4) ? 56 : 10), false);
        } while (std::any_of(nets.begin(), nets.end(), [&](const Net& o) { return o.ssid == n.ssid; }));
        n.reg_psk = n.psk;
        if (i > 0 && r.chance(1, 4)) n.registered = false; else if (i > 0 && r.chance(1, 5)) n.reg_psk[r.below((u32)n.psk.size())] ^= 1;
        n.by_addr = r.chance(1, 3); n.bssid.push_back(fresh()); if (r.chance(1, 4)) n.bssid.push_back(fresh()); n.ccmp = r.chance(2, 3); n.pmk = pmk_of(n.psk, n.ssid, pooled); nets.push_back(n);
    }
    std::vector<HSta> stas; int ns = 1 + (int)r.below(4);
    for (int i = 0; i < ns; ++i) { HSta s; s.mac = fresh(); s.net = i == 0 ? 0 : (int)r.below((u32)nn); const Net& n = nets[s.net]; s.bssid = n.bssid[r.below((u32)n.bssid.size())]; s.ccmp = r.chance(1, 6) ? !n.ccmp : n.ccmp; s.ever = (u8)(1 + r.below(2)); s.replay = r.chance(1, 2) ? r.below(4) : r.next() >> 8; stas.push_back(s); }
    g_ctx = "mode=handshake";
    for (auto& n : nets) { g_ctx += " net(ssid=" + hex((const u8*)n.ssid.data(), n.ssid.size()) + " psk='" + n.psk + "'" + (n.registered ? (n.reg_psk == n.psk ? "" : " WRONG-PSK-REGISTERED") : " UNREGISTERED") + (n.by_addr ? " by-addr" : " by-beacon"); for (auto& b : n.bssid) g_ctx += " " + macs(b); g_ctx += ")"; }
    for (auto& s : stas) g_ctx += " sta(" + macs(s.mac) + "@" + macs(s.bssid) + (s.ccmp ? ",ccmp" : ",tkip") + ")";
    describe_case(g_ctx);
    // ---- per-station scripts
    std::vector<std::vector<Ev>> scripts(stas.size());
    for (size_t i = 0; i < stas.size(); ++i) {
        HSta& s = stas[i]; std::vector<Ev>& sc = scripts[i]; std::vector<Ev> hs;
        gen_handshake(r, nets, s, (int)i, hs);
        if (r.chance(1, 2)) sc.push_back(gen_data(r, s, (int)i, 0, stas));                 // before the handshake: nobody can know the key yet
        sc.insert(sc.end(), hs.begin(), hs.end());
        for (int k = 1 + (int)r.below(3); k > 0; --k) sc.push_back(gen_data(r, s, (int)i, 0, stas));
        if (r.chance(1, 3)) {                                                               // rekey: the old key stays in use until the new handshake completes
            hs.clear(); gen_handshake(r, nets, s, (int)i, hs); cnt("hs:rekey");
            for (auto& e : hs) { sc.push_back(e); if (e.completes) break; if (r.chance(1, 3)) sc.push_back(gen_data(r, s, (int)i, 0, stas)); }
            bool after = false; for (auto& e : hs) { if (after) sc.push_back(e); if (e.completes) after = true; }
            for (int k = 1 + (int)r.below(2); k > 0; --k) sc.push_back(gen_data(r, s, (int)i, 1, stas));
        }
    }
    // ---- merge, with beacons and noise
    std::vector<Ev> evs;
    auto beacon = [&](int ni, int bi) { Ev e; e.kind = 0; e.net = ni; e.bss = bi; e.frame = beacon_frame(r, nets[ni].bssid[bi], nets[ni].ssid, true, nets[ni].ccmp); e.what = "beacon ssid=" + hex((const u8*)nets[ni].ssid.data(), nets[ni].ssid.size()) + " bssid=" + macs(nets[ni].bssid[bi]); return e; };
    for (int ni = 0; ni < nn; ++ni) for (size_t bi = 0; bi < nets[ni].bssid.size(); ++bi) if (!nets[ni].by_addr || r.chance(1, 2)) evs.push_back(beacon(ni, (int)bi));
    for (size_t i = evs.size(); i > 1; --i) std::swap(evs[i - 1], evs[r.below((u32)i)]);
    std::vector<size_t> pos(scripts.size(), 0); size_t left = 0; for (auto& sc : scripts) left += sc.size();
    while (left) {
        u32 pickn = r.below((u32)left); size_t i = 0; for (;; ++i) { size_t rem = scripts[i].size() - pos[i]; if (pickn < rem) break; pickn -= (u32)rem; }
        size_t burst = 1 + (r.chance(1, 2) ? r.below(4) : 0); for (size_t b = 0; b < burst && pos[i] < scripts[i].size(); ++b) { evs.push_back(scripts[i][pos[i]++]); --left; }
        if (r.chance(1, 6)) { int ni = (int)r.below((u32)nn); evs.push_back(beacon(ni, (int)r.below((u32)nets[ni].bssid.size()))); }
        if (r.chance(1, 10)) { Ev e; e.kind = 3; Mac fb = fresh(); std::string fs; do fs = r.chance(1, 3) ? nets[0].ssid.substr(0, 31) + "x" : rnd_text(r, r.below(33), false); while (std::any_of(nets.begin(), nets.end(), [&](const Net& o) { return o.ssid == fs; })); e.frame = beacon_frame(r, fb, fs, r.chance(1, 2), true); e.what = "foreign beacon " + macs(fb); evs.push_back(e); }
        if (r.chance(1, 10)) { Ev e; e.kind = 3; const HSta& s = stas[r.below((u32)stas.size())]; u16 v = s.ccmp ? 2 : 1; bool g1 = r.chance(1, 2);
            e.frame = llc_frame(r, s.bssid, s.mac, g1, false, 0x888e, eapol_key(s.ever, (u16)((g1 ? 0x1380 : 0x0300) | v), g1 ? 16 : 0, r.below(1000), g1 ? r.bytes(32) : Bytes(32, 0), Bytes(16, 0), g1 ? r.bytes(40) : Bytes(), r.bytes(16).data())); e.what = std::string("group-key message ") + (g1 ? "1" : "2"); evs.push_back(e); }
        if (r.chance(1, 10)) { Ev e; e.kind = 3; const HSta& s = stas[r.below((u32)stas.size())]; Plain p = gen_plain(r, 28 + r.below(60), 1); e.frame = llc_frame(r, s.bssid, s.mac, r.chance(1, 2), false, 0x0800, Bytes(p.bytes.begin() + 8, p.bytes.end())); e.what = "unprotected data frame"; evs.push_back(e); }
    }
    // ---- the engine, with callbacks recorded
    Crypto::WPA2Decrypter dec; std::vector<std::pair<std::string, Mac>> ap_found; struct Cap { std::string ssid; Mac bssid, client; }; std::vector<Cap> captured;
    dec.ap_found_callback([&](const std::string& ssid, const HWAddress<6>& b) { Mac m; b.copy(m.begin()); ap_found.push_back({ssid, m}); });
    dec.handshake_captured_callback([&](const std::string& ssid, const HWAddress<6>& b, const HWAddress<6>& c) { Cap x; x.ssid = ssid; b.copy(x.bssid.begin()); c.copy(x.client.begin()); captured.push_back(x); });
    std::set<std::pair<std::string, Mac>> ap_expected; std::vector<Cap> cap_expected;
    for (auto& n : nets) if (n.registered) { if (n.by_addr) { dec.add_ap_data(n.reg_psk, n.ssid, hw(n.bssid[0])); ap_expected.insert({n.ssid, n.bssid[0]}); for (size_t b = 1; b < n.bssid.size(); ++b) { /* second AP of the ESS is learnt from its beacon */ } } else dec.add_ap_data(n.reg_psk, n.ssid); }
    std::set<Mac> ap_known; for (auto& n : nets) if (n.registered && n.by_addr) ap_known.insert(n.bssid[0]);
    Model m; std::map<std::pair<Mac, Mac>, std::vector<Bytes>> derivable;     // every PTK the history could legitimately yield per pair
    u64 hsig = 0;
    for (size_t i = 0; i < evs.size(); ++i) {
        Ev& e = evs[i]; std::string what = "event#" + std::to_string(i) + " " + e.what; hsig = mix(hsig, fnv(e.what));
        Expect ex = expect_wpa(m, e.frame, e.kind == 2 ? &e.plain : nullptr);
        if (e.kind == 2) {
            const HSta& s = stas[e.sta]; bool have = m.wpa.count(mkpair(s.bssid, s.mac)) && m.wpa[mkpair(s.bssid, s.mac)].ptk == s.ptk[e.gen];
            if (have && ex.v == MUST_FALSE) { viol("harness/reference-rejects-own-frame", "reference receiver rejects a data frame under the learnt key: " + ex.why); return; }
            cnt(have ? std::string("hs:data-under-learnt-key/") + ex.shape : "hs:data-without-known-key");
        }
        int res = go("wpa2", dec, ex, e.frame, what);
        if (res == -1 && e.kind != 3) { viol("harness/own-frame-unparsable", "libtins could not parse a frame of the reference sender: " + what); return; }
        if (res == -2) return;
        // model update
        if (e.kind == 0) { const Net& n = nets[e.net]; if (n.registered) { ap_expected.insert({n.ssid, n.bssid[e.bss]}); ap_known.insert(n.bssid[e.bss]); } cnt("hs:beacons"); }
        if (e.kind == 1) { cnt("hs:eapol-frames"); const HSta& s = stas[e.sta]; const Net& n = nets[s.net];
            if (e.completes && n.learnable() && ap_known.count(s.bssid)) { m.wpa[mkpair(s.bssid, s.mac)] = PairKey{s.ptk[e.gen], s.ccmp}; Cap x; x.ssid = n.ssid; x.bssid = s.bssid; x.client = s.mac; cap_expected.push_back(x); cnt(std::string("hs:completed/") + (s.ccmp ? "ccmp" : "tkip")); if (e.gen > 0) cnt("hs:completed-rekey"); }
            else if (e.completes) cnt(!n.registered ? "hs:completed-on-unregistered-network" : n.reg_psk != n.psk ? "hs:completed-with-wrong-passphrase-registered" : "hs:completed-before-ap-known"); }
        // engine state against the model, after every frame
        const Crypto::WPA2Decrypter::keys_map& keys = dec.get_keys();
        for (auto& kv : m.wpa) {
            auto it = keys.find(std::make_pair(hw(kv.first.first), hw(kv.first.second)));
            if (it == keys.end()) { viol("handshake/key-missing/" + std::string(kv.second.ccmp ? "ccmp" : "tkip"), "after " + what + ": no session key for " + macs(kv.first.first) + "/" + macs(kv.first.second) + " although its handshake completed"); return; }
            const Bytes& p = it->second.get_ptk();
            if (p.size() < 64 || memcmp(p.data(), kv.second.ptk.data(), 64) != 0) { viol("handshake/ptk-differs/" + std::string(kv.second.ccmp ? "ccmp" : "tkip"), "after " + what + ": PTK of " + macs(kv.first.first) + "/" + macs(kv.first.second) + " is " + hex(p, 64) + " expected " + hex(kv.second.ptk, 64)); return; }
            if (it->second.uses_ccmp() != kv.second.ccmp) { viol("handshake/cipher-differs", "after " + what + ": uses_ccmp()=" + std::to_string(it->second.uses_ccmp())); return; }
            cnt("chk:session-key-equal");
        }
        for (auto& kv : keys) { Mac a, b; kv.first.first.copy(a.begin()); kv.first.second.copy(b.begin()); if (!m.wpa.count(mkpair(a, b))) { viol("handshake/unexpected-key", "after " + what + ": a session key exists for " + macs(a) + "/" + macs(b) + " whose handshake has not completed on a known network"); return; } }
        if (ap_found.size() != ap_expected.size()) { viol("handshake/ap-found-callback", "after " + what + ": " + std::to_string(ap_found.size()) + " access-point notifications, expected " + std::to_string(ap_expected.size())); return; }
        for (auto& a : ap_found) if (!ap_expected.count(a)) { viol("handshake/ap-found-callback", "after " + what + ": notification for unknown (ssid,bssid) " + hex((const u8*)a.first.data(), a.first.size()) + "/" + macs(a.second)); return; }
        if (captured.size() != cap_expected.size()) { viol("handshake/captured-callback", "after " + what + ": " + std::to_string(captured.size()) + " handshake notifications, expected " + std::to_string(cap_expected.size())); return; }
        if (!captured.empty()) { const Cap& x = captured.back(), &y = cap_expected.back(); if (x.ssid != y.ssid || x.bssid != y.bssid || x.client != y.client) { viol("handshake/captured-callback", "after " + what + ": notified (" + x.ssid + "," + macs(x.bssid) + "," + macs(x.client) + ") expected (" + y.ssid + "," + macs(y.bssid) + "," + macs(y.client) + ")"); return; } }
        cnt("hs:events");
    }
    sig(hsig); cnt("hs:histories"); cnt_max("hs:max-events", evs.size());
    if (want_sample()) { std::string d; for (auto& e : evs) d += e.what + "; "; sample(d.substr(0, 1500)); }
}
