// C10 — DNS messages stay coherent under parsing, editing and name compression.
// Reference model: four ordered lists of records with fully expanded names. Initial messages come from an
// independent encoder (with/without compression pointers); after EVERY add_* the four getters and the counts are
// compared with the model, the message is serialized, re-parsed by libtins (getters again) and decoded by an
// independent RFC 1035 decoder (third opinion: a shifted compression pointer shows up as a different name).
// A second mode feeds mutated wire messages and then edits them: errors must be libtins exceptions and memory-safe.
#include "verif.h"
#include <tins/tins.h>
using namespace Tins;
using namespace vf;

struct Rec { std::string name; u16 type, cls; u32 ttl; u16 pref; Bytes rdata_plain;   // rdata for opaque types
             std::string target;     // NS/CNAME/PTR/MX target (dotted)
             std::string mname, rname; u32 soa[5]; Bytes addr; };
struct Msg { u16 id; u16 flags; std::vector<Rec> sec[4]; };   // 0 = questions (name,type,cls only)

static const u16 T_A = 1, T_NS = 2, T_CNAME = 5, T_SOA = 6, T_PTR = 12, T_MX = 15, T_TXT = 16, T_AAAA = 28;

// ---- independent wire encoder with optional name compression ---------------------------------------------
struct Enc {
    Bytes out; std::map<std::string, u16> where;   // suffix (lower layer: exact dotted text) -> message offset
    int mode; Rng* r;                               // 0 none, 1 always compress when possible, 2 random
    void u16be(u16 v) { out.push_back((u8)(v >> 8)); out.push_back((u8)v); }
    void u32be(u32 v) { u16be((u16)(v >> 16)); u16be((u16)v); }
    static std::vector<std::string> labels(const std::string& n) { std::vector<std::string> l; if (n.empty()) return l; size_t p = 0; for (;;) { size_t d = n.find('.', p); if (d == std::string::npos) { l.push_back(n.substr(p)); break; } l.push_back(n.substr(p, d - p)); p = d + 1; } return l; }
    void name(const std::string& n, bool allow_ptr = true) {
        std::vector<std::string> l = labels(n);
        for (size_t i = 0; i < l.size(); ++i) {
            std::string suffix; for (size_t k = i; k < l.size(); ++k) { if (k > i) suffix += '.'; suffix += l[k]; }
            auto it = where.find(suffix);
            bool use = allow_ptr && it != where.end() && (mode == 1 || (mode == 2 && r->chance(2, 3)));
            if (use) { u16be(0xc000 | it->second); return; }
            if (out.size() < 0x3fff && !where.count(suffix)) where[suffix] = (u16)out.size();
            out.push_back((u8)l[i].size()); out.insert(out.end(), l[i].begin(), l[i].end());
        }
        out.push_back(0);
    }
    void record(const Rec& rc, bool question) {
        name(rc.name); u16be(rc.type); u16be(rc.cls); if (question) return;
        u32be(rc.ttl); size_t lenpos = out.size(); u16be(0);
        switch (rc.type) {
            case T_A: case T_AAAA: out.insert(out.end(), rc.addr.begin(), rc.addr.end()); break;
            case T_NS: case T_CNAME: case T_PTR: name(rc.target); break;
            case T_MX: u16be(rc.pref); name(rc.target); break;
            case T_SOA: name(rc.mname); name(rc.rname); for (int i = 0; i < 5; ++i) u32be(rc.soa[i]); break;
            default: out.insert(out.end(), rc.rdata_plain.begin(), rc.rdata_plain.end());
        }
        size_t len = out.size() - lenpos - 2; out[lenpos] = (u8)(len >> 8); out[lenpos + 1] = (u8)len;
    }
    Bytes message(const Msg& m) {
        out.clear(); where.clear(); u16be(m.id); u16be(m.flags); for (int s = 0; s < 4; ++s) u16be((u16)m.sec[s].size());
        for (int s = 0; s < 4; ++s) for (auto& rc : m.sec[s]) record(rc, s == 0);
        return out;
    }
};

// ---- independent decoder (RFC 1035 4.1.4) -------------------------------------------------------------------
struct Dec {
    const Bytes& b; bool ok = true; explicit Dec(const Bytes& x) : b(x) {}
    std::string name_at(size_t& pos) {
        std::string n; size_t p = pos; bool jumped = false; int jumps = 0;
        for (;;) {
            if (p >= b.size()) { ok = false; return n; }
            u8 c = b[p];
            if (c == 0) { if (!jumped) pos = p + 1; return n; }
            if ((c & 0xc0) == 0xc0) { if (p + 1 >= b.size() || ++jumps > 64) { ok = false; return n; } if (!jumped) pos = p + 2; jumped = true; p = ((c & 0x3f) << 8) | b[p + 1]; continue; }
            if (c & 0xc0) { ok = false; return n; }
            if (p + 1 + c > b.size()) { ok = false; return n; }
            if (!n.empty()) n += '.'; n.append((const char*)&b[p + 1], c); p += 1 + c;
        }
    }
    u16 r16(size_t& p) { if (p + 2 > b.size()) { ok = false; return 0; } u16 v = (u16)(b[p] << 8 | b[p + 1]); p += 2; return v; }
    u32 r32(size_t& p) { u32 h = r16(p); return (h << 16) | r16(p); }
    bool message(Msg& m) {
        size_t p = 0; m.id = r16(p); m.flags = r16(p); u16 n[4]; for (int s = 0; s < 4; ++s) n[s] = r16(p);
        for (int s = 0; s < 4 && ok; ++s) for (u16 i = 0; i < n[s] && ok; ++i) {
            Rec rc{}; rc.name = name_at(p); rc.type = r16(p); rc.cls = r16(p);
            if (s) { rc.ttl = r32(p); u16 len = r16(p); size_t e = p + len; if (e > b.size()) { ok = false; break; }
                switch (rc.type) { case T_A: case T_AAAA: rc.addr.assign(b.begin() + p, b.begin() + e); break;
                    case T_NS: case T_CNAME: case T_PTR: { size_t q = p; rc.target = name_at(q); break; }
                    case T_MX: { size_t q = p; rc.pref = r16(q); rc.target = name_at(q); break; }
                    case T_SOA: { size_t q = p; rc.mname = name_at(q); rc.rname = name_at(q); for (int k = 0; k < 5; ++k) rc.soa[k] = r32(q); break; }
                    default: rc.rdata_plain.assign(b.begin() + p, b.begin() + e); }
                p = e; }
            m.sec[s].push_back(rc);
        }
        return ok;
    }
};

// ---- generators ------------------------------------------------------------------------------------------------
static std::string gen_label(Rng& r, u32 maxlen) { static const char al[] = "abcdefghijklmnopqrstuvwxyz0123456789-_ABCXYZ"; u32 n = 1 + r.below(maxlen); std::string s; for (u32 i = 0; i < n; ++i) s += al[r.below(sizeof(al) - 1)]; return s; }
static std::vector<std::string> g_pool;     // names of the current message: sharing suffixes makes compression happen
static std::string gen_name(Rng& r) {
    u32 k = r.below(20);
    if (k == 0) return "";                                                         // root
    if (k == 1) { std::string s; u32 n = 40 + r.below(88); for (u32 i = 0; i < n; ++i) { if (i) s += '.'; s += gen_label(r, 1); } return s; }   // many labels (up to 127)
    if (k == 2) { std::string s; for (int i = 0; i < 3; ++i) { if (i) s += '.'; s += std::string(63, (char)('a' + i)); } s += "." + gen_label(r, 61); return s; }  // ~255 octets
    if (k < 10 && !g_pool.empty()) { const std::string& base = g_pool[r.below((u32)g_pool.size())]; if (base.empty()) return gen_label(r, 8); size_t d = r.chance(1, 2) ? 0 : base.find('.'); std::string suf = (d == std::string::npos || d == 0) ? base : base.substr(d + 1); std::string n = r.chance(1, 3) ? suf : gen_label(r, 10) + "." + suf; if (n.size() > 250) n = suf; return n; }
    std::string s; u32 n = 1 + r.below(5); for (u32 i = 0; i < n; ++i) { if (i) s += '.'; s += gen_label(r, r.chance(1, 8) ? 63 : 12); }
    return s;
}
static size_t wire_len(const std::string& n) { return n.empty() ? 1 : n.size() + 2; }
static Rec gen_rec(Rng& r, bool question) {
    Rec rc{}; do { rc.name = gen_name(r); } while (wire_len(rc.name) > 255); g_pool.push_back(rc.name);
    static const u16 ts[] = {T_A, T_AAAA, T_NS, T_CNAME, T_PTR, T_MX, T_SOA, T_TXT, 99, 41};
    rc.type = question ? (r.chance(1, 2) ? T_A : ts[r.below(10)]) : ts[r.below(10)]; rc.cls = r.chance(9, 10) ? 1 : (u16)r.edgy(16); rc.ttl = (u32)r.edgy(32);
    auto nm = [&]() { std::string n; do { n = gen_name(r); } while (wire_len(n) > 255); g_pool.push_back(n); return n; };
    switch (rc.type) { case T_A: rc.addr = r.bytes(4); break; case T_AAAA: rc.addr = r.bytes(16); break; case T_NS: case T_CNAME: case T_PTR: rc.target = nm(); break;
        case T_MX: rc.pref = (u16)r.edgy(16); rc.target = nm(); break; case T_SOA: rc.mname = nm(); rc.rname = nm(); for (auto& x : rc.soa) x = (u32)r.edgy(32); break;
        default: rc.rdata_plain = r.bytes(r.below(40)); }
    return rc;
}

// ---- comparison of libtins' view with the model --------------------------------------------------------------------
static std::string enc_plain(const std::string& n) { Enc e; e.mode = 0; e.r = nullptr; e.name(n, false); return std::string(e.out.begin(), e.out.end()); }
static bool cmp_section(const char* what, const char* stage, const DNS::resources_type& got, const std::vector<Rec>& want, std::string& why) {
    if (got.size() != want.size()) { why = std::string(what) + ": " + std::to_string(got.size()) + " records, model has " + std::to_string(want.size()); return false; }
    for (size_t i = 0; i < want.size(); ++i) {
        const DNS::resource& g = got[i]; const Rec& w = want[i]; std::string at = std::string(what) + "[" + std::to_string(i) + "] ";
        if (g.dname() != w.name) { why = at + "name '" + g.dname().substr(0, 80) + "' expected '" + w.name.substr(0, 80) + "'"; return false; }
        if (g.query_type() != w.type || g.query_class() != w.cls || g.ttl() != w.ttl) { why = at + "type/class/ttl differ"; return false; }
        switch (w.type) {
            case T_A: { IPv4Address a(g.data()); uint32_t v = a; if (memcmp(&v, w.addr.data(), 4)) { why = at + "A data " + g.data(); return false; } break; }
            case T_AAAA: { IPv6Address a(g.data()); if (memcmp(a.begin(), w.addr.data(), 16)) { why = at + "AAAA data " + g.data(); return false; } break; }
            case T_NS: case T_CNAME: case T_PTR: if (g.data() != w.target) { why = at + "target '" + g.data().substr(0, 80) + "' expected '" + w.target.substr(0, 80) + "'"; return false; } break;
            case T_MX: if (g.data() != w.target || g.preference() != w.pref) { why = at + "MX target/preference: '" + g.data().substr(0, 80) + "'/" + std::to_string(g.preference()) + " expected '" + w.target.substr(0, 80) + "'/" + std::to_string(w.pref); return false; } break;
            case T_SOA: { std::string exp = enc_plain(w.mname) + enc_plain(w.rname); for (int k = 0; k < 5; ++k) { exp += (char)(w.soa[k] >> 24); exp += (char)(w.soa[k] >> 16); exp += (char)(w.soa[k] >> 8); exp += (char)w.soa[k]; }
                if (g.data() != exp) { why = at + "SOA data differs"; return false; }
                try { DNS::soa_record s(g); if (s.mname() != w.mname || s.rname() != w.rname || s.serial() != w.soa[0] || s.refresh() != w.soa[1] || s.retry() != w.soa[2] || s.expire() != w.soa[3] || s.minimum_ttl() != w.soa[4]) { why = at + "soa_record decoder disagrees"; return false; } } catch (const std::exception& e) { why = at + "soa_record decoder threw " + e.what(); return false; }
                break; }
            default: if (Bytes(g.data().begin(), g.data().end()) != w.rdata_plain) { why = at + "opaque data differs"; return false; }
        }
    }
    (void)stage; return true;
}
static bool check_dns(const char* stage, const DNS& d, const Msg& m, const std::string& hist) {
    std::string why; bool ok = true;
    try {
        DNS::queries_type q = d.queries();
        if (q.size() != m.sec[0].size()) { why = "queries: " + std::to_string(q.size()) + " vs model " + std::to_string(m.sec[0].size()); ok = false; }
        for (size_t i = 0; ok && i < q.size(); ++i) if (q[i].dname() != m.sec[0][i].name || q[i].query_type() != m.sec[0][i].type || q[i].query_class() != m.sec[0][i].cls) { why = "queries[" + std::to_string(i) + "] '" + q[i].dname().substr(0, 80) + "' expected '" + m.sec[0][i].name.substr(0, 80) + "'"; ok = false; }
        if (ok) ok = cmp_section("answers", stage, d.answers(), m.sec[1], why);
        if (ok) ok = cmp_section("authority", stage, d.authority(), m.sec[2], why);
        if (ok) ok = cmp_section("additional", stage, d.additional(), m.sec[3], why);
        if (ok && (d.questions_count() != m.sec[0].size() || d.answers_count() != m.sec[1].size() || d.authority_count() != m.sec[2].size() || d.additional_count() != m.sec[3].size())) { why = "header counts disagree with the sections"; ok = false; }
        if (ok && d.id() != m.id) { why = "id changed"; ok = false; }
    } catch (const std::exception& e) { why = std::string("getter threw ") + demangle(typeid(e).name()) + ": " + e.what(); ok = false; }
    if (!ok) { std::string clause = why.substr(0, why.find_first_of(":[ ")); violation(std::string("sections-differ/") + stage + "/" + clause, why + " :: " + hist); }
    cnt("section_comparisons");
    return ok;
}
static bool cmp_models(const Msg& a, const Msg& b, std::string& why) {
    for (int s = 0; s < 4; ++s) { if (a.sec[s].size() != b.sec[s].size()) { why = "section " + std::to_string(s) + " size"; return false; }
        for (size_t i = 0; i < a.sec[s].size(); ++i) { const Rec& x = a.sec[s][i]; const Rec& y = b.sec[s][i]; std::string at = "section " + std::to_string(s) + " record " + std::to_string(i) + ": ";
            if (x.name != y.name) { why = at + "owner name '" + y.name.substr(0, 80) + "' expected '" + x.name.substr(0, 80) + "'"; return false; }
            if (x.type != y.type || x.cls != y.cls || (s && x.ttl != y.ttl)) { why = at + "type/class/ttl"; return false; }
            if (s && (x.target != y.target || x.mname != y.mname || x.rname != y.rname || x.addr != y.addr || x.rdata_plain != y.rdata_plain || x.pref != y.pref || memcmp(x.soa, y.soa, sizeof x.soa))) { why = at + "rdata (target '" + y.target.substr(0, 60) + "' mname '" + y.mname.substr(0, 40) + "')"; return false; } } }
    return true;
}

static std::string ip6text(const Bytes& a) { char b[64]; snprintf(b, sizeof b, "%x:%x:%x:%x:%x:%x:%x:%x", a[0] << 8 | a[1], a[2] << 8 | a[3], a[4] << 8 | a[5], a[6] << 8 | a[7], a[8] << 8 | a[9], a[10] << 8 | a[11], a[12] << 8 | a[13], a[14] << 8 | a[15]); return b; }
static DNS::resource to_resource(const Rec& rc) {
    std::string data;
    switch (rc.type) { case T_A: { char b[32]; snprintf(b, sizeof b, "%u.%u.%u.%u", rc.addr[0], rc.addr[1], rc.addr[2], rc.addr[3]); data = b; break; } case T_AAAA: data = ip6text(rc.addr); break;
        case T_NS: case T_CNAME: case T_PTR: case T_MX: data = rc.target; break;
        case T_SOA: { data = enc_plain(rc.mname) + enc_plain(rc.rname); for (int k = 0; k < 5; ++k) { data += (char)(rc.soa[k] >> 24); data += (char)(rc.soa[k] >> 16); data += (char)(rc.soa[k] >> 8); data += (char)rc.soa[k]; } break; }
        default: data.assign(rc.rdata_plain.begin(), rc.rdata_plain.end()); }
    return DNS::resource(rc.name, data, rc.type, rc.cls, rc.ttl, rc.pref);
}

static void roundtrip(DNS& d, const Msg& m, const std::string& hist) {
    Bytes y;
    try { y = d.serialize(); } catch (const std::exception& e) { violation("serialize-throws/DNS", std::string(e.what()) + " :: " + hist); return; }
    // third opinion: independent decoder over the wire bytes
    Msg dm; Dec dec(y);
    if (!dec.message(dm)) { violation("independent-decoder-rejects/serialization", "the serialized message is not decodable per RFC 1035 :: " + hist); return; }
    std::string why; if (!cmp_models(m, dm, why)) { violation("wire-differs/independent-decoder", why + " :: " + hist); return; }
    cnt("independent_decodes");
    try { ExactBuf buf(y); DNS q(buf.data(), (u32)y.size()); check_dns("reparse", q, m, hist); }
    catch (const std::exception& e) { violation("reparse-throws/" + demangle(typeid(e).name()), std::string(e.what()) + " :: " + hist); }
}

static void model_case(Rng& r) {
    g_pool.clear(); Msg m; m.id = (u16)r.edgy(16); m.flags = (u16)(r.next() & 0xfbff);
    std::string hist; std::unique_ptr<DNS> d;
    bool from_wire = r.chance(3, 4);
    if (from_wire) {
        u32 budget = 4 + r.below(6);
        for (int s = 0; s < 4; ++s) for (u32 k = r.below(s == 0 ? 3 : 4); k-- && budget; --budget) m.sec[s].push_back(gen_rec(r, s == 0));
        Enc e; e.mode = (int)r.below(3); e.r = &r; Bytes w = e.message(m);
        hist = "wire(mode=" + std::to_string(e.mode) + ")=" + hex(w, 1500) + " ";
        describe_case(hist);
        try { ExactBuf buf(w); d.reset(new DNS(buf.data(), (u32)w.size())); } catch (const std::exception& ex) { violation("parse-rejects-valid-message/" + demangle(typeid(ex).name()), std::string(ex.what()) + " :: " + hist); return; }
        cnt(e.mode ? "initial:wire-compressed" : "initial:wire-plain");
        if (!check_dns("parsed", *d, m, hist)) return;
    } else { d.reset(new DNS()); d->id(m.id); m.flags = 0; cnt("initial:empty"); }
    u32 steps = 1 + r.below(12);
    for (u32 i = 0; i < steps; ++i) {
        int s = (int)r.below(4); Rec rc = gen_rec(r, s == 0);
        bool later_populated = false; for (int t = s + 1; t < 4; ++t) if (!m.sec[t].empty()) later_populated = true;
        // an insertion the library must refuse (address record whose data is not an address): whatever it throws, the
        // message must be exactly what it was -- the object goes on being used
        if (s != 0 && r.chance(1, 8)) {
            u32 how = r.below(2); std::string nm = "bad.example.com"; std::string data = how == 0 ? "not-an-address" : "1.2.3.4.5";      // (labels over 63 octets are not refused by libtins; names of illegal form are outside the statement)
            DNS::resource bad(nm, data, how == 1 ? DNS::AAAA : DNS::A, DNS::INTERNET, 7);
            hist += std::string("refused-") + (s == 1 ? "add_answer(" : s == 2 ? "add_authority(" : "add_additional(") + nm.substr(0, 20) + "," + data + ") "; describe_case(hist);
            bool threw = false;
            try { if (s == 1) d->add_answer(bad); else if (s == 2) d->add_authority(bad); else d->add_additional(bad); } catch (const exception_base&) { threw = true; } catch (const std::exception& e) { violation("add-throws/" + demangle(typeid(e).name()) + "/refused-insertion", std::string(e.what()) + " :: " + hist); return; }
            if (!threw) { violation("invalid-insertion-accepted/section" + std::to_string(s), "an address record with data '" + data + "' was accepted :: " + hist); return; }
            cnt("refused_insertions"); if (later_populated) cnt("refused_insertions_before_populated_section");
            if (!check_dns("after-refused-add", *d, m, hist)) return;
            roundtrip(*d, m, hist);
        }
        hist += std::string(s == 0 ? "add_query(" : s == 1 ? "add_answer(" : s == 2 ? "add_authority(" : "add_additional(") + rc.name.substr(0, 40) + ",t" + std::to_string(rc.type) + ") ";
        describe_case(hist);
        try {
            if (s == 0) d->add_query(DNS::query(rc.name, (DNS::QueryType)rc.type, (DNS::QueryClass)rc.cls)); else if (s == 1) d->add_answer(to_resource(rc)); else if (s == 2) d->add_authority(to_resource(rc)); else d->add_additional(to_resource(rc));
        } catch (const std::exception& e) { violation("add-throws/" + demangle(typeid(e).name()) + "/section" + std::to_string(s), std::string(e.what()) + " :: " + hist); return; }
        m.sec[s].push_back(rc); cnt("insertions"); if (later_populated) cnt("insertions_before_populated_section");
        if (from_wire && later_populated) cnt("insertions_shifting_parsed_records");
        if (!check_dns("after-add", *d, m, hist)) return;
        roundtrip(*d, m, hist);
    }
    u64 sg = fnv(hist); sig(sg);
    if (want_sample() && hist.size() < 700) sample(hist);
}

// hostile mode: mutated wire, getters, then edits — only libtins exceptions, no memory errors
static void hostile_case(Rng& r) {
    g_pool.clear(); Msg m; m.id = 1; m.flags = 0x8180; for (int s = 0; s < 4; ++s) for (u32 k = r.below(4); k--;) m.sec[s].push_back(gen_rec(r, s == 0));
    // names at and just beyond the representable limits (dotted length 250..262), built label by label
    if (r.chance(1, 4)) { std::string n; u32 target = 250 + r.below(13); while (n.size() < target) { u32 room = target - (u32)n.size() - (n.empty() ? 0 : 1); if (!room) break; u32 l = std::min<u32>(room, r.chance(1, 3) ? 1 + r.below(63) : 63); if (!n.empty()) n += '.'; n += std::string(l, (char)('a' + r.below(26))); }
        Rec rc{}; rc.name = n; rc.type = r.chance(1, 2) ? T_A : T_CNAME; rc.cls = 1; rc.ttl = 1; rc.addr = r.bytes(4); rc.target = n; int s = (int)r.below(4); m.sec[s].push_back(rc); if (s == 0) m.sec[0].back().type = T_A; cnt("hostile_overlong_name"); }
    Enc e; e.mode = (int)r.below(3); e.r = &r; Bytes w = e.message(m);
    // a compression pointer designating the end of the message, one before, one past
    if (r.chance(1, 4) && w.size() > 14) { u32 pos = 12 + r.below((u32)w.size() - 13); long tgt = (long)w.size() + (long)r.below(5) - 2; w[pos] = (u8)(0xc0 | ((tgt >> 8) & 0x3f)); w[pos + 1] = (u8)tgt; cnt("hostile_pointer_to_end"); }
    for (u32 k = r.below(4); k--;) { if (w.empty()) break; u32 pos = r.below((u32)w.size());
        switch (r.below(7)) { case 0: w[pos] ^= (u8)(1 << r.below(8)); break; case 1: w[pos] = 0xc0; break; case 2: w[pos] = 0xff; break; case 3: w.resize(pos); break; case 4: if (pos >= 4 && pos < 12) w[pos] = (u8)r.below(4); else w[pos] = r.byte(); break;
            case 5: { if (pos + 1 < w.size()) { u16 t = (u16)(0xc000 | r.below(r.chance(1, 2) ? (u32)w.size() + 4 : 0x3fff)); w[pos] = (u8)(t >> 8); w[pos + 1] = (u8)t; } break; } default: w[pos] = 0x40 | (u8)r.below(64); } }
    std::string hist = "hostile wire=" + hex(w, 1500) + " "; describe_case(hist);
    std::unique_ptr<DNS> d;
    try { ExactBuf buf(w); d.reset(new DNS(buf.data(), (u32)w.size())); } catch (const malformed_packet&) { cnt("hostile_rejected_at_parse"); return; }
      catch (...) { violation("escaped-exception/" + current_exception_type() + "/DNS-ctor", hist); return; }
    cnt("hostile_accepted");
    auto guarded = [&](const char* what, std::function<void()> f) { try { f(); } catch (const exception_base&) { cnt(std::string("hostile_error_reported:") + what); } catch (...) { violation("escaped-exception/" + current_exception_type() + "/" + what, "non-libtins exception :: " + hist); } };
    guarded("getters", [&] { d->queries(); }); guarded("getters", [&] { d->answers(); }); guarded("getters", [&] { d->authority(); }); guarded("getters", [&] { d->additional(); });
    for (u32 k = 1 + r.below(3); k--;) { int s = (int)r.below(4); Rec rc = gen_rec(r, s == 0); hist += "add" + std::to_string(s) + " "; describe_case(hist);
        guarded("add", [&] { if (s == 0) d->add_query(DNS::query(rc.name, (DNS::QueryType)rc.type, DNS::INTERNET)); else if (s == 1) d->add_answer(to_resource(rc)); else if (s == 2) d->add_authority(to_resource(rc)); else d->add_additional(to_resource(rc)); }); }
    guarded("getters-after", [&] { d->queries(); d->answers(); d->authority(); d->additional(); });
    guarded("serialize", [&] { Bytes y = d->serialize(); ExactBuf b2(y); try { DNS q(b2.data(), (u32)y.size()); q.answers(); q.additional(); } catch (const exception_base&) {} });
    sig(fnv(hist));
}

int main(int argc, char** argv) {
    return vf::run(argc, argv, "C10", [&](long idx, Rng& r) {
        if (st().a.mode == "hostile") { hostile_case(r); return; }
        model_case(r);
    });
}
