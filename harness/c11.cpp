// C11 — RadioTap fields can be set in any order and read back.
// History + reference model: a last-write map (field -> little-endian value bytes) and an own canonical
// encoder built from the radiotap.org field table (present bit, size, alignment relative to the start of
// the RadioTap header). After EVERY setter the real RadioTap object is compared with the model:
// options_payload() == canonical layout, present(), header_size(), all 14 getters (value or
// field_not_present), serialize() == own encoding of header + inner frame (+FCS), and a re-parse of the
// own encoding gives the same getters / payload / inner 802.11 frame.
#include "verif.h"
#include <tins/tins.h>
#include <memory>
#include <algorithm>
using namespace Tins;
using namespace vf;

// ---- radiotap.org field table (independent of RADIOTAP_METADATA) --------------------------------------
struct FieldDef { const char* name; u32 size, align; bool settable; };
static const int NBITS = 22;
static const FieldDef FD[NBITS] = {
    {"TSFT", 8, 8, true}, {"FLAGS", 1, 1, true}, {"RATE", 1, 1, true}, {"CHANNEL", 4, 2, true}, {"FHSS", 2, 2, false},
    {"DBM_SIGNAL", 1, 1, true}, {"DBM_NOISE", 1, 1, true}, {"SIGNAL_QUALITY", 2, 2, true}, {"TX_ATTENUATION", 2, 2, false},
    {"DB_TX_ATTENUATION", 2, 2, false}, {"DBM_TX_POWER", 1, 1, false}, {"ANTENNA", 1, 1, true}, {"DB_SIGNAL", 1, 1, true},
    {"DB_NOISE", 1, 1, false}, {"RX_FLAGS", 2, 2, true}, {"TX_FLAGS", 2, 2, true}, {"RTS_RETRIES", 1, 1, false},
    {"DATA_RETRIES", 1, 1, true}, {"XCHANNEL", 8, 4, true}, {"MCS", 3, 1, true}, {"AMPDU_STATUS", 8, 4, false}, {"VHT", 12, 2, false}};
static const int SETTABLE[14] = {0, 1, 2, 3, 5, 6, 7, 11, 12, 14, 15, 17, 18, 19};
static const int EXTRA[8] = {4, 8, 9, 10, 13, 16, 20, 21};
enum { B_TSFT = 0, B_FLAGS = 1, B_RATE = 2, B_CHANNEL = 3, B_DBM_SIGNAL = 5, B_DBM_NOISE = 6, B_SIGQ = 7, B_ANTENNA = 11, B_DB_SIGNAL = 12,
       B_RX_FLAGS = 14, B_TX_FLAGS = 15, B_DATA_RETRIES = 17, B_XCHANNEL = 18, B_MCS = 19 };
static const u8 FLAG_FCS = 0x10, FLAG_FAILED_FCS = 0x40;

struct Model {
    bool has[NBITS]; u8 val[NBITS][12]; u32 spare = 0;      // spare: octets between the last field and the end the header length announces (capture drivers round it_len up); they stay where they are, behind the fields
    Model() { memset(has, 0, sizeof has); memset(val, 0, sizeof val); }
    u32 mask() const { u32 m = 0; for (int b = 0; b < NBITS; ++b) if (has[b]) m |= 1u << b; return m; }
    void set(int b, const u8* v) { has[b] = true; memcpy(val[b], v, FD[b].size); }
    bool fcs() const { return has[B_FLAGS] && (val[B_FLAGS][0] & FLAG_FCS); }
    bool failed_fcs() const { return fcs() && (val[B_FLAGS][0] & FLAG_FAILED_FCS); }
};
// canonical options payload: present word, then every present field in bit order at its aligned offset
// (offsets counted from the start of the RadioTap header, which is 4 bytes before the payload)
static Bytes canonical(const Model& m, u32* pos = nullptr) {
    Bytes out(4); u32 w = m.mask(); out[0] = (u8)w; out[1] = (u8)(w >> 8); out[2] = (u8)(w >> 16); out[3] = (u8)(w >> 24);
    for (int b = 0; b < NBITS; ++b) if (m.has[b]) {
        while ((out.size() + 4) % FD[b].align) out.push_back(0);
        if (pos) pos[b] = (u32)out.size();
        out.insert(out.end(), m.val[b], m.val[b] + FD[b].size);
    }
    out.insert(out.end(), m.spare, 0);
    return out;
}
// Trigger shape of the known update_paddings defect (C11-1), decided on the model only: a field that is not yet
// present is inserted below >= 2 present fields of alignment > 1 (except: exactly two, the first directly adjacent).
static bool repad_shape(const Model& m, int bit) {
    if (m.has[bit]) return false;
    u32 pos[NBITS]; canonical(m, pos);
    long prev_end = -1; int stops = 0; long first_idx = 0;
    for (int b = 0; b < bit; ++b) if (m.has[b]) prev_end = pos[b] + FD[b].size;
    for (int b = bit + 1; b < NBITS; ++b) if (m.has[b]) {
        if (prev_end < 0) prev_end = pos[b];
        if (FD[b].align > 1) { if (stops == 0) first_idx = (long)pos[b] - prev_end; ++stops; }
    }
    return stops >= 3 || (stops == 2 && first_idx != 0);
}

static u16 le16(const u8* p) { return (u16)(p[0] | p[1] << 8); }
static u32 le32(const u8* p) { return (u32)p[0] | (u32)p[1] << 8 | (u32)p[2] << 16 | (u32)p[3] << 24; }
static u64 le64(const u8* p) { return (u64)le32(p) | (u64)le32(p + 4) << 32; }
static void put16(u8* p, u16 v) { p[0] = (u8)v; p[1] = (u8)(v >> 8); }
static void put32(u8* p, u32 v) { put16(p, (u16)v); put16(p + 2, (u16)(v >> 16)); }
static void put64(u8* p, u64 v) { put32(p, (u32)v); put32(p + 4, (u32)(v >> 32)); }

// the real setters, fed from the little-endian value bytes of the model
static void apply(RadioTap& rt, int bit, const u8* v) {
    switch (bit) {
        case B_TSFT: rt.tsft(le64(v)); break;
        case B_FLAGS: rt.flags((RadioTap::FrameFlags)v[0]); break;
        case B_RATE: rt.rate(v[0]); break;
        case B_CHANNEL: rt.channel(le16(v), le16(v + 2)); break;
        case B_DBM_SIGNAL: rt.dbm_signal((int8_t)v[0]); break;
        case B_DBM_NOISE: rt.dbm_noise((int8_t)v[0]); break;
        case B_SIGQ: rt.signal_quality(v[0]); break;                 // 8-bit argument, 16-bit field
        case B_ANTENNA: rt.antenna(v[0]); break;
        case B_DB_SIGNAL: rt.db_signal(v[0]); break;
        case B_RX_FLAGS: rt.rx_flags(le16(v)); break;
        case B_TX_FLAGS: rt.tx_flags(le16(v)); break;
        case B_DATA_RETRIES: rt.data_retries(v[0]); break;
        case B_XCHANNEL: { RadioTap::xchannel_type x; x.flags = le32(v); x.frequency = le16(v + 4); x.channel = v[6]; x.max_power = v[7]; rt.xchannel(x); break; }
        case B_MCS: { RadioTap::mcs_type x; x.known = v[0]; x.flags = v[1]; x.mcs = v[2]; rt.mcs(x); break; }
    }
}
// the real getters -> little-endian value bytes. 0 = value, 1 = field_not_present, 2 = other exception (type in *exc)
static int fetch(const RadioTap& rt, int bit, u8* o, std::string* exc) {
    try {
        switch (bit) {
            case B_TSFT: put64(o, rt.tsft()); break;
            case B_FLAGS: o[0] = (u8)rt.flags(); break;
            case B_RATE: o[0] = rt.rate(); break;
            case B_CHANNEL: put16(o, rt.channel_freq()); put16(o + 2, rt.channel_type()); break;
            case B_DBM_SIGNAL: o[0] = (u8)rt.dbm_signal(); break;
            case B_DBM_NOISE: o[0] = (u8)rt.dbm_noise(); break;
            case B_SIGQ: put16(o, rt.signal_quality()); break;
            case B_ANTENNA: o[0] = rt.antenna(); break;
            case B_DB_SIGNAL: o[0] = rt.db_signal(); break;
            case B_RX_FLAGS: put16(o, rt.rx_flags()); break;
            case B_TX_FLAGS: put16(o, rt.tx_flags()); break;
            case B_DATA_RETRIES: o[0] = rt.data_retries(); break;
            case B_XCHANNEL: { RadioTap::xchannel_type x = rt.xchannel(); put32(o, x.flags); put16(o + 4, x.frequency); o[6] = x.channel; o[7] = x.max_power; break; }
            case B_MCS: { RadioTap::mcs_type x = rt.mcs(); o[0] = x.known; o[1] = x.flags; o[2] = x.mcs; break; }
        }
        return 0;
    } catch (const field_not_present&) { return 1; }
    catch (...) { *exc = current_exception_type(); return 2; }
}

// ---- inner 802.11 frame: own encoding of a protected Dot11 data frame + opaque payload ---------------------
struct Inner { bool present = false; u8 a1[6], a2[6]; Bytes payload; Bytes bytes; };
static Inner make_inner(Rng& r, bool force = false) {
    Inner in; in.present = force || !r.chance(1, 8);
    if (!in.present) return in;
    for (int i = 0; i < 6; ++i) { in.a1[i] = r.byte(); in.a2[i] = r.byte(); }
    in.payload = r.bytes(r.below(40));
    Bytes& b = in.bytes; b.push_back(0x08); b.push_back(0x40); b.push_back(0); b.push_back(0);       // data frame, protected bit: body stays opaque
    b.insert(b.end(), in.a1, in.a1 + 6); b.insert(b.end(), in.a2, in.a2 + 6); b.insert(b.end(), 6, 0); b.push_back(0); b.push_back(0);
    b.insert(b.end(), in.payload.begin(), in.payload.end());
    return in;
}
static void attach_inner(RadioTap& rt, const Inner& in) {
    if (!in.present) return;
    Dot11Data d{Dot11::address_type(in.a1), Dot11::address_type(in.a2)}; d.wep(1);
    if (!in.payload.empty()) d /= RawPDU(in.payload.data(), (u32)in.payload.size());
    rt /= d;
}
static u32 crc32_ieee(const Bytes& b) {
    u32 c = 0xffffffffu;
    for (u8 x : b) { c ^= x; for (int i = 0; i < 8; ++i) c = (c >> 1) ^ (0xEDB88320u & (0u - (c & 1))); }
    return ~c;
}
// own encoding of the whole packet
static Bytes encode_packet(const Model& m, const Inner& in) {
    Bytes pl = canonical(m); Bytes out(4, 0); put16(&out[2], (u16)(4 + pl.size()));
    out.insert(out.end(), pl.begin(), pl.end());
    out.insert(out.end(), in.bytes.begin(), in.bytes.end());
    if (m.fcs()) { u8 t[4] = {0, 0, 0, 0}; if (in.present) put32(t, crc32_ieee(in.bytes)); out.insert(out.end(), t, t + 4); }
    return out;
}

// ---- history ---------------------------------------------------------------------------------------------
struct Step { int bit; u8 v[12]; bool copy_before; bool raw = false; };      // raw: written through the generic add_option(option(field, size, bytes)) entry point instead of the typed setter
struct Case { int start_kind; Model start; std::vector<Step> seq; Inner inner; };   // start_kind 0 = default ctor, 1 = parsed
static const char* start_name(int k) { return k == 0 ? "default-ctor" : "parsed"; }
static std::string show_val(int bit, const u8* v) { return std::string(FD[bit].name) + "=" + hex(v, FD[bit].size); }
static std::string show(const Case& c, size_t upto = (size_t)-1) {
    std::string d = std::string("start=") + start_name(c.start_kind);
    if (c.start_kind == 1) d += "(" + hexfull(canonical(c.start)) + ")";
    d += " inner=" + (c.inner.present ? hex(c.inner.bytes, 40) : std::string("none")) + " setters:";
    for (size_t i = 0; i < c.seq.size(); ++i) { d += " "; if (c.seq[i].copy_before) d += "[copy] "; if (c.seq[i].raw) d += "add_option:"; d += show_val(c.seq[i].bit, c.seq[i].v); if (i == upto) d += " <HERE>"; }
    return d;
}
static Model default_model() {
    Model m; u8 v[12];
    put16(v, 2412); put16(v + 2, 0xa0); m.set(B_CHANNEL, v);
    v[0] = FLAG_FCS; m.set(B_FLAGS, v);
    put64(v, 0); m.set(B_TSFT, v);
    v[0] = (u8)(int8_t)-50; m.set(B_DBM_SIGNAL, v);
    put16(v, 0); m.set(B_RX_FLAGS, v);
    v[0] = 0; m.set(B_ANTENNA, v);
    return m;
}

struct Ctx { const Case* c; size_t step; std::string site; bool shape; };
static void fail(const Ctx& x, const std::string& key, const std::string& msg) {
    violation(key, msg + " :: at step " + (x.step == (size_t)-1 ? std::string("0 (start state)") : "#" + std::to_string(x.step + 1)) + " of " + show(*x.c, x.step));
}

// compare the 14 getters of `rt` with the model; returns number of mismatches
// (absent_sample >= 0: of the fields that are not set only the absent_sample-th one is queried -- used for the re-parsed copy, whose
//  payload bytes were already found identical; every throw costs ~40 us under ASan)
static int check_getters(const RadioTap& rt, const Model& m, const Ctx& x, const char* clause, char sep, int absent_sample = -1) {
    int bad = 0, nabs = 0;
    for (int si = 0; si < 14; ++si) {
        int b = SETTABLE[si]; u8 got[12] = {0}; std::string exc;
        if (!m.has[b] && absent_sample >= 0 && nabs++ != absent_sample) continue;
        int r = fetch(rt, b, got, &exc);
        std::string k = std::string(clause) + FD[b].name + sep;
        if (r == 2) { fail(x, k + "exception:" + exc, std::string(FD[b].name) + " getter threw " + exc + (m.has[b] ? " (field is set)" : " (field was never set; field_not_present expected)")); ++bad; }
        else if (m.has[b] && r == 1) { fail(x, k + "absent-though-set", std::string(FD[b].name) + " getter reports field_not_present, but the field holds " + hex(m.val[b], FD[b].size)); ++bad; }
        else if (!m.has[b] && r == 0) { fail(x, k + "present-though-never-set", std::string(FD[b].name) + " getter returned " + hex(got, FD[b].size) + " for a field that was never set"); ++bad; }
        else if (m.has[b] && memcmp(got, m.val[b], FD[b].size) != 0) { fail(x, k + "wrong-value", std::string(FD[b].name) + " getter returned " + hex(got, FD[b].size) + ", last value set is " + hex(m.val[b], FD[b].size)); ++bad; }
        else cnt(m.has[b] ? "checks:getter-value" : "checks:getter-not-present");
    }
    return bad;
}

// Full comparison of the object with the model. false = state diverged, stop this history.
static bool check_state(RadioTap& rt, const Model& m, const Inner& in, const Ctx& x) {
    Bytes canon = canonical(m);
    const RadioTap::options_payload_type& pl = rt.options_payload();
    if (pl.size() != canon.size() || memcmp(pl.data(), canon.data(), canon.size()) != 0) {
        fail(x, "layout/" + x.site + (x.shape ? "/kf:repad" : ""), "options_payload()=" + hexfull(Bytes(pl.begin(), pl.end())) + " but the canonical layout of the fields set so far is " + hexfull(canon));
        return false;
    }
    cnt("checks:layout");
    if ((u32)rt.present() != m.mask()) { fail(x, "present-flags/" + x.site, "present()=" + std::to_string((u32)rt.present()) + " expected " + std::to_string(m.mask())); return false; }
    if (rt.header_size() != 4 + canon.size()) { fail(x, "header-size/" + x.site, "header_size()=" + std::to_string(rt.header_size()) + " expected " + std::to_string(4 + canon.size())); return false; }
    check_getters(rt, m, x, "getter/", '/');
    // serialization against the own encoder
    Bytes want = encode_packet(m, in), got;
    try { got = rt.serialize(); } catch (...) { fail(x, "serialize/exception:" + current_exception_type(), "serialize() threw"); return false; }
    if (got != want) {
        std::string what = "bytes";
        size_t hl = 4 + canon.size();
        if (got.size() != want.size()) what = "size";
        else if (got[2] != want[2] || got[3] != want[3]) what = "it-len";
        else if (memcmp(got.data(), want.data(), 4) != 0) what = "header-bytes";
        else if (memcmp(got.data() + 4, want.data() + 4, canon.size()) != 0) what = "options-bytes";
        else if (memcmp(got.data() + hl, want.data() + hl, in.bytes.size()) != 0) what = "inner-bytes";
        else what = "fcs-trailer";
        fail(x, "serialize/" + what, "serialize()=" + hexfull(got) + " expected " + hexfull(want));
        return false;
    }
    cnt("checks:serialize");
    if (rt.length() != 4 + canon.size()) { fail(x, "serialize/length-getter", "length()=" + std::to_string(rt.length()) + " after serialize, expected " + std::to_string(4 + canon.size())); return false; }
    // re-parse of the own encoding (the statement is about a header followed by an 802.11 frame: a bare header with
    // nothing behind it -- no frame, no FCS -- is not a capture and is refused by the parser, so it is not re-parsed)
    if (!in.present && !m.fcs()) { cnt("reparse:skipped-bare-header"); return true; }
    ExactBuf eb(want);
    std::unique_ptr<RadioTap> r2;
    try { r2.reset(new RadioTap(eb.data(), (u32)want.size())); }
    catch (const malformed_packet&) {
        if (m.failed_fcs()) { cnt("reparse:failed-fcs-flag-rejected"); return true; }    // FLAGS says "frame failed FCS check": the parser refuses such captures by design
        fail(x, "reparse/exception:Tins::malformed_packet", "parsing the canonical encoding threw malformed_packet: " + hexfull(want)); return false;
    }
    catch (...) { fail(x, "reparse/exception:" + current_exception_type(), "parsing the canonical encoding threw: " + hexfull(want)); return false; }
    cnt(m.fcs() ? "reparse:with-fcs-trailer" : "reparse:without-fcs");
    Ctx y = x;
    if (r2->length() != 4 + canon.size()) { fail(y, "reparse/it-len", "parsed length()=" + std::to_string(r2->length())); return false; }
    const RadioTap::options_payload_type& p2 = r2->options_payload();
    if (p2.size() != canon.size() || memcmp(p2.data(), canon.data(), canon.size()) != 0) { fail(y, "reparse/options-payload", "parsed options_payload()=" + hexfull(Bytes(p2.begin(), p2.end())) + " from " + hexfull(want)); return false; }
    if ((u32)r2->present() != m.mask()) { fail(y, "reparse/present-flags", "parsed present()=" + std::to_string((u32)r2->present()) + " expected " + std::to_string(m.mask())); return false; }
    { int nabsent = 0; for (int b : SETTABLE) if (!m.has[b]) ++nabsent;
      check_getters(*r2, m, y, "reparse/getter:", ':', nabsent ? (int)((x.step + 1 + m.mask()) % (u32)nabsent) : 0); }
    PDU* ip = r2->inner_pdu();
    if (!in.present) { if (ip) { fail(y, "reparse/inner-unexpected", "an inner PDU appeared although none was serialized"); return false; } }
    else {
        if (!ip) { fail(y, "reparse/inner-missing", "no inner PDU after parsing " + hexfull(want)); return false; }
        Bytes ib;
        try { ib = ip->serialize(); } catch (...) { fail(y, "reparse/inner-exception:" + current_exception_type(), "serializing the parsed inner frame threw"); return false; }
        if (ib != in.bytes) { fail(y, "reparse/inner-bytes", "inner frame after parse " + hexfull(ib) + " expected " + hexfull(in.bytes)); return false; }
        const Dot11Data* d = r2->find_pdu<Dot11Data>();
        if (!d || d->addr1() != Dot11::address_type(in.a1) || d->addr2() != Dot11::address_type(in.a2)) { fail(y, "reparse/inner-dot11", "parsed inner frame is not the Dot11Data that was sent"); return false; }
        const RawPDU* raw = r2->find_pdu<RawPDU>();
        if (in.payload.empty() ? raw != nullptr : (!raw || raw->payload() != in.payload)) { fail(y, "reparse/inner-payload", "payload of the parsed inner frame differs"); return false; }
        cnt("checks:reparse-inner");
    }
    cnt("checks:reparse");
    return true;
}

static void classify(const Model& m, int bit, bool shape) {
    if (m.has[bit]) { cnt("br:overwrite-in-place"); return; }
    cnt("br:insert-new");
    u32 pos0[NBITS], pos1[NBITS]; canonical(m, pos0); Model n = m; u8 z[12] = {0}; n.set(bit, z); canonical(n, pos1);
    { int lo = -1; for (int b = 0; b < bit; ++b) if (m.has[b]) lo = b;
      u32 prev_end = lo < 0 ? 4 : pos1[lo] + FD[lo].size;
      if (pos1[bit] > prev_end) cnt("br:insert-needs-own-padding"); }
    int above = 0, grow = 0, shrink = 0;
    for (int b = bit + 1; b < NBITS; ++b) if (m.has[b]) { ++above; }
    // padding in front of each following field before / after
    int prev0 = -1, prev1 = bit;
    for (int b = 0; b < bit; ++b) if (m.has[b]) prev0 = b;
    for (int b = bit + 1; b < NBITS; ++b) if (m.has[b]) {
        long pad0 = prev0 < 0 ? 0 : (long)pos0[b] - (long)(pos0[prev0] + FD[prev0].size);
        long pad1 = (long)pos1[b] - (long)(pos1[prev1] + FD[prev1].size);
        if (pad1 > pad0) ++grow; else if (pad1 < pad0) ++shrink;
        prev0 = b; prev1 = b;
    }
    if (above == 0) cnt("br:insert-at-end"); else cnt("br:insert-before-others");
    if (grow) cnt("br:following-padding-grows"); if (shrink) cnt("br:following-padding-shrinks");
    if (grow + shrink >= 2) cnt("br:several-paddings-change");
    if (shape) cnt("br:repad-shape(>=2 aligned fields follow)");
}

static void run_case(const Case& c, Rng& rng) {
    // does the history contain the trigger shape of the known re-padding defect? (for sanitizer aborts inside the setter)
    { Model m = c.start; bool any = false; for (auto& s : c.seq) { if (repad_shape(m, s.bit)) any = true; m.set(s.bit, s.v); }
      describe_case(show(c) + (any ? " kf=repad" : "")); }
    Model m = c.start; std::unique_ptr<RadioTap> rt;
    Ctx x{&c, (size_t)-1, "", false};
    if (c.start_kind == 1 && !c.inner.present && !m.fcs()) { fail(x, "selfcheck/bare-parsed-start", "generator produced a parsed start with nothing behind the header"); return; }
    if (c.start_kind == 0) { rt.reset(new RadioTap()); attach_inner(*rt, c.inner); x.site = "after-default-ctor"; cnt("start:default-ctor"); }
    else {
        Bytes enc = encode_packet(m, c.inner); ExactBuf eb(enc);
        try { rt.reset(new RadioTap(eb.data(), (u32)enc.size())); }
        catch (const malformed_packet&) { if (m.failed_fcs()) { cnt("start:parsed-rejected-failed-fcs"); return; } fail(x, "reparse/exception:Tins::malformed_packet", "parsing the start encoding threw malformed_packet"); return; }
        catch (...) { fail(x, "reparse/exception:" + current_exception_type(), "parsing the start encoding threw"); return; }
        x.site = "after-parse"; cnt("start:parsed");
        bool extra = false; for (int b : EXTRA) if (m.has[b]) extra = true;
        if (extra) cnt("start:parsed-with-non-settable-fields");
        if (m.mask() == 0) cnt("start:parsed-empty");
    }
    if (c.inner.present) {
        // self-check of the harness' own Dot11 encoder (not part of the property)
        Bytes ib = rt->inner_pdu() ? rt->inner_pdu()->serialize() : Bytes();
        if (ib != c.inner.bytes) { fail(x, "selfcheck/inner-encoder", "harness inner-frame encoder disagrees: " + hexfull(ib) + " vs " + hexfull(c.inner.bytes)); return; }
    }
    if (!check_state(*rt, m, c.inner, x)) return;
    for (size_t i = 0; i < c.seq.size(); ++i) {
        const Step& s = c.seq[i];
        if (s.copy_before) { std::unique_ptr<RadioTap> cp(rt->clone()); rt.swap(cp); cnt("br:continued-on-clone"); }
        x.step = i; x.site = std::string("after-set:") + FD[s.bit].name; x.shape = repad_shape(m, s.bit);
        classify(m, s.bit, x.shape);
        try { if (s.raw) { rt->add_option(RadioTap::option((RadioTap::PresentFlags)(1u << s.bit), FD[s.bit].size, s.v)); cnt("set-through-add_option"); } else apply(*rt, s.bit, s.v); }
        catch (...) { fail(x, "setter-exception/" + std::string(FD[s.bit].name) + "/" + current_exception_type() + (x.shape ? "/kf:repad" : ""), "setter threw"); return; }
        m.set(s.bit, s.v);
        cnt(std::string("set:") + FD[s.bit].name); cnt("steps");
        if (!check_state(*rt, m, c.inner, x)) return;
    }
    cnt("histories-completed");
    cnt_max("max_fields_present", (u64)__builtin_popcount(m.mask()));
    (void)rng;
}

// ---- generators --------------------------------------------------------------------------------------------
static void gen_value(Rng& r, int bit, u8* v) {
    memset(v, 0, 12);
    u32 sz = FD[bit].size;
    if (r.chance(1, 2)) { for (u32 i = 0; i < sz; ++i) v[i] = r.byte(); }
    else switch (sz) {
        case 1: v[0] = (u8)r.edgy(8); break;
        case 2: put16(v, (u16)r.edgy(16)); break;
        case 4: put16(v, (u16)r.edgy(16)); put16(v + 2, (u16)r.edgy(16)); break;
        case 8: if (bit == B_TSFT) put64(v, r.edgy(64)); else { put32(v, (u32)r.edgy(32)); put16(v + 4, (u16)r.edgy(16)); v[6] = (u8)r.edgy(8); v[7] = (u8)r.edgy(8); } break;
        default: for (u32 i = 0; i < sz; ++i) v[i] = (u8)r.edgy(8);
    }
    if (bit == B_SIGQ) v[1] = 0;            // the setter takes 8 bits
    if (bit == B_FLAGS && (v[0] & FLAG_FCS) && (v[0] & FLAG_FAILED_FCS) && !r.chance(1, 6)) v[0] &= (u8)~FLAG_FAILED_FCS;   // keep "bad FCS" captures (refused by the parser) rare
}
static void gen_parsed_value(Rng& r, int bit, u8* v) { gen_value(r, bit, v); if (bit == B_SIGQ && r.chance(3, 4)) v[1] = r.byte(); }
static Model gen_parsed_model(Rng& r) {
    Model m; u8 v[12];
    u32 style = r.below(8);
    u32 dens = style == 0 ? 0 : style == 1 ? 16 : 1 + r.below(15);
    for (int b : SETTABLE) if (r.below(16) < dens) { gen_parsed_value(r, b, v); m.set(b, v); }
    if (r.chance(1, 3)) for (int b : EXTRA) if (r.chance(1, 3)) { for (u32 i = 0; i < 12; ++i) v[i] = r.byte(); m.set(b, v); }
    if (m.failed_fcs()) m.val[B_FLAGS][0] &= (u8)~FLAG_FAILED_FCS;
    if (m.mask() && r.chance(1, 5)) { m.spare = 1 + r.below(7); cnt("start:parsed-with-spare-octets-behind-the-fields"); }
    return m;
}
static Case gen_random(Rng& r) {
    Case c;
    u32 kind = r.below(8);
    c.start_kind = r.chance(1, 2) ? 0 : 1;
    c.start = c.start_kind == 0 ? default_model() : gen_parsed_model(r);
    if (kind < 2 && c.start_kind == 1) c.start = Model();
    c.inner = make_inner(r, c.start_kind == 1 && !c.start.fcs());
    if (kind < 2) {            // a random permutation of all 14 setters (from the default header or an empty parsed one)
        int p[14]; for (int i = 0; i < 14; ++i) p[i] = SETTABLE[i];
        for (int i = 13; i > 0; --i) std::swap(p[i], p[r.below(i + 1)]);
        for (int i = 0; i < 14; ++i) { Step s; s.bit = p[i]; gen_value(r, s.bit, s.v); s.copy_before = false; c.seq.push_back(s); }
        cnt("histories:full-permutation");
    } else {
        u32 n = 1 + r.below(20);
        u32 focus = r.chance(1, 4) ? 2 + r.below(4) : 14;      // few fields, many repetitions
        int pool[14]; for (int i = 0; i < 14; ++i) pool[i] = SETTABLE[i];
        for (int i = 13; i > 0; --i) std::swap(pool[i], pool[r.below(i + 1)]);
        for (u32 i = 0; i < n; ++i) { Step s; s.bit = pool[r.below(focus)]; gen_value(r, s.bit, s.v); s.copy_before = r.chance(1, 12); s.raw = r.chance(1, 5); c.seq.push_back(s); }
        cnt("histories:random-with-repetitions");
    }
    return c;
}

// exhaustive: idx -> ordered selection of k distinct fields out of the 14 settable ones (k = 1..K)
static u64 perms(u32 n, u32 k) { u64 p = 1; for (u32 i = 0; i < k; ++i) p *= (n - i); return p; }
static bool decode_selection(u64 idx, u32 maxk, std::vector<int>& out) {
    for (u32 k = 1; k <= maxk; ++k) {
        u64 n = perms(14, k);
        if (idx >= n) { idx -= n; continue; }
        std::vector<int> avail(SETTABLE, SETTABLE + 14);
        for (u32 j = 0; j < k; ++j) { u64 base = perms(14 - j - 1, k - j - 1); u32 p = (u32)(idx / base); idx %= base; out.push_back(avail[p]); avail.erase(avail.begin() + p); }
        return true;
    }
    return false;
}

int main(int argc, char** argv) {
    return vf::run(argc, argv, "C11", [&](long idx, Rng& rng) {
        const Args& a = st().a;
        if (a.mode == "exhaustive") {
            std::vector<int> sel;
            if (!decode_selection((u64)idx, (u32)a.geti("maxk", 4), sel)) return;
            // three start states per ordered selection: default header, parsed header without any field,
            // parsed header holding every settable field except the selected ones
            for (int variant = 0; variant < 3; ++variant) {
                Case c; c.start_kind = variant == 0 ? 0 : 1;
                if (variant == 0) c.start = default_model();
                else if (variant == 2) { u8 v[12]; for (int b : SETTABLE) if (std::find(sel.begin(), sel.end(), b) == sel.end()) { gen_parsed_value(rng, b, v); c.start.set(b, v); } if (c.start.failed_fcs()) c.start.val[B_FLAGS][0] &= (u8)~FLAG_FAILED_FCS; }
                c.inner = make_inner(rng, c.start_kind == 1 && !c.start.fcs());
                for (int b : sel) { Step s; s.bit = b; gen_value(rng, b, s.v); s.copy_before = false; c.seq.push_back(s); }
                run_case(c, rng);
                u64 sg = (u64)variant; for (int b : sel) sg = mix(sg, (u64)b); sig(sg);
            }
            cnt("exhaustive_selections"); cnt("exhaustive_selections_of_size_" + std::to_string(sel.size()));
            return;
        }
        Case c = gen_random(rng);
        u64 sg = mix(c.start_kind, c.start.mask()); for (auto& s : c.seq) sg = mix(sg, (u64)s.bit * 2 + s.copy_before); sig(sg);
        if (want_sample() && c.seq.size() <= 6) sample(show(c));
        run_case(c, rng);
    });
}
