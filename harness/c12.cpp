// C12 — packet object trees keep sound ownership under copy, move, clone and re-linking.
// Invariant at a hook: H2 (PDU constructors/destructor) feeds a registry of live PDU objects; after EVERY step of a
// random program over a pool of user-owned roots the registry must equal the set of layers reachable from the roots,
// every layer must be reachable exactly once, parent links must designate the owner, and every copy/clone must be
// deep and equal (all getters + serialization) at copy time and independent afterwards. ASan/LSan + allocation
// balance decide double frees, use-after-free and leaks.
#include <tins/pdu_cacher.h>
#include "view.h"
#include "pktgen.h"
#include <tins/packet.h>
#include <unordered_map>
using namespace Tins;
using namespace vf;

// ---- H2 receiver: registry of live PDU objects ------------------------------------------------------------------
static std::unordered_map<const PDU*, u64> g_live; static u64 g_serial = 0, g_events = 0; static bool g_hook_on = false;
static void life_hook(const PDU* p, int ev) {
    if (!g_hook_on) return;
    ++g_events;
    if (ev == Verif::LIFE_DTOR) { if (!g_live.erase(p)) violation("destroyed-twice-or-unknown/" + demangle(typeid(*p).name()), "destructor ran for an address that is not a live PDU"); }
    else { if (!g_live.emplace(p, ++g_serial).second) violation("constructed-over-live-object", "a PDU was constructed at the address of a live PDU"); }
}

static std::string cls(const PDU* p) { std::string n = demangle(typeid(*p).name()); return n.find("Tins::") == 0 ? n.substr(6) : n; }

// ---- typed operations, one table entry per concrete class of the current headers ---------------------------------
struct Ops {
    std::string name;
    std::function<PDU*()> make;
    std::function<PDU*(const PDU*)> copy_construct;
    std::function<void(PDU*, const PDU*)> copy_assign;
    std::function<PDU*(PDU*)> move_construct;
    std::function<void(PDU*, PDU*)> move_assign;
    std::function<PDU*(const PDU*, const PDU&)> div;
    std::function<void(PDU*, const PDU&)> div_assign;
    std::function<bool(const PDU*)> is;
};
static std::vector<Ops> g_ops;
template <class K> static void reg_ops(const char* name, std::true_type) {
    Ops o; o.name = name;
    o.make = []() -> PDU* { return new K(); };
    o.copy_construct = [](const PDU* s) -> PDU* { return new K(*static_cast<const K*>(s)); };
    o.copy_assign = [](PDU* d, const PDU* s) { *static_cast<K*>(d) = *static_cast<const K*>(s); };
    o.move_construct = [](PDU* s) -> PDU* { return new K(std::move(*static_cast<K*>(s))); };
    o.move_assign = [](PDU* d, PDU* s) { *static_cast<K*>(d) = std::move(*static_cast<K*>(s)); };
    o.div = [](const PDU* a, const PDU& b) -> PDU* { return new K(*static_cast<const K*>(a) / b); };
    o.div_assign = [](PDU* a, const PDU& b) { *static_cast<K*>(a) /= b; };
    o.is = [](const PDU* p) { return typeid(*p) == typeid(K); };
    g_ops.push_back(o);
}
template <class K> static void reg_ops(const char*, std::false_type) {}
static void register_ops() {
#define VF_PDU_CLASS(Q, N, CONCRETE, DEFCTOR, BUFCTOR) reg_ops<Q>(#N, std::integral_constant<bool, (CONCRETE && DEFCTOR) && !std::is_abstract<Q>::value && std::is_default_constructible<Q>::value && std::is_copy_constructible<Q>::value && std::is_copy_assignable<Q>::value>());
#define VF_GEN_CLASSES
#include "gen_tins.inc"
#undef VF_GEN_CLASSES
    // the caching wrapper is a layer class too (a template, so the header scan does not list it): a few instantiations join the pool and get
    // layers stacked on them like any other object
    reg_ops<PDUCacher<EthernetII> >("PDUCacher<EthernetII>", std::true_type()); reg_ops<PDUCacher<UDP> >("PDUCacher<UDP>", std::true_type());
    reg_ops<PDUCacher<TCP> >("PDUCacher<TCP>", std::true_type()); reg_ops<PDUCacher<Dot1Q> >("PDUCacher<Dot1Q>", std::true_type());
    // (no PDUCacher<IP>/<IPv6>: TCP/UDP/ICMPv6 tins_cast their parent to IP/IPv6 for the pseudo-header, and a wrapper answers to that cast -- the open C13 finding, not an ownership matter)
}
static const Ops* ops_for(const PDU* p) { for (auto& o : g_ops) if (o.is(p)) return &o; return nullptr; }

// ---- the pool and its checks -----------------------------------------------------------------------------------------
struct Snapshot { std::string view; Bytes bytes; std::string chain; bool ok; };
static bool needs_routing(const PDU* p) { const IP* ip = dynamic_cast<const IP*>(p); return ip && (uint32_t)ip->src_addr() == 0; }
static Snapshot snap(PDU* root) {
    Snapshot s; View v; v.strict_exceptions = false; s.chain = describe_chain(*root, v); s.view = v.text(); s.ok = true;
    if (needs_routing(root) || dynamic_cast<PPI*>(root) || dynamic_cast<PKTAP*>(root)) { s.ok = false; return s; }
    try { s.bytes = root->serialize(); } catch (...) { s.ok = false; }
    // serialize() may update derived fields (lengths, checksums): take the view afterwards so that both sides are comparable
    View v2; v2.strict_exceptions = false; describe_chain(*root, v2); s.view = v2.text();
    return s;
}
static std::vector<PDU*> pool;
static std::set<const PDU*> husks;   // moved-from objects: valid but unspecified; only destroyed, assigned to, or given a new child
static std::vector<Packet*> packets;
static std::string g_prog;

// EthernetII/Dot3/Dot1Q::trailer_size() ask for the size of everything they carry, so size() of a chain with k nested
// Ethernet-like layers costs 2^k calls; real packets nest at most two or three (VXLAN). Keep the programs realistic.
static size_t n_layers(const PDU* p) { size_t n = 0; for (; p; p = p->inner_pdu()) ++n; return n; }
static size_t n_eth(const PDU* p) { size_t n = 0; for (; p; p = p->inner_pdu()) if (dynamic_cast<const EthernetII*>(p) || dynamic_cast<const Dot3*>(p) || dynamic_cast<const Dot1Q*>(p)) ++n; return n; }
static bool too_big(const PDU* a, const PDU* b) { return n_layers(a) + n_layers(b) > 24 || n_eth(a) + n_eth(b) > 5; }
static bool check_forest(const std::string& after) {
    std::unordered_map<const PDU*, int> reach; bool ok = true;
    auto walk = [&](const PDU* root, const char* owner) {
        const PDU* parent = nullptr; size_t depth = 0;
        for (const PDU* q = root; q; parent = q, q = q->inner_pdu()) {
            if (++reach[q] > 1) { violation("layer-owned-twice/" + cls(q), std::string("a layer is reachable from two owners after ") + after + " :: " + g_prog); ok = false; return; }
            if (!g_live.count(q)) { violation("dangling-layer/" + after, std::string("a reachable layer is not a live object (") + owner + ") :: " + g_prog); ok = false; return; }
            if (q->parent_pdu() != parent) { violation("parent-link/" + after + "/" + cls(q), "parent_pdu() of layer " + std::to_string(depth) + " (" + cls(q) + ") does not designate its owner (" + (parent ? cls(parent) : std::string("none, it is a root")) + ") :: " + g_prog); ok = false; }
            if (++depth > 100000) break;
        }
    };
    for (PDU* r : pool) walk(r, "pool root");
    for (Packet* pk : packets) if (pk->pdu()) walk(pk->pdu(), "Packet");
    if (!ok) return false;
    // a PDUCacher<K> contains its K as a member: that live object is owned by the wrapper it sits in (by composition), not through inner_pdu()
    size_t embedded = 0;
    { std::vector<std::pair<const char*, const char*>> wr; for (auto& kv : reach) if (cls(kv.first).compare(0, 10, "PDUCacher<") == 0) wr.push_back({(const char*)kv.first, (const char*)kv.first + 4096});
      if (!wr.empty()) for (auto& kv : g_live) if (!reach.count(kv.first)) for (auto& w : wr) if ((const char*)kv.first > w.first && (const char*)kv.first < w.second && cls(w.first ? (const PDU*)w.first : kv.first).find(cls(kv.first)) != std::string::npos) { ++embedded; break; } }
    if (reach.size() + embedded != g_live.size()) {
        std::string extra; for (auto& kv : g_live) if (!reach.count(kv.first)) { extra = cls(kv.first); break; }
        violation("unreachable-live-layer/" + after + "/" + extra, std::to_string(g_live.size()) + " live PDU objects but only " + std::to_string(reach.size()) + " are owned by the user's roots (a " + extra + " is owned by nobody: leak) :: " + g_prog); return false;
    }
    cnt("forest_checks"); return true;
}

static bool same(const Snapshot& a, const Snapshot& b, const std::string& op, const std::string& what) {
    if (a.chain != b.chain) { violation(op + "/layers-differ/" + what, "source " + a.chain + " vs copy " + b.chain + " :: " + g_prog); return false; }
    if (a.view != b.view) { size_t i = 0; while (i < a.view.size() && i < b.view.size() && a.view[i] == b.view[i]) ++i; size_t ls = a.view.rfind('\n', i); ls = ls == std::string::npos ? 0 : ls + 1;
        violation(op + "/fields-differ/" + what, "first difference: '" + a.view.substr(ls, 90) + "' vs '" + b.view.substr(ls, 90) + "' :: " + g_prog); return false; }
    if (a.ok && b.ok && a.bytes != b.bytes) { violation(op + "/serialization-differs/" + what, "copy serializes differently from its source :: " + g_prog); return false; }
    cnt("deep_equality_checks"); return true;
}

// mutate a packet visibly (used to check that copies are independent)
static void poke(PDU* root, Rng& r) {
    PDU* last = root; while (last->inner_pdu()) last = last->inner_pdu();
    if (RawPDU* rw = dynamic_cast<RawPDU*>(last)) { Bytes b = rw->payload(); b.push_back(r.byte()); b[0] ^= 0x5a; rw->payload(b); }
    else { Bytes b = r.bytes(1 + r.below(8)); last->inner_pdu(new RawPDU(b.data(), (u32)b.size())); }
}

static PDU* fresh(Rng& r) {
    if (r.chance(1, 4)) { const Ops& o = g_ops[r.below((u32)g_ops.size())]; PDU* p = o.make(); if (IP* ip = dynamic_cast<IP*>(p)) ip->src_addr("9.9.9.9"); g_prog += "new " + o.name + "; "; return p; }
    PktGen g(r); PDU* p = g.packet(); g_prog += "gen(" + g.trace.substr(0, 80) + "); "; return p;
}

static void program(Rng& r) {
    g_prog.clear(); pool.clear(); packets.clear(); g_live.clear(); husks.clear();
    g_hook_on = true;
    u32 steps = 5 + r.below(60);
    for (u32 k = 1 + r.below(3); k--;) pool.push_back(fresh(r));
    check_forest("construct");
    for (u32 s = 0; s < steps; ++s) {
        if (pool.empty()) pool.push_back(fresh(r));
        u32 ai = r.below((u32)pool.size()); PDU* a = pool[ai];
        u32 op = r.below(24); std::string name;
        if (husks.count(a)) { u32 h = r.below(3); op = h == 0 ? 16 : h == 1 ? 31 : 32; }
        describe_case(g_prog + " <next op=" + std::to_string(op) + " on #" + std::to_string(ai) + ">");
        switch (op) {
            case 0: { if (pool.size() < 12) { pool.push_back(fresh(r)); } name = "construct"; break; }
            case 1: { name = "clone"; Snapshot sa = snap(a); PDU* c = a->clone(); g_prog += "clone(#" + std::to_string(ai) + "); "; pool.push_back(c); Snapshot sc = snap(c); same(sa, sc, name, cls(a));
                      poke(c, r); Snapshot sa2 = snap(a); if (sa2.view != sa.view || sa2.bytes != sa.bytes) violation("clone/not-independent/" + cls(a), "changing the clone changed the source :: " + g_prog); break; }
            case 2: case 3: { name = "copy-construct"; const Ops* o = ops_for(a); if (!o) break; Snapshot sa = snap(a); PDU* c = o->copy_construct(a); g_prog += "copy-ctor(#" + std::to_string(ai) + ":" + o->name + "); "; pool.push_back(c); Snapshot sc = snap(c); same(sa, sc, name, o->name);
                      poke(c, r); Snapshot sa2 = snap(a); if (sa2.view != sa.view || sa2.bytes != sa.bytes) violation("copy-construct/not-independent/" + o->name, "changing the copy changed the source :: " + g_prog); cnt("op:copy-construct"); break; }
            case 4: case 5: case 6: { name = "copy-assign"; const Ops* o = ops_for(a); if (!o) break;
                      // find (or make) a target of the same class; prefer one with a different number of layers
                      PDU* d = nullptr; u32 di = 0; for (u32 t = 0; t < pool.size(); ++t) if (pool[t] != a && o->is(pool[t])) { d = pool[t]; di = t; if (r.chance(1, 2)) break; }
                      if (!d) { if (pool.size() >= 12) break; d = o->make(); if (IP* ip = dynamic_cast<IP*>(d)) ip->src_addr("9.9.9.9"); if (r.chance(2, 3)) { PDU* t = d; for (u32 k = 1 + r.below(3); k--;) { Bytes b = r.bytes(1 + r.below(5)); PDU* n = k ? (PDU*)new Dot1Q(r.below(4000)) : (PDU*)new RawPDU(b.data(), (u32)b.size()); t->inner_pdu(n); t = n; } } pool.push_back(d); di = (u32)pool.size() - 1; g_prog += "new " + o->name + "(+layers); "; }
                      size_t la = 0, ld = 0; for (PDU* q = a; q; q = q->inner_pdu()) ++la; for (PDU* q = d; q; q = q->inner_pdu()) ++ld;
                      husks.erase(d);
                      Snapshot sa = snap(a); o->copy_assign(d, a); g_prog += "#" + std::to_string(di) + " = #" + std::to_string(ai) + " (" + o->name + ", " + std::to_string(ld) + "<-" + std::to_string(la) + " layers); ";
                      cnt(la < ld ? "op:copy-assign-shorter-over-longer" : la > ld ? "op:copy-assign-longer-over-shorter" : "op:copy-assign-same-length");
                      Snapshot sd = snap(d); same(sa, sd, name, o->name + (la < ld ? "/shorter-over-longer" : ""));
                      poke(d, r); Snapshot sa2 = snap(a); if (sa2.view != sa.view || sa2.bytes != sa.bytes) violation("copy-assign/not-independent/" + o->name, "changing the target changed the source :: " + g_prog); break; }
            case 7: { name = "self-assign"; const Ops* o = ops_for(a); if (!o) break; Snapshot sa = snap(a); o->copy_assign(a, a); g_prog += "#" + std::to_string(ai) + " = itself; "; Snapshot sb = snap(a); same(sa, sb, name, o->name); cnt("op:self-assign"); break; }
            case 8: { name = "move-construct"; const Ops* o = ops_for(a); if (!o) break; Snapshot sa = snap(a); PDU* c = o->move_construct(a); g_prog += "move-ctor(#" + std::to_string(ai) + ":" + o->name + "); "; pool.push_back(c); Snapshot sc = snap(c); same(sa, sc, name, o->name);
                      if (a->inner_pdu()) violation("move-construct/source-keeps-child/" + o->name, "moved-from object still owns layers :: " + g_prog); cnt("op:move-construct"); husks.insert(a);
                      if (r.chance(1, 2)) { husks.erase(a); delete a; pool.erase(pool.begin() + ai); g_prog += "delete moved-from; "; } else if (r.chance(1, 2)) { Bytes b = r.bytes(3); a->inner_pdu(new RawPDU(b.data(), 3)); g_prog += "reuse moved-from; "; } break; }
            case 9: case 10: { name = "move-assign"; const Ops* o = ops_for(a); if (!o) break; PDU* d = nullptr; u32 di = 0; for (u32 t = 0; t < pool.size(); ++t) if (pool[t] != a && o->is(pool[t])) { d = pool[t]; di = t; if (r.chance(1, 2)) break; }
                      if (!d) { if (pool.size() >= 12) break; d = o->make(); Bytes b = r.bytes(4); d->inner_pdu(new RawPDU(b.data(), 4)); pool.push_back(d); di = (u32)pool.size() - 1; g_prog += "new " + o->name + "/Raw; "; }
                      Snapshot sa = snap(a); o->move_assign(d, a); g_prog += "#" + std::to_string(di) + " = move(#" + std::to_string(ai) + ") (" + o->name + "); "; Snapshot sd = snap(d); same(sa, sd, name, o->name);
                      husks.insert(a); husks.erase(d); cnt("op:move-assign"); break; }
            case 11: { name = "div"; const Ops* o = ops_for(a); if (!o) break; u32 bi = r.below((u32)pool.size()); PDU* b = pool[bi]; if (husks.count(b)) break; size_t lb = 0; for (PDU* q = b; q; q = q->inner_pdu()) ++lb; size_t la = 0; for (PDU* q = a; q; q = q->inner_pdu()) ++la; if (la + lb > 40 || too_big(a, b)) break;
                      Snapshot sb = snap(b); PDU* c = o->div(a, *b); g_prog += "#" + std::to_string(ai) + " / #" + std::to_string(bi) + "; "; pool.push_back(c);
                      size_t lc = 0; for (PDU* q = c; q; q = q->inner_pdu()) ++lc; if (lc != la + lb) violation("div/layer-count/" + o->name, "a / b has " + std::to_string(lc) + " layers, expected " + std::to_string(la + lb) + " :: " + g_prog);
                      Snapshot sb2 = snap(b); if (sb2.view != sb.view) violation("div/modified-operand", "operator/ changed its right operand :: " + g_prog); cnt("op:div"); break; }
            case 12: { name = "div-assign"; const Ops* o = ops_for(a); if (!o) break; u32 bi = r.below((u32)pool.size()); PDU* b = pool[bi]; if (b == a || husks.count(b)) break; size_t lb = 0; for (PDU* q = b; q; q = q->inner_pdu()) ++lb; size_t la = 0; for (PDU* q = a; q; q = q->inner_pdu()) ++la; if (la + lb > 40 || too_big(a, b)) break;
                      o->div_assign(a, *b); g_prog += "#" + std::to_string(ai) + " /= #" + std::to_string(bi) + "; "; size_t lc = 0; for (PDU* q = a; q; q = q->inner_pdu()) ++lc; if (lc != la + lb) violation("div-assign/layer-count/" + o->name, "a /= b has " + std::to_string(lc) + " layers, expected " + std::to_string(la + lb) + " :: " + g_prog); cnt("op:div-assign"); break; }
            case 13: { name = "inner_pdu(ptr)"; if (pool.size() < 2) break; u32 bi = r.below((u32)pool.size()); if (bi == ai) break; PDU* b = pool[bi]; if (husks.count(b) || too_big(a, b)) break; PDU* at = a; u32 depth = r.below(3); while (depth-- && at->inner_pdu()) at = at->inner_pdu();
                      at->inner_pdu(b); pool.erase(pool.begin() + bi); g_prog += "#" + std::to_string(ai) + ".inner_pdu(ptr #" + std::to_string(bi) + "); "; cnt("op:inner_pdu-ptr"); break; }
            case 14: { name = "inner_pdu(ref)"; u32 bi = r.below((u32)pool.size()); PDU* b = pool[bi]; if (husks.count(b) || too_big(a, b)) break; size_t lb = 0; for (PDU* q = b; q; q = q->inner_pdu()) ++lb; if (lb > 30) break; PDU* at = a; u32 depth = r.below(3); while (depth-- && at->inner_pdu()) at = at->inner_pdu(); if (at == b) break; bool inside = false; for (PDU* q = b; q; q = q->inner_pdu()) if (q == at) inside = true; if (inside) break;
                      at->inner_pdu(*b); g_prog += "#" + std::to_string(ai) + ".inner_pdu(ref #" + std::to_string(bi) + "); "; cnt("op:inner_pdu-ref"); break; }
            case 15: { name = "release_inner_pdu"; PDU* at = a; u32 depth = r.below(3); while (depth-- && at->inner_pdu()) at = at->inner_pdu(); PDU* rel = at->release_inner_pdu(); g_prog += "#" + std::to_string(ai) + ".release_inner_pdu(); ";
                      if (rel) { if (rel->parent_pdu()) violation("release/parent-link", "released layer still has a parent :: " + g_prog); if (r.chance(1, 3)) { delete rel; g_prog += "delete released; "; } else if (r.chance(1, 2) && pool.size() < 12) pool.push_back(rel); else { at->inner_pdu(rel); g_prog += "re-attach; "; } } cnt("op:release"); break; }
            case 31: { name = "reuse-moved-from:new-child"; Bytes b = r.bytes(3); a->inner_pdu(new RawPDU(b.data(), 3)); g_prog += "#" + std::to_string(ai) + "(moved-from).inner_pdu(new Raw); "; cnt("op:reuse-moved-from"); break; }
            case 32: { name = "reuse-moved-from:assign-into"; const Ops* o = ops_for(a); if (!o) break; PDU* src = nullptr; u32 si = 0; for (u32 t = 0; t < pool.size(); ++t) if (pool[t] != a && !husks.count(pool[t]) && o->is(pool[t])) { src = pool[t]; si = t; break; } if (!src) break;
                      Snapshot ss = snap(src); o->copy_assign(a, src); husks.erase(a); g_prog += "#" + std::to_string(ai) + "(moved-from) = #" + std::to_string(si) + "; "; Snapshot sd = snap(a); same(ss, sd, "copy-assign-into-moved-from", o->name); cnt("op:reuse-moved-from"); break; }
            case 16: { name = "delete"; husks.erase(a); delete a; pool.erase(pool.begin() + ai); g_prog += "delete #" + std::to_string(ai) + "; "; cnt("op:delete"); break; }
            case 17: { name = "packet-wrap"; if (packets.size() >= 4) { delete packets.back(); packets.pop_back(); g_prog += "~Packet; "; break; }
                      u32 how = r.below(4); Packet* pk = nullptr; Snapshot sa = snap(a);
                      if (how == 0) { pk = new Packet(*a); g_prog += "Packet(copy of #" + std::to_string(ai) + "); "; }
                      else if (how == 1) { pk = new Packet(a, Timestamp(), Packet::own_pdu()); pool.erase(pool.begin() + ai); g_prog += "Packet(own #" + std::to_string(ai) + "); "; }
                      else if (how == 2) { Packet tmp(*a); pk = new Packet(std::move(tmp)); g_prog += "Packet(move(Packet(copy of #" + std::to_string(ai) + "))); "; }   // PtrPacket is only constructible by BaseSniffer: covered by C17
                      else { pk = new Packet(a, Timestamp()); g_prog += "Packet(clone of #" + std::to_string(ai) + "); "; }
                      packets.push_back(pk); if (pk->pdu()) { Snapshot sp = snap(pk->pdu()); same(sa, sp, "packet-wrap", "how" + std::to_string(how)); } cnt("op:packet-wrap"); break; }
            case 18: { name = "packet-copy-move"; if (packets.empty()) break; Packet* src = packets[r.below((u32)packets.size())]; if (!src->pdu()) break; Snapshot ss = snap(src->pdu()); u32 how = r.below(4);
                      if (how == 0 && packets.size() < 5) { Packet* c = new Packet(*src); packets.push_back(c); g_prog += "Packet copy; "; Snapshot sc = snap(c->pdu()); same(ss, sc, "packet-copy", "ctor"); }
                      else if (how == 1 && packets.size() < 5) { Packet* c = new Packet(std::move(*src)); packets.push_back(c); g_prog += "Packet move; "; Snapshot sc = snap(c->pdu()); same(ss, sc, "packet-move", "ctor"); if (src->pdu()) violation("packet-move/source-keeps-pdu", "moved-from Packet still owns a PDU :: " + g_prog); }
                      else if (how == 2) { Packet* d = packets[r.below((u32)packets.size())]; *d = *src; g_prog += "Packet = Packet; "; if (d->pdu()) { Snapshot sd = snap(d->pdu()); same(ss, sd, "packet-copy", "assign"); } }
                      else { PDU* rel = src->release_pdu(); g_prog += "release_pdu; "; if (rel && pool.size() < 12) pool.push_back(rel); else delete rel; }
                      cnt("op:packet-copy-move"); break; }
            case 20: case 21: { name = "clone-inner-layer"; if (!a->inner_pdu() || pool.size() >= 12) break; PDU* layer = a->inner_pdu(); u32 depth = r.below(3); while (depth-- && layer->inner_pdu()) layer = layer->inner_pdu();
                      // a copy of a layer that sits inside a packet is a new root: it owns a copy of everything below that layer and has no parent
                      PDU* c = nullptr; const Ops* o = ops_for(layer);
                      if (op == 20 || !o) { c = layer->clone(); g_prog += "clone(inner layer of #" + std::to_string(ai) + ":" + cls(layer) + "); "; } else { c = o->copy_construct(layer); g_prog += "copy-ctor(inner layer of #" + std::to_string(ai) + ":" + o->name + "); "; }
                      pool.push_back(c);
                      { std::string ca, cb; for (const PDU* q = layer; q; q = q->inner_pdu()) ca += cls(q) + "/"; for (const PDU* q = c; q; q = q->inner_pdu()) cb += cls(q) + "/"; if (ca != cb) violation("clone-inner-layer/layers-differ/" + cls(layer), "copy of an inner layer has layers " + cb + " instead of " + ca + " :: " + g_prog); }
                      if (r.chance(1, 2)) { delete a; pool.erase(pool.begin() + ai); g_prog += "delete #" + std::to_string(ai) + " (the source); "; }      // the copy must not depend on the source being alive
                      { Snapshot sc = snap(pool.back()); (void)sc; }
                      cnt("op:clone-inner-layer"); break; }
            case 22: { name = "packet-assign-from-empty"; if (packets.empty()) break; Packet* d = packets[r.below((u32)packets.size())]; Packet empty; u32 how = r.below(2);
                      if (how == 0) { *d = empty; g_prog += "Packet = empty Packet; "; } else { Packet e2; *d = std::move(e2); g_prog += "Packet = move(empty Packet); "; }
                      if (d->pdu()) violation("packet-assign-from-empty/target-keeps-pdu", "a Packet assigned from an empty Packet still holds its old layers (copy is not equal to its source) :: " + g_prog);
                      cnt("op:packet-assign-from-empty"); break; }
            case 23: { name = "inner_pdu(ref)-of-own-tree";      // the argument is the target itself or one of its own layers: the copy is taken before anything is released
                      std::vector<PDU*> ch; for (PDU* q = a; q && ch.size() < 16; q = q->inner_pdu()) ch.push_back(q); if (ch.size() > 12 || too_big(a, a)) break;
                      PDU* at = ch[r.below((u32)ch.size())]; PDU* x = ch[r.below((u32)ch.size())];
                      Snapshot sx = snap(x); size_t lx = 0; for (PDU* q = x; q; q = q->inner_pdu()) ++lx;
                      g_prog += "#" + std::to_string(ai) + ": layer " + cls(at) + ".inner_pdu(ref to its own tree's layer " + cls(x) + "); "; describe_case(g_prog);
                      at->inner_pdu(*x);
                      size_t ln = 0; for (PDU* q = at->inner_pdu(); q; q = q->inner_pdu()) ++ln;
                      if (ln != lx) { violation("inner_pdu-ref/own-tree/layer-count", "the attached copy has " + std::to_string(ln) + " layers, the argument had " + std::to_string(lx) + " :: " + g_prog); break; }
                      if (sx.ok) { Snapshot sn = snap(at->inner_pdu()); if (sn.ok && sn.chain != sx.chain) violation("inner_pdu-ref/own-tree/not-equal", "the attached copy (" + sn.chain + ") is not equal to the argument at the time of the call (" + sx.chain + ") :: " + g_prog); }
                      cnt("op:inner_pdu-ref-own-tree"); break; }
            default: { name = "inner-replace-self-clone"; if (!a->inner_pdu()) break; a->inner_pdu(a->inner_pdu()->clone()); g_prog += "#" + std::to_string(ai) + ".inner_pdu(clone of its own child); "; cnt("op:replace-child-with-its-clone"); }
        }
        if (name.empty()) continue;
        describe_case(g_prog);
        if (!check_forest(name)) break;
    }
    for (PDU* p : pool) delete p; pool.clear();
    for (Packet* p : packets) delete p; packets.clear();
    if (!g_live.empty()) violation("leak-at-exit/" + cls(g_live.begin()->first), std::to_string(g_live.size()) + " PDU objects still alive after every root was destroyed :: " + g_prog);
    g_hook_on = false; cnt("hook_events", g_events); g_events = 0;
    sig(fnv(g_prog)); if (want_sample() && g_prog.size() < 900) sample(g_prog);
}

// ---- PDUOption value semantics ------------------------------------------------------------------------------------
static void option_program(Rng& r) {
    typedef PDUOption<uint8_t, TCP> Opt; static const u32 sizes[] = {0, 1, 7, 8, 9, 16, 300};
    struct M { u8 code; u16 lf; Bytes data; };      // a copy equals its source in all three: code, length field (which may differ from the data size: 4-argument constructor) and bytes
    std::vector<Opt> v; std::vector<M> model; std::string prog;
    auto fresh = [&](M& m) { m.code = r.byte(); m.data = r.bytes(sizes[r.below(7)]); bool spoof = r.chance(1, 4); m.lf = spoof ? (u16)(r.chance(1, 2) ? r.below(600) : m.data.size() + 1 + r.below(3)) : (u16)m.data.size(); if (spoof) cnt("option:spoofed-length-field");
                             return spoof ? Opt(m.code, m.lf, m.data.begin(), m.data.end()) : Opt(m.code, m.data.begin(), m.data.end()); };
    for (u32 s = 0; s < 30; ++s) {
        u32 op = r.below(7);
        if (v.empty() || op == 0) { M m; v.push_back(fresh(m)); model.push_back(m); prog += "new(" + std::to_string(m.data.size()) + (m.lf != m.data.size() ? ",lf=" + std::to_string(m.lf) : "") + ") "; }
        else { u32 i = r.below((u32)v.size()), j = r.below((u32)v.size());
            switch (op) { case 1: v[i] = v[j]; model[i] = model[j]; prog += (i == j ? "self-assign(" : "assign(") + std::to_string(model[j].data.size()) + ") "; if (i == j) cnt("option:self-assign"); break;
                case 2: { Opt c(v[j]); v.push_back(c); model.push_back(model[j]); prog += "copy "; break; }
                case 3: { if (i == j) break; v[i] = std::move(v[j]); model[i] = model[j]; M m; m.code = 1; m.lf = 0; v[j] = Opt(1, m.data.begin(), m.data.end()); model[j] = m; prog += "move-assign "; break; }
                case 4: { Opt c(std::move(v[j])); v.push_back(c); model.push_back(model[j]); M m; m.code = 2; m.lf = 0; v[j] = Opt(2); model[j] = m; prog += "move-ctor "; break; }
                case 5: { v.erase(v.begin() + i); model.erase(model.begin() + i); prog += "erase "; break; }
                default: { std::swap(v[i], v[j]); std::swap(model[i], model[j]); prog += "swap "; } } }
        describe_case("options: " + prog);
        for (size_t k = 0; k < v.size(); ++k) {
            if (v[k].data_size() != model[k].data.size() || (model[k].data.size() && memcmp(v[k].data_ptr(), model[k].data.data(), model[k].data.size()))) { violation("option-value/" + std::string(model[k].data.size() > 8 ? "heap" : "small"), "PDUOption content differs from the model after: " + prog); return; }
            if (v[k].option() != model[k].code || v[k].length_field() != model[k].lf) { violation("option-value/code-or-length-field", "PDUOption #" + std::to_string(k) + " has option()=" + std::to_string(v[k].option()) + " length_field()=" + std::to_string(v[k].length_field()) + ", the model says " + std::to_string(model[k].code) + " / " + std::to_string(model[k].lf) + " after: " + prog); return; } }
        cnt("option_checks");
    }
    sig(fnv(prog));
}

int main(int argc, char** argv) {
    register_ops();
    return vf::run(argc, argv, "C12", [&](long idx, Rng& r) {
        if (idx == 0) cnt("typed_classes", g_ops.size());
        if (st().a.mode == "options") { option_program(r); return; }
        size_t l0 = live_bytes(); program(r); size_t l1 = live_bytes();
        if (l1 > l0 + (1 << 20)) cnt("allocation_growth_over_1MiB");
    }, [&]() { Verif::lifetime_hook = &life_hook; });
}
