// C13 — layer look-up and casts never hand back an object of the wrong type.
// Exhaustive over K (every concrete PDU class of the current headers + PDUCacher<X>) x T
// (every class with a pdu_flag). The predicate libtins uses (matches_flag / pdu_type) is
// evaluated first; the real find_pdu<T>/tins_cast<T*> are only executed when that is safe
// (a wrong static_cast would itself be UB), and their results are compared with dynamic_cast.
#include "verif.h"
#include <tins/tins.h>
#include <tins/pktap.h>
#include <tins/loopback.h>
#include <type_traits>
using namespace Tins;
using namespace vf;

template <class T, class = void> struct has_flag : std::false_type {};
template <class T> struct has_flag<T, decltype(void(T::pdu_flag))> : std::true_type {};

struct TDesc {
    std::string name; PDU::PDUType flag;
    void* (*dyn)(PDU*); void* (*find)(PDU*); void* (*cast)(PDU*); bool (*rfind_throws)(PDU*);
    void* (*dyn_cached)(PDU*);   // for T = PDUCacher<X>: dynamic_cast<X*>
};
struct KDesc { std::string name; std::function<PDU*()> make; void* (*find_own)(PDU*); void* (*cast_own)(PDU*); void* (*dyn_own)(PDU*); bool cacher; std::function<PDU*()> make_cached; };
static std::vector<TDesc> Ts; static std::vector<KDesc> Ks; static std::vector<std::string> abstract_or_unmakeable;

template <class T> void add_T(const char* name, std::true_type) {
    TDesc d; d.name = name; d.flag = T::pdu_flag;
    d.dyn = [](PDU* p) -> void* { return dynamic_cast<T*>(p); };
    d.find = [](PDU* p) -> void* { return p->find_pdu<T>(); };
    d.cast = [](PDU* p) -> void* { return tins_cast<T*>(p); };
    d.rfind_throws = [](PDU* p) { try { p->rfind_pdu<T>(); } catch (pdu_not_found&) { return true; } return false; };
    d.dyn_cached = nullptr;
    Ts.push_back(d);
}
template <class T> void add_T(const char*, std::false_type) {}

template <class K> PDU* make_default(std::true_type) { return new K(); }
template <class K> PDU* make_default(std::false_type) { return nullptr; }
template <class K> struct Maker { static PDU* go(int defctor) { return defctor ? make_default<K>(std::integral_constant<bool, !std::is_abstract<K>::value && std::is_default_constructible<K>::value>()) : nullptr; } };
template <> struct Maker<RawPDU> { static PDU* go(int) { return new RawPDU("payload"); } };
template <> struct Maker<PPI> { static PDU* go(int) {
    static const uint8_t b[] = {0, 0, 8, 0, 105, 0, 0, 0, 0xd4, 0, 0, 0, 1, 2, 3, 4, 5, 6};
    return new PPI(b, sizeof b); } };

template <class K> void add_own(KDesc& d, std::true_type) {
    d.find_own = [](PDU* p) -> void* { return p->find_pdu<K>(); };
    d.cast_own = [](PDU* p) -> void* { return tins_cast<K*>(p); };
    d.dyn_own = [](PDU* p) -> void* { return dynamic_cast<K*>(p); };
}
template <class K> void add_own(KDesc& d, std::false_type) { d.find_own = d.cast_own = d.dyn_own = nullptr; }

template <class K, bool ok> struct CacherOf { static void add(const std::string& kname, int defctor) {
    KDesc d; d.name = "PDUCacher<" + kname + ">"; d.cacher = true;
    d.make = [defctor]() -> PDU* { PDU* in = Maker<K>::go(defctor); if (!in) return nullptr; K* t = dynamic_cast<K*>(in); PDU* r = new PDUCacher<K>(*t); delete in; return r; };
    d.make_cached = [defctor]() -> PDU* { return Maker<K>::go(defctor); };
    add_own<PDUCacher<K>>(d, std::true_type());
    Ks.push_back(d);
    add_T<PDUCacher<K>>(d.name.c_str(), std::true_type());
    Ts.back().dyn_cached = [](PDU* p) -> void* { return dynamic_cast<K*>(p); };
} };
template <class K> struct CacherOf<K, false> { static void add(const std::string&, int) {} };

template <class K> void add_K(const char* name, int concrete, int defctor) {
    add_T<K>(name, has_flag<K>());
    if (!concrete || std::is_abstract<K>::value) { abstract_or_unmakeable.push_back(name); return; }
    KDesc d; d.name = name; d.cacher = false;
    d.make = [defctor]() -> PDU* { return Maker<K>::go(defctor); };
    add_own<K>(d, has_flag<K>());
    Ks.push_back(d);
    CacherOf<K, std::is_copy_constructible<K>::value && !std::is_abstract<K>::value && has_flag<K>::value>::add(name, defctor);
}

static void build_tables() {
#define VF_PDU_CLASS(Q, N, CONCRETE, DEFCTOR, BUFCTOR) add_K<Q>(#N, CONCRETE, DEFCTOR);
#define VF_GEN_CLASSES
#include "gen_tins.inc"
#undef VF_GEN_CLASSES
}

static void run_K(const KDesc& kd) {
    describe_case("K=" + kd.name);
    PDU* k = kd.make();
    if (!k) {
        if (!kd.cacher) { cnt("unconstructible"); violation("harness/unconstructible/K=" + kd.name, "the monitor cannot construct this concrete class (protected/odd constructor); add a Maker"); }
        return;
    }
    cnt("objects");
    PDU* cached = kd.cacher ? kd.make_cached() : nullptr;
    EthernetII outer; outer.inner_pdu(k->clone());
    PDU* inchain = outer.inner_pdu();
    for (const TDesc& t : Ts) {
        cnt("pairs");
        std::string pair = "K=" + kd.name + ",T=" + t.name;
        sig(pair);
        // For the caching wrapper: is T the cached class or one of its bases? (the listed design-level finding)
        bool al = (cached && t.dyn(cached)) || (t.dyn_cached && (t.dyn_cached(k) || (cached && t.dyn_cached(cached))));
        std::string alias = al ? "cacher-alias/" : "";
        bool really = t.dyn(k) != nullptr;
        bool would_find = k->matches_flag(t.flag);
        if (would_find && !really) violation("find_pdu/" + alias + pair, "find_pdu<" + t.name + "> succeeds on a " + kd.name + " which is not a " + t.name);
        else if (would_find) { cnt("find_succeeded"); if (t.find(k) != t.dyn(k)) violation("find_pdu-address/" + pair, "find_pdu returned a different address than dynamic_cast"); }
        else if (!k->inner_pdu() && t.find(k) != nullptr) violation("find_pdu-inconsistent/" + pair, "matches_flag false but find_pdu non-null");
        bool would_cast = (t.flag == k->pdu_type());
        if (would_cast && !really) violation("tins_cast/" + alias + pair, "tins_cast<" + t.name + "*> succeeds on a " + kd.name + " which is not a " + t.name);
        else if (would_cast) { cnt("cast_succeeded"); if (t.cast(k) != t.dyn(k)) violation("tins_cast-address/" + pair, "tins_cast returned a different address than dynamic_cast"); }
        else if (t.cast(k) != nullptr) violation("tins_cast-inconsistent/" + pair, "flag differs but tins_cast non-null");
        // inside a chain EthernetII / k: the first layer libtins would return must really be a T
        PDU* first = nullptr;
        for (PDU* p = &outer; p; p = p->inner_pdu()) if (p->matches_flag(t.flag)) { first = p; break; }
        std::string calias = (al || (first && t.dyn_cached && t.dyn_cached(first))) ? "cacher-alias/" : "";
        if (first && !t.dyn(first)) violation("find_pdu-chain/" + calias + pair, "chain search for " + t.name + " in EthernetII/" + kd.name + " stops at a layer that is not one");
        else {
            if (t.find(&outer) != (first ? t.dyn(first) : nullptr)) violation("find_pdu-chain-address/" + pair, "chain search result differs from the first real " + t.name);
            if (t.rfind_throws(&outer) != (first == nullptr)) violation("rfind_pdu/" + pair, "rfind_pdu throw/no-throw disagrees with find_pdu");
        }
        (void)inchain;
    }
    if (kd.find_own) {
        cnt("own_class_checks");
        if (kd.find_own(k) != kd.dyn_own(k) || !kd.dyn_own(k)) violation("find-own-class/K=" + kd.name, "find_pdu<K>(k) != &k");
        if (kd.cast_own(k) != kd.dyn_own(k)) violation("cast-own-class/K=" + kd.name, "tins_cast<K*>(&k) != &k");
        if (!outer.matches_flag(k->pdu_type()) && kd.find_own(&outer) != kd.dyn_own(inchain)) violation("find-own-class-chain/K=" + kd.name, "find_pdu<K>(EthernetII/k) does not return k");
    }
    delete cached; delete k;
}

int main(int argc, char** argv) {
    build_tables();
    return vf::run(argc, argv, "C13", [&](long idx, Rng&) {
        if (idx == 0) { cnt("K_classes", Ks.size()); cnt("T_classes", Ts.size()); cnt("abstract_classes_skipped_as_K", abstract_or_unmakeable.size());
            std::string ks; for (auto& k : Ks) if (!k.cacher) ks += k.name + " "; sample("K (plus PDUCacher<K> of each): " + ks);
            std::string ts; for (auto& t : Ts) ts += t.name + " "; sample("T: " + ts); }
        if ((size_t)idx < Ks.size()) run_K(Ks[idx]);
    });
}
