// C13 — layer look-up and casts never hand back an object of the wrong type.
// Exhaustive over K (every concrete PDU class of the current headers + PDUCacher<X>) x T
// (every class with a pdu_flag). The predicate libtins uses (matches_flag / pdu_type) is
// evaluated first; the real find_pdu<T>/tins_cast<T*> are only executed when that is safe
// (a wrong static_cast would itself be UB), and their results are compared with dynamic_cast.
#include "verif.h"
#include "inputs.h"
#include "pktgen.h"
#include <tins/tins.h>
#include <tins/pktap.h>
#include <tins/loopback.h>
#include <type_traits>
using namespace Tins;
using namespace vf;

template <class T, class = void> struct has_flag : std::false_type {};
template <class T> struct has_flag<T, decltype(void(T::pdu_flag))> : std::true_type {};

struct TDesc {
    std::string name; PDU::PDUType flag;
    void* (*dyn)(PDU*); void* (*find)(PDU*); void* (*cast)(PDU*); bool (*rfind_throws)(PDU*);
    void* (*dyn_cached)(PDU*);   // for T = PDUCacher<X>: dynamic_cast<X*>
};
struct KDesc { const std::type_info* ti = nullptr; std::function<PDU*(const u8*, u32)> from_bytes; std::string name; std::function<PDU*()> make; void* (*find_own)(PDU*); void* (*cast_own)(PDU*); void* (*dyn_own)(PDU*); bool cacher; std::function<PDU*()> make_cached; std::function<PDU*()> make_stacked; };
static std::vector<TDesc> Ts; static std::vector<KDesc> Ks; static std::vector<std::string> abstract_or_unmakeable;

template <class T> void add_T(const char* name, std::true_type) {
    TDesc d; d.name = name; d.flag = T::pdu_flag;
    d.dyn = [](PDU* p) -> void* { return dynamic_cast<T*>(p); };
    d.find = [](PDU* p) -> void* { return p->find_pdu<T>(); };
    d.cast = [](PDU* p) -> void* { return tins_cast<T*>(p); };
    d.rfind_throws = [](PDU* p) { try { p->rfind_pdu<T>(); } catch (pdu_not_found&) { return true; } return false; };
    d.dyn_cached = nullptr;
    Ts.push_back(d);
}
template <class T> void add_T(const char*, std::false_type) {}

template <class K> PDU* make_default(std::true_type) { return new K(); }
template <class K> PDU* make_default(std::false_type) { return nullptr; }
template <class K> struct Maker { static PDU* go(int defctor) { return defctor ? make_default<K>(std::integral_constant<bool, !std::is_abstract<K>::value && std::is_default_constructible<K>::value>()) : nullptr; } };
template <> struct Maker<RawPDU> { static PDU* go(int) { return new RawPDU("payload"); } };
template <> struct Maker<PPI> { static PDU* go(int) {
    static const uint8_t b[] = {0, 0, 8, 0, 105, 0, 0, 0, 0xd4, 0, 0, 0, 1, 2, 3, 4, 5, 6};
    return new PPI(b, sizeof b); } };

template <class K> void add_own(KDesc& d, std::true_type) {
    d.find_own = [](PDU* p) -> void* { return p->find_pdu<K>(); };
    d.cast_own = [](PDU* p) -> void* { return tins_cast<K*>(p); };
    d.dyn_own = [](PDU* p) -> void* { return dynamic_cast<K*>(p); };
}
template <class K> void add_own(KDesc& d, std::false_type) { d.find_own = d.cast_own = d.dyn_own = nullptr; }

template <class K, bool ok> struct CacherOf { static void add(const std::string& kname, int defctor) {
    KDesc d; d.name = "PDUCacher<" + kname + ">"; d.cacher = true;
    d.make = [defctor]() -> PDU* { PDU* in = Maker<K>::go(defctor); if (!in) return nullptr; K* t = dynamic_cast<K*>(in); PDU* r = new PDUCacher<K>(*t); delete in; return r; };
    d.make_cached = [defctor]() -> PDU* { return Maker<K>::go(defctor); };
    // a wrapper around a packet with layers below the wrapped one: those layers belong to the wrapped object, the wrapper itself is none of them
    d.make_stacked = [defctor]() -> PDU* { PDU* in = Maker<K>::go(defctor); if (!in) return nullptr; if (!in->inner_pdu()) in->inner_pdu(IP("1.2.3.4", "4.3.2.1") / UDP(53, 1025) / RawPDU("payload")); K* t = dynamic_cast<K*>(in); PDU* r = new PDUCacher<K>(*t); delete in; return r; };
    add_own<PDUCacher<K>>(d, std::true_type());
    Ks.push_back(d);
    add_T<PDUCacher<K>>(d.name.c_str(), std::true_type());
    Ts.back().dyn_cached = [](PDU* p) -> void* { return dynamic_cast<K*>(p); };
} };
template <class K> struct CacherOf<K, false> { static void add(const std::string&, int) {} };

template <class K> PDU* parse_as(const u8* b, u32 n, std::true_type) { return new K(b, n); }
template <class K> PDU* parse_as(const u8*, u32, std::false_type) { return nullptr; }
template <class K> void add_K(const char* name, int concrete, int defctor) {
    add_T<K>(name, has_flag<K>());
    if (!concrete || std::is_abstract<K>::value) { abstract_or_unmakeable.push_back(name); return; }
    KDesc d; d.name = name; d.cacher = false;
    d.make = [defctor]() -> PDU* { return Maker<K>::go(defctor); };
    d.ti = &typeid(K);
    d.from_bytes = [](const u8* b, u32 n) -> PDU* { return parse_as<K>(b, n, std::integral_constant<bool, std::is_constructible<K, const uint8_t*, uint32_t>::value>()); };
    add_own<K>(d, has_flag<K>());
    Ks.push_back(d);
    CacherOf<K, std::is_copy_constructible<K>::value && !std::is_abstract<K>::value && has_flag<K>::value>::add(name, defctor);
}

static void build_tables() {
#define VF_PDU_CLASS(Q, N, CONCRETE, DEFCTOR, BUFCTOR) add_K<Q>(#N, CONCRETE, DEFCTOR);
#define VF_GEN_CLASSES
#include "gen_tins.inc"
#undef VF_GEN_CLASSES
}

static void run_K_obj(const KDesc& kd, PDU* k, const std::string& variant);
static void run_K(const KDesc& kd) {
    run_K_obj(kd, kd.make(), "");
    if (kd.cacher && kd.make_stacked) { PDU* s = kd.make_stacked(); if (s) { cnt("stacked_cacher_objects"); run_K_obj(kd, s, " (wrapping a packet with IP/UDP/RawPDU below)"); } }
}
static void run_K_obj(const KDesc& kd, PDU* k, const std::string& variant) {
    describe_case("K=" + kd.name + variant);
    if (!k) {
        if (!kd.cacher) { cnt("unconstructible"); violation("harness/unconstructible/K=" + kd.name, "the monitor cannot construct this concrete class (protected/odd constructor); add a Maker"); }
        return;
    }
    cnt("objects");
    PDU* cached = kd.cacher ? kd.make_cached() : nullptr;
    EthernetII outer; outer.inner_pdu(k->clone());
    PDU* inchain = outer.inner_pdu();
    for (const TDesc& t : Ts) {
        cnt("pairs");
        std::string pair = "K=" + kd.name + ",T=" + t.name;
        sig(pair);
        // For the caching wrapper: is T the cached class or one of its bases? (the listed design-level finding)
        bool al = (cached && t.dyn(cached)) || (t.dyn_cached && (t.dyn_cached(k) || (cached && t.dyn_cached(cached))));
        std::string alias = al ? "cacher-alias/" : "";
        bool really = t.dyn(k) != nullptr;
        bool would_find = k->matches_flag(t.flag);
        if (would_find && !really) violation("find_pdu/" + alias + pair, "find_pdu<" + t.name + "> succeeds on a " + kd.name + " which is not a " + t.name);
        else if (would_find) { cnt("find_succeeded"); if (t.find(k) != t.dyn(k)) violation("find_pdu-address/" + pair, "find_pdu returned a different address than dynamic_cast"); }
        else if (!k->inner_pdu() && t.find(k) != nullptr) violation("find_pdu-inconsistent/" + pair, "matches_flag false but find_pdu non-null");
        bool would_cast = (t.flag == k->pdu_type());
        if (would_cast && !really) violation("tins_cast/" + alias + pair, "tins_cast<" + t.name + "*> succeeds on a " + kd.name + " which is not a " + t.name);
        else if (would_cast) { cnt("cast_succeeded"); if (t.cast(k) != t.dyn(k)) violation("tins_cast-address/" + pair, "tins_cast returned a different address than dynamic_cast"); }
        else if (t.cast(k) != nullptr) violation("tins_cast-inconsistent/" + pair, "flag differs but tins_cast non-null");
        // inside a chain EthernetII / k: the first layer libtins would return must really be a T
        PDU* first = nullptr;
        for (PDU* p = &outer; p; p = p->inner_pdu()) if (p->matches_flag(t.flag)) { first = p; break; }
        std::string calias = (al || (first && t.dyn_cached && t.dyn_cached(first))) ? "cacher-alias/" : "";
        if (first && !t.dyn(first)) violation("find_pdu-chain/" + calias + pair, "chain search for " + t.name + " in EthernetII/" + kd.name + " stops at a layer that is not one");
        else {
            if (t.find(&outer) != (first ? t.dyn(first) : nullptr)) violation("find_pdu-chain-address/" + pair, "chain search result differs from the first real " + t.name);
            if (t.rfind_throws(&outer) != (first == nullptr)) violation("rfind_pdu/" + pair, "rfind_pdu throw/no-throw disagrees with find_pdu");
        }
        (void)inchain;
    }
    if (kd.find_own) {
        cnt("own_class_checks");
        if (kd.find_own(k) != kd.dyn_own(k) || !kd.dyn_own(k)) violation("find-own-class/K=" + kd.name, "find_pdu<K>(k) != &k");
        if (kd.cast_own(k) != kd.dyn_own(k)) violation("cast-own-class/K=" + kd.name, "tins_cast<K*>(&k) != &k");
        if (!outer.matches_flag(k->pdu_type()) && kd.find_own(&outer) != kd.dyn_own(inchain)) violation("find-own-class-chain/K=" + kd.name, "find_pdu<K>(EthernetII/k) does not return k");
    }
    delete cached; delete k;
}

// ---- objects whose header fields are not the defaults --------------------------------------------------------
// The pairs sweep uses default-constructed objects. Whether a search/cast may succeed must not depend on what the
// object holds, so the same rule is applied to every layer of objects in other states: parsed from bytes (seeds,
// mutations, generated packets, every value of the first header octet per class), built through the API, edited with setters.
static const KDesc* kdesc_of(const PDU* p) { for (const KDesc& k : Ks) if (!k.cacher && k.ti && *k.ti == typeid(*p)) return &k; return nullptr; }
static void check_layer(PDU* l, const std::string& how) {
    std::string kn = vf::demangle(typeid(*l).name()); if (kn.compare(0, 6, "Tins::") == 0) kn = kn.substr(6);
    cnt("layers_checked"); sig(mix(fnv(kn), (u64)l->pdu_type()));
    for (const TDesc& t : Ts) {
        bool really = t.dyn(l) != nullptr;
        const std::string sd = (t.dyn_cached && t.dyn_cached(l)) ? "cacher-alias/" : "state-dependent/";     // T = PDUCacher<X> asked of an X: the listed design-level finding, same key as in the pairs sweep
        if (l->matches_flag(t.flag)) { if (!really) { violation("find_pdu/" + sd + "K=" + kn + ",T=" + t.name, "find_pdu<" + t.name + "> succeeds on a " + kn + " object (" + how + ") that is not a " + t.name); continue; } cnt("find_succeeded"); if (!l->inner_pdu() && t.find(l) != t.dyn(l)) violation("find_pdu-address/K=" + kn + ",T=" + t.name, "find_pdu returned a different address than dynamic_cast (" + how + ")"); }
        else if (!l->inner_pdu() && t.find(l) != nullptr) { violation("find_pdu-inconsistent/" + sd + "K=" + kn + ",T=" + t.name, "matches_flag(" + t.name + "::pdu_flag) is false but find_pdu<" + t.name + "> returns the object (" + how + ")"); continue; }      // the real helper, not only the predicate it is documented to use
        if (t.flag != l->pdu_type() && t.cast(l) != nullptr) { violation("tins_cast-inconsistent/" + sd + "K=" + kn + ",T=" + t.name, "pdu_type() differs from " + t.name + "::pdu_flag but tins_cast succeeds (" + how + ")"); continue; }
        if (t.flag == l->pdu_type()) { if (!really) { violation("tins_cast/" + sd + "K=" + kn + ",T=" + t.name, "tins_cast<" + t.name + "*> succeeds on a " + kn + " object (" + how + ") that is not a " + t.name); continue; } cnt("cast_succeeded"); if (t.cast(l) != t.dyn(l)) violation("tins_cast-address/K=" + kn + ",T=" + t.name, "tins_cast returned a different address than dynamic_cast (" + how + ")"); }
        cnt("pairs");
    }
    if (const KDesc* kd = kdesc_of(l)) if (kd->find_own) {
        cnt("own_class_checks");
        if (!l->matches_flag(l->pdu_type())) violation("find-own-class/state-dependent/K=" + kn, "an object does not match its own pdu_type() (" + how + ")");
        else { if (kd->find_own(l) != kd->dyn_own(l)) violation("find-own-class/state-dependent/K=" + kn, "find_pdu<K>(k) != &k for an object of exact class K (" + how + ")");
               if (kd->cast_own(l) != kd->dyn_own(l)) violation("cast-own-class/state-dependent/K=" + kn, "tins_cast<K*>(&k) != &k for an object of exact class K (" + how + ")"); }
    }
}
static void check_object(PDU* root, const std::string& how) { cnt("objects"); u32 depth = 0; for (PDU* l = root; l && depth < 24; l = l->inner_pdu(), ++depth) check_layer(l, how); }
static void run_objects(long idx, Rng& r) {
    // (a) per class: default serialization with every value of the first octets, parsed back through the same class
    if ((size_t)idx < Ks.size()) {
        const KDesc& kd = Ks[idx]; if (kd.cacher) return;
        std::unique_ptr<PDU> k(kd.make()); if (!k) return;
        Bytes base; try { if (!dynamic_cast<IP*>(k.get())) base = k->serialize(); } catch (...) {}
        if (dynamic_cast<IP*>(k.get())) { IP ip("1.2.3.4", "4.3.2.1"); base = ip.serialize(); }
        describe_case("objects: first-octet sweep K=" + kd.name);
        for (u32 pos = 0; pos < 16 && pos < base.size(); ++pos) for (u32 v = 0; v < 256; ++v) {
            Bytes b = base; b[pos] = (u8)v; if (b.size() < 64) b.resize(b.size() + 32, 0);
            std::unique_ptr<PDU> p; try { ExactBuf eb(b); p.reset(kd.from_bytes(eb.data(), (u32)b.size())); } catch (const exception_base&) { cnt("first_octet_rejected"); continue; }
            if (!p) break;
            cnt("first_octet_objects"); check_object(p.get(), "parsed with octet " + std::to_string(pos) + " = " + std::to_string(v));
        }
        // setters that exist on whole families
        if (Dot11* d = dynamic_cast<Dot11*>(k.get())) for (u32 ty = 0; ty < 4; ++ty) for (u32 st = 0; st < 16; ++st) { d->type(ty); d->subtype(st); cnt("dot11_type_subtype_objects"); check_object(d, "type(" + std::to_string(ty) + ") subtype(" + std::to_string(st) + ")"); std::unique_ptr<PDU> c(d->clone()); check_object(c.get(), "clone after type/subtype setters"); }
        return;
    }
    // (a') base-class (slicing) copies of derived layers, taken after look-ups have walked over the derived object: the copy really is a Base
    if ((size_t)idx == Ks.size()) {
        auto slice = [&](PDU* derived, PDU* base_copy, const char* what) { std::unique_ptr<PDU> d(derived), b(base_copy); cnt("sliced_copies"); check_object(b.get(), std::string("base-class copy: ") + what); check_object(d.get(), std::string("source of a base-class copy: ") + what); };
        { Dot11QoSData* q = new Dot11QoSData(); q->find_pdu<Dot11QoSData>(); q->find_pdu<Dot11Data>(); q->find_pdu<Dot11>(); slice(q, new Dot11Data(*q), "Dot11Data(Dot11QoSData)"); }
        { Dot11QoSData* q = new Dot11QoSData(); q->find_pdu<Dot11QoSData>(); slice(q, new Dot11(*q), "Dot11(Dot11QoSData)"); }
        { Dot11Data* q = new Dot11Data(); q->find_pdu<Dot11Data>(); slice(q, new Dot11(*q), "Dot11(Dot11Data)"); }
        { DHCP* q = new DHCP(); q->find_pdu<DHCP>(); q->find_pdu<BootP>(); slice(q, new BootP(*q), "BootP(DHCP)"); }
        { Dot11Beacon* q = new Dot11Beacon(); q->find_pdu<Dot11Beacon>(); q->find_pdu<Dot11ManagementFrame>(); slice(q, new Dot11(*q), "Dot11(Dot11Beacon)"); }
        { Dot11RTS* q = new Dot11RTS(); q->find_pdu<Dot11RTS>(); q->find_pdu<Dot11Control>(); slice(q, new Dot11Control(*q), "Dot11Control(Dot11RTS)"); }
        { Dot11BlockAck* q = new Dot11BlockAck(); q->find_pdu<Dot11BlockAck>(); slice(q, new Dot11(*q), "Dot11(Dot11BlockAck)"); }
        // and inside a chain, found through the chain search first
        { EthernetII e = EthernetII() / IP("1.2.3.4", "4.3.2.1") / UDP(67, 68) / DHCP(); e.find_pdu<DHCP>(); e.find_pdu<BootP>(); DHCP* dh = e.find_pdu<DHCP>(); if (dh) { BootP* b = new BootP(*dh); std::unique_ptr<PDU> bb(b); check_object(b, "BootP copy of a DHCP found in a chain"); cnt("sliced_copies"); } }
        return;
    }
    // (b) API-built packets, (c) parsed seeds / mutations / generated inputs
    if (idx % 2 == 0) { PktGen g(r); std::unique_ptr<PDU> p(g.packet()); describe_case("objects: built " + g.trace); check_object(p.get(), "built: " + g.trace); cnt("built_objects"); return; }
    std::vector<size_t> pe; for (size_t i = 0; i < entries.size(); ++i) if (entries[i].ispdu) pe.push_back(i);
    const Entry& e = entries[pe[(idx / 2) % pe.size()]];
    auto one = [&](const Bytes& in, const char* how) {
        describe_case(std::string("objects: parsed entry=") + e.name + " how=" + how + " hex=" + hex(in, 1024));
        std::unique_ptr<PDU> p; try { ExactBuf buf(in); p.reset(e.parse(buf.data(), (u32)in.size())); } catch (...) { return; }
        if (!p) return; cnt("parsed_objects"); check_object(p.get(), std::string("parsed by ") + e.name + " from " + hex(in, 120));
    };
    u32 op = r.below(3);
    if (op == 0 && !seeds.empty()) { const Bytes& s = seeds[r.below((u32)seeds.size())].b; one(s, "seed"); for (int i = 0; i < 10; ++i) one(mutate(s, r), "mut-seed"); }
    else if (op == 1) { const Bytes& s = accepted_seed_for(e, r); one(s, "seed"); for (int i = 0; i < 20; ++i) one(mutate(s, r), "mut-seed"); }
    else { Bytes s = generated_for(e, r, nullptr); one(s, "gen"); for (int i = 0; i < 20; ++i) one(mutate(s, r), "mut-gen"); }
}

int main(int argc, char** argv) {
    build_tables();
    register_all();
    return vf::run(argc, argv, "C13", [&](long idx, Rng& r) {
        if (st().a.mode == "objects") { run_objects(idx, r); return; }
        if (idx == 0) { cnt("K_classes", Ks.size()); cnt("T_classes", Ts.size()); cnt("abstract_classes_skipped_as_K", abstract_or_unmakeable.size());
            std::string ks; for (auto& k : Ks) if (!k.cacher) ks += k.name + " "; sample("K (plus PDUCacher<K> of each): " + ks);
            std::string ts; for (auto& t : Ts) ts += t.name + " "; sample("T: " + ts); }
        if ((size_t)idx < Ks.size()) run_K(Ks[idx]);
    }, [&]() { load_seeds(st().a.get("corpus")); });
}
