// C14 — response matching accepts mirrored replies, rejects strangers, is memory-safe.
// mode "pairs":  a request object is built through the public libtins API from a shadow description; the mirrored
//                reply (and every single-field perturbation of it) is produced by the byte encoder in THIS file
//                (own header layouts, own checksums) and handed to request.matches_response(); the verdict of
//                every single call is compared with the expectation derived from the shadow alone.
// mode "safety": every concrete PDU class of the current headers (alone / with inner layers) and generated request
//                stacks x every buffer length 0..128 x {zeros, random, prefix of a true mirror, byte-mutated and
//                structure-mutated mirror, misaligned start}; the buffer is an exact-size heap block, so a read
//                outside it is an ASan report (UBSan watches alignment / arithmetic).
#include "verif.h"
#include <tins/tins.h>
#include <tins/pktap.h>
#include <tins/loopback.h>
#include <memory>
#include <type_traits>
using namespace Tins;
using namespace vf;

// ---- own byte encoder --------------------------------------------------------------------------------
static void p16(Bytes& b, u32 v) { b.push_back((u8)(v >> 8)); b.push_back((u8)v); }
static void p32(Bytes& b, u32 v) { p16(b, v >> 16); p16(b, v & 0xffff); }
static void pN(Bytes& b, const u8* p, size_t n) { b.insert(b.end(), p, p + n); }
static u32 csum_add(u32 s, const u8* p, size_t n) { for (size_t i = 0; i + 1 < n; i += 2) s += (u32)(p[i] << 8 | p[i + 1]); if (n & 1) s += (u32)p[n - 1] << 8; return s; }
static u16 csum_fin(u32 s) { while (s >> 16) s = (s & 0xffff) + (s >> 16); return (u16)~s; }

enum { L_TCP, L_UDP_RAW, L_UDP_DNS, L_ICMP_ECHO, L_ICMP_TS, L_ICMP_MASK, L_ICMP6_ECHO, L_ICMP_ERR };
static const char* l4name[] = {"tcp", "udp-raw", "udp-dns", "icmp-echo", "icmp-ts", "icmp-mask", "icmpv6-echo", "icmp-error"};

// shadow of the request (everything the monitor knows; the libtins object is built from it)
struct Req {
    int root = 0;                 // 0 EthernetII, 1 Dot1Q, 2 network layer
    int nvlan = 0; u16 vid[2] = {0, 0};
    u8 esrc[6], edst[6];
    bool v6 = false; u8 src[16], dst[16];
    int l4 = L_TCP; u16 sport = 0, dport = 0, id = 0, seq = 0, dnsid = 0;
    int optw = 0;                 // IPv4 options of the request, in 32-bit words
    int rext = 0;                 // IPv6 extension headers carried by the request itself
    Bytes payload; bool tcp_dns = false; bool ser_first = false; bool cacher = false;
    size_t alen() const { return v6 ? 16 : 4; }
};
// description of one packet on the wire (what the encoder needs)
struct Rep {
    int root = 0, nvlan = 0; u16 vid[2] = {0, 0}; u8 pcp[2] = {0, 0}, cfi[2] = {0, 0};
    u8 esrc[6], edst[6];
    bool v6 = false; u8 src[16], dst[16];
    u8 tos = 0, ttl = 64; u16 ipid = 0, frag = 0; u32 flow = 0; Bytes ipopts;
    std::vector<std::pair<u8, int>> ext;     // IPv6 extension headers (type, length in 8-byte units)
    int l4 = L_TCP; u16 sport = 0, dport = 0; u32 tseq = 0, tack = 0; u8 tflags = 0x12; u16 win = 0; Bytes tcpopts;
    u8 itype = 0, icode = 0; u16 id = 0, seq = 0; u16 dnsid = 0; bool dns_min = false, dns_in_tcp = false;
    Bytes payload;
};
struct Off { int vlan = -1, ip = -1, ext0 = -1, l4 = -1; };

static Bytes enc_dns(const Rep& r) {
    Bytes d; p16(d, r.dnsid);
    if (r.dns_min) { p16(d, 0x8183); p16(d, 0); p16(d, 0); p16(d, 0); p16(d, 0); return d; }
    p16(d, 0x8180); p16(d, 1); p16(d, 1); p16(d, 0); p16(d, 0);
    static const u8 qn[] = {3, 'w', 'w', 'w', 7, 'e', 'x', 'a', 'm', 'p', 'l', 'e', 3, 'c', 'o', 'm', 0};
    pN(d, qn, sizeof qn); p16(d, 1); p16(d, 1);
    p16(d, 0xc00c); p16(d, 1); p16(d, 1); p32(d, r.tack); p16(d, 4); p32(d, r.tseq);
    return d;
}
static Bytes enc_l4(const Rep& r) {
    Bytes s; size_t ck = 0; bool pseudo = true; u8 proto = 0;
    switch (r.l4) {
        case L_TCP: { proto = 6; p16(s, r.sport); p16(s, r.dport); p32(s, r.tseq); p32(s, r.tack);
            s.push_back((u8)((5 + r.tcpopts.size() / 4) << 4)); s.push_back(r.tflags); p16(s, r.win); ck = s.size(); p16(s, 0); p16(s, 0);
            pN(s, r.tcpopts.data(), r.tcpopts.size());
            if (r.dns_in_tcp) { Bytes d = enc_dns(r); pN(s, d.data(), d.size()); } else pN(s, r.payload.data(), r.payload.size()); break; }
        case L_UDP_RAW: case L_UDP_DNS: { proto = 17; Bytes d = r.l4 == L_UDP_DNS ? enc_dns(r) : r.payload;
            p16(s, r.sport); p16(s, r.dport); p16(s, (u32)(8 + d.size())); ck = s.size(); p16(s, 0); pN(s, d.data(), d.size()); break; }
        case L_ICMP_ECHO: case L_ICMP_TS: case L_ICMP_MASK: case L_ICMP_ERR: { proto = 1; pseudo = false;
            s.push_back(r.itype); s.push_back(r.icode); ck = s.size(); p16(s, 0); p16(s, r.id); p16(s, r.seq);
            if (r.l4 == L_ICMP_TS) { p32(s, r.tseq); p32(s, r.tack); p32(s, r.tseq ^ r.tack); }
            else if (r.l4 == L_ICMP_MASK) p32(s, 0xffffff00u);
            else pN(s, r.payload.data(), r.payload.size()); break; }
        case L_ICMP6_ECHO: { proto = 58; s.push_back(r.itype); s.push_back(r.icode); ck = s.size(); p16(s, 0); p16(s, r.id); p16(s, r.seq);
            pN(s, r.payload.data(), r.payload.size()); break; }
    }
    u32 sum = 0;
    if (pseudo) { size_t al = r.v6 ? 16 : 4; sum = csum_add(sum, r.src, al); sum = csum_add(sum, r.dst, al); sum += proto; sum += (u32)(s.size() & 0xffff) + (u32)(s.size() >> 16); }
    sum = csum_add(sum, s.data(), s.size());
    u16 c = csum_fin(sum); if (proto == 17 && c == 0) c = 0xffff;
    s[ck] = (u8)(c >> 8); s[ck + 1] = (u8)c;
    return s;
}
static u8 l4proto(const Rep& r) { return r.l4 == L_TCP ? 6 : (r.l4 == L_UDP_RAW || r.l4 == L_UDP_DNS) ? 17 : r.l4 == L_ICMP6_ECHO ? 58 : 1; }

static Bytes encode(const Rep& r, Off* off = nullptr) {
    Bytes o; Off f; u16 l3type = r.v6 ? 0x86dd : 0x0800;
    if (r.root == 0) { pN(o, r.edst, 6); pN(o, r.esrc, 6); p16(o, r.nvlan == 2 ? 0x88a8 : r.nvlan == 1 ? 0x8100 : l3type); }
    if (r.root <= 1) for (int i = 0; i < r.nvlan; ++i) { if (f.vlan < 0) f.vlan = (int)o.size(); p16(o, (u32)(r.pcp[i] & 7) << 13 | (u32)(r.cfi[i] & 1) << 12 | (r.vid[i] & 0xfff)); p16(o, i + 1 < r.nvlan ? 0x8100 : l3type); }
    Bytes seg = enc_l4(r); f.ip = (int)o.size();
    if (!r.v6) {
        size_t h = o.size(); size_t hl = 20 + r.ipopts.size();
        o.push_back((u8)(0x40 | (hl / 4))); o.push_back(r.tos); p16(o, (u32)(hl + seg.size())); p16(o, r.ipid); p16(o, r.frag); o.push_back(r.ttl); o.push_back(l4proto(r)); p16(o, 0);
        pN(o, r.src, 4); pN(o, r.dst, 4); pN(o, r.ipopts.data(), r.ipopts.size());
        u16 c = csum_fin(csum_add(0, &o[h], hl)); o[h + 10] = (u8)(c >> 8); o[h + 11] = (u8)c;
    } else {
        size_t el = 0; for (auto& e : r.ext) el += (size_t)e.second * 8;
        p32(o, 0x60000000u | ((u32)r.tos << 20) | (r.flow & 0xfffff)); p16(o, (u32)(el + seg.size())); o.push_back(r.ext.empty() ? l4proto(r) : r.ext[0].first); o.push_back(r.ttl);
        pN(o, r.src, 16); pN(o, r.dst, 16);
        for (size_t i = 0; i < r.ext.size(); ++i) {
            if (f.ext0 < 0) f.ext0 = (int)o.size();
            o.push_back(i + 1 < r.ext.size() ? r.ext[i + 1].first : l4proto(r));
            if (r.ext[i].first == 44) { o.push_back(0); p16(o, 0); p32(o, r.tseq ^ 0x5a5a5a5au); }      // atomic fragment header
            else { o.push_back((u8)(r.ext[i].second - 1)); size_t pad = (size_t)r.ext[i].second * 8 - 2;
                   if (r.ext[i].first == 43) { o.push_back(253); o.push_back(0); pad -= 2; }                // routing: experimental type, 0 segments left
                   while (pad >= 2) { size_t n = pad - 2 > 255 ? 255 : pad - 2; o.push_back(1); o.push_back((u8)n); for (size_t k = 0; k < n; ++k) o.push_back(0); pad -= n + 2; }   // PadN
                   if (pad) o.push_back(0); }
        }
    }
    f.l4 = (int)o.size(); pN(o, seg.data(), seg.size());
    if (off) *off = f;
    return o;
}

// ---- text ---------------------------------------------------------------------------------------------
static std::string amac(const u8* m) { char b[24]; snprintf(b, sizeof b, "%02x:%02x:%02x:%02x:%02x:%02x", m[0], m[1], m[2], m[3], m[4], m[5]); return b; }
static std::string aip(const u8* a, bool v6) {
    char b[64];
    if (!v6) { snprintf(b, sizeof b, "%u.%u.%u.%u", a[0], a[1], a[2], a[3]); return b; }
    std::string s; for (int i = 0; i < 16; i += 2) { snprintf(b, sizeof b, "%s%x", i ? ":" : "", a[i] << 8 | a[i + 1]); s += b; } return s;
}
static std::string l2name(const Req& q) { return q.root == 2 ? "l3" : std::string(q.root == 0 ? "eth" : "dot1q") + (q.root == 0 && q.nvlan ? "-dot1q" : "") + (q.nvlan == 2 ? "x2" : ""); }
static std::string l3name(const Req& q) { return q.v6 ? "ipv6" : "ip"; }
static std::string show(const Req& q) {
    std::string s = "request " + l2name(q) + "/" + l3name(q) + "/" + l4name[q.l4];
    if (q.root == 0) s += " eth " + amac(q.esrc) + ">" + amac(q.edst);
    for (int i = 0; i < q.nvlan; ++i) s += " vlan=" + std::to_string(q.vid[i]);
    s += " " + aip(q.src, q.v6) + ">" + aip(q.dst, q.v6);
    if (q.l4 <= L_UDP_DNS) s += " ports " + std::to_string(q.sport) + ">" + std::to_string(q.dport);
    if (q.l4 == L_UDP_DNS || q.tcp_dns) s += " dnsid=" + std::to_string(q.dnsid);
    if (q.l4 >= L_ICMP_ECHO) s += " id=" + std::to_string(q.id) + " seq=" + std::to_string(q.seq);
    s += " ipopt_words=" + std::to_string(q.optw) + " own_ext=" + std::to_string(q.rext) + " payload=" + std::to_string(q.payload.size()) + (q.ser_first ? " serialized-first" : "") + (q.cacher ? " in-PDUCacher" : "");
    return s;
}

// ---- the request object (public API only) -----------------------------------------------------------------
static PDU* build_request(const Req& q) {
    std::vector<PDU*> ch;
    if (q.root == 0) ch.push_back(new EthernetII(HWAddress<6>(q.edst), HWAddress<6>(q.esrc)));
    for (int i = 0; i < q.nvlan; ++i) ch.push_back(new Dot1Q(q.vid[i]));
    if (!q.v6) { IP* ip = new IP(IPv4Address(aip(q.dst, false)), IPv4Address(aip(q.src, false))); for (int i = 0; i < q.optw * 4; ++i) ip->noop(); ip->ttl(64); ch.push_back(ip); }
    else { IPv6* ip = new IPv6(IPv6Address(q.dst), IPv6Address(q.src)); static const u8 z[22] = {1, 4, 0, 0, 0, 0};
           for (int i = 0; i < q.rext; ++i) ip->add_header(IPv6::ext_header(i == 0 ? IPv6::HOP_BY_HOP : IPv6::DESTINATION_OPTIONS, z, z + (i ? 14 : 6))); ch.push_back(ip); }
    auto raw = [&]() -> PDU* { return new RawPDU(q.payload.data(), (u32)q.payload.size()); };
    auto dns = [&]() -> PDU* { DNS* d = new DNS(); d->id(q.dnsid); d->recursion_desired(1); d->add_query(DNS::query("www.example.com", DNS::A, DNS::IN)); return d; };
    switch (q.l4) {
        case L_TCP: { TCP* t = new TCP(q.dport, q.sport); t->flags(TCP::SYN); t->seq(q.id * 65537u + q.seq); ch.push_back(t); if (q.tcp_dns) ch.push_back(dns()); else if (!q.payload.empty()) ch.push_back(raw()); break; }
        case L_UDP_RAW: ch.push_back(new UDP(q.dport, q.sport)); ch.push_back(raw()); break;
        case L_UDP_DNS: ch.push_back(new UDP(q.dport, q.sport)); ch.push_back(dns()); break;
        case L_ICMP_ECHO: case L_ICMP_TS: case L_ICMP_MASK: { ICMP* c = new ICMP(q.l4 == L_ICMP_ECHO ? ICMP::ECHO_REQUEST : q.l4 == L_ICMP_TS ? ICMP::TIMESTAMP_REQUEST : ICMP::ADDRESS_MASK_REQUEST);
            c->id(q.id); c->sequence(q.seq); ch.push_back(c); if (q.l4 == L_ICMP_ECHO && !q.payload.empty()) ch.push_back(raw()); break; }
        default: { ICMPv6* c = new ICMPv6(ICMPv6::ECHO_REQUEST); c->identifier(q.id); c->sequence(q.seq); ch.push_back(c); if (!q.payload.empty()) ch.push_back(raw()); }
    }
    for (size_t i = 0; i + 1 < ch.size(); ++i) ch[i]->inner_pdu(ch[i + 1]);
    PDU* root = ch[0];
    if (q.cacher && q.root == 0) { PDU* w = new PDUCacher<EthernetII>(*static_cast<EthernetII*>(root)); delete root; root = w; }
    return root;
}

// ---- generators ---------------------------------------------------------------------------------------------
static void gen_mac(Rng& r, u8* m, bool dst) {
    for (int i = 0; i < 6; ++i) m[i] = r.byte();
    switch (r.below(12)) { case 0: if (dst) memset(m, 0xff, 6); break; case 1: if (dst) { m[0] = 1; m[1] = 0; m[2] = 0x5e; m[3] &= 0x7f; } break; case 2: if (dst) { m[0] = 0x33; m[1] = 0x33; } break; case 3: memset(m, 0, 5); break; default: m[0] &= 0xfe; }
}
static void gen_addrs(Rng& r, Req& q) {
    size_t n = q.alen(); memset(q.src, 0, 16); memset(q.dst, 0, 16);
    auto one = [&](u8* a) {
        for (size_t i = 0; i < n; ++i) a[i] = r.byte();
        if (!q.v6) { switch (r.below(6)) { case 0: a[0] = 10; break; case 1: a[0] = 192; a[1] = 168; a[2] = 0; break; case 2: a[0] = 172; a[1] = 16; break; default: if (a[0] >= 224 || a[0] == 0 || a[0] == 127) a[0] = 100; } }
        else { switch (r.below(5)) { case 0: a[0] = 0x20; a[1] = 0x01; a[2] = 0x0d; a[3] = 0xb8; memset(a + 4, 0, 8); break; case 1: a[0] = 0xfe; a[1] = 0x80; memset(a + 2, 0, 6); break; case 2: break; default: if (a[0] == 0xff) a[0] = 0x2a; } }
    };
    one(q.src); one(q.dst);
    switch (r.below(16)) {
        case 0: memcpy(q.dst, q.src, 16); break;                                            // symmetric
        case 1: memcpy(q.dst, q.src, 16); q.dst[r.below((u32)n)] ^= (u8)(1u << r.below(8)); break;   // one bit apart
        case 2: memcpy(q.dst, q.src, 16); q.dst[n - 1] ^= 0xff; break;
        case 3: if (!q.v6) memset(q.dst, 0xff, 4); else { memset(q.dst, 0, 16); q.dst[0] = 0xff; q.dst[1] = 0x02; q.dst[15] = 1 + (u8)r.below(2); } break;   // documented exceptions
        case 4: if (!q.v6) { q.dst[0] = 224 + (u8)r.below(16); } else { q.dst[0] = 0xff; q.dst[1] = (u8)r.pick(std::vector<int>{0x05, 0x0e, 0x01, 0x12, 0x03}); } break;   // other multicast: no exception
        case 5: if (!q.v6) { q.dst[3] = 0xff; } else { if (q.dst[0] == 0xff) q.dst[0] = 0x20; q.dst[1] = 0x02; } break;    // look-alikes: subnet broadcast, xx02::
        case 6: if (!q.v6 && r.chance(1, 2)) { memset(q.src, 0, 4); if (r.chance(1, 2)) memset(q.dst, 0xff, 4); } break;   // 0.0.0.0 source (DHCP-like)
        default: break;
    }
}
static void gen_req(Rng& r, Req& q, int force_root = -1) {
    q.v6 = r.chance(2, 5);
    static const int c4[] = {L_TCP, L_TCP, L_UDP_RAW, L_UDP_RAW, L_UDP_DNS, L_UDP_DNS, L_ICMP_ECHO, L_ICMP_ECHO, L_ICMP_TS, L_ICMP_MASK};
    static const int c6[] = {L_TCP, L_UDP_RAW, L_UDP_DNS, L_ICMP6_ECHO, L_ICMP6_ECHO};
    q.l4 = q.v6 ? c6[r.below(5)] : c4[r.below(10)];
    u32 x = r.below(20); q.root = x < 13 ? 0 : x < 18 ? 2 : 1; if (force_root >= 0) q.root = force_root;
    q.nvlan = q.root == 1 ? 1 + (int)r.chance(1, 4) : q.root == 0 ? (r.chance(1, 2) ? (r.chance(1, 6) ? 2 : 1) : 0) : 0;
    for (int i = 0; i < 2; ++i) q.vid[i] = (u16)r.edgy(12);
    gen_mac(r, q.esrc, false); gen_mac(r, q.edst, true); if (r.chance(1, 24)) memcpy(q.edst, q.esrc, 6);
    gen_addrs(r, q);
    q.sport = (u16)r.edgy(16); q.dport = r.chance(1, 4) ? (u16)r.pick(std::vector<int>{53, 80, 443, 67, 0, 65535}) : (u16)r.edgy(16);
    if (r.chance(1, 16)) q.dport = q.sport; else if (r.chance(1, 16)) q.dport = (u16)(q.sport << 8 | q.sport >> 8);
    q.id = (u16)r.edgy(16); q.seq = r.chance(1, 8) ? q.id : (u16)r.edgy(16); q.dnsid = (u16)r.edgy(16);
    q.optw = (!q.v6 && r.chance(1, 5)) ? 1 + (int)r.below(10) : 0;
    q.rext = (q.v6 && r.chance(1, 6)) ? 1 + (int)r.below(2) : 0;
    q.payload.clear();
    if (q.l4 == L_UDP_RAW) q.payload = r.bytes(1 + r.below(48));
    else if ((q.l4 == L_TCP || q.l4 == L_ICMP_ECHO || q.l4 == L_ICMP6_ECHO) && r.chance(2, 3)) q.payload = r.bytes(1 + r.below(56));
    q.ser_first = r.chance(1, 2) && !(q.root == 2 && !q.v6 && !q.src[0] && !q.src[1] && !q.src[2] && !q.src[3]);   // a root IP with source 0.0.0.0 asks the routing table
    q.cacher = q.root == 0 && r.chance(1, 16); q.tcp_dns = false;
}
static u8 reply_type(int l4) { return l4 == L_ICMP_ECHO ? 0 : l4 == L_ICMP_TS ? 14 : l4 == L_ICMP_MASK ? 18 : l4 == L_ICMP6_ECHO ? 129 : 0; }
static u8 request_type(int l4) { return l4 == L_ICMP_ECHO ? 8 : l4 == L_ICMP_TS ? 13 : l4 == L_ICMP_MASK ? 17 : l4 == L_ICMP6_ECHO ? 128 : 0; }

// The mirrored reply: matched fields from the request (swapped), everything else as a responder would choose it.
static Rep mirror(const Req& q, Rng& r, bool rich = true) {
    Rep m; m.root = q.root; m.nvlan = q.nvlan; m.v6 = q.v6; m.l4 = q.l4;
    for (int i = 0; i < 2; ++i) { m.vid[i] = q.vid[i]; m.pcp[i] = (u8)r.below(8); m.cfi[i] = (u8)r.chance(1, 8); }
    memcpy(m.edst, q.esrc, 6); memcpy(m.esrc, q.edst, 6); memcpy(m.src, q.dst, 16); memcpy(m.dst, q.src, 16);
    m.tos = r.chance(1, 2) ? 0 : r.byte(); m.ttl = (u8)r.pick(std::vector<int>{64, 128, 255, 1, 57}); m.ipid = (u16)r.next(); m.frag = r.chance(1, 2) ? 0x4000 : 0; m.flow = (u32)r.next() & 0xfffff;
    m.ipopts.assign((size_t)q.optw * 4, 1); if (q.optw && r.chance(1, 2)) m.ipopts.back() = 0;
    if (q.optw >= 2 && r.chance(1, 2)) { size_t L = (size_t)q.optw * 4 - 1; m.ipopts[0] = 7; m.ipopts[1] = (u8)L; m.ipopts[2] = 4; for (size_t i = 3; i < L; ++i) m.ipopts[i] = r.byte(); m.ipopts[L] = 0; }   // record route + EOL
    if (q.v6 && rich) { u32 x = r.below(20); int n = x < 8 ? 0 : x < 15 ? 1 : x < 18 ? 2 : 3; static const int ty[] = {0, 43, 60, 44};
        for (int i = 0; i < n; ++i) { int t = i == 0 && r.chance(1, 2) ? 0 : ty[1 + r.below(3)]; m.ext.push_back({(u8)t, t == 44 ? 1 : 1 + (int)r.below(3)}); } }
    m.sport = q.dport; m.dport = q.sport; m.tseq = (u32)r.next(); m.tack = (u32)r.next(); m.tflags = (u8)r.pick(std::vector<int>{0x12, 0x14, 0x10, 0x18, 0x04}); m.win = (u16)r.next();
    if (q.l4 == L_TCP && rich && r.chance(1, 2)) { m.tcpopts.assign(4 * (1 + r.below(10)), 1); if (r.chance(1, 2)) { m.tcpopts[0] = 2; m.tcpopts[1] = 4; m.tcpopts[2] = 5; m.tcpopts[3] = 0xb4; } }
    m.itype = reply_type(q.l4); m.icode = 0; m.id = q.id; m.seq = q.seq; m.dnsid = q.dnsid; m.dns_min = r.chance(1, 6); m.dns_in_tcp = q.tcp_dns;
    if (q.l4 == L_ICMP_ECHO || q.l4 == L_ICMP6_ECHO) { if (r.chance(3, 4)) m.payload = q.payload; else m.payload = r.bytes(r.below(40)); if (r.chance(1, 4)) m.payload.resize(16 + r.below(24), 0x61); }
    else if (q.l4 == L_TCP) { if (!r.chance(1, 3)) m.payload = r.bytes(r.below(40)); }
    else if (q.l4 == L_UDP_RAW) { if (!r.chance(1, 6)) m.payload = r.bytes(1 + r.below(40)); }
    return m;
}
static u16 pert16(Rng& r, u16 v, unsigned bits = 16) {
    u16 mask = (u16)((1u << bits) - 1), n = v;
    switch (r.below(5)) { case 0: n = v ^ (u16)(1u << r.below(bits)); break; case 1: n = (v + 1) & mask; break; case 2: n = (v - 1) & mask; break;
        case 3: n = bits == 16 ? (u16)(v << 8 | v >> 8) : (u16)(v ^ 0xf00); break; default: n = (u16)r.next() & mask; }
    if (n == v) n = v ^ (u16)(1u << r.below(bits));
    return n;
}
static void pert_bytes(Rng& r, u8* a, size_t n, const u8* other) {       // result differs from the original in >= 1 bit
    u8 old[16]; memcpy(old, a, n);
    switch (r.below(5)) { case 0: a[r.below((u32)n)] ^= (u8)(1u << r.below(8)); break; case 1: a[n - 1] += 1; break; case 2: for (size_t i = 0; i < n; ++i) a[i] = r.byte(); break;
        case 3: if (other) memcpy(a, other, n); break; default: a[0] ^= 0x80; }
    if (!memcmp(old, a, n)) a[r.below((u32)n)] ^= (u8)(1u << r.below(8));
}

static std::string thrown_type;
static bool ask(const PDU& req, const Bytes& pkt, bool& threw) {
    ExactBuf eb(pkt); threw = false;
    try { return req.matches_response(eb.data(), (u32)pkt.size()); } catch (...) { threw = true; thrown_type = current_exception_type(); return false; }
}

// ---- mode "pairs" ---------------------------------------------------------------------------------------------
static bool is_zero(const u8* a, size_t n) { for (size_t i = 0; i < n; ++i) if (a[i]) return false; return true; }
static bool kf_destunreach(const Rep& p) { return !p.v6 && l4proto(p) == 1 && p.itype == 3 && enc_l4(p).size() >= 24; }   // trigger shape of the listed IPv4 finding

static void pairs_case(long idx, Rng& rng) {
    Req q; gen_req(rng, q);
    describe_case(show(q));
    std::string stack = l2name(q) + "/" + l3name(q) + "/" + l4name[q.l4];
    cnt("shape:" + stack); cnt(std::string("l4:") + l4name[q.l4]);
    { u64 h = fnv(q.src, 16); h = fnv(q.dst, 16, h); h = fnv(q.esrc, 6, h); h = mix(h, (u64)q.sport << 48 | (u64)q.dport << 32 | (u64)q.id << 16 | q.seq); if (idx < 1000000) sig(mix(h, fnv(stack) + q.dnsid + q.vid[0] * 7919u)); }
    std::unique_ptr<PDU> req(build_request(q));
    if (!q.v6 && !q.cacher) { const IP* ip = req->find_pdu<IP>(); if (!ip || ip->header_size() != 20u + 4u * q.optw) { violation("harness/ip-header-size", "request IP header size is not 20+4*words"); return; } }
    if (q.ser_first) { try { req->serialize(); cnt("br:request-serialized-first"); } catch (...) { cnt("obs:request-serialize-threw"); } }
    if (q.cacher) cnt("br:request-in-PDUCacher");
    if (q.root == 2) cnt("br:root-network-layer"); if (q.root == 1) cnt("br:root-dot1q"); if (q.nvlan == 2) cnt("br:double-tag"); if (q.optw) cnt("br:ip-options-in-request");
    bool sym = !memcmp(q.src, q.dst, 16); if (sym) cnt("br:symmetric-addresses");
    bool ex_src_any = q.v6 ? (q.dst[0] == 0xff && q.dst[1] == 0x02) : (q.dst[0] & q.dst[1] & q.dst[2] & q.dst[3]) == 0xff;   // documented: all-ones broadcast / ff02:: multicast
    bool ex_dst_any = !q.v6 && ex_src_any && is_zero(q.src, 4);
    if (ex_src_any) cnt(q.v6 ? "br:ff02-exception" : "br:broadcast-exception");

    auto positive = [&](const Rep& m, const char* what) {
        Bytes pkt = encode(m); bool threw; bool got = ask(*req, pkt, threw); cnt("pos_checks"); cnt(std::string("pos:") + l4name[q.l4]);
        if (threw) { violation("exception/mirror/" + stack, "matches_response threw " + thrown_type + " on " + what + " " + hexfull(pkt)); return false; }
        if (!got) { violation("mirror-rejected/" + stack, std::string(what) + " of the request is not recognised: " + hexfull(pkt) + " :: " + show(q)); return false; }
        return true;
    };
    auto observe = [&](const Rep& m, const std::string& name) { bool threw; bool got = ask(*req, encode(m), threw); cnt("obs:" + name + (threw ? ":threw" : got ? ":accepted" : ":rejected")); };
    auto negative = [&](const Rep& p, const std::string& field, bool must) {
        Bytes pkt = encode(p); bool threw; bool got = ask(*req, pkt, threw);
        if (!must) { cnt("obs:exception-zone:" + field + (got ? ":accepted" : ":rejected")); return; }
        cnt("neg_checks"); cnt("neg:" + field);
        if (threw) { violation("exception/stranger/" + field + "/" + l3name(q) + "/" + l4name[q.l4], "matches_response threw " + thrown_type + " on " + hexfull(pkt)); return; }
        if (got) violation("stranger-accepted/" + field + "/" + l3name(q) + "/" + l4name[q.l4], "a packet differing from the mirrored reply in " + field + " is recognised as the response: " + hexfull(pkt) + " :: " + show(q));
    };

    // 1. the mirrored reply, in three independent draws of the fields a responder is free to choose
    Rep m = mirror(q, rng);
    if (!positive(m, "mirrored reply")) return;
    if (!m.ext.empty()) cnt(m.ext.size() == 1 ? "br:ipv6-ext-1" : "br:ipv6-ext-2+");
    if (!m.tcpopts.empty() && q.l4 == L_TCP) cnt("br:tcp-options-in-reply");
    { size_t l = enc_l4(m).size(); if ((q.l4 == L_TCP && l == 20) || (q.l4 == L_UDP_DNS && l == 20) || (q.l4 == L_UDP_RAW && l == 8) || ((q.l4 == L_ICMP_ECHO || q.l4 == L_ICMP6_ECHO) && l == 8)) cnt("br:reply-ends-at-header-end"); }
    for (int i = 0; i < 2; ++i) { Rep m2 = mirror(q, rng); if (!positive(m2, "mirrored reply (other responder-chosen fields)")) return; }
    { Rep m0 = mirror(q, rng, false); m0.payload.clear(); m0.dns_min = true; if (!positive(m0, "minimal mirrored reply")) return; cnt("br:minimal-reply"); }

    // 2. every single-field perturbation of a matched field must be rejected
    u32 rounds = 2;
    for (u32 k = 0; k < rounds; ++k) {
        if (q.root == 0) { Rep p = m; pert_bytes(rng, p.edst, 6, q.edst); negative(p, "eth-dst", true); }
        if (q.root <= 1) for (int i = 0; i < q.nvlan; ++i) { Rep p = m; p.vid[i] = pert16(rng, p.vid[i], 12); negative(p, "vlan-id", true); }
        { Rep p = m; pert_bytes(rng, p.src, q.alen(), q.src); negative(p, l3name(q) + "-src", !ex_src_any); }
        { Rep p = m; pert_bytes(rng, p.dst, q.alen(), q.dst); negative(p, l3name(q) + "-dst", !ex_dst_any); }
        if (q.l4 <= L_UDP_DNS) {
            { Rep p = m; p.sport = rng.chance(1, 5) && m.dport != m.sport ? m.dport : pert16(rng, p.sport); negative(p, "src-port", true); }
            { Rep p = m; p.dport = rng.chance(1, 5) && m.dport != m.sport ? m.sport : pert16(rng, p.dport); negative(p, "dst-port", true); }
        }
        if (q.l4 == L_UDP_DNS) { Rep p = m; p.dnsid = pert16(rng, p.dnsid); negative(p, "dns-id", true); }
        if (q.l4 >= L_ICMP_ECHO) {
            std::string pre = q.l4 == L_ICMP6_ECHO ? "icmpv6" : "icmp";
            { Rep p = m; p.id = rng.chance(1, 5) && m.id != m.seq ? m.seq : pert16(rng, p.id); negative(p, pre + "-id", true); }
            { Rep p = m; p.seq = rng.chance(1, 5) && m.id != m.seq ? m.id : pert16(rng, p.seq); negative(p, pre + "-seq", true); }
            { Rep p = m; static const std::vector<int> t4 = {8, 13, 17, 0, 14, 18, 3, 3, 11, 5, 12, 4}, t6 = {128, 1, 3, 129 ^ 1, 133, 134, 135, 136, 130, 0};
              u8 t = rng.chance(1, 5) ? rng.byte() : (u8)rng.pick(q.v6 ? t6 : t4); if (t == m.itype) t = request_type(q.l4); p.itype = t;
              negative(p, kf_destunreach(p) ? pre + "-type-destunreach" : pre + "-type", true); }
        }
    }
    // 3. strangers that differ in more than one matched field
    { Rep p = m; memcpy(p.edst, q.edst, 6); memcpy(p.esrc, q.esrc, 6); memcpy(p.src, q.src, 16); memcpy(p.dst, q.dst, 16); p.sport = q.sport; p.dport = q.dport; p.itype = request_type(q.l4);
      bool differs = (q.root == 0 && memcmp(q.esrc, q.edst, 6)) || !sym || (q.l4 <= L_UDP_DNS && q.sport != q.dport) || q.l4 >= L_ICMP_ECHO;
      if (differs && !ex_src_any) negative(p, "request-echoed-back", true); }
    if (!q.v6) {      // an ICMP error from an unrelated host about an unrelated datagram
        Rep p = m; p.l4 = L_ICMP_ERR; p.ipopts.clear(); p.itype = (u8)rng.pick(std::vector<int>{3, 3, 11, 12, 4, 5}); p.icode = (u8)rng.below(4); p.id = 0; p.seq = 0;
        do { for (int i = 0; i < 4; ++i) { p.src[i] = rng.byte(); p.dst[i] = rng.byte(); } } while (!memcmp(p.src, q.dst, 4) || !memcmp(p.dst, q.src, 4) || !memcmp(p.src, q.src, 4));
        Rep other; other.root = 2; other.v6 = false; other.l4 = L_UDP_RAW; for (int i = 0; i < 4; ++i) { other.src[i] = rng.byte(); other.dst[i] = rng.byte(); } other.sport = (u16)rng.next(); other.dport = (u16)rng.next(); other.payload = rng.bytes(12);
        Bytes quoted = encode(other); quoted.resize(rng.chance(1, 4) ? 20 + rng.below(9) : 28); p.payload = quoted;
        negative(p, kf_destunreach(p) ? "unrelated-icmp-destunreach" : "unrelated-icmp-error", !ex_src_any);
    }
    // 4. observations outside the statement (never a verdict)
    if (q.root == 0) { Rep p = m; for (int i = 0; i < 6; ++i) p.esrc[i] = rng.byte(); p.esrc[0] &= 0xfe; observe(p, "eth-reply-source-differs"); }
    if (!q.v6 && rng.chance(1, 4)) { Rep p = m; p.ipopts.assign(q.optw ? 0 : 4 * (1 + rng.below(3)), 1); observe(p, "reply-ip-header-length-differs"); }
    if (ex_src_any && rng.chance(1, 2)) { Rep p = m; pert_bytes(rng, p.src, q.alen(), nullptr); p.src[0] = q.v6 ? 0x20 : 10; observe(p, "unicast-answer-to-broadcast"); }
    if (want_sample()) sample(show(q) + " mirror=" + hexfull(encode(m)));
}

// ---- mode "safety" ---------------------------------------------------------------------------------------------
struct KDesc { std::string name; PDU* (*make)(); };
static std::vector<KDesc> Ks;
template <class K> PDU* make_default(std::true_type) { return new K(); }
template <class K> PDU* make_default(std::false_type) { return nullptr; }
template <class K> struct Maker { static PDU* go() { return make_default<K>(std::integral_constant<bool, !std::is_abstract<K>::value && std::is_default_constructible<K>::value>()); } };
template <> struct Maker<RawPDU> { static PDU* go() { return new RawPDU("payload"); } };
template <> struct Maker<PPI> { static PDU* go() { static const uint8_t b[] = {0, 0, 8, 0, 105, 0, 0, 0, 0xd4, 0, 0, 0, 1, 2, 3, 4, 5, 6}; return new PPI(b, sizeof b); } };
template <class K> void add_K(const char* name, int concrete) { if (!concrete || std::is_abstract<K>::value) return; Ks.push_back({name, []() -> PDU* { return Maker<K>::go(); }}); }
static void build_tables() {
#define VF_PDU_CLASS(Q, N, CONCRETE, DEFCTOR, BUFCTOR) add_K<Q>(#N, CONCRETE);
#define VF_GEN_CLASSES
#include "gen_tins.inc"
#undef VF_GEN_CLASSES
}
enum { NT = 11, NKF = 11 };
static const char* tailname[NT] = {"-", "RawPDU", "gen-l3", "gen-dot1q", "gen-eth", "ARP", "DHCP", "UDP/DHCP", "DHCPv6", "Loopback/gen-l3", "gen-l3-tcp-dns"};

struct Subject { std::unique_ptr<PDU> obj; Bytes base; Off off; int shift = 0; bool v6 = false, structured = false, radiotap_root = false, bare_loopback = false; std::string text; std::vector<u8> first_octets; };      // first_octets: message types a reply to this subject could carry (tried as first octet of the candidate at every length)

static u64 n_calls, n_true, n_misaligned, n_deferred, n_threw;
static void probe(const PDU& o, const Bytes& content, size_t misalign) {
    Bytes blk(misalign, 0xA5); blk.insert(blk.end(), content.begin(), content.end());
    ExactBuf eb(blk); const u8* p = eb.data() + misalign;              // [p, p+len) ends exactly at the end of the heap block
    ++n_calls; if (misalign) ++n_misaligned;
    try { if (o.matches_response(p, (u32)content.size())) ++n_true; } catch (...) { ++n_threw; }
}
static void struct_mutate(Bytes& b, const Subject& s, Rng& r) {
    auto set = [&](int pos, u32 v) { if (pos >= 0 && (size_t)pos < b.size()) b[(size_t)pos] = (u8)v; };
    auto exact = [&](int e) -> u32 { long rem = (long)b.size() - e; return rem >= 8 ? (u32)(rem / 8 - 1 + (r.chance(1, 4) ? 1 : 0)) : r.below(3); };   // header ends exactly at (or 8 past) the buffer end
    int ip = s.off.ip + s.shift, l4 = s.off.l4 + s.shift, e0 = s.off.ext0 >= 0 ? s.off.ext0 + s.shift : -1, vl = s.off.vlan >= 0 ? s.off.vlan + s.shift : -1;
    static const std::vector<int> exts = {0, 43, 44, 60, 51, 135, 59};
    switch (r.below(9)) {
        case 0: if (!s.v6) set(ip, 0x40 | (6 + r.below(10))); else set(ip + 6, (u32)r.pick(exts)); break;
        case 1: if (!s.v6) set(ip, 0x40 | r.below(5)); else if (e0 >= 0) set(e0 + 1, exact(e0)); else { set(ip + 6, (u32)r.pick(exts)); set(ip + 41, exact(ip + 40)); } break;
        case 2: if (!s.v6) { set(ip + 9, 1); set(l4, 3); } else if (e0 >= 0) set(e0 + 1, (u32)r.pick(std::vector<int>{0, 1, 2, 3, 31, 255})); else { set(ip + 6, 60); set(ip + 40, (u32)r.pick(exts)); set(ip + 41, (u32)r.pick(std::vector<int>{0, 1, 2, 255})); } break;
        case 3: set(l4 + 12, r.byte()); break;                                       // TCP data offset
        case 4: set(ip + 2 + (int)r.below(4), r.byte()); break;                      // length fields
        case 5: if (vl >= 0) set(vl + (int)r.below(4), r.byte()); else set(l4 + (int)r.below(8), r.byte()); break;
        case 6: if (e0 >= 0) { set(e0, (u32)r.pick(exts)); if (r.chance(1, 2)) set(l4, (u32)r.pick(exts)); set(l4 + 1, exact(l4)); } else if (!s.v6) { set(ip, 0x40 | (6 + r.below(10))); set(ip + 9, 1); set(ip + 20, 3); } break;
        case 7: if (!s.v6) { set(ip + 9, 1); set(l4, 3); set(ip, 0x45); if (b.size() > (size_t)l4 + 8) b.resize((size_t)l4 + 8 + r.below(24)); } break;   // ICMP error whose quoted header is cut short
        default: if (!b.empty()) b[r.below((u32)b.size())] = (u8)r.edgy(8);
    }
}
static void sweep(const Subject& s, Rng& rng, size_t lo = 0, size_t hi = 128, int only_misalign = -1) {
    for (size_t len = lo; len <= hi; ++len) {
        if (s.radiotap_root && len < 4 && only_misalign < 0) { ++n_deferred; continue; }          // run by the dedicated kf= cases (listed finding)
        Bytes pre(len); for (size_t i = 0; i < len; ++i) pre[i] = i < s.base.size() ? s.base[i] : rng.byte();
        size_t mis = only_misalign >= 0 ? (size_t)only_misalign : 0;
        probe(*s.obj, Bytes(len, 0), mis);
        probe(*s.obj, rng.bytes(len), mis);
        probe(*s.obj, pre, mis);
        { Bytes m = pre; u32 k = 1 + rng.below(3); for (u32 i = 0; i < k && len; ++i) m[rng.below((u32)std::min<size_t>(len, 96))] = (u8)rng.edgy(8); probe(*s.obj, m, mis); }
        if (s.structured) { Bytes m = pre; struct_mutate(m, s, rng); probe(*s.obj, m, mis); }
        if (len && only_misalign < 0) for (u8 fo : s.first_octets) { Bytes z(len, 0); z[0] = fo; probe(*s.obj, z, 0); Bytes q2 = rng.bytes(len); q2[0] = fo; if (len > 1 && rng.chance(1, 2)) q2[1] = 0; probe(*s.obj, q2, 0); }
        if (only_misalign < 0) { if (s.bare_loopback && len >= 4) ++n_deferred; else probe(*s.obj, pre, 1 + len % 3); }   // misaligned start
    }
}
static void flush_counts() { cnt("safety_calls", n_calls); cnt("safety_true", n_true); cnt("safety_misaligned_calls", n_misaligned); cnt("safety_deferred_to_kf_cases", n_deferred); if (n_threw) cnt("obs:safety-call-threw", n_threw); n_calls = n_true = n_misaligned = n_deferred = n_threw = 0; }

static void attach_generated(Subject& s, PDU* outer, size_t outer_hs, Rng& rng, int root, bool tcp_dns) {
    Req q; gen_req(rng, q, root); q.cacher = false; if (tcp_dns) { q.l4 = L_TCP; q.tcp_dns = true; q.payload.clear(); }
    PDU* inner = build_request(q); Rep m = mirror(q, rng); Bytes mb = encode(m, &s.off);
    s.v6 = q.v6; s.structured = true; s.shift = (int)outer_hs; s.base.assign(outer_hs, 0); s.base.insert(s.base.end(), mb.begin(), mb.end());
    if (outer) { PDU* last = outer; while (last->inner_pdu()) last = last->inner_pdu(); last->inner_pdu(inner); s.obj.reset(outer); } else s.obj.reset(inner);
    s.text += " generated{" + show(q) + "}";
}
static void safety_case(long idx, Rng& rng) {
    if (idx == 0) { cnt("safety_classes_total", Ks.size()); std::string ks; for (auto& k : Ks) ks += k.name + " "; sample("classes swept (each alone and with " + std::to_string(NT - 1) + " kinds of inner chain): " + ks); }
    Subject s;
    if (idx < NKF) {       // trigger shapes of the listed findings, one per case so that the sanitizer abort costs nothing else
        if (idx < 8) { size_t len = (size_t)idx % 4; s.text = "kf=radiotap-short RadioTap" + std::string(idx >= 4 ? "/EthernetII-chain" : "") + " len=" + std::to_string(len);
            if (idx >= 4) attach_generated(s, new RadioTap(), 8, rng, 0, false); else { s.obj.reset(new RadioTap()); s.base.assign(8, 0); }
            s.radiotap_root = true; describe_case(s.text); sweep(s, rng, len, len, 0); }
        else { int mis = (int)idx - 7; s.text = "kf=loopback-unaligned Loopback (no inner layer) start misaligned by " + std::to_string(mis);
            s.obj.reset(new Loopback()); s.base.assign(8, 0); s.bare_loopback = true; describe_case(s.text); sweep(s, rng, 4, 12, mis); }
        cnt("safety_kf_cases"); flush_counts(); return;
    }
    long j = idx - NKF;
    if (j % 3 == 0) {
        long c = j / 3; const KDesc& kd = Ks[(size_t)(c % (long)Ks.size())]; int t = (int)((c / (long)Ks.size()) % NT);
        s.text = "class subject K=" + kd.name + " inner=" + tailname[t];
        PDU* k = kd.make();
        if (!k) { violation("harness/unconstructible/K=" + kd.name, "the monitor cannot construct this concrete class; add a Maker"); return; }
        // message classes whose matching rule depends on their own type: the subject gets one of the request types, the candidates the reply types
        if (ICMPv6* c6 = dynamic_cast<ICMPv6*>(k)) { static const ICMPv6::Types ts[] = {ICMPv6::ECHO_REQUEST, ICMPv6::ROUTER_SOLICIT, ICMPv6::NEIGHBOUR_SOLICIT, ICMPv6::MGM_QUERY, ICMPv6::NEIGHBOUR_ADVERT, ICMPv6::DEST_UNREACHABLE}; ICMPv6::Types ty = ts[rng.below(6)]; c6->type(ty); s.text += " type=" + std::to_string((int)ty); s.first_octets = {129, 134, 136, 131, 143, 1, 3}; cnt("safety_typed_subjects:ICMPv6"); }
        if (ICMP* c4 = dynamic_cast<ICMP*>(k)) { static const ICMP::Flags ts[] = {ICMP::ECHO_REQUEST, ICMP::TIMESTAMP_REQUEST, ICMP::ADDRESS_MASK_REQUEST, ICMP::INFO_REQUEST, ICMP::ECHO_REPLY, ICMP::DEST_UNREACHABLE}; ICMP::Flags ty = ts[rng.below(6)]; c4->type(ty); s.text += " type=" + std::to_string((int)ty); s.first_octets = {0, 14, 18, 16, 3, 11, 5}; cnt("safety_typed_subjects:ICMP"); }
        if (ARP* ar = dynamic_cast<ARP*>(k)) { ar->opcode(rng.chance(1, 2) ? ARP::REQUEST : ARP::REPLY); }
        size_t hs = k->header_size();
        s.radiotap_root = kd.name == "RadioTap"; s.bare_loopback = kd.name == "Loopback" && t == 0;
        switch (t) {
            case 0: s.obj.reset(k); s.base.assign(hs, 0); break;
            case 1: k->inner_pdu(new RawPDU("xyz")); s.obj.reset(k); s.base.assign(hs + 3, 0); break;
            case 2: attach_generated(s, k, hs, rng, 2, false); break;
            case 3: attach_generated(s, k, hs, rng, 1, false); break;
            case 4: attach_generated(s, k, hs, rng, 0, false); break;
            case 5: k->inner_pdu(new ARP()); s.obj.reset(k); s.base.assign(hs + 28, 0); break;
            case 6: k->inner_pdu(new DHCP()); s.obj.reset(k); s.base.assign(hs, 0); break;
            case 7: { UDP* u = new UDP(); u->inner_pdu(new DHCP()); k->inner_pdu(u); s.obj.reset(k); s.base.assign(hs, 0); break; }
            case 8: k->inner_pdu(new DHCPv6()); s.obj.reset(k); s.base.assign(hs + 4, 0); break;
            case 9: { k->inner_pdu(new Loopback()); attach_generated(s, k, hs + 4, rng, 2, false); break; }
            default: attach_generated(s, k, hs, rng, 2, true);
        }
        if (s.radiotap_root && s.base.size() >= 4) { s.base[2] = (u8)hs; s.base[3] = (u8)(hs >> 8); }
        describe_case(s.text); sig(std::string("K=") + kd.name + ",inner=" + tailname[t]);
        cnt("safety_class_subjects"); if (t) cnt("safety_class_subjects_with_inner");
        u64 before = n_true; sweep(s, rng); if (n_true > before) cnt("safety_class_subjects_matching_something");
    } else {
        attach_generated(s, nullptr, 0, rng, -1, rng.chance(1, 6));
        s.text = "request subject" + s.text; describe_case(s.text); sig(s.text);
        cnt("safety_request_subjects"); if (s.v6 && s.off.ext0 >= 0) cnt("safety_request_subjects_with_ipv6_ext");
        sweep(s, rng);
    }
    flush_counts();
}

int main(int argc, char** argv) {
    build_tables();
    return vf::run(argc, argv, "C14", [&](long idx, Rng& rng) {
        if (st().a.mode == "safety") safety_case(idx, rng); else pairs_case(idx, rng);
    });
}
