// C15 — header field accessors are exact inverses and do not disturb neighbouring fields.
// The (class, field) table is generated from the current headers (every void f(T) / T f() const pair, one
// representative concrete class per owner). A pair is classified dynamically: scalar header field (serialized size
// and option/extension lists unchanged by the setter) or option setter (C04's business, skipped and counted).
// Oracles for scalar fields: get(set(v)) == v; every other getter unchanged (alias groups by hand); over-wide values
// for small_uint<N> rejected; serialization diff confined to a footprint of at most width(f) bits that is disjoint
// from other fields' footprints and, for big-endian protocols, holds v MSB-first; a hand table pins the positions of
// the hand-packed fields named by the property.
#include "view_put.h"
#include <bitset>
using namespace Tins;
using namespace vf;

template <class C, class A> A vf_setter_arg(void (C::*)(A));

// ---- value model ----------------------------------------------------------------------------------------------
template <class T> struct is_small : std::false_type { enum { bits = 0 }; };
template <size_t N> struct is_small<small_uint<N>> : std::true_type { enum { bits = N }; };
template <class T> struct kind { enum { value = std::is_same<T, bool>::value ? 1 : std::is_integral<T>::value ? 2 : std::is_enum<T>::value ? 3 : is_small<T>::value ? 4
    : std::is_same<T, IPv4Address>::value ? 5 : std::is_same<T, IPv6Address>::value ? 6 : std::is_same<T, HWAddress<6>>::value ? 7 : 0 }; };

template <class T> static std::string txt(const T& v) { std::string s; put(s, v); return s; }
// numeric value of integral-like things (for the wire check); addresses go through text
template <class T> static bool num(const T& v, u64& out) {
    if constexpr (std::is_same<T, bool>::value) { out = v ? 1 : 0; return true; }
    else if constexpr (std::is_integral<T>::value) { out = (u64)(typename std::make_unsigned<T>::type)v; return true; }
    else if constexpr (std::is_enum<T>::value) { out = (u64)(typename std::make_unsigned<typename std::underlying_type<T>::type>::type)v; return true; }
    else if constexpr (is_small<T>::value) { out = (u64)(typename T::repr_type)v; return true; }
    else if constexpr (std::is_same<T, IPv4Address>::value) { uint32_t x = v; out = ((x & 0xff) << 24) | ((x & 0xff00) << 8) | ((x >> 8) & 0xff00) | (x >> 24); return true; }   // wire order value
    else { (void)v; (void)out; return false; }
}
template <class A> static unsigned width_bits() {
    if constexpr (std::is_same<A, bool>::value) return 1; else if constexpr (std::is_integral<A>::value) return sizeof(A) * 8; else if constexpr (std::is_enum<A>::value) return 8;   // enumerator values of the protocols fit one octet; larger raw values are not 'representable values of the field'
    else if constexpr (is_small<A>::value) return is_small<A>::bits; else if constexpr (std::is_same<A, IPv4Address>::value) return 32; else if constexpr (std::is_same<A, IPv6Address>::value) return 128;
    else if constexpr (std::is_same<A, HWAddress<6>>::value) return 48; else return 0;
}
template <class A> static A make_value(u64 x, Rng& r) {
    if constexpr (std::is_same<A, bool>::value) return (x & 1) != 0; else if constexpr (std::is_integral<A>::value) return (A)x; else if constexpr (std::is_enum<A>::value) return (A)(typename std::underlying_type<A>::type)x;
    else if constexpr (is_small<A>::value) return A((typename A::repr_type)(x & ((1ULL << is_small<A>::bits) - 1)));
    else if constexpr (std::is_same<A, IPv4Address>::value) return IPv4Address((uint32_t)x);
    else if constexpr (std::is_same<A, IPv6Address>::value) { uint8_t b[16]; u64 s = x; for (auto& c : b) { c = (u8)(splitmix(s)); } if ((x & 3) == 0) memset(b, (int)(x >> 2) & 1 ? 0xff : 0, 16); (void)r; return IPv6Address(b); }
    else if constexpr (std::is_same<A, HWAddress<6>>::value) { uint8_t b[6]; u64 s = x; for (auto& c : b) c = (u8)(splitmix(s)); if ((x & 3) == 0) memset(b, (int)(x >> 2) & 1 ? 0xff : 0, 6); return HWAddress<6>(b); }
    else { (void)x; (void)r; return A(); }
}

// ---- per class knowledge -----------------------------------------------------------------------------------------
static bool little_endian_class(const std::string& owner) { return owner.find("Dot11") == 0 || owner == "RadioTap" || owner == "PPI" || owner == "PKTAP" || owner == "Loopback"; }
// bytes of the standalone serialization that libtins derives (checksums / lengths): never part of a field's footprint
static std::set<size_t> derived_bytes(const std::string& cls) {
    if (cls == "IP") return {2, 3, 10, 11}; if (cls == "ICMP") return {2, 3}; if (cls == "ICMPv6") return {2, 3}; if (cls == "UDP") return {4, 5, 6, 7}; if (cls == "TCP") return {16, 17};
    if (cls == "IPv6") return {4, 5}; if (cls == "Dot3") return {12, 13}; if (cls == "PPPoE") return {4, 5}; if (cls == "RSNEAPOL" || cls == "RC4EAPOL") return {2, 3}; if (cls == "RadioTap") return {2, 3}; if (cls == "IPSecAH") return {1};
    return {};
}
// getters of fields libtins derives at serialization time (lengths, checksums, header lengths): they may change whenever serialize() runs
static const std::set<std::string>& derived_getters() {
    static const std::set<std::string> s = {"IP.tot_len", "IP.head_len", "IP.checksum", "IP.advertised_size", "IPv6.payload_length", "TCP.checksum", "TCP.data_offset", "UDP.length", "UDP.checksum", "ICMP.checksum", "ICMPv6.checksum",
        "Dot3.length", "PPPoE.payload_length", "EAPOL.length", "RC4EAPOL.length", "RSNEAPOL.length", "RSNEAPOL.wpa_length", "RadioTap.length", "IPSecAH.length", "MPLS.bottom_of_stack", "EthernetII.trailer_size", "Dot1Q.trailer_size",
        "Dot3.trailer_size", "RadioTap.trailer_size", "ICMP.trailer_size", "ICMPv6.trailer_size", "LLC.header_size"};
    return s;
}
// getters that are functions of several fields (composite views): their value follows their constituents by design
static const std::set<std::string>& computed_getters() {
    static const std::set<std::string> s = {"Dot11Data.src_addr", "Dot11Data.dst_addr", "Dot11Data.bssid_addr", "IP.is_fragmented", "RadioTap.present", "RadioTap.options_payload", "RadioTap.header_size", "RadioTap.length", "RadioTap.trailer_size",
        "RadioTap.channel_freq", "RadioTap.channel_type", "EthernetII.header_size", "IPv6.headers"};
    return s;
}
// getters that overlay the same header bits by design (unions, composite views): "other getters unchanged" is applied per group
static const std::vector<std::set<std::string>>& alias_groups() {
    static const std::vector<std::set<std::string>> g = {
        {"ICMP.id", "ICMP.sequence", "ICMP.gateway", "ICMP.mtu", "ICMP.pointer", "ICMP.length"},
        {"ICMP.original_timestamp", "ICMP.address_mask"},
        {"IP.frag_off", "IP.flags", "IP.fragment_offset"},
        {"IP.tos", "IP.dscp", "IP.ecn"}, {"IPv6.traffic_class", "IPv6.dscp", "IPv6.ecn"},
        {"TCP.flags", "TCP.get_flag"},
        {"ICMPv6.identifier", "ICMPv6.sequence", "ICMPv6.hop_limit", "ICMPv6.router_pref", "ICMPv6.home_agent", "ICMPv6.other", "ICMPv6.managed", "ICMPv6.router", "ICMPv6.solicited", "ICMPv6.override",
         "ICMPv6.router_lifetime", "ICMPv6.maximum_response_code", "ICMPv6.mtu", "ICMPv6.length", "ICMPv6.reserved", "ICMPv6.use_mldv2", "ICMPv6.multicast_address_records", "ICMPv6.sources"},
        {"DHCPv6.hop_count", "DHCPv6.transaction_id"},
        {"Dot1Q.id", "Dot1Q.priority", "Dot1Q.cfi"},
        {"RSNEAPOL.key_descriptor", "RSNEAPOL.key_t", "RSNEAPOL.key_index", "RSNEAPOL.install", "RSNEAPOL.key_ack", "RSNEAPOL.key_mic", "RSNEAPOL.secure", "RSNEAPOL.error", "RSNEAPOL.request", "RSNEAPOL.encrypted"},
        {"LLC.dsap", "LLC.group"}, {"LLC.ssap", "LLC.response"},
        {"STP.root_id", "STP.bridge_id"},
        {"BootP.chaddr", "BootP.hlen"},
    };
    return g;
}
static bool aliases(const std::string& a, const std::string& b) { for (auto& g : alias_groups()) if (g.count(a) && g.count(b)) return true; return false; }

// hand table: (owner.field) -> byte offset, bit offset from the MSB of that byte, width — RFC 791/8200/9293/768, 802.1Q, RFC 3032, RFC 7348
struct Spec { size_t byte; unsigned bit; unsigned width; };
static const std::map<std::string, Spec>& spec_table() {
    static const std::map<std::string, Spec> t = {
        {"IP.version", {0, 0, 4}}, {"IP.tos", {1, 0, 8}}, {"IP.id", {4, 0, 16}}, {"IP.ttl", {8, 0, 8}}, {"IP.protocol", {9, 0, 8}}, {"IP.src_addr", {12, 0, 32}}, {"IP.dst_addr", {16, 0, 32}}, {"IP.fragment_offset", {6, 3, 13}},
        {"IPv6.version", {0, 0, 4}}, {"IPv6.traffic_class", {0, 4, 8}}, {"IPv6.flow_label", {1, 4, 20}}, {"IPv6.next_header", {6, 0, 8}}, {"IPv6.hop_limit", {7, 0, 8}}, {"IPv6.src_addr", {8, 0, 128}}, {"IPv6.dst_addr", {24, 0, 128}},
        {"TCP.sport", {0, 0, 16}}, {"TCP.dport", {2, 0, 16}}, {"TCP.seq", {4, 0, 32}}, {"TCP.ack_seq", {8, 0, 32}}, {"TCP.window", {14, 0, 16}}, {"TCP.urg_ptr", {18, 0, 16}},
        {"UDP.sport", {0, 0, 16}}, {"UDP.dport", {2, 0, 16}},
        {"ICMP.code", {1, 0, 8}}, {"ICMP.id", {4, 0, 16}}, {"ICMP.sequence", {6, 0, 16}}, {"ICMP.mtu", {6, 0, 16}}, {"ICMP.pointer", {4, 0, 8}},
        {"ICMPv6.code", {1, 0, 8}}, {"ICMPv6.identifier", {4, 0, 16}}, {"ICMPv6.sequence", {6, 0, 16}},
        {"Dot1Q.priority", {0, 0, 3}}, {"Dot1Q.cfi", {0, 3, 1}}, {"Dot1Q.id", {0, 4, 12}}, {"Dot1Q.payload_type", {2, 0, 16}},
        {"MPLS.label", {0, 0, 20}}, {"MPLS.experimental", {2, 4, 3}}, {"MPLS.bottom_of_stack", {2, 7, 1}}, {"MPLS.ttl", {3, 0, 8}},
        {"VXLAN.vni", {4, 0, 24}}, {"EthernetII.dst_addr", {0, 0, 48}}, {"EthernetII.src_addr", {6, 0, 48}}, {"EthernetII.payload_type", {12, 0, 16}},
        {"ARP.hw_addr_format", {0, 0, 16}}, {"ARP.prot_addr_format", {2, 0, 16}}, {"ARP.hw_addr_length", {4, 0, 8}}, {"ARP.prot_addr_length", {5, 0, 8}}, {"ARP.opcode", {6, 0, 16}},
        {"ARP.sender_hw_addr", {8, 0, 48}}, {"ARP.sender_ip_addr", {14, 0, 32}}, {"ARP.target_hw_addr", {18, 0, 48}}, {"ARP.target_ip_addr", {24, 0, 32}},
        {"SNAP.org_code", {3, 0, 24}}, {"SNAP.eth_type", {6, 0, 16}}, {"SLL.packet_type", {0, 0, 16}}, {"SLL.lladdr_type", {2, 0, 16}}, {"SLL.lladdr_len", {4, 0, 16}}, {"SLL.protocol", {14, 0, 16}},
        {"PPPoE.version", {0, 0, 4}}, {"PPPoE.type", {0, 4, 4}}, {"PPPoE.code", {1, 0, 8}}, {"PPPoE.session_id", {2, 0, 16}},
        {"STP.proto_id", {0, 0, 16}}, {"STP.proto_version", {2, 0, 8}}, {"STP.bpdu_type", {3, 0, 8}}, {"STP.bpdu_flags", {4, 0, 8}}, {"STP.root_path_cost", {13, 0, 32}}, {"STP.port_id", {25, 0, 16}},
        {"DHCPv6.transaction_id", {1, 0, 24}}, {"RTP.sequence_number", {2, 0, 16}}, {"RTP.timestamp", {4, 0, 32}}, {"RTP.ssrc_id", {8, 0, 32}}, {"RTP.payload_type", {1, 1, 7}}, {"RTP.marker_bit", {1, 0, 1}},
        {"IPSecAH.spi", {4, 0, 32}}, {"IPSecAH.seq_number", {8, 0, 32}}, {"IPSecESP.spi", {0, 0, 32}}, {"IPSecESP.seq_number", {4, 0, 32}},
    };
    return t;
}
static u64 extract_be(const Bytes& y, size_t byte, unsigned bit, unsigned width) { u64 v = 0; size_t pos = byte * 8 + bit; for (unsigned i = 0; i < width && i < 64; ++i, ++pos) v = (v << 1) | ((y[pos / 8] >> (7 - pos % 8)) & 1); return v; }

// footprints learned in this case: field key -> set of bit positions
static std::map<std::string, std::set<size_t>> g_foot;

// ---- type-erased per-field operations (keeps the per-field template code tiny) -------------------------------------
struct Val { std::string text; u64 num = 0; bool numeric = false; };
struct FieldOps {
    std::string key, cls, owner; unsigned width = 0; int small_bits = 0; bool is_enum = false;
    std::function<Val(PDU&, u64, Rng&)> set;        // builds the value from x, calls the setter (may throw), returns the value set
    std::function<Val(const PDU&)> get;
    std::function<int(PDU&, u64)> overwide;          // small_uint<N> only: 1 rejected, 0 accepted
};
static std::vector<FieldOps> g_fields;
static std::map<std::string, std::function<PDU*()>> g_make;

static Bytes ser(PDU& o) { try { return o.serialize(); } catch (...) { return Bytes(); } }

static void poke_others(PDU& o, const std::string& cls, const std::string& key, Rng& r, u32 state) {
    if (IP* ip = dynamic_cast<IP*>(&o)) ip->src_addr("198.51.100.7");      // a root IP with source 0.0.0.0 would consult the OS routing table in serialize()
    if (!state) return;
    for (auto& f : g_fields) if (f.cls == cls && f.key != key && !aliases(f.key, key) && f.width && (state == 1 || r.chance(1, 2))) {
        u64 mx = f.width >= 64 ? ~0ULL : ((1ULL << f.width) - 1); u32 before = o.size(); std::unique_ptr<PDU> copy(o.clone());
        if (f.key == "IP.src_addr" && state != 1) continue;
        try { f.set(o, state == 1 ? mx : (r.next() & mx), r); } catch (...) {}
        if (o.size() != before && f.owner != "RadioTap") return;      // an option setter slipped in: stop poking (the field under test is still checked against this state)
    }
}

static void run_field(const FieldOps& f, long round, Rng& r, bool thorough) {
    const unsigned W = f.width;
    if (W == 0) { cnt("pairs_non_scalar_argument(C04)"); return; }
    std::unique_ptr<PDU> op(g_make[f.cls]()); PDU& o = *op; u32 state = (u32)(round % 3);
    // dynamic classification first: a setter that changes size() is an option setter (C04's business)
    const bool moving_layout = f.owner == "RadioTap";     // optional radiotap fields change the header size when first set: still header fields (exact layout: C11)
    if (!moving_layout) { std::unique_ptr<PDU> probe(g_make[f.cls]()); u32 s0 = probe->size(); try { f.set(*probe, 1, r); } catch (...) {} if (probe->size() != s0) { cnt("pairs_option_setter(C04)"); return; } }
    poke_others(o, f.cls, f.key, r, state);
    std::vector<u64> vals; u64 mx = W >= 64 ? ~0ULL : ((1ULL << W) - 1);
    if (W <= 8 || (thorough && W <= 11)) for (u64 v = 0; v <= mx; ++v) vals.push_back(v);      // (every value of a 16-bit field costs two views and two serializations each: 11 bits is what fits the thorough budget)
    else { const u64 bs[] = {(u64)0, (u64)1, mx, mx - 1, mx >> 1, (mx >> 1) + 1, (u64)(0x5555555555555555ULL & mx), (u64)(0xaaaaaaaaaaaaaaaaULL & mx), (u64)(0x0102030405060708ULL & mx), (u64)(0x8000000000000001ULL & mx)}; for (u64 b : bs) vals.push_back(b);
        for (unsigned i = 0; i < W && i < 64; ++i) vals.push_back(1ULL << i); for (int i = 0; i < (thorough ? 300 : 150); ++i) vals.push_back(r.next() & mx); }
    const bool le = little_endian_class(f.owner); const std::set<size_t> der = derived_bytes(f.cls); auto spec = spec_table().find(f.key);
    const std::string& key = f.key;
    for (u64 x : vals) {
        if (key == "IP.src_addr" && x == 0) continue;
        Bytes y0 = ser(o); View before; before.strict_exceptions = false; describe_layer(o, before); u32 size0 = o.size();      // view AFTER the serialization: serialize() refreshes derived fields, and getters that overlay a derived octet (ICMP id/length for the RFC 4884 types) move with it
        describe_case("field=" + key + " class=" + f.cls + " x=" + std::to_string(x) + " state=" + std::to_string(state));
        Val v;
        try { v = f.set(o, x, r); }
        catch (const exception_base&) { cnt("setter_rejected_value"); continue; }
        catch (const value_too_large&) { cnt("setter_rejected_value"); continue; }
        if (o.size() != size0 && !moving_layout) { cnt("pairs_option_setter(C04)"); return; }
        cnt("sets");
        Val g; try { g = f.get(o); } catch (const std::exception& e) { violation("getter-throws/" + key, std::string("getter threw after set: ") + e.what()); return; }
        if (g.numeric && v.numeric && g.num != v.num) { bool trunc = false; for (unsigned k = 1; k < W && !trunc; ++k) { u64 m = (1ULL << k) - 1; if (v.num > m && g.num == (v.num & m)) trunc = true; }
            if (trunc && f.is_enum) { cnt("enum_value_beyond_field_truncated(observation)"); continue; }     // raw values that are not enumerators are not 'representable values of the field'
            if (trunc) { violation("overwide-truncated/" + key, "the argument type admits " + v.text + " but the field is narrower: the value was silently truncated to " + g.text + " instead of being rejected"); return; } }
        if ((g.numeric && v.numeric) ? g.num != v.num : g.text != v.text) { violation("get-after-set/" + key, "set " + v.text + " but the getter returns " + g.text + " (state " + std::to_string(state) + ")"); return; }
        View after; after.strict_exceptions = false; describe_layer(o, after);
        for (size_t i = 0; i < before.kv.size() && i < after.kv.size(); ++i) if (before.kv[i].second != after.kv[i].second) {
            const std::string& k = before.kv[i].first; if (k == key || aliases(k, key) || k == "PDU.size" || derived_getters().count(k) || computed_getters().count(k)) continue;
            violation("neighbour-changed/" + key + "/" + k, "setting " + key + "=" + v.text + " changed " + k + ": " + before.kv[i].second.substr(0, 60) + " -> " + after.kv[i].second.substr(0, 60) + " (state " + std::to_string(state) + ")"); return; }
        Bytes y1 = ser(o);
        if (!y0.empty() && y1.size() == y0.size() && f.owner != "RadioTap") {      // RadioTap fields live in a variable layout (alignment padding moves): C11 checks that layout
            std::set<size_t>& fp = g_foot[key];
            for (size_t b = 0; b < y0.size(); ++b) if (y0[b] != y1[b] && !der.count(b)) for (int k = 0; k < 8; ++k) if ((y0[b] ^ y1[b]) & (0x80 >> k)) fp.insert(b * 8 + k);
            if (fp.size() > W) { violation("footprint-wider-than-field/" + key, "serialization bits changed by this " + std::to_string(W) + "-bit field so far: " + std::to_string(fp.size())); return; }
            if (spec != spec_table().end() && v.numeric) { const Spec& sp = spec->second; if (sp.byte * 8 + sp.bit + sp.width <= y1.size() * 8 && sp.width <= 64) { u64 wire = extract_be(y1, sp.byte, sp.bit, sp.width); u64 exp = v.num & (sp.width >= 64 ? ~0ULL : ((1ULL << sp.width) - 1));
                    if (wire != exp) { violation("wire-value/" + key, "value " + v.text + " is not found at byte " + std::to_string(sp.byte) + " bit " + std::to_string(sp.bit) + " width " + std::to_string(sp.width) + " of the serialization (found " + std::to_string(wire) + ") y=" + hex(y1, 40)); return; } cnt("spec_table_checks"); } }
            else if (!le && v.numeric && fp.size() == W && W <= 64) { u64 wire = 0; for (size_t pos : fp) wire = (wire << 1) | ((y1[pos / 8] >> (7 - pos % 8)) & 1);
                if (wire != v.num) { violation("wire-order/" + key, "the " + std::to_string(W) + " bits this field occupies do not hold " + v.text + " MSB-first (found " + std::to_string(wire) + ")"); return; } cnt("generic_order_checks"); }
        }
    }
    if (f.small_bits) {
        const u64 mxv = (1ULL << f.small_bits) - 1; const u64 ov[] = {mxv + 1, mxv + 2, mxv * 2 + 1, (mxv + 1) | 1, ~0ULL};
        for (u64 x : ov) { std::string before_txt = f.get(o).text; int res = f.overwide(o, x); if (res < 0) continue;
            if (res == 0) { violation("overwide-accepted/" + key, "value " + std::to_string(x) + " (clamped to the argument's storage type) exceeds " + std::to_string(f.small_bits) + " bits but was accepted (getter now " + f.get(o).text + ", before " + before_txt + ")"); return; } cnt("overwide_rejected"); }
    }
    sig(fnv(key) ^ (u64)state);
}

template <class T> static Val mkval(const T& v) { Val o; o.text = txt(v); o.numeric = num(v, o.num); return o; }

template <class Q, class OWNER, class A> struct Reg {
    template <class SET, class GET> static void go(const char* cls, const char* oname, const char* fname, SET set, GET get) {
        FieldOps f; f.key = std::string(oname) + "." + fname; f.cls = cls; f.owner = oname; f.width = width_bits<A>(); f.small_bits = is_small<A>::value ? (int)is_small<A>::bits : 0; f.is_enum = std::is_enum<A>::value;
        if (!g_make.count(cls)) g_make[cls] = []() -> PDU* { Q* q = new Q(); static const uint8_t pl[3] = {0xde, 0xad, 0x42}; q->inner_pdu(new RawPDU(pl, 3)); return q; };
        f.set = [set](PDU& o, u64 x, Rng& r) { A v = make_value<A>(x, r); set(static_cast<Q&>(o), v); return mkval(v); };
        f.get = [get](const PDU& o) { return mkval(get(static_cast<const Q&>(o))); };
        f.overwide = [set](PDU& o, u64 x) -> int {
            if constexpr (is_small<A>::value) { typedef typename A::repr_type R; const u64 tmax = (u64)std::numeric_limits<R>::max(); if (x > tmax) x = tmax; if (x <= ((1ULL << is_small<A>::bits) - 1)) return -1;
                try { A big((R)x); set(static_cast<Q&>(o), big); } catch (const value_too_large&) { return 1; } catch (const exception_base&) { return 1; } return 0; }
            else { (void)o; (void)x; return -1; } };
        g_fields.push_back(f);
    }
};

static void register_fields() {
#define VF_UFIELD(Q, N, F, OWNER, ON) { typedef typename std::decay<decltype(vf_setter_arg(&OWNER::F))>::type A; \
    Reg<Q, OWNER, A>::go(#N, #ON, #F, [](Q& o, const A& v) { o.F(v); }, [](const Q& o) { return o.F(); }); }
#define VF_GEN_UFIELDS
#include "gen_tins.inc"
#undef VF_GEN_UFIELDS
}

int main(int argc, char** argv) {
    register_fields();
    std::vector<std::string> classes; for (auto& f : g_fields) if (std::find(classes.begin(), classes.end(), f.cls) == classes.end()) classes.push_back(f.cls);
    return vf::run(argc, argv, "C15", [&](long idx, Rng& r) {
        if (idx == 0) { cnt("field_pairs_in_table", g_fields.size()); cnt("classes_in_table", classes.size()); }
        // one case = every field of one class in one prior-state round, so that footprints of the class can be compared
        const std::string& c = classes[(size_t)idx % classes.size()]; long round = idx / (long)classes.size();
        g_foot.clear();
        for (auto& f : g_fields) if (f.cls == c) { run_field(f, round, r, st().a.tier == "thorough"); cnt("field_runs"); }
        for (auto a = g_foot.begin(); a != g_foot.end(); ++a) for (auto b = std::next(a); b != g_foot.end(); ++b) { if (aliases(a->first, b->first)) continue;
            for (size_t pos : a->second) if (b->second.count(pos)) { violation("footprints-overlap/" + a->first + "+" + b->first, "both fields changed bit " + std::to_string(pos) + " of the serialization of " + c); break; } }
        cnt("fields_with_footprint", g_foot.size());
        if (want_sample()) { std::string sm = "class " + c + " round " + std::to_string(round) + ":"; for (auto& kv : g_foot) sm += " " + kv.first + "[" + std::to_string(kv.second.size()) + " bits from " + (kv.second.empty() ? std::string("-") : std::to_string(*kv.second.begin())) + "]"; sample(sm.substr(0, 1500)); }
    });
}
